#!/usr/bin/env python3
"""Confirms a seeded defect and records which checks catch it.
usage: seedconfirm.py <seed-id> <src-dir> <demo-dest-relpath> <race:0|1> <go-test-pkg> <run-regex>
Works in a scratch git worktree of /repo under /tmp (removed afterwards); never touches /repo's tree."""
import json, os, shutil, subprocess, sys, tempfile, time

seed_id, src, demo_dest, race, pkg, run = sys.argv[1:7]
ENV = dict(os.environ, GOFLAGS="-mod=mod", GOPROXY="off", GOSUMDB="off", GOTOOLCHAIN="local")
ENV.pop("GOWORK", None)
wt = tempfile.mkdtemp(prefix="seedwt-")
os.rmdir(wt)
res = {"seed": seed_id, "steps": []}
def sh(cmd, cwd=wt, timeout=1500):
    p = subprocess.run(cmd, cwd=cwd, env=ENV, capture_output=True, text=True, timeout=timeout)
    return p.returncode, (p.stdout + p.stderr)[-3000:]
try:
    subprocess.check_call(["git", "-C", "/repo", "worktree", "add", "-q", "--detach", wt, "HEAD"])
    demo_path = os.path.join(wt, demo_dest)
    shutil.copy(os.path.join(src, "demo_test.go"), demo_path)
    targs = ["go", "test", "-vet=off", "-count=1", "-timeout", "60s"] + (["-race"] if race == "1" else []) + ["-run", run, pkg]
    rc, out = sh(targs)
    res["demo_clean_pass"] = rc == 0
    res["steps"].append({"cmd": " ".join(targs) + " (clean tree)", "rc": rc})
    os.remove(demo_path)
    rc, out = sh(["git", "apply", os.path.join(src, "patch.diff")])
    res["patch_applies"] = rc == 0
    if rc != 0:
        res["error"] = out
        raise SystemExit
    rc, out = sh(["go", "build", "./..."])
    res["builds"] = rc == 0
    t0 = time.time()
    rc, out = sh(["go", "test", "-vet=off", "-count=1", "-timeout", "25m", "./..."])
    res["suite_passes_with_patch"] = rc == 0
    res["steps"].append({"cmd": "go test -vet=off -count=1 ./... (patched)", "rc": rc, "secs": round(time.time() - t0)})
    if rc != 0:
        res["suite_tail"] = out[-1500:]
    shutil.copy(os.path.join(src, "demo_test.go"), demo_path)
    rc, out = sh(targs)
    res["demo_patched_fails"] = rc != 0
    res["steps"].append({"cmd": " ".join(targs) + " (patched)", "rc": rc})
    os.remove(demo_path)
    # which checks catch it
    man = json.load(open("/verif/MANIFEST.json"))
    vdir = tempfile.mkdtemp(prefix="seedv-")
    shutil.copy("/verif/known_findings.json", vdir)
    caught = {}
    only = os.environ.get("SEED_ONLY_OWN")
    for c in man["checks"]:
        pid = c["property_id"]
        if only and pid != seed_id.split("-")[0]:
            continue
        p = subprocess.run(["/verif/bin/cedarcheck", "-property", pid, "-repo", wt, "-verif", vdir], capture_output=True, text=True)
        if p.returncode != 0:
            caught[pid] = [l.strip() for l in p.stdout.splitlines() if l.strip().startswith(("VIOLATION ", "UNDECIDED "))][:6]
    shutil.rmtree(vdir, ignore_errors=True)
    res["caught_by"] = caught
finally:
    subprocess.run(["git", "-C", "/repo", "worktree", "remove", "--force", wt], capture_output=True)
    shutil.rmtree(wt, ignore_errors=True)
ok = res.get("demo_clean_pass") and res.get("builds") and res.get("suite_passes_with_patch") and res.get("demo_patched_fails")
res["confirmed"] = bool(ok)
os.makedirs("/tmp/seedres", exist_ok=True)
json.dump(res, open(f"/tmp/seedres/{seed_id}.json", "w"), indent=1)
print(seed_id, "confirmed" if ok else "NOT-CONFIRMED", "caught_by=", list(res.get("caught_by", {}).keys()))
