#!/bin/bash
# Development aid: seedround.sh <Pid> <n>... — confirm (seedconfirm.py) and store (seedstore.py) the deliverables a
# seeding sub-agent left in /tmp/seedout/<Pid>/<n>/.
pid=$1; shift
for n in "$@"; do
  d=/tmp/seedout/$pid/$n
  [ -f $d/meta.json ] || { echo "$pid-$n: no deliverable"; continue; }
  read dest pkg run race < <(python3 -c "
import json,sys
m=json.load(open('$d/meta.json'))
print(m['demo_dest'], m['demo_pkg'], m['demo_run'], 1 if m.get('race') else 0)")
  python3 /verif/tools/seedconfirm.py $pid-$n $d $dest $race $pkg "$run" && \
  python3 -c "
import json,sys
r=json.load(open('/tmp/seedres/$pid-$n.json'))
sys.exit(0 if r['confirmed'] else 1)" && python3 /verif/tools/seedstore.py $pid-$n $d
done
