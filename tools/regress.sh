#!/bin/bash
# Development aid: all registered checks on the unchanged tree must pass, all self-test catalogues must hold.
cd /verif/checker && env -u GOWORK GOFLAGS=-mod=mod GOPROXY=off GOSUMDB=off GOTOOLCHAIN=local go build -o /verif/bin/cedarcheck . || exit 1
cd /verif
fail=0
for id in $(python3 -c "import json;print(' '.join(c['property_id'] for c in json.load(open('MANIFEST.json'))['checks']))"); do
  out=$(bin/cedarcheck -property $id 2>&1); rc=$?
  echo "$out" | grep "^property=" 
  if [ $rc -ne 0 ]; then echo "$out" | grep "VIOLATION\|UNDECIDED" | head -5; fail=1; fi
done
python3 tools/selftest.py | grep -v "^ok" || true
exit $fail
