#!/usr/bin/env python3
"""Store a confirmed seeded defect: seedstore.py <seed-id> <agent-out-dir> (reads /tmp/seedres/<id>.json)."""
import json, os, shutil, sys
sid, src = sys.argv[1], sys.argv[2]
res = json.load(open(f"/tmp/seedres/{sid}.json"))
assert res["confirmed"], sid
am = json.load(open(os.path.join(src, "meta.json")))
dst = f"/verif/seeded/{sid}"
os.makedirs(dst, exist_ok=True)
shutil.copy(os.path.join(src, "patch.diff"), os.path.join(dst, "patch.diff"))
shutil.copy(os.path.join(src, "demo_test.go"), os.path.join(dst, "demo_test.go"))
meta = {
    "property": am.get("property", sid.split("-")[0]),
    "summary": am.get("summary"),
    "needs": am.get("needs"),
    "demo": {"dest": am.get("demo_dest"), "pkg": am.get("demo_pkg"), "run": am.get("demo_run")},
    "origin": "written by an independent sub-agent that saw only the property text and a scratch worktree of the repository",
    "confirmed_by_me": {
        "demo_passes_on_clean_tree": res["demo_clean_pass"],
        "builds_with_patch": res["builds"],
        "full_suite_passes_with_patch": res["suite_passes_with_patch"],
        "demo_fails_with_patch": res["demo_patched_fails"],
        "commands": res["steps"],
    },
    "agent_ran": am.get("ran"),
}
json.dump(meta, open(os.path.join(dst, "meta.json"), "w"), indent=1)
print("stored", sid)
