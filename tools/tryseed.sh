#!/bin/bash
# Development aid: tryseed.sh <seed-id> <property>... — applies a stored seeded change to a scratch copy of /repo and runs
# the named checks on it (scratch copy under /tmp, removed afterwards).
sid=$1; shift
w=$(mktemp -d /tmp/tryseed-XXXXXX)
rsync -a --exclude .git /repo/ $w/repo/ && (cd $w/repo && patch -p1 -s -i /verif/seeded/$sid/patch.diff) || { rm -rf $w; exit 2; }
mkdir -p $w/v && cp /verif/known_findings.json $w/v/
for p in "$@"; do /verif/bin/cedarcheck -property $p -repo $w/repo -verif $w/v | grep -v "^  rule\|^KNOWN" | cut -c1-420; done
rm -rf $w
