#!/usr/bin/env python3
"""Development aid (never registered): runs every registered check against each confirmed seeded change in
/verif/seeded/*/patch.diff, applied to a scratch copy of /repo outside /repo and /verif, and records which checks fire
in /verif/seeded/DETECTION.json.  One checker process per seed (-property all), SEEDDETECT_JOBS seeds at a time.
usage: seeddetect.py [seed-id ...]"""
import json, os, shutil, subprocess, sys, tempfile, glob
from concurrent.futures import ThreadPoolExecutor
only = sys.argv[1:]
BIN = os.environ.get("CEDARCHECK_BIN", "/verif/bin/cedarcheck")
JOBS = int(os.environ.get("SEEDDETECT_JOBS", "6"))
work = tempfile.mkdtemp(prefix="seeddetect-")

def one(d):
    sid = os.path.basename(d.rstrip("/"))
    scratch = os.path.join(work, sid, "repo")
    vdir = os.path.join(work, sid, "v")
    os.makedirs(vdir)
    try:
        subprocess.check_call(["rsync", "-a", "--exclude", ".git", "--exclude", "*.tar.gz", "/repo/", scratch + "/"])
        p = subprocess.run(["patch", "-p1", "-s", "-i", os.path.join(d, "patch.diff")], cwd=scratch, capture_output=True, text=True)
        if p.returncode != 0:
            print(sid, "PATCH-FAILED", flush=True)
            return sid, {"error": "patch does not apply: " + p.stdout[-300:]}
        shutil.copy("/verif/known_findings.json", vdir)
        q = subprocess.run([BIN, "-property", "all", "-repo", scratch, "-verif", vdir], capture_output=True, text=True)
        caught, pending = {}, []
        for l in q.stdout.splitlines():
            s = l.strip()
            if s.startswith("VIOLATION property="):
                caught[s.split("property=")[1].split()[0]] = pending[:4]
                pending = []
            elif s.startswith(("VIOLATION ", "UNDECIDED ")):
                pending.append(s[:260])
        if q.returncode not in (0, 1):
            caught["_exit"] = [str(q.returncode), q.stderr[-300:]]
        print(sid, "caught_by", list(caught.keys()), flush=True)
        return sid, caught
    finally:
        shutil.rmtree(os.path.join(work, sid), ignore_errors=True)

res = {}
try:
    dirs = [d for d in sorted(glob.glob("/verif/seeded/*/")) if not only or os.path.basename(d.rstrip("/")) in only]
    with ThreadPoolExecutor(max_workers=JOBS) as ex:
        for sid, c in ex.map(one, dirs):
            res[sid] = c
finally:
    shutil.rmtree(work, ignore_errors=True)
try:
    old = json.load(open("/verif/seeded/DETECTION.json"))
except Exception:
    old = {}
old.update(res)
json.dump(dict(sorted(old.items())), open("/verif/seeded/DETECTION.json", "w"), indent=1)
