#!/usr/bin/env python3
"""Runs every registered check against each confirmed seeded defect in /verif/seeded/*/patch.diff
(applied to a scratch copy of /repo outside /repo and /verif) and prints/records which checks fire."""
import json, os, shutil, subprocess, sys, tempfile, glob
man = json.load(open("/verif/MANIFEST.json"))
ids = [c["property_id"] for c in man["checks"]]
only = sys.argv[1:]
BIN = os.environ.get("CEDARCHECK_BIN", "/verif/bin/cedarcheck")
work = tempfile.mkdtemp(prefix="seeddetect-")
res = {}
try:
    for d in sorted(glob.glob("/verif/seeded/*/")):
        sid = os.path.basename(d.rstrip("/"))
        if only and sid not in only: continue
        scratch = os.path.join(work, "repo")
        shutil.rmtree(scratch, ignore_errors=True)
        subprocess.check_call(["rsync", "-a", "--exclude", ".git", "--exclude", "*.tar.gz", "/repo/", scratch + "/"])
        p = subprocess.run(["patch", "-p1", "-s", "-i", os.path.join(d, "patch.diff")], cwd=scratch, capture_output=True, text=True)
        if p.returncode != 0:
            res[sid] = {"error": "patch does not apply: " + p.stdout[-300:]}
            print(sid, "PATCH-FAILED"); continue
        vdir = os.path.join(work, "v"); shutil.rmtree(vdir, ignore_errors=True); os.makedirs(vdir)
        shutil.copy("/verif/known_findings.json", vdir)
        caught = {}
        def run(pid):
            vd = os.path.join(vdir, pid); os.makedirs(vd, exist_ok=True)
            shutil.copy("/verif/known_findings.json", vd)
            q = subprocess.run([BIN, "-property", pid, "-repo", scratch, "-verif", vd], capture_output=True, text=True)
            return pid, q
        from concurrent.futures import ThreadPoolExecutor
        with ThreadPoolExecutor(max_workers=8) as ex:
            for pid, q in ex.map(run, ids):
                if q.returncode != 0:
                    caught[pid] = [l.strip()[:260] for l in q.stdout.splitlines() if l.strip().startswith(("VIOLATION ", "UNDECIDED "))][:4]
        res[sid] = caught
        print(sid, "caught_by", list(caught.keys()))
finally:
    shutil.rmtree(work, ignore_errors=True)
try:
    old = json.load(open("/verif/seeded/DETECTION.json"))
except Exception:
    old = {}
old.update(res)
json.dump(dict(sorted(old.items())), open("/verif/seeded/DETECTION.json", "w"), indent=1)
