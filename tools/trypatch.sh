#!/bin/bash
# Development aid: trypatch.sh <patch-file> <property>... — applies a patch to a scratch copy of /repo under /tmp and runs
# the named checks on it; the copy is removed afterwards.
pf=$1; shift
w=$(mktemp -d /tmp/trypatch-XXXXXX)
rsync -a --exclude .git /repo/ $w/repo/ && (cd $w/repo && patch -p1 -s -i $pf) || { rm -rf $w; exit 2; }
mkdir -p $w/v && cp /verif/known_findings.json $w/v/
for p in "$@"; do /verif/bin/cedarcheck -property $p -repo $w/repo -verif $w/v | grep -v "^  rule\|^KNOWN" | cut -c1-420; done
rm -rf $w
