#!/usr/bin/env python3
"""Development aid: prints the markdown detection matrix for DESIGN.md 10.5 from seeded/DETECTION.json and the
stored meta files.  With --write, replaces the block between the SEEDTABLE-BEGIN/END markers in DESIGN.md."""
import json, os, re, sys, glob
det = json.load(open("/verif/seeded/DETECTION.json"))
rows, own_hit, any_hit, blind = [], 0, 0, []
for d in sorted(glob.glob("/verif/seeded/*/")):
    sid = os.path.basename(d.rstrip("/"))
    meta = json.load(open(d + "meta.json"))
    prop = sid.split("-")[0]
    files = sorted(set(re.findall(r"^\+\+\+ b/(\S+)", open(d + "patch.diff").read(), re.M)))
    c = det.get(sid)
    if c is None:
        rows.append((sid, files, "not run", "")); continue
    def rules(lines):
        out = []
        for l in lines:
            m = re.match(r"(?:VIOLATION|UNDECIDED) \S+ (R[0-9a-z.]+[-A-Za-z0-9.]*):", l)
            if m and m.group(1) not in out: out.append(m.group(1))
        return out
    own = ", ".join(rules(c.get(prop, []))) if prop in c else ""
    others = "; ".join(f"{p}: {', '.join(rules(c[p])) or '?'}" for p in sorted(c) if p != prop and not p.startswith("_"))
    if prop in c: own_hit += 1
    if c: any_hit += 1
    else: blind.append(sid)
    rows.append((sid, files, own or ("—" if c else "**missed**"), others))
out = []
out.append(f"{len(rows)} stored changes; {own_hit} reported by the check of the property they were written against, "
           f"{any_hit} by at least one check, {len(blind)} by none ({', '.join(blind) or 'none'}).\n")
out.append("| change | files touched | own property's check: rules that fire | other checks that fire |")
out.append("|---|---|---|---|")
for sid, files, own, others in rows:
    out.append(f"| {sid} | {', '.join('`'+f+'`' for f in files)} | {own} | {others} |")
text = "\n".join(out)
if "--write" in sys.argv:
    p = "/verif/DESIGN.md"
    s = open(p).read()
    if "SEEDTABLE-BEGIN" in s:
        s = re.sub(r"<!-- SEEDTABLE-BEGIN -->.*?<!-- SEEDTABLE-END -->", lambda m: "<!-- SEEDTABLE-BEGIN -->\n" + text + "\n<!-- SEEDTABLE-END -->", s, flags=re.S)
    else:
        s = s.replace("\nSEEDTABLE\n", "\n<!-- SEEDTABLE-BEGIN -->\n" + text + "\n<!-- SEEDTABLE-END -->\n", 1)
    open(p, "w").write(s)
else:
    print(text)
