#!/bin/bash
# Development aid: build, then run every registered check's quick command on /repo (4 at a time); prints one line per check.
cd /verif/checker && env -u GOWORK GOFLAGS=-mod=mod GOPROXY=off GOSUMDB=off GOTOOLCHAIN=local go build -o /verif/bin/cedarcheck . || exit 1
cd /verif
ids=$(python3 -c "import json;print(' '.join(c['property_id'] for c in json.load(open('MANIFEST.json'))['checks']))")
fail=0
printf '%s\n' $ids | xargs -P 4 -I{} sh -c 'bin/cedarcheck -property {} > /tmp/quick_{}.out 2>&1; echo $? > /tmp/quick_{}.rc'
for id in $ids; do
  rc=$(cat /tmp/quick_$id.rc)
  grep "^property=" /tmp/quick_$id.out
  if [ "$rc" != "0" ]; then grep "VIOLATION\|UNDECIDED" /tmp/quick_$id.out | head -5 | cut -c1-300; fail=1; fi
done
exit $fail
