#!/usr/bin/env python3
"""Development self-test (not a registered check): applies each catalogued edit to a scratch copy
of /repo (outside /repo and /verif), runs the affected property check against the copy, and
expects it to fire (kind=break) or stay silent (kind=preserve). The scratch copy is removed at
the end.  Usage: selftest.py [-k substring] [catalog.json ...]"""
import json, os, shutil, subprocess, sys, tempfile, glob

VERIF = os.environ.get("VERIF_DIR", "/verif")
REPO = os.environ.get("CEDAR_REPO", "/repo")
BIN = os.environ.get("CEDARCHECK_BIN", os.path.join(VERIF, "bin", "cedarcheck"))

def main():
    args = sys.argv[1:]
    filt = None
    if args and args[0] == "-k":
        filt = args[1]; args = args[2:]
    cats = args or sorted(glob.glob(os.path.join(VERIF, "selftest", "*.json")))
    work = tempfile.mkdtemp(prefix="cedar-selftest-")
    scratch = os.path.join(work, "repo")
    ev = os.path.join(work, "verif")
    os.makedirs(ev)
    shutil.copy(os.path.join(VERIF, "known_findings.json"), ev) if os.path.exists(os.path.join(VERIF, "known_findings.json")) else None
    subprocess.check_call(["rsync", "-a", "--exclude", ".git", "--exclude", "*.tar.gz", REPO + "/", scratch + "/"])
    bad = 0; n = 0
    try:
        for cat in cats:
            for m in json.load(open(cat)):
                if filt and filt not in m["id"]:
                    continue
                n += 1
                saved = {}
                ok_apply = True
                for e in m["edits"]:
                    path = os.path.join(scratch, e["file"])
                    src = open(path).read()
                    saved.setdefault(path, src)
                    cur = open(path).read()
                    if cur.count(e["old"]) != e.get("count", 1):
                        print(f"!! {m['id']}: pattern occurs {cur.count(e['old'])} times in {e['file']} (want {e.get('count',1)})")
                        ok_apply = False
                        break
                    open(path, "w").write(cur.replace(e["old"], e["new"]))
                if ok_apply:
                    props = m["property"] if isinstance(m["property"], list) else [m["property"]]
                    fired = False; out_all = ""
                    for prop in props:
                        pr = subprocess.run([BIN, "-property", prop, "-repo", scratch, "-verif", ev], capture_output=True, text=True)
                        out_all += pr.stdout + pr.stderr
                        if pr.returncode != 0:
                            fired = True
                    want = m["kind"] == "break"
                    named = True
                    if want and m.get("expect"):
                        named = m["expect"] in out_all
                    status = "ok" if (fired == want and named) else "FAIL"
                    if "load" in out_all and "type-check/load errors" in out_all:
                        status = "FAIL(does not compile)"
                    if status != "ok":
                        bad += 1
                        print(f"{status} {m['id']} kind={m['kind']} fired={fired} named={named}")
                        print("   " + "\n   ".join([l for l in out_all.splitlines() if "VIOLATION" in l or "UNDECIDED" in l][:8]))
                    else:
                        print(f"ok   {m['id']} kind={m['kind']} fired={fired}")
                else:
                    bad += 1
                for path, src in saved.items():
                    open(path, "w").write(src)
    finally:
        shutil.rmtree(work, ignore_errors=True)
    print(f"{n} cases, {bad} failures")
    sys.exit(1 if bad else 0)

main()
