#!/usr/bin/env python3
"""Regenerates /verif/MANIFEST.json from tools/manifest_src.json (claimed checks + N/A reasons)."""
import json, os
V = "/verif"
src = json.load(open(os.path.join(V, "tools", "manifest_src.json")))
props = [json.loads(l) for l in open(os.path.join(V, "properties.jsonl"))]
ids = [p["id"] for p in props]
checks = []
na = []
for pid in ids:
    c = src["checks"].get(pid)
    if c:
        checks.append({
            "property_id": pid,
            "quick_cmd": f"bin/cedarcheck -property {pid} -tier quick",
            "thorough_cmd": f"bin/cedarcheck -property {pid} -tier thorough",
            "evidence_file": f"evidence/{pid}.json",
            "replay_cmd_template": f"cat {{path}}; bin/cedarcheck -property {pid} -tier quick",
            "engine": "cedarcheck",
            "level_claimed": {"category": "other", "text": c["text"], "design_ref": c.get("design_ref", f"DESIGN.md section 5, {pid}")},
            "level_note": c["note"],
            "technique": c["technique"],
        })
    else:
        na.append({"property_id": pid, "reason": src["not_applicable"].get(pid, "no sound structural rule implemented for this property; see DESIGN.md")})
m = {
    "version": 1,
    "setup_cmd": "cd /verif/checker && env -u GOWORK GOFLAGS=-mod=mod GOPROXY=off GOSUMDB=off GOTOOLCHAIN=local go build -o /verif/bin/cedarcheck .",
    "hooks": {"guard": "verif", "enable": "none needed: static analysis reads the working tree; no hooks are compiled into /repo",
              "baseline_off_cmd": "cd /repo && go test -mod=mod -vet=off -count=1 -timeout 25m ./...",
              "source_commits": [], "add_only": True},
    "engines": [{"name": "cedarcheck", "path": "checker/", "serves_properties": [c["property_id"] for c in checks],
                 "kind_free_text": "repository-specific static analyser: go/packages + go/types + go/ssa + VTA call graph; sum-type exhaustiveness, sibling-table agreement, SSA path rules, error discipline, mod-ref/ownership, map-order taint, recursion classes, arithmetic obligations"}],
    "checks": checks,
    "not_applicable": na,
    "notes": src.get("notes", ""),
}
json.dump(m, open(os.path.join(V, "MANIFEST.json"), "w"), indent=1)
print("checks:", [c["property_id"] for c in checks], "n/a:", [n["property_id"] for n in na])
