package main

import (
	"sort"
	"strings"

	"golang.org/x/tools/go/ssa"
)

// jsonEmittersQuoteAsJSON — shared by C09 (R9.7), C13 (R13.14) and C20 (R20.9). A hand-written JSON emitter (a MarshalJSON
// method, or a helper it calls to produce bytes) must take string escaping from encoding/json. Go's own quoting
// (strconv.Quote*, strconv.AppendQuote*, the %q verb) is a different language: \a \v \xNN \UNNNNNNNN are not JSON, so a
// key or string with a control character, DEL or an unprintable rune is emitted as text that no JSON reader accepts and
// the encoder's own output cannot be decoded again. Display methods (String, Error, GoString) and Cedar-text emitters
// reached from a JSON emitter are not scanned: their result is data that is then encoded, not JSON text.
func jsonEmittersQuoteAsJSON(p *Prog, r *Report, rule string, floor int) {
	var roots []*ssa.Function
	for _, fn := range p.Funcs {
		if fn.Parent() != nil || testSupportPkgs[fnPkgPath(fn)] || len(fn.Blocks) == 0 {
			continue
		}
		if fnBase(fn) == "MarshalJSON" {
			roots = append(roots, fn)
		}
	}
	if len(roots) < floor {
		r.Anchor(rule, "MarshalJSON emitters (found "+itoa(len(roots))+", expected at least "+itoa(floor)+")")
		return
	}
	skip := map[string]bool{"String": true, "Error": true, "GoString": true, "MarshalCedar": true, "marshalCedar": true, "MarshalJSON": true}
	seen := map[*ssa.Function]bool{}
	var st []*ssa.Function
	st = append(st, roots...)
	for len(st) > 0 {
		f := st[len(st)-1]
		st = st[:len(st)-1]
		if seen[f] {
			continue
		}
		seen[f] = true
		for _, cl := range callsIn(f) {
			g := cl.Common().StaticCallee()
			if g == nil || !p.inRepo(g) || seen[g] || len(g.Blocks) == 0 || skip[fnBase(g)] {
				continue
			}
			st = append(st, g)
		}
		for _, an := range f.AnonFuncs {
			st = append(st, an)
		}
	}
	var fns []*ssa.Function
	for f := range seen {
		fns = append(fns, f)
	}
	sort.Slice(fns, func(i, j int) bool { return fns[i].String() < fns[j].String() })
	bad := 0
	for _, fn := range fns {
		for _, cl := range callsIn(fn) {
			f := cl.Common().StaticCallee()
			if f == nil {
				continue
			}
			what := ""
			switch fnPkgPath(f) {
			case "strconv":
				if strings.HasPrefix(f.Name(), "Quote") || strings.HasPrefix(f.Name(), "AppendQuote") {
					what = "strconv." + f.Name()
				}
			case "fmt":
				for _, a := range cl.Common().Args {
					if s, ok := constString(a); ok && (strings.Contains(s, "%q") || strings.Contains(s, "%+q") || strings.Contains(s, "%#q")) {
						what = "the fmt verb in " + s
					}
				}
			}
			if what != "" {
				bad++
				r.Viol(rule, fnQual(fn)+":go-quoting", p.pos(cl.Pos()), fnQual(fn)+" produces JSON text and quotes with "+what+": Go's escapes (\\a \\v \\xNN \\UNNNNNNNN) are not JSON, so a key or string containing a control character, DEL or an unprintable rune is emitted as text that cannot be decoded again")
			}
		}
	}
	if bad == 0 {
		r.OK(rule, "json-emitters", "-", itoa(len(roots))+" MarshalJSON emitters and "+itoa(len(fns)-len(roots))+" byte-producing helpers take string escaping from encoding/json (no Go-style quoting)")
	}
}

// R13.15 — a JSON decoder does not look for member names in the raw bytes. `"__extn"`, `"__extn"` and `"__extn"`
// are the same key to encoding/json, which compares *decoded* names (and folds case); a decoder that first asks
// bytes.Contains(b, `"__extn"`) — to skip a trial decode, say — answers differently for spellings of one document, and a
// value changes its kind (decimal → record) depending on how its key was escaped. Any substring/prefix/index test of
// input against a constant that contains a double quote, in what the module's UnmarshalJSON methods reach, is reported.
func jsonDecodersCompareDecodedNames(p *Prog, r *Report, rule string, floor int) {
	var roots []*ssa.Function
	for _, fn := range p.Funcs {
		if fn.Parent() != nil || testSupportPkgs[fnPkgPath(fn)] || len(fn.Blocks) == 0 {
			continue
		}
		if n := fnBase(fn); strings.HasPrefix(strings.ToLower(n), "unmarshal") && strings.Contains(n, "JSON") {
			roots = append(roots, fn)
		}
	}
	if len(roots) < floor {
		r.Anchor(rule, "JSON decoders (found "+itoa(len(roots))+", expected at least "+itoa(floor)+")")
		return
	}
	test := map[string]bool{"Contains": true, "Index": true, "HasPrefix": true, "HasSuffix": true, "LastIndex": true, "Count": true, "Cut": true, "Equal": true, "EqualFold": true}
	bad := 0
	var fns []*ssa.Function
	for f := range reachFrom(p, roots) {
		fns = append(fns, withAnon(f)...)
	}
	sort.Slice(fns, func(i, j int) bool { return fns[i].String() < fns[j].String() })
	seen := map[*ssa.Function]bool{}
	for _, fn := range fns {
		if seen[fn] {
			continue
		}
		seen[fn] = true
		for _, cl := range callsIn(fn) {
			h := cl.Common().StaticCallee()
			if h == nil || (fnPkgPath(h) != "bytes" && fnPkgPath(h) != "strings") || !test[h.Name()] {
				continue
			}
			for _, a := range cl.Common().Args {
				s, ok := constString(a)
				if !ok {
					if sl, isConv := a.(*ssa.Convert); isConv {
						s, ok = constString(sl.X)
					}
				}
				if !ok {
					// a package-level variable initialised from a constant: var key = []byte(`"__extn"`)
					if ld, isLd := a.(*ssa.UnOp); isLd {
						if g, isG := ld.X.(*ssa.Global); isG && g.Pkg != nil {
							if init := g.Pkg.Func("init"); init != nil {
								forEachInstr(init, func(in ssa.Instruction) {
									if st, isSt := in.(*ssa.Store); isSt && st.Addr == ssa.Value(g) {
										v := st.Val
										if cv, isCv := v.(*ssa.Convert); isCv {
											v = cv.X
										}
										if t, isStr := constString(v); isStr {
											s, ok = t, true
										}
									}
								})
							}
						}
					}
				}
				if ok && strings.Contains(s, "\"") && len(s) > 2 {
					bad++
					r.Viol(rule, fnQual(fn)+":raw-key-test", p.pos(cl.Pos()), fnShort(fn)+" tests the raw JSON input with "+fnPkgPath(h)+"."+h.Name()+" against the quoted text "+s+": JSON allows the same name to be written with \\uXXXX escapes (and encoding/json also folds case), so the test answers differently for spellings of one document and the value decodes to a different kind")
				}
			}
		}
	}
	if bad == 0 {
		r.OK(rule, "json-decoders", "-", itoa(len(roots))+" JSON decoders and "+itoa(len(seen))+" functions they reach never look for a quoted member name in the raw input")
	}
}
