package main

import (
	"flag"
	"fmt"
	"os"
	"runtime/pprof"
	"sort"
	"time"
)

// A property check: rules run against one loaded configuration of the program.
type propCheck struct {
	ID          string
	Explanation string
	Assumptions []string
	Run         func(p *Prog, r *Report)
}

var registry = map[string]*propCheck{}

func register(pc *propCheck) { registry[pc.ID] = pc }

var commonAssumptions = []string{
	"Go type checker, go/ssa construction (x/tools v0.29.0) and the VTA call graph are sound for this non-reflective code",
	"the repository uses no reflect/unsafe/cgo/linkname outside test support packages (asserted on every run)",
	"structural necessary conditions are decided; the behavioural property as a whole is not proved",
}

func main() {
	prop := flag.String("property", "", "property id (C01..C20) or 'all'")
	tier := flag.String("tier", "quick", "quick|thorough")
	repo := flag.String("repo", envOr("CEDAR_REPO", "/repo"), "repository working tree to analyse")
	verif := flag.String("verif", envOr("VERIF_DIR", "/verif"), "verif directory (evidence, known findings)")
	list := flag.Bool("list", false, "list properties")
	flag.Parse()
	if pf := os.Getenv("CEDARCHECK_PROF"); pf != "" {
		if f, err := os.Create(pf); err == nil {
			_ = pprof.StartCPUProfile(f)
			go func() {
				time.Sleep(60 * time.Second)
				pprof.StopCPUProfile()
				os.Exit(3)
			}()
		}
	}
	if *list {
		var ids []string
		for id := range registry {
			ids = append(ids, id)
		}
		sort.Strings(ids)
		for _, id := range ids {
			fmt.Println(id)
		}
		return
	}
	if t := os.Getenv("VERIF_TIER"); t != "" && !flagSet("tier") {
		*tier = t
	}
	var ids []string
	if *prop == "all" {
		for id := range registry {
			ids = append(ids, id)
		}
		sort.Strings(ids)
	} else {
		if registry[*prop] == nil {
			fmt.Printf("unknown property %q\n", *prop)
			os.Exit(2)
		}
		ids = []string{*prop}
	}
	archs := []string{"amd64"}
	if *tier == "thorough" {
		archs = []string{"amd64", "386"}
	}
	exit := 0
	type loaded struct {
		p   *Prog
		err error
	}
	progs := map[string]loaded{}
	for _, a := range archs {
		p, err := loadProg(*repo, a)
		progs[a] = loaded{p, err}
	}
	for _, id := range ids {
		t0 := time.Now()
		pc := registry[id]
		r := newReport(id, *tier)
		var first *Prog
		var configs []string
		for _, a := range archs {
			l := progs[a]
			cfgName := "linux/" + a + " callgraph=VTA(CHA-seeded) ssa=InstantiateGenerics"
			configs = append(configs, cfgName)
			if l.err != nil {
				r.Undec("load", "load:"+a, "-", l.err.Error())
				continue
			}
			if first == nil {
				first = l.p
			}
			runGuarded(pc, l.p, r)
		}
		if first != nil {
			checkNoReflect(first, r)
		}
		code := r.finish(*verif, first, configs, time.Since(t0).Seconds()+loadTime(first), pc.Explanation, append(append([]string{}, commonAssumptions...), pc.Assumptions...))
		if code > exit {
			exit = code
		}
	}
	pprof.StopCPUProfile()
	os.Exit(exit)
}

func loadTime(p *Prog) float64 {
	if p == nil {
		return 0
	}
	return p.LoadS
}

// runGuarded converts a panic inside a rule into an undecided obligation (a crashed rule must
// never read as a pass).
func runGuarded(pc *propCheck, p *Prog, r *Report) {
	defer func() {
		if e := recover(); e != nil {
			r.Undec("checker-panic", pc.ID, "-", fmt.Sprintf("rule crashed: %v", e))
			if os.Getenv("CEDARCHECK_DEBUG") != "" {
				panic(e)
			}
		}
	}()
	pc.Run(p, r)
}

func envOr(k, d string) string {
	if v := os.Getenv(k); v != "" {
		return v
	}
	return d
}

func flagSet(name string) bool {
	set := false
	flag.Visit(func(f *flag.Flag) {
		if f.Name == name {
			set = true
		}
	})
	return set
}

// checkNoReflect asserts the trusted-base assumption that analysed packages do not import
// reflect/unsafe (test support packages excepted).
func checkNoReflect(p *Prog, r *Report) {
	for _, pk := range p.All {
		if testSupportPkgs[pk.PkgPath] {
			continue
		}
		for imp := range pk.Imports {
			if imp == "reflect" || imp == "unsafe" || imp == "C" {
				r.Undec("trusted-base", pk.PkgPath, "-", "package imports "+imp+"; the analyses do not model it")
			}
		}
	}
}
