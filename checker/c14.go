package main

// C14 — results are deterministic functions of their inputs.

import (
	"fmt"
	"go/ast"
	"go/constant"
	"go/token"
	"go/types"
	"os"
	"sort"
	"strings"

	"golang.org/x/tools/go/ssa"
)

func init() {
	register(&propCheck{
		ID: "C14",
		Explanation: "Iteration-order analysis (E6): every loop whose order is not fixed by its input (range over a map, over an iterator derived from one — resolved through the " +
			"call graph and a fixed point over iterator-returning functions — or over a slice collected from one and not yet sorted) in every function reachable from the authorizers, " +
			"encoders and decoders is enumerated and its body's effects are classified: order-free (insert keyed by the element, set insertion, delete, integer accumulation, " +
			"uniform-constant exits/flags, pass-through to a consumer, append followed by a sort that dominates every later use) or order-sensitive (first-match return of an " +
			"element-dependent value, ordered output, append without a sort, last-writer assignment, a branch decided by what earlier iterations accumulated). R14.1: no order-sensitive effect reaches an output; R14.2: each encoder's " +
			"sort dominates its writes; R14.3: no formatted message embeds a pointer-like operand (heap address). Residual loops carry a per-function, per-effect justification " +
			"frozen in the checker; anything unrecognised is undecided and fails. R14.4: comparators handed to sorts are lexicographic chains of symmetric comparisons with lexicographic discipline and without ambiguous concatenations; an unordered loop with two different early outcomes is order-sensitive.",
		Assumptions: []string{"comparison functions passed to sorts are judged by shape (R14.4: lexicographic chain of symmetric comparisons, no ambiguous concatenations), not proved total", "errors returned by encoders/decoders are not outputs in the sense of the property"},
		Run:         runC14,
	})
}

// residual effects accepted with a reason, keyed by function and effect signature
var c14Allow = map[string]map[string]string{}

// tabled reasons that presuppose a loop without early exit
var c14AllowNeedsFullLoop = map[string]bool{}

func allow14(fn, sig, why string) {
	if c14Allow[fn] == nil {
		c14Allow[fn] = map[string]string{}
	}
	c14Allow[fn][sig] = why
}

func init() {
	// the authorizer loops: reasons and errors are compared as sets by the property; the structure of the
	// appends (one per policy, own id/position/message) is decided by C02
	allow14("cedar-go.Authorize$1", "store:append[diag.Errors]", "diagnostic errors are a set (C02 checks each entry)")
	allow14("cedar-go.Authorize$1", "store:append[forbids]", "reasons are a set (C02)")
	allow14("cedar-go.Authorize$1", "store:append[permits]", "reasons are a set (C02)")
	allow14("batch.isAuthorized", "store:append[diag.Errors]", "diagnostic errors are a set (C02)")
	allow14("batch.isAuthorized", "carried:append[variable forbids]", "reasons are a set (C02)")
	allow14("batch.isAuthorized", "carried:append[variable permits]", "reasons are a set (C02)")
	// work-list searches: the work list is local and the search result is a uniform constant
	allow14("eval.entityInOne$1", "store:append[todo]", "monotone work-list search: the order of the local work list affects only the visiting order, every exit is a constant")
	allow14("eval.entityInSet$1", "store:append[todo]", "monotone work-list search (as entityInOne)")
	// … which holds only while the loop over the parents visits all of them: the reason is void if that loop can end early
	c14AllowNeedsFullLoop["eval.entityInOne$1"] = true
	c14AllowNeedsFullLoop["eval.entityInSet$1"] = true
	// batch: variables are sorted right after being collected
	allow14("batch.Authorize", "store:assign-elem[be.Variables]", "be.Variables = append(be.Variables, ...) collected from the map and sorted by slices.SortFunc immediately afterwards; ties (equal value-list lengths) only permute the enumeration order of the Cartesian product, which the property does not fix")
	allow14("batch.Authorize$1", "store:assign-elem[]", "error for an unbound variable: API misuse, which variable is named is not an output of the property")
	allow14("batch.cloneSub$1", "store:assign-elem[newMap]", "lazily allocated copy `newMap = t.Map()`: the same value whichever iteration allocates it")
}

// singleEntryLoop: the loop ranges over a map that a dominating test showed to have exactly one entry (`if len(m) != 1 {
// return … }`), so there is only one order. (This was a tabled reason until a seeded change weakened the test to
// `len(m) == 0` and the table kept vouching for it.)
func singleEntryLoop(l *ordLoop) bool {
	if l.header == nil || l.srcVal == nil {
		return false
	}
	for _, g := range guardsAt(l.header) {
		fg := flattenGuard(g)
		bo, ok := fg.Cond.(*ssa.BinOp)
		if !ok {
			continue
		}
		eq := bo.Op == token.EQL && fg.Pol || bo.Op == token.NEQ && !fg.Pol
		if !eq {
			continue
		}
		for _, xy := range [][2]ssa.Value{{bo.X, bo.Y}, {bo.Y, bo.X}} {
			c, ok := xy[0].(*ssa.Call)
			if !ok || !isBuiltin(&c.Call, "len") || c.Call.Args[0] != l.srcVal {
				continue
			}
			if k, isK := constInt(xy[1]); isK && k == 1 {
				return true
			}
		}
	}
	return false
}

type reachSets struct {
	auth, enc, dec map[*ssa.Function]bool
}

func (p *Prog) reachFrom(roots []*ssa.Function) map[*ssa.Function]bool {
	cg := p.CG()
	seen := map[*ssa.Function]bool{}
	var st []*ssa.Function
	st = append(st, roots...)
	for len(st) > 0 {
		f := st[len(st)-1]
		st = st[:len(st)-1]
		if f == nil || seen[f] {
			continue
		}
		seen[f] = true
		// nested closures run as part of their parent
		st = append(st, f.AnonFuncs...)
		if n := cg.Nodes[f]; n != nil {
			for _, e := range n.Out {
				if e.Callee != nil && e.Callee.Func != nil && (p.inRepo(e.Callee.Func)) {
					st = append(st, e.Callee.Func)
				}
			}
		}
	}
	return seen
}

func (p *Prog) c14Reach() *reachSets {
	var auth, enc, dec []*ssa.Function
	for _, fn := range p.Funcs {
		if fn.Parent() != nil || testSupportPkgs[fnPkgPath(fn)] {
			continue
		}
		pp := fnPkgPath(fn)
		if pp == pValidate || pp == pResolved || pp == modPath+"/x/exp/dot" {
			continue // validation / resolution diagnostics and the dot exporter are outside the property's statement
		}
		n := fn.Name()
		switch {
		case n == "Authorize" || n == "IsAuthorized":
			auth = append(auth, fn)
		case strings.HasPrefix(n, "Marshal") || n == "Encode" || n == "String" || n == "marshalCedar":
			enc = append(enc, fn)
		case strings.HasPrefix(n, "Unmarshal") || n == "Decode" || strings.HasPrefix(n, "Parse") || (strings.HasPrefix(n, "New") && strings.HasSuffix(n, "FromBytes")):
			dec = append(dec, fn)
		}
	}
	return &reachSets{p.reachFrom(auth), p.reachFrom(enc), p.reachFrom(dec)}
}

func effSig(e ordEffect) string { return e.Kind + "[" + e.Detail + "]" }

func runC14(p *Prog, r *Report) {
	checkTotalOrderComparators(p, r)
	oa := p.order()
	rs := p.c14Reach()
	nLoops := 0
	for _, l := range oa.loops {
		inAuth, inEnc, inDec := rs.auth[l.outer] || rs.auth[l.fn], rs.enc[l.outer] || rs.enc[l.fn], rs.dec[l.outer] || rs.dec[l.fn]
		if !inAuth && !inEnc && !inDec {
			continue
		}
		pp := fnPkgPath(l.fn)
		if pp == pValidate || pp == pResolved || pp == modPath+"/x/exp/dot" {
			continue
		}
		nLoops++
		q := fnQual(l.fn)
		effs, early := oa.effects(l)
		onlyReturnExits := true
		for _, e := range effs {
			if e.Kind == "exit:break" {
				onlyReturnExits = false
			}
		}
		scope := strings.TrimSuffix(boolStr(inAuth, "authorizer,", "")+boolStr(inEnc, "encoder,", "")+boolStr(inDec, "decoder,", ""), ",")
		if len(effs) == 0 {
			r.OK("R14.1-order-free", q+"@"+l.src, p.pos(l.pos), "no effect outlives an iteration ("+scope+")")
			continue
		}
		for _, e := range effs {
			construct := q + ":" + effSig(e)
			epos := p.pos(e.Pos)
			if e.Pos == token.NoPos {
				epos = p.pos(l.pos)
			}
			sens := e.Sens
			why := ""
			switch {
			case sens == 0 && early && !onlyReturnExits:
				sens, why = 2, "accumulation combined with a break: which elements are processed depends on the order"
			case sens == 0:
				why = "order-free accumulation"
			case sens == 1:
				why = "uniform constant / pass-through"
			}
			// append followed by a dominating sort
			if sens == 2 && strings.HasSuffix(e.Kind, ":append") {
				if oa.sortedAfter(l, e) {
					sens, why = 0, "collected then sorted before any other use"
				}
			}
			// error exits of encoders/decoders are not outputs
			if sens == 2 && e.Kind == "exit:return-elem" && !inAuth && oa.isErrorExit(l, e) {
				sens, why = 1, "error exit of an encoder/decoder (not an output of the property)"
			}
			if sens >= 2 && singleEntryLoop(l) {
				r.OK("R14.1-order-free", construct, epos, "the map ranged over was tested to have exactly one entry: there is only one order")
				continue
			}
			if sens >= 2 {
				if reason, ok := c14Allow[q][effSig(e)]; ok && !(c14AllowNeedsFullLoop[q] && early) {
					r.OK("R14.1-order-free", construct, epos, "tabled: "+reason)
					continue
				} else if ok {
					why = "the tabled reason (" + reason + ") presupposes that the loop visits every element, and it can now end early"
				}
			}
			switch sens {
			case 0, 1:
				r.OK("R14.1-order-free", construct, epos, why+" ("+scope+"; "+l.src+")")
			case 2:
				r.Viol("R14.1-order-free", construct, epos, "order-sensitive effect in a loop over "+l.src+" ("+scope+" path): "+describeSens(e)+boolStr(why != "", "; "+why, ""))
			default:
				r.Undec("R14.1-order-free", construct, epos, "effect in a loop over "+l.src+" cannot be classified as order-free: "+e.Kind+" "+e.Detail)
			}
		}
	}
	if nLoops < 25 {
		r.Undec("R14.1-order-free", "instance-floor", "-", "only "+itoa(nLoops)+" unordered loops found in scope; expected >= 25")
	}
	checkUnorderedArgs(p, r, oa, rs)
	checkNewSetOrder(p, r, oa, rs)
	checkNoAddressInMessages(p, r, rs)
	checkScheduleOrder(p, r, rs)
	r.Floor("R14.1-order-free", 40)
	r.Floor("R14.3-no-address", 50)
}

func describeSens(e ordEffect) string {
	switch {
	case e.Kind == "exit:return-elem":
		return "the loop returns a value that depends on which element is met first (" + e.Detail + ")"
	case strings.HasSuffix(e.Kind, ":append"):
		return "elements are appended to " + e.Detail + " in iteration order and the slice is not sorted before use"
	case strings.HasSuffix(e.Kind, ":assign-elem"):
		return "an element-dependent value is assigned to " + e.Detail + " (last/first writer wins)"
	case e.Kind == "call:ordered-output":
		return "bytes are written in iteration order (" + e.Detail + ")"
	}
	return e.Kind + " " + e.Detail
}

// isErrorExit: the exit returns a non-nil error as its last result.
func (oa *orderAnalysis) isErrorExit(l *ordLoop, e ordEffect) bool {
	fn := l.fn
	res := fn.Signature.Results()
	if res.Len() == 0 || !isErrorType(res.At(res.Len()-1).Type()) {
		return false
	}
	for _, b := range fn.Blocks {
		if ret, ok := lastInstr(b).(*ssa.Return); ok && ret.Pos() == e.Pos {
			last := retLast(ret)
			return !isNilConst(last)
		}
	}
	return false
}

// sortedAfter: the slice accumulated by effect e is sorted after the loop, before any other use.
func (oa *orderAnalysis) sortedAfter(l *ordLoop, e ordEffect) bool {
	top := l.outer
	w := oa.websOf(top)
	// find the append instruction at e.Pos inside the loop
	var acc ssa.Value
	for _, f := range append([]*ssa.Function{l.fn}, l.nestedClosures()...) {
		forEachInstr(f, func(in ssa.Instruction) {
			if c, ok := in.(*ssa.Call); ok && isBuiltin(&c.Call, "append") && c.Pos() == e.Pos {
				acc = c
			}
			if st, ok := in.(*ssa.Store); ok && st.Pos() == e.Pos {
				if c, ok := st.Val.(*ssa.Call); ok && isBuiltin(&c.Call, "append") {
					acc = c
				}
			}
		})
	}
	if acc == nil {
		return false
	}
	inLoop := func(in ssa.Instruction) bool {
		if in.Parent() == l.fn && l.blocks[in.Block()] {
			return true
		}
		for _, c := range l.nestedClosures() {
			if in.Parent() == c {
				return true
			}
		}
		return false
	}
	var sorts []ssa.CallInstruction
	for _, f := range withAnon(top) {
		for _, c := range callsIn(f) {
			g := c.Common().StaticCallee()
			if g != nil && sortFnNames[stdName(g)] && len(c.Common().Args) > 0 && w.same(c.Common().Args[0], acc) && !inLoop(c) {
				sorts = append(sorts, c)
			}
		}
	}
	if len(sorts) == 0 {
		return false
	}
	// every other use of the web outside the loop must be dominated by a sort (same function)
	ok := true
	for _, f := range withAnon(top) {
		forEachInstr(f, func(in ssa.Instruction) {
			if inLoop(in) {
				return
			}
			uses := false
			for _, op := range in.Operands(nil) {
				if *op != nil && w.same(*op, acc) {
					if _, isAlloc := (*op).(*ssa.Alloc); isAlloc {
						continue
					}
					if _, isFV := (*op).(*ssa.FreeVar); isFV {
						continue
					}
					uses = true
				}
			}
			if !uses {
				return
			}
			switch x := in.(type) {
			case *ssa.Phi, *ssa.UnOp, *ssa.MakeClosure, *ssa.DebugRef:
				return
			case *ssa.Store:
				// storing the accumulated slice back into its own variable is neutral; storing it
				// anywhere else lets it escape unsorted
				if w.same(w.cellOf(x.Addr), acc) || !w.same(x.Val, acc) {
					return
				}
			case *ssa.Call:
				if isBuiltin(&x.Call, "len") || isBuiltin(&x.Call, "cap") {
					return
				}
				for _, s := range sorts {
					if s == in {
						return
					}
				}
				if isBuiltin(&x.Call, "append") && w.same(x, acc) {
					// re-append before sort (e.g. building further): must itself be before a sort
				}
			}
			dom := false
			for _, s := range sorts {
				if s.Parent() == in.Parent() && instrDominates(s, in) {
					dom = true
				}
			}
			if !dom {
				if os.Getenv("C14_DEBUG") != "" {
					fmt.Printf("DEBUG sortedAfter %s: use not dominated by sort: %v at %s\n", fnQual(l.fn), in, oa.p.pos(in.Pos()))
				}
				ok = false
			}
		})
	}
	return ok
}

// checkNewSetOrder: arguments of types.NewSet built in an unordered loop (slot layout, hence printed
// order, depends on insertion order when member hashes collide).
func checkNewSetOrder(p *Prog, r *Report, oa *orderAnalysis, rs *reachSets) {
	for _, fn := range p.Funcs {
		if testSupportPkgs[fnPkgPath(fn)] || !(rs.auth[topOf(fn)] || rs.enc[topOf(fn)] || rs.dec[topOf(fn)]) {
			continue
		}
		for _, c := range callsIn(fn) {
			if !isCallTo(c, pTypes, "NewSet") {
				continue
			}
			arg := c.Common().Args[0]
			if oa.isUnordered(arg, c) {
				q := fnQual(fn)
				if strings.Contains(q, "$") {
					q = fnQual(topOf(fn))
				}
				r.Viol("R14.1-set-rebuild", fnQual(fn)+":NewSet", p.pos(c.Pos()), "a Set is rebuilt from elements taken in map-iteration order; when member hashes collide the slot layout (and so the printed order of the new set) depends on that order")
			} else {
				r.OK("R14.1-set-rebuild", fnQual(fn)+":NewSet", p.pos(c.Pos()), "NewSet is fed in an input-determined order")
			}
		}
	}
}

// checkNoAddressInMessages: no pointer-like operand is formatted into a string on a path reachable
// from the authorizers / encoders.
func checkNoAddressInMessages(p *Prog, r *Report, rs *reachSets) {
	const rule = "R14.3-no-address"
	fmtFuncs := map[string]int{"fmt.Errorf": 1, "fmt.Sprintf": 1, "fmt.Sprint": 0, "fmt.Sprintln": 0, "fmt.Fprintf": 2, "fmt.Fprint": 1, "fmt.Fprintln": 1}
	for _, pk := range p.All {
		if testSupportPkgs[pk.PkgPath] {
			continue
		}
		for _, f := range pk.Syntax {
			var cur *ast.FuncDecl
			ast.Inspect(f, func(n ast.Node) bool {
				if fd, ok := n.(*ast.FuncDecl); ok {
					cur = fd
				}
				call, ok := n.(*ast.CallExpr)
				if !ok {
					return true
				}
				o := calleeObj(pk.TypesInfo, call)
				if o == nil || o.Pkg() == nil {
					return true
				}
				first, ok := fmtFuncs[o.Pkg().Path()+"."+o.Name()]
				if !ok {
					return true
				}
				for i, a := range call.Args {
					if i < first {
						continue
					}
					t := pk.TypesInfo.Types[a].Type
					if t == nil {
						continue
					}
					construct := pk.Types.Name() + "." + declName(cur) + ":arg" + itoa(i)
					if bad, why := addressLike(p, t); bad {
						r.Viol(rule, construct, p.pos(a.Pos()), "operand of type "+typeShort(t)+" is formatted into a message: "+why+"; the text then contains a heap address that differs between runs")
					} else {
						r.OK(rule, construct, p.pos(a.Pos()), "operand of type "+typeShort(t)+" prints by value")
					}
				}
				return true
			})
		}
	}
}

// addressLike: formatting a value of this type with %v/%s prints an address (or a struct that
// contains one), unless the type defines its own String/Error/Format.
func addressLike(p *Prog, t types.Type) (bool, string) {
	return addressLikeRec(p, t, 0)
}

func hasStringer(t types.Type) bool {
	for _, name := range []string{"String", "Error", "Format", "GoString"} {
		if obj, _, _ := types.LookupFieldOrMethod(t, true, nil, name); obj != nil {
			if _, ok := obj.(*types.Func); ok {
				return true
			}
		}
	}
	return false
}

func addressLikeRec(p *Prog, t types.Type, depth int) (bool, string) {
	if depth > 4 {
		return false, ""
	}
	if isErrorType(t) {
		return false, ""
	}
	if hasStringer(t) {
		return false, ""
	}
	switch u := t.Underlying().(type) {
	case *types.Pointer:
		if _, isStruct := u.Elem().Underlying().(*types.Struct); isStruct {
			// fmt prints &{...} for pointers to structs at top level, but nested pointers print as addresses
			if depth > 0 {
				return true, "a nested pointer prints as an address"
			}
			return addressLikeRec(p, u.Elem(), depth+1)
		}
		return true, "a pointer prints as an address"
	case *types.Signature:
		return true, "a func value prints as an address"
	case *types.Chan:
		return true, "a channel prints as an address"
	case *types.Basic:
		if u.Kind() == types.UnsafePointer {
			return true, "unsafe.Pointer"
		}
	case *types.Map:
		// fmt sorts map keys; elements matter
		if b, w := addressLikeRec(p, u.Elem(), depth+1); b {
			return b, w
		}
		return addressLikeRec(p, u.Key(), depth+1)
	case *types.Slice:
		return addressLikeRec(p, u.Elem(), depth+1)
	case *types.Array:
		return addressLikeRec(p, u.Elem(), depth+1)
	case *types.Struct:
		for i := 0; i < u.NumFields(); i++ {
			ft := u.Field(i).Type()
			if _, isPtr := ft.Underlying().(*types.Pointer); isPtr && !hasStringer(ft) {
				return true, "field " + u.Field(i).Name() + " is a pointer and prints as an address"
			}
			if b, w := addressLikeRec(p, ft, depth+1); b {
				return b, "field " + u.Field(i).Name() + ": " + w
			}
		}
	case *types.Interface:
		if u.NumMethods() == 0 {
			return false, "" // `any` operands: the static type says nothing; checked at the call sites that pass concrete values
		}
		// an interface implemented only by pointer types without String(): every dynamic value prints as &{...} with nested addresses
		n := namedOf(t)
		if n != nil && n.Obj().Pkg() != nil && strings.HasPrefix(n.Obj().Pkg().Path(), modPath) {
			allPtr, any := true, false
			sc := n.Obj().Pkg().Scope()
			for _, name := range sc.Names() {
				tn, ok := sc.Lookup(name).(*types.TypeName)
				if !ok {
					continue
				}
				if _, isI := tn.Type().Underlying().(*types.Interface); isI {
					continue
				}
				if types.Implements(tn.Type(), u) {
					any = true
					allPtr = false
				} else if types.Implements(types.NewPointer(tn.Type()), u) {
					any = true
					if hasStringer(types.NewPointer(tn.Type())) {
						allPtr = false
					}
				}
			}
			if any && allPtr {
				return true, "every implementation of " + typeShort(t) + " is a pointer to a struct holding further pointers (printed as &{0xc000...})"
			}
		}
	}
	return false, ""
}

var _ = sort.Strings

// order-insensitive consumers of a slice
var orderFreeConsumers = map[string]bool{
	"slices.Contains": true, "slices.ContainsFunc": true, "slices.Index": true, "slices.IndexFunc": true,
	"slices.Sort": true, "slices.SortFunc": true, "slices.SortStableFunc": true, "sort.Strings": true, "sort.Slice": true, "sort.SliceStable": true, "sort.Sort": true,
	"slices.Sorted": true, "slices.SortedFunc": true, "slices.Clone": true, "slices.Collect": true, "slices.Values": true, "slices.All": true,
	"maps.Collect": true,
}

// checkUnorderedArgs: a slice whose element order comes from map iteration (and has not been
// sorted yet) must not be handed to an order-sensitive consumer.
func checkUnorderedArgs(p *Prog, r *Report, oa *orderAnalysis, rs *reachSets) {
	const rule = "R14.2-unsorted-slice-sink"
	n := 0
	for _, fn := range p.Funcs {
		pp := fnPkgPath(fn)
		if testSupportPkgs[pp] || pp == pValidate || pp == pResolved || pp == modPath+"/x/exp/dot" {
			continue
		}
		t := topOf(fn)
		if !(rs.auth[t] || rs.enc[t] || rs.dec[t] || rs.auth[fn] || rs.enc[fn] || rs.dec[fn]) {
			continue
		}
		for _, c := range callsIn(fn) {
			cc := c.Common()
			if _, isB := cc.Value.(*ssa.Builtin); isB {
				continue
			}
			name := calleeName(c)
			if f := cc.StaticCallee(); f != nil {
				name = stdName(f)
				if orderFreeConsumers[name] {
					continue
				}
				if fnIs(f, pTypes, "NewSet") || fnIs(f, pMapset, "FromItems") || fnIs(f, pMapset, "Immutable") {
					continue // set construction: handled by R14.1-set-rebuild
				}
			}
			for i, a := range cc.Args {
				if _, isSl := a.Type().Underlying().(*types.Slice); !isSl {
					// interface boxing a slice (json.Marshal(s))
					if mi, ok := a.(*ssa.MakeInterface); ok {
						if _, isSl := mi.X.Type().Underlying().(*types.Slice); isSl {
							a = mi.X
						} else {
							continue
						}
					} else {
						continue
					}
				}
				if _, isC := a.(*ssa.Const); isC {
					continue
				}
				n++
				construct := fnQual(fn) + ":" + name + ":arg" + itoa(i)
				if oa.isUnordered(a, c) {
					r.Viol(rule, construct, p.pos(c.Pos()), "a slice whose element order comes from map iteration is passed to "+name+" without being sorted first")
				} else {
					r.OK(rule, construct, p.pos(c.Pos()), "slice argument has an input-determined order")
				}
			}
		}
	}
	_ = n
}

// R14.4: a sort that is meant to hide map-iteration order must be by a *total* order on the elements. A comparator that
// compares concatenations of fields (Type+"::"+ID) is not injective — `Org::Unit::"x"` and `Org::"Unit::x"` tie — and tied
// elements keep the order the map iteration gave them. Comparators must compare the key itself, an injective rendering
// of it (String()/MarshalCedar()), or its fields one after the other.
func checkTotalOrderComparators(p *Prog, r *Report) {
	checkTotalOrderComparatorsAs(p, r, "R14.4-total-order")
}

func checkTotalOrderComparatorsAs(p *Prog, r *Report, rule string) {
	n := 0
	for _, fn := range p.Funcs {
		if testSupportPkgs[fnPkgPath(fn)] {
			continue
		}
		for _, cl := range callsIn(fn) {
			f := cl.Common().StaticCallee()
			if f == nil {
				continue
			}
			name := fnPkgPath(f) + "." + fnBase(f)
			if name != "slices.SortFunc" && name != "slices.SortStableFunc" && name != "sort.Slice" && name != "sort.SliceStable" {
				continue
			}
			var cmp *ssa.Function
			for _, a := range cl.Common().Args {
				switch x := a.(type) {
				case *ssa.MakeClosure:
					cmp, _ = x.Fn.(*ssa.Function)
				case *ssa.Function:
					cmp = x
				}
			}
			if cmp == nil || cmp.Blocks == nil {
				continue
			}
			n++
			concat := false
			// the comparator and the module's own helpers it calls (a key function kept in a local closure, say)
			scan := []*ssa.Function{cmp}
			if nd := p.CG().Nodes[cmp]; nd != nil {
				for _, e := range nd.Out {
					if g := e.Callee.Func; g != nil && g.Blocks != nil && strings.HasPrefix(fnPkgPath(g), modPath) && g != cmp {
						scan = append(scan, g)
					}
				}
			}
			for _, g := range scan {
				forEachInstr(g, func(in ssa.Instruction) {
					if bo, ok := in.(*ssa.BinOp); ok && bo.Op == token.ADD && basicKind(bo.Type()) == types.String && !selfDelimitingConcat(bo) {
						concat = true
					}
				})
			}
			// shape: a lexicographic chain of symmetric comparisons — every branch is on a comparison of the same projection
			// of the two elements, or on the result of such a comparison against zero; anything else (switching between two
			// orders depending on what the elements look like) need not be a total order
			if why := comparatorShape(cmp); why != "" && !concat {
				r.Viol(rule, fnQual(fn)+":comparator-shape", p.pos(cl.Pos()), "the comparator handed to "+name+" in "+fnShort(fn)+" is not a plain lexicographic chain of comparisons of the same projection of both elements ("+why+"): mixing orders depending on the elements' content is in general not a total order (ties and cycles), and the slice being sorted comes from map iteration")
			}
			r.Check(!concat, rule, fnQual(fn)+":comparator", p.pos(cl.Pos()), "the comparator orders by the key, an injective rendering of it, or its fields in turn",
				"the comparator handed to "+name+" in "+fnShort(fn)+" compares string concatenations of fields: different elements can produce the same text (`A::B`+`::`+`x` vs `A`+`::`+`B::x`), tie, and keep the order map iteration gave them — the output is no longer the same on every run")
		}
	}
	if n == 0 {
		r.Undec(rule, "comparators", "-", "no comparator-based sort found (anchors vanished)")
	}
}

// comparatorShape returns "" when every branch condition of the comparator is (a) a comparison whose two operands are
// the same projection of the first and of the second parameter, or (b) a comparison of such a comparison's result
// (strings.Compare, cmp.Compare, …) with a constant.
func comparatorShape(cmp *ssa.Function) string {
	if len(cmp.Params) < 2 {
		return ""
	}
	// closures over sort.Slice index parameters: i, j index the same slice — projections are s[i].f / s[j].f
	var shape func(v ssa.Value, d int) (string, int)
	shape = func(v ssa.Value, d int) (string, int) {
		// returns the structural shape with parameters abstracted, and which parameter (0/1/-1 none/2 both) it depends on
		if d > 8 {
			return "…", -1
		}
		merge := func(a, b int) int {
			if a == -1 {
				return b
			}
			if b == -1 || a == b {
				return a
			}
			return 2
		}
		switch x := v.(type) {
		case *ssa.Parameter:
			for i, pr := range cmp.Params {
				if pr == x {
					return "P", i
				}
			}
			return "param", -1
		case *ssa.Const:
			return x.String(), -1
		case *ssa.FreeVar:
			return "free:" + x.Name(), -1
		case *ssa.Field:
			s, w := shape(x.X, d+1)
			return s + ".#" + itoa(x.Field), w
		case *ssa.FieldAddr:
			s, w := shape(x.X, d+1)
			return s + ".&" + itoa(x.Field), w
		case *ssa.IndexAddr:
			s, w := shape(x.X, d+1)
			s2, w2 := shape(x.Index, d+1)
			return s + "[" + s2 + "]", merge(w, w2)
		case *ssa.UnOp:
			s, w := shape(x.X, d+1)
			return x.Op.String() + s, w
		case *ssa.Convert:
			return shape(x.X, d+1)
		case *ssa.ChangeType:
			return shape(x.X, d+1)
		case *ssa.MakeInterface:
			return shape(x.X, d+1)
		case *ssa.Extract:
			s, w := shape(x.Tuple, d+1)
			return s + "#" + itoa(x.Index), w
		case *ssa.Call:
			name := calleeName(x)
			w := -1
			var parts []string
			for _, a := range x.Call.Args {
				s, wa := shape(a, d+1)
				parts = append(parts, s)
				w = merge(w, wa)
			}
			if x.Call.IsInvoke() {
				s, wa := shape(x.Call.Value, d+1)
				parts = append([]string{s}, parts...)
				w = merge(w, wa)
			}
			return name + "(" + strings.Join(parts, ",") + ")", w
		case *ssa.Alloc:
			// a spilled parameter copy
			if refs := x.Referrers(); refs != nil {
				for _, rf := range *refs {
					if st, ok := rf.(*ssa.Store); ok && st.Addr == x {
						return shape(st.Val, d+1)
					}
				}
			}
		}
		return v.Name(), -1
	}
	isCmpResult := func(v ssa.Value) bool {
		seen := map[ssa.Value]bool{}
		var rec func(v ssa.Value) bool
		rec = func(v ssa.Value) bool {
			if seen[v] {
				return true
			}
			seen[v] = true
			switch x := v.(type) {
			case *ssa.Call:
				if len(x.Call.Args) == 2 {
					s0, w0 := shape(x.Call.Args[0], 0)
					s1, w1 := shape(x.Call.Args[1], 0)
					return s0 == s1 && w0 == 0 && w1 == 1 || (s0 == s1 && w0 == 1 && w1 == 0)
				}
			case *ssa.Phi:
				for _, e := range x.Edges {
					if !rec(e) {
						return false
					}
				}
				return true
			}
			return false
		}
		return rec(v)
	}
	why := ""
	// factOf: what a (flattened) branch condition says about a projection: the projection's shape, the relation between the
	// first and the second element's projection, and whether the relation holds or is excluded
	type cmpFact struct {
		proj string
		op   token.Token
		pol  bool
	}
	factOf := func(fg Guard) (cmpFact, bool) {
		bo, ok := fg.Cond.(*ssa.BinOp)
		if !ok {
			return cmpFact{}, false
		}
		s0, w0 := shape(bo.X, 0)
		s1, w1 := shape(bo.Y, 0)
		if s0 == s1 && w0 == 0 && w1 == 1 {
			return cmpFact{s0, bo.Op, fg.Pol}, true
		}
		if s0 == s1 && w0 == 1 && w1 == 0 {
			return cmpFact{s0, mirrorOp(bo.Op), fg.Pol}, true
		}
		// a three-way result compared with zero
		res, k := bo.X, bo.Y
		op := bo.Op
		if _, isK := res.(*ssa.Const); isK {
			res, k, op = bo.Y, bo.X, mirrorOp(bo.Op)
		}
		if z, isK := constInt(k); isK && z == 0 {
			if c, ok := res.(*ssa.Call); ok && len(c.Call.Args) == 2 {
				a0, wa := shape(c.Call.Args[0], 0)
				a1, wb := shape(c.Call.Args[1], 0)
				if a0 == a1 && wa == 0 && wb == 1 {
					return cmpFact{a0, op, fg.Pol}, true
				}
				if a0 == a1 && wa == 1 && wb == 0 {
					return cmpFact{a0, mirrorOp(op), fg.Pol}, true
				}
			}
		}
		return cmpFact{}, false
	}
	equalBy := func(fs []cmpFact) bool {
		notLess, notGreater := false, false
		for _, f := range fs {
			switch {
			case f.op == token.EQL && f.pol, f.op == token.NEQ && !f.pol:
				return true
			case f.op == token.LSS && !f.pol, f.op == token.GEQ && f.pol:
				notLess = true
			case f.op == token.GTR && !f.pol, f.op == token.LEQ && f.pol:
				notGreater = true
			}
		}
		return notLess && notGreater
	}
	// lexicographic discipline: a comparison of one projection may be consulted only once every projection compared on
	// the way there is known to be equal — `a.T < b.T || a.ID < b.ID` consults the ids of elements whose types differ
	forEachInstr(cmp, func(in ssa.Instruction) {
		iff, ok := in.(*ssa.If)
		if !ok || why != "" {
			return
		}
		here, ok := factOf(flattenGuard(Guard{Cond: iff.Cond, Pol: true}))
		if !ok {
			return
		}
		earlier := map[string][]cmpFact{}
		for _, g := range guardsAt(iff.Block()) {
			for _, x := range expandGuard(g, 0) {
				if f, ok := factOf(flattenGuard(x)); ok && f.proj != here.proj {
					earlier[f.proj] = append(earlier[f.proj], f)
				}
			}
		}
		for proj, fs := range earlier {
			if !equalBy(fs) {
				why = "the comparison of " + here.proj + " is consulted while " + proj + " has only been shown not to be in one order, not to be equal: for two elements that differ in " + proj + " both cmp(a,b) and cmp(b,a) can come out the same"
			}
		}
	})
	forEachInstr(cmp, func(in ssa.Instruction) {
		iff, ok := in.(*ssa.If)
		if !ok || why != "" {
			return
		}
		fg := flattenGuard(Guard{Cond: iff.Cond, Pol: true})
		bo, ok := fg.Cond.(*ssa.BinOp)
		if !ok {
			why = "a branch on " + fg.Cond.String()
			return
		}
		s0, w0 := shape(bo.X, 0)
		s1, w1 := shape(bo.Y, 0)
		symmetric := s0 == s1 && ((w0 == 0 && w1 == 1) || (w0 == 1 && w1 == 0))
		_, cy := bo.Y.(*ssa.Const)
		_, cx := bo.X.(*ssa.Const)
		onResult := (cy && isCmpResult(bo.X)) || (cx && isCmpResult(bo.Y))
		if !symmetric && !onResult {
			why = "a branch on `" + bo.String() + "`, which is neither a comparison of the same projection of both elements nor a test of such a comparison's result"
		}
	})
	return why
}

// selfDelimitingConcat: a string concatenation whose variable parts after the first are all strconv.Quote results. A quoted
// part cannot contain an unescaped quote, so the text splits back into its parts in exactly one way (read from the right);
// free text joined by a separator that the parts themselves may contain does not.
func selfDelimitingConcat(root *ssa.BinOp) bool {
	if root.Referrers() != nil {
		for _, u := range *root.Referrers() {
			if bo, ok := u.(*ssa.BinOp); ok && bo.Op == token.ADD && basicKind(bo.Type()) == types.String {
				return true // an inner link of a longer chain: judged at the chain's root
			}
		}
	}
	var parts []ssa.Value
	var flat func(v ssa.Value)
	flat = func(v ssa.Value) {
		if bo, ok := v.(*ssa.BinOp); ok && bo.Op == token.ADD && basicKind(bo.Type()) == types.String {
			flat(bo.X)
			flat(bo.Y)
			return
		}
		parts = append(parts, v)
	}
	flat(root)
	constText := func(v ssa.Value) (string, bool) {
		if c, ok := v.(*ssa.Const); ok && c.Value != nil && c.Value.Kind() == constant.String {
			return constant.StringVal(c.Value), true
		}
		return "", false
	}
	seenVar := false
	for i, pt := range parts {
		if _, isK := pt.(*ssa.Const); isK {
			continue
		}
		if !seenVar {
			seenVar = true
			continue
		}
		c, ok := stripConv(pt).(*ssa.Call)
		if !ok || c.Call.StaticCallee() == nil {
			return false
		}
		switch n := stdName(c.Call.StaticCallee()); {
		case n == "strconv.Quote":
		case fnPkgPath(c.Call.StaticCallee()) == pRust && strings.HasPrefix(c.Call.StaticCallee().Name(), "Escape"):
			// the module's own escaper (its vocabulary, including the double quote, is C12's R12.1) between literal quotes
			before, okB := "", false
			if i > 0 {
				before, okB = constText(parts[i-1])
			}
			after, okA := "", false
			if i+1 < len(parts) {
				after, okA = constText(parts[i+1])
			}
			if !okB || !okA || !strings.HasSuffix(before, "\"") || !strings.HasPrefix(after, "\"") {
				return false
			}
		default:
			return false
		}
	}
	return true
}

// R14.5 schedule order: a goroutine started on an authorizer, encoder or decoder path may not append to (or insert into) a
// collection it shares with its creator: the order of such appends is the order in which the goroutines happen to finish,
// which no input determines. (Writing to disjoint, index-addressed slots is fine and is not flagged.) The library starts no
// goroutines today; the rule exists because "compile the batches in parallel" is an optimisation someone will try.
func checkScheduleOrder(p *Prog, r *Report, rs *reachSets) {
	checkScheduleOrderAs(p, r, rs, "R14.5-schedule-order")
}

func checkScheduleOrderAs(p *Prog, r *Report, rs *reachSets, rule string) {
	n := 0
	for _, fn := range p.Funcs {
		top := topOf(fn)
		if !(rs.auth[top] || rs.enc[top] || rs.dec[top] || rs.auth[fn] || rs.enc[fn] || rs.dec[fn]) || testSupportPkgs[fnPkgPath(fn)] {
			continue
		}
		forEachInstr(fn, func(in ssa.Instruction) {
			g, ok := in.(*ssa.Go)
			if !ok {
				return
			}
			n++
			var body *ssa.Function
			switch x := g.Call.Value.(type) {
			case *ssa.MakeClosure:
				body, _ = x.Fn.(*ssa.Function)
			case *ssa.Function:
				body = x
			}
			construct := fnQual(fn) + ":go@" + itoa(n)
			if body == nil {
				r.Undec(rule, construct, p.pos(g.Pos()), "a goroutine is started on a function value that cannot be resolved")
				return
			}
			var shared []string
			for _, f := range withAnon(body) {
				forEachInstr(f, func(in2 ssa.Instruction) {
					switch y := in2.(type) {
					case *ssa.Store:
						if _, isFV := baseOf(y.Addr).(*ssa.FreeVar); !isFV {
							return
						}
						if c, ok := y.Val.(*ssa.Call); ok && isBuiltin(&c.Call, "append") {
							shared = append(shared, "append to "+describeVal(y.Addr)+" at "+p.pos(y.Pos()))
						}
					case *ssa.MapUpdate:
						if ld, ok := y.Map.(*ssa.UnOp); ok {
							if _, isFV := baseOf(ld.X).(*ssa.FreeVar); isFV {
								shared = append(shared, "insert into "+describeVal(y.Map)+" at "+p.pos(y.Pos()))
							}
						}
					}
				})
			}
			sort.Strings(shared)
			r.Check(len(shared) == 0, rule, construct, p.pos(g.Pos()), "the goroutine writes no shared collection in completion order",
				"a goroutine started here grows a collection it shares with its creator ("+strings.Join(shared, "; ")+"): the elements end up in the order the goroutines finish, which varies from run to run")
		})
	}
	if n == 0 {
		r.OK(rule, "no-goroutines", "-", "no goroutine is started on an authorizer, encoder or decoder path")
	}
}
