package main

// C04 — policy compilation (constant folding) never changes a policy's meaning.

import (
	"go/ast"
	"go/token"
	"go/types"
	"sort"
	"strings"

	"golang.org/x/tools/go/ssa"
)

func init() {
	register(&propCheck{
		ID: "C04",
		Explanation: "Folding as a table over node kinds, compared with the interpreter's own dispatch: R4.1 a folded literal is built only when every child folded to a value and the " +
			"evaluation succeeded, and that evaluation runs in an environment with an empty entity store and no request; R4.2 an evaluator that reads the environment (computed from the " +
			"Eval methods: attribute access, has, tags, in, is..in, variables) is constructed by the folder only on the path where the operand is known not to be an entity, or the case is forced " +
			"to the error evaluator, and inside those evaluators every environment read sits under the entity case; R4.3 for every other kind the folder uses the same evaluator constructor as " +
			"the interpreter, with literal operands in the same order, and rebuilds the same node kind with children in the same positions and the non-node fields copied; R4.4 every slice handed to " +
			"the in-place helper is freshly allocated in the caller and fold/foldPolicy write nothing reachable from their argument (mod-ref summaries); R4.5 the folder's switch is exhaustive. " +
			"Not decided: equivalence beyond these structural conditions.",
		Run: runC04,
	})
}

// dispatchCtors: node kind -> evaluator constructor used by the AST->evaluator conversion.
func dispatchCtors(p *Prog) map[string]*types.Func {
	out := map[string]*types.Func{}
	tss := p.findTypeSwitch(pEval, "ToEval", "IsNode")
	if len(tss) != 1 {
		return out
	}
	ti := tss[0]
	info := ti.Pkg.TypesInfo
	for _, st := range ti.Stmt.Body.List {
		cc := st.(*ast.CaseClause)
		if len(cc.List) != 1 {
			continue
		}
		nk := namedOf(info.Types[cc.List[0]].Type)
		if nk == nil {
			continue
		}
		var ctor *types.Func
		ast.Inspect(cc, func(n ast.Node) bool {
			if call, ok := n.(*ast.CallExpr); ok && ctor == nil {
				if o := calleeObj(info, call); o != nil && o.Pkg() != nil && o.Pkg().Path() == pEval && o.Name() != "ToEval" {
					ctor = o
				}
			}
			return true
		})
		if ctor != nil {
			out[nk.Obj().Name()] = ctor
		}
	}
	return out
}

// envReaders: evaluator struct types whose Eval reads the environment itself (not merely passing
// it to child evaluators).
func envReaders(p *Prog) map[string]bool {
	out := map[string]bool{}
	readsEnv := map[*ssa.Function]map[int]bool{} // function -> param indices of type Env that are read
	var reads func(fn *ssa.Function, pi int, depth int) bool
	reads = func(fn *ssa.Function, pi int, depth int) bool {
		if m, ok := readsEnv[fn]; ok {
			if v, ok := m[pi]; ok {
				return v
			}
		} else {
			readsEnv[fn] = map[int]bool{}
		}
		readsEnv[fn][pi] = false
		if depth > 8 || fn.Blocks == nil || pi >= len(fn.Params) {
			return false
		}
		res := false
		var visit func(v ssa.Value)
		seen := map[ssa.Value]bool{}
		visit = func(v ssa.Value) {
			if seen[v] || v.Referrers() == nil {
				return
			}
			seen[v] = true
			for _, u := range *v.Referrers() {
				switch x := u.(type) {
				case *ssa.Store:
					if x.Val == v {
						if a, ok := x.Addr.(*ssa.Alloc); ok {
							visit(a) // spill
						}
					}
				case *ssa.FieldAddr:
					res = true
				case *ssa.Field:
					res = true
				case *ssa.UnOp:
					visit(x)
				case *ssa.MakeClosure:
					// captured: look inside
					cf := x.Fn.(*ssa.Function)
					for i, b := range x.Bindings {
						if b == v && i < len(cf.FreeVars) {
							visit(cf.FreeVars[i])
						}
					}
				case ssa.CallInstruction:
					cc := x.Common()
					if cc.IsInvoke() && cc.Method.Name() == "Eval" {
						continue // child evaluation
					}
					if g := cc.StaticCallee(); g != nil {
						for i, a := range cc.Args {
							if a == v && reads(g, i, depth+1) {
								res = true
							}
						}
					} else {
						for _, a := range cc.Args {
							if a == v {
								res = true // passed to an unknown function
							}
						}
					}
				}
			}
		}
		visit(fn.Params[pi])
		readsEnv[fn][pi] = res
		return res
	}
	for _, fn := range p.Funcs {
		if fnPkgPath(fn) != pEval || fn.Name() != "Eval" || fn.Signature.Recv() == nil || fn.Parent() != nil || len(fn.Params) != 2 {
			continue
		}
		if !typeIs(fn.Params[1].Type(), pEval, "Env") {
			continue
		}
		if reads(fn, 1, 0) {
			if n := namedOf(fn.Signature.Recv().Type()); n != nil {
				out[n.Obj().Name()] = true
			}
		}
	}
	return out
}

// evalerTypeOfCtor: the evaluator struct type a constructor builds.
func evalerTypeOfCtor(p *Prog, ctor *types.Func) string {
	fn := p.SSA.FuncValue(ctor)
	if fn == nil {
		return ""
	}
	name := ""
	forEachInstr(fn, func(in ssa.Instruction) {
		if a, ok := in.(*ssa.Alloc); ok && name == "" {
			if n := namedOf(a.Type()); n != nil && n.Obj().Pkg() != nil && n.Obj().Pkg().Path() == pEval {
				name = n.Obj().Name()
			}
		}
	})
	if name == "" {
		// delegating constructor (newExtensionEval): not a single type
		return ""
	}
	return name
}

type foldCase struct {
	kind         string
	pos          token.Pos
	helper       string          // tryFold / tryFoldBinary / tryFoldUnary / identity
	inputs       []string        // fields of v given as children, in order ("Args..." for a copied slice)
	ctors        []*types.Func   // constructors returned by mkEval (all return sites)
	guarded      map[string]bool // constructor name -> constructed only under a failed EntityUID assertion
	rebuilt      string          // node kind rebuilt by mkNode
	rebuiltPos   map[string]int  // field -> index into nodes
	copied       []string        // non-node fields of v read in mkNode
	evalCopied   []string        // non-node fields of v read in mkEval
	literalArg   bool            // operands of the constructor are newLiteralEval(values[i]) in order
	rebuiltOther []string        // results returned by the rebuild closure that are not a literal of the rebuilt kind
}

func runC04(p *Prog, r *Report) {
	tss := p.findTypeSwitch(pEval, "fold", "IsNode")
	if len(tss) != 1 {
		r.Anchor("R4.5-exhaustive", "eval.fold type switch over ast.IsNode")
		return
	}
	ti := tss[0]
	p.requireExhaustive(r, "R4.5-exhaustive", ti)
	info := ti.Pkg.TypesInfo
	disp := dispatchCtors(p)
	readers := envReaders(p)
	var rd []string
	for k := range readers {
		rd = append(rd, k)
	}
	sort.Strings(rd)
	r.Check(len(rd) >= 6, "R4.2-env-independence", "eval:env-readers", "-", "environment-reading evaluators: "+strings.Join(rd, ","), "expected at least the attribute/has/tag/in/is-in/variable evaluators to read the environment; found "+strings.Join(rd, ","))

	for _, st := range ti.Stmt.Body.List {
		cc := st.(*ast.CaseClause)
		if len(cc.List) != 1 {
			continue
		}
		nk := namedOf(info.Types[cc.List[0]].Type)
		if nk == nil {
			continue
		}
		kind := nk.Obj().Name()
		fc := analyseFoldCase(p, info, ti, cc, kind)
		q := "eval.fold:" + kind
		pos := p.pos(cc.Pos())
		if fc.helper == "identity" {
			// literals and variables are returned unchanged
			r.Check(kind == "NodeValue" || kind == "NodeTypeVariable", "R4.3-constructor-agreement", q, pos, "returned unchanged", kind+" is returned unfolded without a rebuild; only literals and variables may be")
			continue
		}
		if fc.helper == "" || strings.HasPrefix(fc.helper, "dedicated:") {
			r.Undec("R4.3-constructor-agreement", q, pos, "case does not use the fold helpers in a recognisable way")
			continue
		}
		// rebuild the same kind, children in the same positions
		rebuildOK := fc.rebuilt == kind
		posOK := true
		for i, f := range fc.inputs {
			if strings.HasSuffix(f, "...") {
				continue
			}
			if idx, ok := fc.rebuiltPos[f]; !ok || idx != i {
				posOK = false
			}
		}
		r.Check(len(fc.rebuiltOther) == 0, "R4.3-constructor-agreement", q+":rebuild-every-return", pos, "every return of the rebuild closure is a "+kind+" literal",
			"the rebuild closure of "+kind+" can also return "+strings.Join(fc.rebuiltOther, " / ")+": on that path the partly folded tree is not the original operator over the folded children")
		r.Check(rebuildOK && posOK, "R4.3-constructor-agreement", q+":rebuild", pos, "rebuilds "+fc.rebuilt+" with children ("+strings.Join(fc.inputs, ",")+") in place",
			"a partly folded "+kind+" is rebuilt as "+fc.rebuilt+" with children "+describePos(fc.rebuiltPos)+" for inputs ("+strings.Join(fc.inputs, ",")+"): the tree's shape or operand order changes")
		// non-node fields copied
		want := nonNodeFields(nk)
		missing := []string{}
		for _, f := range want {
			found := false
			for _, c := range fc.copied {
				if c == f {
					found = true
				}
			}
			if !found {
				missing = append(missing, f)
			}
		}
		r.Check(len(missing) == 0, "R4.3-constructor-agreement", q+":fields", pos, "non-node fields ("+strings.Join(want, ",")+") are copied from the original", "the rebuilt "+kind+" does not copy field(s) "+strings.Join(missing, ",")+" from the original node")

		// evaluator constructor
		dctor := disp[kind]
		if dctor == nil {
			r.Undec("R4.3-constructor-agreement", q+":ctor", pos, "no interpreter constructor known for "+kind)
			continue
		}
		dType := evalerTypeOfCtor(p, dctor)
		isReader := readers[dType]
		var names []string
		for _, c := range fc.ctors {
			names = append(names, c.Name())
		}
		sort.Strings(names)
		usesInterp := false
		onlyError := true
		for _, c := range fc.ctors {
			if c == dctor {
				usesInterp = true
			}
			if c.Name() != "newErrorEval" {
				onlyError = false
			}
		}
		if isReader {
			// either forced to the error evaluator, or the interpreter's constructor only under a failed entity assertion
			if onlyError && len(fc.ctors) > 0 {
				r.OK("R4.2-env-independence", q, pos, dType+" reads the environment: folding is forced to fail")
			} else if usesInterp && fc.guarded[dctor.Name()] {
				r.OK("R4.2-env-independence", q, pos, dType+" reads the environment only for entity operands, and is constructed only when the operand is not an entity")
			} else {
				r.Viol("R4.2-env-independence", q, pos, "folding evaluates "+dType+", which reads the entity store / request, without first excluding an entity operand: a constant expression over an entity would be folded against the empty store")
			}
			continue
		}
		// non-readers: same constructor, literal operands in order; and no environment-reading evaluator sneaks in
		for _, c := range fc.ctors {
			if t := evalerTypeOfCtor(p, c); readers[t] {
				r.Viol("R4.2-env-independence", q, pos, "the folder constructs "+t+" (reads the environment) for "+kind)
			}
		}
		r.Check(usesInterp && len(fc.ctors) == 1 && fc.literalArg, "R4.3-constructor-agreement", q+":ctor", pos, "folds with the interpreter's "+dctor.Name()+" over literal operands in order",
			kind+" is folded with ["+strings.Join(names, ",")+"]"+boolStr(fc.literalArg, "", " (operands not the folded literals in order)")+"; the interpreter evaluates it with "+dctor.Name())
		// evaluator-side non-node fields
		missing = nil
		for _, f := range want {
			found := false
			for _, c := range fc.evalCopied {
				if c == f {
					found = true
				}
			}
			if !found {
				missing = append(missing, f)
			}
		}
		r.Check(len(missing) == 0, "R4.3-constructor-agreement", q+":eval-fields", pos, "the folding evaluator gets the node's own fields", "the folding evaluator for "+kind+" is not given field(s) "+strings.Join(missing, ","))
	}
	checkFoldHelpers(p, r)
	checkEnvReadsUnderEntityCase(p, r)
	checkFoldFresh(p, r)
	r.Floor("R4.3-constructor-agreement", 60)
	r.Floor("R4.2-env-independence", 7)
	r.Floor("R4.1-fold-on-success", 4)
	r.Floor("R4.4-fresh-copy", 5)
}

func describePos(m map[string]int) string {
	var parts []string
	for k, v := range m {
		parts = append(parts, k+"=nodes["+itoa(v)+"]")
	}
	sort.Strings(parts)
	return "{" + strings.Join(parts, ",") + "}"
}

// nonNodeFields: fields of a node struct (incl. embedded structs) that are not child nodes.
func nonNodeFields(n *types.Named) []string {
	var out []string
	var rec func(st *types.Struct)
	rec = func(st *types.Struct) {
		for i := 0; i < st.NumFields(); i++ {
			f := st.Field(i)
			if f.Embedded() {
				if es, ok := f.Type().Underlying().(*types.Struct); ok {
					rec(es)
				}
				continue
			}
			t := f.Type()
			if typeIs(t, pXAst, "IsNode") {
				continue
			}
			if sl, ok := t.Underlying().(*types.Slice); ok {
				if typeIs(sl.Elem(), pXAst, "IsNode") || typeIs(sl.Elem(), pXAst, "RecordElementNode") {
					continue
				}
			}
			out = append(out, f.Name())
		}
	}
	if st, ok := n.Underlying().(*types.Struct); ok {
		rec(st)
	}
	sort.Strings(out)
	return out
}

func analyseFoldCase(p *Prog, info *types.Info, ti *typeSwitchInfo, cc *ast.CaseClause, kind string) *foldCase {
	return analyseHelperCase(p, info, ti, cc, kind, "tryFold", 0)
}

// analyseHelperCase reads one case of a fold-style switch whose cases call prefix / prefix+"Binary"
// / prefix+"Unary"; off = number of leading arguments (e.g. env) before the children.
func analyseHelperCase(p *Prog, info *types.Info, ti *typeSwitchInfo, cc *ast.CaseClause, kind, prefix string, off int) *foldCase {
	fc := &foldCase{kind: kind, pos: cc.Pos(), guarded: map[string]bool{}, rebuiltPos: map[string]int{}, literalArg: true}
	// the switch variable
	var swVar types.Object
	if as, ok := ti.Stmt.Assign.(*ast.AssignStmt); ok {
		if id, ok := as.Lhs[0].(*ast.Ident); ok {
			swVar = info.Implicits[cc]
			_ = id
		}
	}
	isV := func(e ast.Expr) bool {
		id, ok := ast.Unparen(e).(*ast.Ident)
		return ok && swVar != nil && info.Uses[id] == swVar
	}
	// field path of an expression v.A.B -> last field name; returns "" if not rooted at v
	fieldOfV := func(e ast.Expr) string {
		sel, ok := ast.Unparen(e).(*ast.SelectorExpr)
		if !ok {
			return ""
		}
		x := sel.X
		for {
			if s2, ok := ast.Unparen(x).(*ast.SelectorExpr); ok {
				x = s2.X
				continue
			}
			break
		}
		if isV(x) {
			return sel.Sel.Name
		}
		return ""
	}
	var helperCall *ast.CallExpr
	identity := false
	for _, s := range cc.Body {
		ret, ok := s.(*ast.ReturnStmt)
		if !ok || len(ret.Results) < 1 || len(ret.Results) > 2 {
			continue
		}
		if len(ret.Results) == 2 {
			if id, ok := ret.Results[1].(*ast.Ident); !ok || id.Name != "nil" {
				continue
			}
		}
		if call, ok := ast.Unparen(ret.Results[0]).(*ast.CallExpr); ok {
			if o := calleeObj(info, call); o != nil && strings.HasPrefix(o.Name(), prefix) {
				helperCall = call
				fc.helper = "tryFold" + strings.TrimPrefix(o.Name(), prefix)
			} else if o != nil && o.Pkg() != nil && o.Pkg().Path() == pEval {
				fc.helper = "dedicated:" + o.Name()
			}
		} else if id, ok := ast.Unparen(ret.Results[0]).(*ast.Ident); ok && id.Name != "nil" {
			identity = true
		}
	}
	if helperCall == nil {
		if identity && fc.helper == "" {
			fc.helper = "identity"
		}
		return fc
	}
	if off > 0 {
		// drop the leading arguments
		cp := *helperCall
		cp.Args = helperCall.Args[off:]
		helperCall = &cp
	}
	collectCtors := func(fl *ast.FuncLit) {
		// constructors in return statements; guard detection for `if _, ok := values[0].(types.EntityUID); ok { return err }`
		entityGuardReturnsError := false
		ast.Inspect(fl.Body, func(n ast.Node) bool {
			if ifs, ok := n.(*ast.IfStmt); ok {
				if as, ok := ifs.Init.(*ast.AssignStmt); ok && len(as.Rhs) == 1 {
					if ta, ok := as.Rhs[0].(*ast.TypeAssertExpr); ok && ta.Type != nil && typeIs(info.Types[ta.Type].Type, pTypes, "EntityUID") {
						if id, ok := ifs.Cond.(*ast.Ident); ok && len(as.Lhs) == 2 {
							if lid, ok := as.Lhs[1].(*ast.Ident); ok && lid.Name == id.Name {
								// body returns the error evaluator
								for _, s := range ifs.Body.List {
									if ret, ok := s.(*ast.ReturnStmt); ok && len(ret.Results) == 1 {
										if call, ok := ret.Results[0].(*ast.CallExpr); ok {
											if o := calleeObj(info, call); o != nil && o.Name() == "newErrorEval" {
												entityGuardReturnsError = true
											}
										}
									}
								}
							}
						}
					}
				}
			}
			return true
		})
		var walk func(stmts []ast.Stmt, afterGuard bool)
		walk = func(stmts []ast.Stmt, afterGuard bool) {
			for _, s := range stmts {
				switch x := s.(type) {
				case *ast.ReturnStmt:
					if len(x.Results) != 1 {
						continue
					}
					if call, ok := ast.Unparen(x.Results[0]).(*ast.CallExpr); ok {
						if o := calleeObj(info, call); o != nil {
							fc.ctors = append(fc.ctors, o)
							if afterGuard {
								fc.guarded[o.Name()] = true
							}
							// operands: newLiteralEval(values[i]) at increasing i
							next := 0
							for _, a := range call.Args {
								ac, ok := ast.Unparen(a).(*ast.CallExpr)
								if !ok {
									if f := fieldOfV(a); f != "" {
										fc.evalCopied = append(fc.evalCopied, f)
									}
									continue
								}
								if ao := calleeObj(info, ac); ao != nil && ao.Name() == "newLiteralEval" && len(ac.Args) == 1 {
									if ix, ok := ast.Unparen(ac.Args[0]).(*ast.IndexExpr); ok {
										if tv := info.Types[ix.Index]; tv.Value != nil {
											if tv.Value.String() != itoa(next) {
												fc.literalArg = false
											}
											next++
											continue
										}
									}
									fc.literalArg = false
								}
							}
						}
					}
				case *ast.IfStmt:
					walk(x.Body.List, afterGuard)
					if entityGuardReturnsError {
						afterGuard = true
					}
				case *ast.BlockStmt:
					walk(x.List, afterGuard)
				}
			}
		}
		walk(fl.Body.List, false)
		// fields of v referenced anywhere in mkEval
		ast.Inspect(fl.Body, func(n ast.Node) bool {
			if e, ok := n.(ast.Expr); ok {
				if f := fieldOfV(e); f != "" {
					fc.evalCopied = append(fc.evalCopied, f)
				}
			}
			return true
		})
	}
	collectRebuild := func(fl *ast.FuncLit) {
		ast.Inspect(fl.Body, func(n ast.Node) bool {
			cl, ok := n.(*ast.CompositeLit)
			if !ok {
				if e, ok := n.(ast.Expr); ok {
					if f := fieldOfV(e); f != "" {
						fc.copied = append(fc.copied, f)
					}
				}
				return true
			}
			if tn := namedOf(info.Types[cl].Type); tn != nil && strings.HasPrefix(tn.Obj().Name(), "Node") && fc.rebuilt == "" {
				fc.rebuilt = tn.Obj().Name()
			}
			for _, el := range cl.Elts {
				kv, ok := el.(*ast.KeyValueExpr)
				if !ok {
					continue
				}
				key, ok := kv.Key.(*ast.Ident)
				if !ok {
					continue
				}
				if ix, ok := ast.Unparen(kv.Value).(*ast.IndexExpr); ok {
					if tv := info.Types[ix.Index]; tv.Value != nil {
						var idx int
						for _, ch := range tv.Value.String() {
							idx = idx*10 + int(ch-'0')
						}
						fc.rebuiltPos[key.Name] = idx
					}
				} else if id, ok := ast.Unparen(kv.Value).(*ast.Ident); ok && (id.Name == "nodes" || id.Name == "el") {
					fc.rebuiltPos[key.Name] = -1
				}
			}
			return true
		})
	}
	// every return of the rebuild closure must itself be a node literal: a closure that, on some path,
	// hands back the result of a helper, a child, or a re-associated tree rebuilds a different program
	// (checked arithmetic is checked at every step; `(x + 1) - 1` is not `x + 0`).
	rebuildReturns := func(fl *ast.FuncLit) {
		var walk func(n ast.Node) bool
		walk = func(n ast.Node) bool {
			switch x := n.(type) {
			case *ast.FuncLit:
				return x == fl
			case *ast.ReturnStmt:
				for _, res := range x.Results {
					e := ast.Unparen(res)
					if un, ok := e.(*ast.UnaryExpr); ok && un.Op == token.AND {
						e = ast.Unparen(un.X)
					}
					// a local assigned once, from a literal, stands for that literal
					if id, ok := e.(*ast.Ident); ok {
						if rhs := singleLocalDef(info, fl, id); rhs != nil {
							e = ast.Unparen(rhs)
						}
					}
					cl, ok := e.(*ast.CompositeLit)
					if !ok {
						fc.rebuiltOther = append(fc.rebuiltOther, types.ExprString(res))
						continue
					}
					if tn := namedOf(info.Types[cl].Type); tn == nil || (fc.rebuilt != "" && tn.Obj().Name() != fc.rebuilt) {
						fc.rebuiltOther = append(fc.rebuiltOther, types.ExprString(res))
					}
				}
			}
			return true
		}
		ast.Inspect(fl, walk)
	}
	defer func() {
		if helperCall != nil && len(helperCall.Args) == 3 {
			if fl, ok := ast.Unparen(helperCall.Args[2]).(*ast.FuncLit); ok {
				rebuildReturns(fl)
			}
		}
	}()
	switch fc.helper {
	case "tryFold":
		if len(helperCall.Args) != 3 {
			fc.helper = ""
			return fc
		}
		if cl, ok := ast.Unparen(helperCall.Args[0]).(*ast.CompositeLit); ok {
			for _, e := range cl.Elts {
				fc.inputs = append(fc.inputs, fieldOfV(e))
			}
		} else {
			// a slice variable built from a field of v (copy / loop)
			src := ""
			for _, s := range cc.Body {
				ast.Inspect(s, func(n ast.Node) bool {
					if e, ok := n.(ast.Expr); ok {
						if f := fieldOfV(e); f == "Args" || f == "Elements" {
							src = f
						}
					}
					return true
				})
			}
			fc.inputs = append(fc.inputs, src+"...")
			if src != "" {
				fc.rebuiltPos[src] = -1
			}
		}
		if fl, ok := helperCall.Args[1].(*ast.FuncLit); ok {
			collectCtors(fl)
		}
		if fl, ok := helperCall.Args[2].(*ast.FuncLit); ok {
			collectRebuild(fl)
		}
		// variadic children: positions are the whole slice
		if len(fc.inputs) == 1 && strings.HasSuffix(fc.inputs[0], "...") {
			f := strings.TrimSuffix(fc.inputs[0], "...")
			if _, ok := fc.rebuiltPos[f]; ok {
				fc.rebuiltPos = map[string]int{}
			}
		}
	case "tryFoldBinary", "tryFoldUnary":
		if len(helperCall.Args) != 3 {
			fc.helper = ""
			return fc
		}
		f := fieldOfV(helperCall.Args[0])
		if fc.helper == "tryFoldBinary" && f == "BinaryNode" {
			fc.inputs = []string{"Left", "Right"}
			fc.rebuiltPos = map[string]int{"Left": 0, "Right": 1}
		} else if fc.helper == "tryFoldUnary" && f == "UnaryNode" {
			fc.inputs = []string{"Arg"}
			fc.rebuiltPos = map[string]int{"Arg": 0}
		} else {
			fc.inputs = []string{"?"}
		}
		if id, ok := ast.Unparen(helperCall.Args[1]).(*ast.Ident); ok {
			if o, ok := info.Uses[id].(*types.Func); ok {
				fc.ctors = append(fc.ctors, o)
			}
		}
		if fl, ok := helperCall.Args[2].(*ast.FuncLit); ok {
			ast.Inspect(fl.Body, func(n ast.Node) bool {
				if cl, ok := n.(*ast.CompositeLit); ok && fc.rebuilt == "" {
					if tn := namedOf(info.Types[cl].Type); tn != nil {
						fc.rebuilt = tn.Obj().Name()
						// the wrapped struct must be the closure's parameter
						for _, el := range cl.Elts {
							if kv, ok := el.(*ast.KeyValueExpr); ok {
								if id, ok := kv.Value.(*ast.Ident); !ok || id.Name != fl.Type.Params.List[0].Names[0].Name {
									fc.rebuilt = "?"
								}
							}
						}
					}
				}
				return true
			})
		}
	}
	return fc
}

// checkFoldHelpers: tryFold / tryFoldBinary / tryFoldUnary themselves.
func checkFoldHelpers(p *Prog, r *Report) {
	const rule = "R4.1-fold-on-success"
	fn := p.fn(pEval, "tryFold")
	if fn == nil {
		r.Anchor(rule, "eval.tryFold")
		return
	}
	q := fnQual(fn)
	// the folded literal: a NodeValue built from the result of Eval
	var evalCall *ssa.Call
	forEachInstr(fn, func(in ssa.Instruction) {
		if c, ok := in.(*ssa.Call); ok && c.Call.IsInvoke() && c.Call.Method.Name() == "Eval" {
			evalCall = c
		}
	})
	if evalCall == nil {
		r.Undec(rule, q, p.pos(fn.Pos()), "no evaluation of the folding evaluator found")
		return
	}
	val, errv := extractOf(evalCall, 0), extractOf(evalCall, 1)
	// returns built from val must be under err == nil
	okGuard := false
	usedUnguarded := false
	if val != nil && errv != nil {
		for _, u := range usesThroughSpill(val) {
			under := false
			for _, g := range guardsAt(u.Block()) {
				if nn, k := nilTest(g, errv); k && !nn {
					under = true
				}
			}
			if under {
				okGuard = true
			} else {
				usedUnguarded = true
			}
		}
	}
	r.Check(okGuard && !usedUnguarded, rule, q+":err-nil", p.pos(evalCall.Pos()), "the folded literal is built only when the evaluation succeeded", "the result of the folding evaluation is used without (only under) err == nil: an erroring constant expression would be replaced by a value")
	// the evaluation itself happens only when all children folded
	var allFolded ssa.Value
	for _, g := range guardsAt(evalCall.Block()) {
		g = flattenGuard(g)
		if ph, ok := g.Cond.(*ssa.Phi); ok && g.Pol {
			allFolded = ph
		}
	}
	goodFlag := false
	if ph, ok := allFolded.(*ssa.Phi); ok {
		// the flag is false whenever some child is not a literal: an incoming `false` edge exists from the
		// path where the NodeValue assertion failed, and `true` only initially
		sawFalse := false
		var rec func(x *ssa.Phi, seen map[*ssa.Phi]bool)
		rec = func(x *ssa.Phi, seen map[*ssa.Phi]bool) {
			if seen[x] {
				return
			}
			seen[x] = true
			for _, e := range x.Edges {
				if cb, isC := constBool(e); isC && !cb {
					sawFalse = true
				}
				if p2, ok := e.(*ssa.Phi); ok {
					rec(p2, seen)
				}
			}
		}
		rec(ph, map[*ssa.Phi]bool{})
		goodFlag = sawFalse
	}
	r.Check(goodFlag, rule, q+":all-folded", p.pos(evalCall.Pos()), "evaluation is attempted only when every child folded to a literal", "the folding evaluation is not guarded by an all-children-are-literals flag")
	// values are taken only from NodeValue children
	valuesOK := true
	nApp := 0
	forEachInstr(fn, func(in ssa.Instruction) {
		c, ok := in.(*ssa.Call)
		if !ok || !isBuiltin(&c.Call, "append") {
			return
		}
		sl, ok := c.Type().Underlying().(*types.Slice)
		if !ok || !typeIs(sl.Elem(), pTypes, "Value") {
			return
		}
		nApp++
		under := false
		for _, g := range guardsAt(c.Block()) {
			g = flattenGuard(g)
			if ex, ok := g.Cond.(*ssa.Extract); ok && g.Pol {
				if ta, ok := ex.Tuple.(*ssa.TypeAssert); ok && typeIs(ta.AssertedType, pXAst, "NodeValue") {
					under = true
				}
			}
		}
		if !under {
			valuesOK = false
		}
	})
	r.Check(valuesOK && nApp == 1, rule, q+":values", p.pos(fn.Pos()), "operand values come only from children that are literals", "a value is collected from a child that has not been checked to be a literal")
	// the environment of the folding evaluation: only Entities is set, to an empty map
	envOK := false
	if len(evalCall.Call.Args) == 1 {
		if ld, ok := evalCall.Call.Args[0].(*ssa.UnOp); ok && ld.Op == token.MUL {
			if a, ok := ld.X.(*ssa.Alloc); ok {
				envOK = true
				for _, ref := range *a.Referrers() {
					fa, ok := ref.(*ssa.FieldAddr)
					if !ok {
						continue
					}
					st := a.Type().Underlying().(*types.Pointer).Elem().Underlying().(*types.Struct)
					for _, rr := range *fa.Referrers() {
						s, ok := rr.(*ssa.Store)
						if !ok {
							continue
						}
						if st.Field(fa.Field).Name() != "Entities" {
							envOK = false
							continue
						}
						mk, ok := stripConv(s.Val).(*ssa.MakeMap)
						if !ok {
							envOK = false
							continue
						}
						for _, mr := range *mk.Referrers() {
							if _, isUpd := mr.(*ssa.MapUpdate); isUpd {
								envOK = false
							}
						}
					}
				}
			}
		}
	}
	r.Check(envOK, rule, q+":empty-env", p.pos(evalCall.Pos()), "the folding evaluation sees an empty entity store and no request", "the folding evaluation is given an environment other than {Entities: empty}: folding may depend on request or entity data")
	// every child is folded recursively and written back in place (nodes[i] = fold(n))
	rec := false
	for _, c := range callsIn(fn) {
		if isCallTo(c, pEval, "fold") {
			rec = true
		}
	}
	r.Check(rec, rule, q+":recursive", p.pos(fn.Pos()), "children are folded recursively", "children are not folded recursively")
}

// checkEnvReadsUnderEntityCase: in the evaluators the folder constructs under the not-an-entity
// guard, every environment read is itself under the entity case of the operand switch.
func checkEnvReadsUnderEntityCase(p *Prog, r *Report) {
	const rule = "R4.2-env-independence"
	for _, tn := range []string{"attributeAccessEval", "hasEval"} {
		fn := p.fn(pEval, tn+".Eval")
		if fn == nil {
			r.Anchor(rule, "eval."+tn+".Eval")
			continue
		}
		good := true
		n := 0
		for _, c := range callsIn(fn) {
			call, ok := c.(*ssa.Call)
			if !ok || !call.Call.IsInvoke() || call.Call.Method.Name() != "Get" || !typeIs(call.Call.Value.Type(), pTypes, "EntityGetter") {
				continue
			}
			n++
			under := false
			for _, g := range guardsAt(call.Block()) {
				g = flattenGuard(g)
				if ex, ok := g.Cond.(*ssa.Extract); ok && g.Pol {
					if ta, ok := ex.Tuple.(*ssa.TypeAssert); ok && typeIs(ta.AssertedType, pTypes, "EntityUID") {
						under = true
					}
				}
			}
			if !under {
				good = false
			}
		}
		r.Check(good && n > 0, rule, "eval."+tn+".Eval:env-read-under-entity", p.pos(fn.Pos()), "the entity store is consulted only for entity operands", tn+" consults the entity store outside the entity-operand case, but the folder evaluates it for non-entity operands against an empty store")
	}
}

// checkFoldFresh: R4.4 — slices given to the in-place helper are fresh; fold and foldPolicy write
// nothing reachable from their argument.
func checkFoldFresh(p *Prog, r *Report) {
	const rule = "R4.4-fresh-copy"
	m := p.modref()
	tf := p.fn(pEval, "tryFold")
	for _, name := range []string{"fold", "foldPolicy", "tryFoldBinary", "tryFoldUnary"} {
		fn := p.fn(pEval, name)
		if fn == nil {
			r.Anchor(rule, "eval."+name)
			continue
		}
		s := m.sums[fn]
		var bad []string
		for k, e := range s.writes {
			if k.Kind == okParam || k.Kind == okGlobal || k.Kind == okExternal {
				bad = append(bad, k.String()+" ("+e.Origin+")")
			}
		}
		sort.Strings(bad)
		r.Check(len(bad) == 0, rule, "eval."+name+":no-input-writes", p.pos(fn.Pos()), "writes only memory it allocated", name+" writes memory reachable from its argument: "+strings.Join(bad, "; ")+" — the caller's AST is modified by compilation")
		// call sites of tryFold inside: first argument fresh
		u := m.unitInfo[fn]
		if u == nil || tf == nil {
			continue
		}
		for _, f := range withAnon(fn) {
			for _, c := range callsIn(f) {
				if c.Common().StaticCallee() != tf {
					continue
				}
				fresh := true
				for l := range u.val(c.Common().Args[0]).flat() {
					if l.o.key.Kind != okSite {
						fresh = false
					}
				}
				r.Check(fresh, rule, "eval."+name+":tryFold-arg", p.pos(c.Pos()), "the slice folded in place is freshly allocated here", "tryFold rewrites its slice argument in place, and here it is given a slice that belongs to the node being folded")
			}
		}
	}
	if tf != nil {
		s := m.sums[tf]
		onlyP0 := true
		for k := range s.writes {
			if !(k.Kind == okParam && k.Idx == 0 && !k.Deep) {
				onlyP0 = false
			}
		}
		r.Check(onlyP0, rule, "eval.tryFold:writes", p.pos(tf.Pos()), "tryFold writes only the slice it is given", "tryFold writes memory other than its slice argument")
	}
}

// singleLocalDef: the one expression ever assigned to the local variable id names inside fl
// (declared there with := or var, never re-assigned, never address-taken); nil otherwise.
func singleLocalDef(info *types.Info, fl *ast.FuncLit, id *ast.Ident) ast.Expr {
	obj := info.Uses[id]
	if obj == nil || obj.Pos() < fl.Body.Pos() || obj.Pos() > fl.Body.End() {
		return nil
	}
	var defs []ast.Expr
	bad := false
	ast.Inspect(fl.Body, func(n ast.Node) bool {
		switch x := n.(type) {
		case *ast.AssignStmt:
			for i, l := range x.Lhs {
				lid, ok := l.(*ast.Ident)
				if !ok || (info.Defs[lid] != obj && info.Uses[lid] != obj) {
					continue
				}
				if len(x.Lhs) != len(x.Rhs) {
					bad = true
					continue
				}
				defs = append(defs, x.Rhs[i])
			}
		case *ast.ValueSpec:
			for i, nm := range x.Names {
				if info.Defs[nm] == obj {
					if i < len(x.Values) {
						defs = append(defs, x.Values[i])
					} else {
						bad = true
					}
				}
			}
		case *ast.UnaryExpr:
			if x.Op == token.AND {
				if xid, ok := ast.Unparen(x.X).(*ast.Ident); ok && info.Uses[xid] == obj {
					bad = true
				}
			}
		case *ast.IncDecStmt:
			if xid, ok := x.X.(*ast.Ident); ok && info.Uses[xid] == obj {
				bad = true
			}
		}
		return true
	})
	if bad || len(defs) != 1 {
		return nil
	}
	return defs[0]
}
