package main

// C02 — authorization decision: default deny, forbid overrides permit, errors skip.
// Decided structurally for every authorizer loop in the module (the public one and the batch
// package's private sibling): no early exit; classification of each policy by control
// dependence; forbid-first decision; a policy is the conjunction of scope and conditions.

import (
	"go/ast"
	"go/constant"
	"go/token"
	"go/types"
	"sort"
	"strings"

	"golang.org/x/tools/go/ssa"
)

func init() {
	register(&propCheck{
		ID: "C02",
		Explanation: "Static decision-table check of every authorizer loop (calls of eval.BoolEvaler.Eval outside internal/eval): " +
			"R2.1 the policy loop has no early exit; R2.2 each append to the errors/forbids/permits accumulators is guarded by exactly the " +
			"err/result/effect conditions and carries the loop's own policy id, that policy's position and that error's message; " +
			"R2.3 the decision after the loop tests forbids before permits and returns Deny/Allow/Deny with the matching reasons; " +
			"R2.4 eval.PolicyToNode conjoins every non-All scope clause and every condition (unless-bodies negated) with And only; " +
			"R2.5 scope lowering tables (eval.scopeToNode, parser.scopeToNode) map each scope kind to the prescribed operator. " +
			"R2.6 the lists a decision loop appends to are born empty inside the call that returns them (local cells whose every store is an own append or an empty list); every returned Diagnostic is the object the errors were appended to (or was given them); a write of an existing Policy's syntax tree is paired with a write of eval.Compile of that tree on the same object. " +
			"Not decided: that each compiled evaluator computes the right boolean (C01/C04).",
		Run: runC02,
	})
}

// authLoop describes one authorizer loop.
type authLoop struct {
	body  *ssa.Function // function containing the Eval call (yield closure or the function itself)
	outer *ssa.Function // function that owns the accumulators and returns the decision
	eval  *ssa.Call
	res   ssa.Value // Boolean result
	err   ssa.Value // error result
	key   ssa.Value // loop key (policy id)
	val   ssa.Value // loop value (policy)
	loop  *loopInfo // nil when body is a yield closure
	w     *webs
	name  string
}

func findAuthLoops(p *Prog) []*authLoop {
	var out []*authLoop
	for _, fn := range p.Funcs {
		if fnPkgPath(fn) == pEval || testSupportPkgs[fnPkgPath(fn)] {
			continue
		}
		for _, c := range callsIn(fn) {
			if !isCallTo(c, pEval, "BoolEvaler.Eval") {
				continue
			}
			call, ok := c.(*ssa.Call)
			if !ok {
				continue
			}
			al := &authLoop{body: fn, outer: fn, eval: call, name: fnQual(fn)}
			if isRangeFuncYield(fn) {
				al.outer = fn.Parent()
				if len(fn.Params) == 2 {
					al.key, al.val = fn.Params[0], fn.Params[1]
				}
			} else {
				al.loop = innermostLoop(loopsOf(fn), call.Block())
				if al.loop != nil {
					// range over map: header has  t = next it ; extract #1 key, #2 value
					for _, in := range al.loop.Header.Instrs {
						if nx, ok := in.(*ssa.Next); ok {
							if e := extractOf(nx, 1); e != nil {
								al.key = e
							}
							if e := extractOf(nx, 2); e != nil {
								al.val = e
							}
						}
					}
				}
			}
			if e := extractOf(call, 0); e != nil {
				al.res = e
			}
			if e := extractOf(call, 1); e != nil {
				al.err = e
			}
			al.w = buildWebs(withAnon(al.outer)...)
			out = append(out, al)
		}
	}
	sort.Slice(out, func(i, j int) bool { return out[i].name < out[j].name })
	return out
}

// nilTest recognises  v != nil / v == nil  guards on a given value; returns (isNonNil, ok).
func nilTest(g Guard, v ssa.Value) (bool, bool) {
	g = flattenGuard(g)
	b, ok := g.Cond.(*ssa.BinOp)
	if !ok || (b.Op != token.NEQ && b.Op != token.EQL) {
		return false, false
	}
	var other ssa.Value
	if b.X == v {
		other = b.Y
	} else if b.Y == v {
		other = b.X
	} else {
		return false, false
	}
	if !isNilConst(other) {
		return false, false
	}
	nonNil := b.Op == token.NEQ
	if !g.Pol {
		nonNil = !nonNil
	}
	return nonNil, true
}

// boolTest recognises a guard on a boolean value v itself (possibly negated / converted).
func boolTest(g Guard, v ssa.Value) (bool, bool) {
	g = flattenGuard(g)
	c := stripConv(g.Cond)
	if c == v || c == stripConv(v) {
		return g.Pol, true
	}
	// v == true / v == false
	if b, ok := c.(*ssa.BinOp); ok && (b.Op == token.EQL || b.Op == token.NEQ) {
		var other ssa.Value
		if stripConv(b.X) == stripConv(v) {
			other = b.Y
		} else if stripConv(b.Y) == stripConv(v) {
			other = b.X
		} else {
			return false, false
		}
		if cb, ok := constBool(other); ok {
			r := cb
			if b.Op == token.NEQ {
				r = !r
			}
			if !g.Pol {
				r = !r
			}
			return r, true
		}
	}
	return false, false
}

// nonEmptyFact recognises len(x) > 0, len(x) != 0, len(x) == 0, 0 < len(x), len(x) >= 1 guards;
// returns the measured value and whether the fact says "non-empty".
func nonEmptyFact(g Guard) (ssa.Value, bool, bool) {
	g = flattenGuard(g)
	b, ok := g.Cond.(*ssa.BinOp)
	if !ok {
		return nil, false, false
	}
	lenOf := func(v ssa.Value) ssa.Value {
		c, ok := v.(*ssa.Call)
		if ok && isBuiltin(&c.Call, "len") {
			return c.Call.Args[0]
		}
		return nil
	}
	x, y, op := b.X, b.Y, b.Op
	if lenOf(y) != nil && lenOf(x) == nil { // flip
		x, y = y, x
		switch op {
		case token.LSS:
			op = token.GTR
		case token.GTR:
			op = token.LSS
		case token.LEQ:
			op = token.GEQ
		case token.GEQ:
			op = token.LEQ
		}
	}
	s := lenOf(x)
	if s == nil {
		return nil, false, false
	}
	k, ok := constInt(y)
	if !ok {
		return nil, false, false
	}
	var nonEmpty bool
	switch {
	case op == token.GTR && k == 0, op == token.NEQ && k == 0, op == token.GEQ && k == 1:
		nonEmpty = true
	case op == token.EQL && k == 0, op == token.LEQ && k == 0, op == token.LSS && k == 1:
		nonEmpty = false
	default:
		return nil, false, false
	}
	if !g.Pol {
		nonEmpty = !nonEmpty
	}
	return s, nonEmpty, true
}

// effectConstIsPermit tells whether a boolean constant of an Effect type means "permit", by
// looking up the constants declared with that type in its package.
func effectConstIsPermit(t types.Type, val bool) (bool, bool) {
	n := namedOf(t)
	if n == nil || n.Obj().Pkg() == nil {
		return false, false
	}
	sc := n.Obj().Pkg().Scope()
	for _, name := range sc.Names() {
		c, ok := sc.Lookup(name).(*types.Const)
		if !ok || !constOfType(c, n) || c.Val().Kind() != constant.Bool {
			continue
		}
		if constant.BoolVal(c.Val()) == val {
			ln := strings.ToLower(name)
			if strings.Contains(ln, "permit") {
				return true, true
			}
			if strings.Contains(ln, "forbid") {
				return false, true
			}
		}
	}
	return false, false
}

// effectTest recognises a guard that tests a policy's effect; returns whether the guarded region
// runs for permit policies.
func effectTest(g Guard) (bool, bool) {
	g = flattenGuard(g)
	isEffect := func(t types.Type) bool {
		n := namedOf(t)
		return n != nil && n.Obj().Name() == "Effect" && n.Obj().Pkg() != nil && strings.HasPrefix(n.Obj().Pkg().Path(), modPath)
	}
	if b, ok := g.Cond.(*ssa.BinOp); ok && (b.Op == token.EQL || b.Op == token.NEQ) {
		var cv ssa.Value
		var ev ssa.Value
		if _, ok := b.Y.(*ssa.Const); ok {
			cv, ev = b.Y, b.X
		} else if _, ok := b.X.(*ssa.Const); ok {
			cv, ev = b.X, b.Y
		} else {
			return false, false
		}
		if !isEffect(ev.Type()) {
			return false, false
		}
		bv, ok := constBool(cv)
		if !ok {
			return false, false
		}
		permit, ok := effectConstIsPermit(ev.Type(), bv)
		if !ok {
			return false, false
		}
		if b.Op == token.NEQ {
			permit = !permit
		}
		if !g.Pol {
			permit = !permit
		}
		return permit, true
	}
	if isEffect(g.Cond.Type()) {
		permit, ok := effectConstIsPermit(g.Cond.Type(), true)
		if !ok {
			return false, false
		}
		if !g.Pol {
			permit = !permit
		}
		return permit, true
	}
	return false, false
}

// appendedElems returns the element values appended by an append call of the variadic-literal
// form append(s, e1, e2...) (go/ssa: a [n]T varargs array sliced), or nil when it is append(s, t...).
func appendedStructFields(app *ssa.Call) (map[string]ssa.Value, *types.Struct, bool) {
	if len(app.Call.Args) != 2 {
		return nil, nil, false
	}
	sl, ok := app.Call.Args[1].(*ssa.Slice)
	if !ok {
		return nil, nil, false
	}
	arr, ok := sl.X.(*ssa.Alloc)
	if !ok {
		return nil, nil, false
	}
	at, ok := arr.Type().Underlying().(*types.Pointer).Elem().Underlying().(*types.Array)
	if !ok || at.Len() != 1 {
		return nil, nil, false
	}
	// find store to &arr[0]
	var elem ssa.Value
	for _, r := range *arr.Referrers() {
		if ia, ok := r.(*ssa.IndexAddr); ok {
			for _, rr := range *ia.Referrers() {
				if st, ok := rr.(*ssa.Store); ok && st.Addr == ia {
					elem = st.Val
				}
			}
		}
	}
	if elem == nil {
		return nil, nil, false
	}
	st, ok := elem.Type().Underlying().(*types.Struct)
	if !ok {
		return nil, nil, false
	}
	ld, ok := elem.(*ssa.UnOp)
	if !ok || ld.Op != token.MUL {
		return nil, st, false
	}
	lit, ok := ld.X.(*ssa.Alloc)
	if !ok {
		return nil, st, false
	}
	fields := map[string]ssa.Value{}
	for _, r := range *lit.Referrers() {
		if fa, ok := r.(*ssa.FieldAddr); ok {
			for _, rr := range *fa.Referrers() {
				if s, ok := rr.(*ssa.Store); ok && s.Addr == fa {
					fields[st.Field(fa.Field).Name()] = s.Val
				}
			}
		}
	}
	return fields, st, true
}

// leavesOf walks backwards from v through pure derivations (conversions, loads, field/index
// addressing, extracts, static calls' arguments and receivers, interface method receivers) and
// returns the leaf values.
func leavesOf(v ssa.Value, stop ...ssa.Value) []ssa.Value {
	var out []ssa.Value
	seen := map[ssa.Value]bool{}
	var rec func(ssa.Value)
	rec = func(x ssa.Value) {
		if seen[x] {
			return
		}
		seen[x] = true
		for _, s := range stop {
			if x == s {
				out = append(out, x)
				return
			}
		}
		switch y := x.(type) {
		case *ssa.ChangeType:
			rec(y.X)
		case *ssa.Convert:
			rec(y.X)
		case *ssa.MakeInterface:
			rec(y.X)
		case *ssa.ChangeInterface:
			rec(y.X)
		case *ssa.UnOp:
			rec(y.X)
		case *ssa.FieldAddr:
			rec(y.X)
		case *ssa.Field:
			rec(y.X)
		case *ssa.IndexAddr:
			rec(y.X)
		case *ssa.Extract:
			rec(y.Tuple)
		case *ssa.Call:
			if y.Call.IsInvoke() {
				rec(y.Call.Value)
			}
			if len(y.Call.Args) == 0 && !y.Call.IsInvoke() {
				out = append(out, x)
			}
			for _, a := range y.Call.Args {
				rec(a)
			}
		case *ssa.Phi:
			for _, e := range y.Edges {
				rec(e)
			}
		case *ssa.TypeAssert:
			rec(y.X)
		case *ssa.Alloc:
			// a spilled local: whatever was stored into it (whole-object stores only)
			n := 0
			if y.Referrers() != nil {
				for _, r := range *y.Referrers() {
					if st, ok := r.(*ssa.Store); ok && st.Addr == y {
						n++
						rec(st.Val)
					}
				}
			}
			if n == 0 {
				out = append(out, x)
			}
		default:
			out = append(out, x)
		}
	}
	rec(v)
	return out
}

// derivesOnlyFrom: every non-constant leaf of v is one of roots, and at least one root is reached.
func derivesOnlyFrom(v ssa.Value, roots ...ssa.Value) bool {
	hit := false
	for _, l := range leavesOf(v, roots...) {
		if _, isC := l.(*ssa.Const); isC {
			continue
		}
		ok := false
		for _, r := range roots {
			if l == r {
				ok = true
			}
		}
		if !ok {
			return false
		}
		hit = true
	}
	return hit
}

func runC02(p *Prog, r *Report) {
	loops := findAuthLoops(p)
	if len(loops) < 2 {
		r.Anchor("R2.anchor", "authorizer loops (calls of eval.BoolEvaler.Eval outside internal/eval): found "+itoa(len(loops))+", expected >= 2")
	}
	for _, al := range loops {
		checkAuthLoop(p, r, al)
	}
	checkPolicyToNode(p, r)
	checkEvaluatorFollowsTree(p, r)
	checkScopeTables(p, r)
	r.Floor("R2.1-no-early-exit", 2)
	r.Floor("R2.2-classification", 6)
	r.Floor("R2.3-decision", 6)
	r.Floor("R2.4-conjunction", 6)
	r.Floor("R2.5-scope-table", 10)
}

func checkAuthLoop(p *Prog, r *Report, al *authLoop) {
	pos := p.pos(al.eval.Pos())
	name := al.name
	if al.res == nil || al.err == nil || al.key == nil || al.val == nil {
		r.Undec("R2.1-no-early-exit", name, pos, "cannot identify loop key/value or the evaluator's results (loop form not recognised)")
		return
	}
	// R2.1 no early exit
	if isRangeFuncYield(al.body) {
		ok := true
		for _, b := range al.body.Blocks {
			if ret, isR := lastInstr(b).(*ssa.Return); isR {
				if cb, isC := constBool(ret.Results[0]); !isC || !cb {
					ok = false
					r.Viol("R2.1-no-early-exit", name, p.pos(ret.Pos()), "policy loop body can stop the iteration early (break/return inside the loop over policies): not every policy is evaluated")
				}
			}
		}
		if ok {
			r.OK("R2.1-no-early-exit", name, pos, "every exit of the range-over-func body continues the iteration")
		}
	} else {
		if al.loop == nil {
			r.Undec("R2.1-no-early-exit", name, pos, "evaluator call is not inside a loop")
			return
		}
		ok := true
		for _, e := range al.loop.exitEdges() {
			if e[0] != al.loop.Header {
				ok = false
				r.Viol("R2.1-no-early-exit", name, p.pos(lastInstr(e[0]).Pos()), "policy loop has an exit other than exhaustion of the iteration (break/return/panic inside the loop)")
			}
		}
		if ok {
			r.OK("R2.1-no-early-exit", name, pos, "the only loop exit is exhaustion of the policy map")
		}
	}

	// collect appends to diagnostic accumulators in the body
	type sink struct {
		app  *ssa.Call
		kind string // "error" | "reason"
	}
	var sinks []sink
	forEachInstr(al.body, func(in ssa.Instruction) {
		c, ok := in.(*ssa.Call)
		if !ok || !isBuiltin(&c.Call, "append") {
			return
		}
		sl, ok := c.Type().Underlying().(*types.Slice)
		if !ok {
			return
		}
		switch {
		case typeIs(sl.Elem(), pTypes, "DiagnosticError"):
			sinks = append(sinks, sink{c, "error"})
		case typeIs(sl.Elem(), pTypes, "DiagnosticReason"):
			sinks = append(sinks, sink{c, "reason"})
		}
	})
	var forbidWeb, permitWeb, errWeb any
	nErr, nForbid, nPermit := 0, 0, 0
	for _, s := range sinks {
		spos := p.pos(s.app.Pos())
		gs := guardsAt(s.app.Block())
		errNonNil, errKnown := false, false
		resTrue, resKnown := false, false
		permit, effKnown := false, false
		var extra []string
		for _, g := range gs {
			if v, ok := nilTest(g, al.err); ok {
				errNonNil, errKnown = v, true
				continue
			}
			if v, ok := boolTest(g, al.res); ok {
				resTrue, resKnown = v, true
				continue
			}
			if v, ok := effectTest(g); ok {
				permit, effKnown = v, true
				continue
			}
			if al.loop != nil && g.If.Block() == al.loop.Header {
				continue // the iteration's own continuation test
			}
			if isRangeFuncYield(al.body) && g.If.Block() == al.body.Blocks[0] {
				continue // synthetic yield-state check
			}
			extra = append(extra, p.pos(g.If.Pos()))
		}
		if fresh, why := accumulatorBirth(al.w, al.outer, s.app.Parent(), s.app.Call.Args[0]); true {
			r.Check(fresh, "R2.6-fresh-accumulators", name+":"+s.kind+":"+describeVal(s.app.Call.Args[0]), spos, "the list appended to is a local that starts empty in this call",
				"the "+s.kind+" list appended to is not born empty inside this call: "+why+" — a later decision then reports entries of an earlier one, or overwrites a Diagnostic an earlier caller still holds")
		}
		fields, _, ok := appendedStructFields(s.app)
		if !ok {
			r.Undec("R2.2-classification", name+":"+s.kind, spos, "appended element is not a struct literal the rule can read")
			continue
		}
		if len(extra) > 0 {
			r.Viol("R2.2-classification", name+":"+s.kind, spos, "append to the "+s.kind+" list is additionally guarded by a condition the decision table does not contain (at "+strings.Join(extra, ", ")+")")
			continue
		}
		idOK := fields["PolicyID"] != nil && stripConv(fields["PolicyID"]) == al.key
		posOK := fields["Position"] != nil && derivesOnlyFrom(fields["Position"], al.val)
		switch s.kind {
		case "error":
			nErr++
			errWeb = al.w.find(s.app)
			msgOK := fields["Message"] != nil && derivesOnlyFrom(fields["Message"], al.err)
			r.Check(errKnown && errNonNil, "R2.2-classification", name+":error:guard", spos,
				"error entry is appended exactly under err != nil", "append to Diagnostic.Errors is not guarded by the evaluator's err != nil")
			r.Check(idOK, "R2.2-classification", name+":error:id", spos, "PolicyID is the loop's policy id", "DiagnosticError.PolicyID is not the id of the policy being evaluated")
			r.Check(posOK, "R2.2-classification", name+":error:position", spos, "Position derives from the loop's policy", "DiagnosticError.Position does not come from the policy being evaluated")
			r.Check(msgOK, "R2.2-classification", name+":error:message", spos, "Message derives from this evaluation's error", "DiagnosticError.Message is not the message of this evaluation's error")
			// after recording the error the iteration must not fall into the reasons code: checked by the reason guards below
		case "reason":
			good := errKnown && !errNonNil && resKnown && resTrue && effKnown
			r.Check(good, "R2.2-classification", name+":reason:guard@"+boolStr(permit, "permit", "forbid"), spos,
				"reason entry appended only under err == nil && result && effect test",
				"append to a reasons list must be guarded by err == nil, result == true and a test of the policy's effect (found err-known="+boolStr(errKnown, "y", "n")+" err-nonnil="+boolStr(errNonNil, "y", "n")+" result-known="+boolStr(resKnown, "y", "n")+" result="+boolStr(resTrue, "true", "false")+" effect-known="+boolStr(effKnown, "y", "n")+")")
			r.Check(idOK, "R2.2-classification", name+":reason:id@"+boolStr(permit, "permit", "forbid"), spos, "PolicyID is the loop's policy id", "DiagnosticReason.PolicyID is not the id of the policy being evaluated")
			r.Check(posOK, "R2.2-classification", name+":reason:position@"+boolStr(permit, "permit", "forbid"), spos, "Position derives from the loop's policy", "DiagnosticReason.Position does not come from the policy being evaluated")
			if good {
				if permit {
					nPermit++
					permitWeb = al.w.find(s.app)
				} else {
					nForbid++
					forbidWeb = al.w.find(s.app)
				}
			}
		}
	}
	if nErr != 1 || nForbid != 1 || nPermit != 1 {
		r.Viol("R2.2-classification", name+":sinks", pos, "expected exactly one append each to errors, forbid reasons and permit reasons inside the policy loop; found errors="+itoa(nErr)+" forbid="+itoa(nForbid)+" permit="+itoa(nPermit))
		return
	}
	if forbidWeb == permitWeb || forbidWeb == errWeb {
		r.Viol("R2.2-classification", name+":sinks", pos, "forbid and permit reasons are accumulated in the same list")
		return
	}
	r.OK("R2.2-classification", name+":sinks", pos, "three distinct accumulators: errors, forbid reasons, permit reasons")
	// accumulators are never reset inside the loop (phi edges from inside the loop must not be constants;
	// stores into the accumulator cells inside the body must be the appends)
	resetOK := true
	for _, fn := range withAnon(al.outer) {
		forEachInstr(fn, func(in ssa.Instruction) {
			switch x := in.(type) {
			case *ssa.Store:
				cw := al.w.find(al.w.cellOf(x.Addr))
				if cw == forbidWeb || cw == permitWeb || cw == errWeb {
					if c, ok := x.Val.(*ssa.Call); ok && isBuiltin(&c.Call, "append") && al.w.find(c) == cw {
						return
					}
					if _, isC := x.Val.(*ssa.Const); isC && fn == al.outer && al.loop == nil {
						return // zero initialisation in the outer function
					}
					if sl, isSl := x.Val.(*ssa.Slice); isSl && fn == al.outer && al.loop == nil {
						// make(T, 0, constant) is lowered to a fresh array sliced [:0]
						if arr, isA := sl.X.(*ssa.Alloc); isA && sl.High != nil {
							if n, isK := constInt(sl.High); isK && n == 0 && arr.Comment == "makeslice" {
								return
							}
						}
					}
					if ms, isMk := x.Val.(*ssa.MakeSlice); isMk && fn == al.outer && al.loop == nil {
						if n, isK := constInt(ms.Len); isK && n == 0 {
							return // pre-sized but empty (make(T, 0, n)) in the outer function
						}
					}
					resetOK = false
					r.Viol("R2.2-classification", name+":accumulator-write", p.pos(x.Pos()), "an accumulator of the decision is overwritten by something other than its own append")
				}
			case *ssa.Phi:
				cw := al.w.find(x)
				if cw == forbidWeb || cw == permitWeb || cw == errWeb {
					for i, e := range x.Edges {
						if _, isC := e.(*ssa.Const); isC && al.loop != nil && al.loop.Body[x.Block().Preds[i]] {
							resetOK = false
							r.Viol("R2.2-classification", name+":accumulator-write", p.pos(x.Pos()), "an accumulator of the decision is reset inside the policy loop")
						}
					}
				}
			}
		})
	}
	if resetOK {
		r.OK("R2.2-classification", name+":accumulator-write", pos, "accumulators are only ever appended to")
	}

	// R2.3 decision
	checkDecision(p, r, al, forbidWeb, permitWeb)
	checkErrorsReturnedWithDecision(p, r, al, errWeb)
}

// constOfType: c is a constant of named type n, or an untyped constant whose name carries the
// type's name as a prefix (the repository declares `ConditionWhen = true` untyped).
func constOfType(c *types.Const, n *types.Named) bool {
	if types.Identical(c.Type(), n) {
		return true
	}
	if b, ok := c.Type().(*types.Basic); ok && b.Info()&types.IsUntyped != 0 {
		return strings.HasPrefix(c.Name(), n.Obj().Name())
	}
	return false
}

func boolStr(b bool, t, f string) string {
	if b {
		return t
	}
	return f
}

func checkDecision(p *Prog, r *Report, al *authLoop, forbidWeb, permitWeb any) {
	name := al.name
	outer := al.outer
	type site struct {
		blk  *ssa.BasicBlock
		val  bool
		pos  token.Pos
		edge *Guard // additional fact carried by the phi edge itself
	}
	var sites []site
	undec := false
	for _, b := range outer.Blocks {
		ret, ok := lastInstr(b).(*ssa.Return)
		if !ok || len(ret.Results) < 1 {
			continue
		}
		dv := retVal(ret, 0)
		if !typeIs(dv.Type(), pTypes, "Decision") {
			continue
		}
		switch x := dv.(type) {
		case *ssa.Const:
			bv, _ := constBool(x)
			sites = append(sites, site{blk: b, val: bv, pos: ret.Pos()})
		case *ssa.Phi:
			for i, e := range x.Edges {
				if bv, ok := constBool(e); ok {
					pred := x.Block().Preds[i]
					st := site{blk: pred, val: bv, pos: ret.Pos()}
					if iff, ok := lastInstr(pred).(*ssa.If); ok && pred.Succs[0] != pred.Succs[1] {
						st.edge = &Guard{Cond: iff.Cond, Pol: pred.Succs[0] == x.Block(), If: iff}
					}
					sites = append(sites, st)
				} else {
					undec = true
				}
			}
		default:
			undec = true
		}
	}
	if undec || len(sites) == 0 {
		r.Undec("R2.3-decision", name, p.pos(outer.Pos()), "the returned Decision is not a constant on every path; decision table cannot be read")
		return
	}
	// which constant means Allow
	allowVal := true
	if c, ok := p.Pkgs[pTypes].Types.Scope().Lookup("Allow").(*types.Const); ok && c.Val().Kind() == constant.Bool {
		allowVal = constant.BoolVal(c.Val())
	} else {
		r.Anchor("R2.3-decision", "types.Allow constant")
		return
	}
	// Reasons stores
	type rstore struct {
		st  *ssa.Store
		web any
	}
	var rstores []rstore
	forEachInstr(outer, func(in ssa.Instruction) {
		st, ok := in.(*ssa.Store)
		if !ok {
			return
		}
		fa, ok := st.Addr.(*ssa.FieldAddr)
		if !ok {
			return
		}
		stt, ok := fa.X.Type().Underlying().(*types.Pointer).Elem().Underlying().(*types.Struct)
		if !ok || !typeIs(fa.X.Type().Underlying().(*types.Pointer).Elem(), pTypes, "Diagnostic") {
			return
		}
		if stt.Field(fa.Field).Name() != "Reasons" {
			return
		}
		rstores = append(rstores, rstore{st, al.w.find(st.Val)})
	})
	facts := func(b *ssa.BasicBlock, extra ...*Guard) (forbidNE, forbidKnown, permitNE, permitKnown bool) {
		gs := guardsAt(b)
		for _, e := range extra {
			if e != nil {
				gs = append(gs, *e)
			}
		}
		for _, g := range gs {
			if s, ne, ok := nonEmptyFact(g); ok {
				switch al.w.find(s) {
				case forbidWeb:
					forbidNE, forbidKnown = ne, true
				case permitWeb:
					permitNE, permitKnown = ne, true
				}
			}
		}
		return
	}
	for _, rs := range rstores {
		fNE, fK, pNE, pK := facts(rs.st.Block())
		spos := p.pos(rs.st.Pos())
		switch rs.web {
		case forbidWeb:
			r.Check(fK && fNE, "R2.3-decision", name+":reasons=forbids", spos, "Reasons := forbid reasons only when some forbid policy is satisfied", "Diagnostic.Reasons is set to the forbid reasons without a dominating len(forbids) > 0 test")
		case permitWeb:
			r.Check(fK && !fNE && pK && pNE, "R2.3-decision", name+":reasons=permits", spos, "Reasons := permit reasons only when no forbid and some permit is satisfied", "Diagnostic.Reasons is set to the permit reasons without dominating tests len(forbids) == 0 and len(permits) > 0 (forbid must be tested first)")
		default:
			r.Viol("R2.3-decision", name+":reasons=other", spos, "Diagnostic.Reasons is assigned something other than the forbid or permit accumulator")
		}
	}
	hasReasonStore := func(b *ssa.BasicBlock, web any) bool {
		for _, rs := range rstores {
			if rs.web == web && (rs.st.Block() == b || rs.st.Block().Dominates(b)) {
				return true
			}
		}
		return false
	}
	anyReasonStoreDominating := func(b *ssa.BasicBlock) bool {
		for _, rs := range rstores {
			if rs.st.Block() == b || rs.st.Block().Dominates(b) {
				return true
			}
		}
		return false
	}
	nAllow := 0
	for _, s := range sites {
		fNE, fK, pNE, pK := facts(s.blk, s.edge)
		spos := p.pos(s.pos)
		if s.val == allowVal {
			nAllow++
			ok := fK && !fNE && pK && pNE && hasReasonStore(s.blk, permitWeb)
			r.Check(ok, "R2.3-decision", name+":allow", spos, "Allow only when no forbid and at least one permit is satisfied, with the permit reasons", "Allow is returned on a path that has not established len(forbids) == 0 && len(permits) > 0 with Reasons = permits")
		} else {
			ok1 := fK && fNE && hasReasonStore(s.blk, forbidWeb)
			ok2 := fK && !fNE && pK && !pNE && !anyReasonStoreDominating(s.blk)
			which := "deny-forbid"
			if !ok1 {
				which = "deny-default"
			}
			r.Check(ok1 || ok2, "R2.3-decision", name+":"+which, spos, "Deny with forbid reasons, or default Deny with no reasons", "a Deny return is neither (len(forbids) > 0 with Reasons = forbids) nor (no forbid, no permit, no reasons)")
		}
	}
	r.Check(nAllow >= 1, "R2.3-decision", name+":allow-exists", p.pos(outer.Pos()), "an Allow outcome exists", "no path returns Allow")
}

// ---------------------------------------------------------------------------------------------
// R2.4: PolicyToNode

func checkPolicyToNode(p *Prog, r *Report) {
	const rule = "R2.4-conjunction"
	fn := p.fn(pEval, "PolicyToNode")
	if fn == nil {
		// role-based fallback: func(*ast.Policy) ast.Node in internal/eval
		for _, f := range p.Funcs {
			if fnPkgPath(f) == pEval && f.Parent() == nil && f.Signature.Recv() == nil && f.Signature.Params().Len() == 1 && f.Signature.Results().Len() == 1 &&
				typeIs(f.Signature.Params().At(0).Type(), pXAst, "Policy") && typeIs(f.Signature.Results().At(0).Type(), pXAst, "Node") {
				fn = f
			}
		}
	}
	if fn == nil {
		r.Anchor(rule, "eval.PolicyToNode (func(*ast.Policy) ast.Node)")
		return
	}
	name := fnQual(fn)
	w := buildWebs(withAnon(fn)...)
	param := fn.Params[0]
	// policy struct
	polT := p.namedType(pXAst, "Policy")
	if polT == nil {
		r.Anchor(rule, "x/exp/ast.Policy")
		return
	}
	pst := polT.Underlying().(*types.Struct)
	fieldName := func(fa *ssa.FieldAddr) string { return pst.Field(fa.Field).Name() }
	// the compile entry must use it: Compile -> PolicyToNode -> ToEval
	// (a) scope conjuncts
	scopeFn := p.fn(pEval, "scopeToNode")
	if scopeFn == nil {
		r.Anchor(rule, "eval.scopeToNode")
		return
	}
	// "is All" facts: ok results of p.X.(ScopeTypeAll)
	allOK := map[ssa.Value]string{} // ok value -> field name
	forEachInstr(fn, func(in ssa.Instruction) {
		ta, ok := in.(*ssa.TypeAssert)
		if !ok || !ta.CommaOk || !typeIs(ta.AssertedType, pXAst, "ScopeTypeAll") {
			return
		}
		if ld, ok := ta.X.(*ssa.UnOp); ok && ld.Op == token.MUL {
			if fa, ok := ld.X.(*ssa.FieldAddr); ok && fa.X == param {
				if e := extractOf(ta, 1); e != nil {
					allOK[e] = fieldName(fa)
				}
			}
		}
	})
	var nodesWeb any
	seenScope := map[string]bool{}
	for _, c := range callsIn(fn) {
		if c.Common().StaticCallee() != scopeFn {
			continue
		}
		call := c.(*ssa.Call)
		cpos := p.pos(call.Pos())
		// arg1 must be field X of the policy
		fld := ""
		if ld, ok := stripConv(call.Call.Args[1]).(*ssa.UnOp); ok && ld.Op == token.MUL {
			if fa, ok := ld.X.(*ssa.FieldAddr); ok && fa.X == param {
				fld = fieldName(fa)
			}
		}
		if fld == "" {
			r.Undec(rule, name+":scope-call", cpos, "scope argument is not a field of the policy")
			continue
		}
		// arg0 must be the variable node of the same name
		varName := ""
		if vc, ok := call.Call.Args[0].(*ssa.Call); ok {
			if cal := vc.Call.StaticCallee(); cal != nil {
				varName = variableNodeName(cal)
			}
		}
		r.Check(strings.EqualFold(varName, fld), rule, name+":scope-pair:"+fld, cpos, "scope clause "+fld+" is lowered against variable "+varName, "scope clause "+fld+" is lowered against variable `"+varName+"` (must be the variable of the same request part)")
		// guards: only (XAll == false) for the same field
		good := true
		for _, g := range guardsAt(call.Block()) {
			g = flattenGuard(g)
			f, ok := allOK[g.Cond]
			if !ok || f != fld || g.Pol {
				good = false
			}
		}
		r.Check(good, rule, name+":scope-guard:"+fld, cpos, "the "+fld+" scope conjunct is omitted only when that scope is `All`", "the "+fld+" scope conjunct is skipped under a condition other than `that scope is All`")
		// appended to nodes
		appended := false
		usesTransitively(call, func(in ssa.Instruction) bool {
			if a, ok := in.(*ssa.Call); ok && isBuiltin(&a.Call, "append") {
				appended = true
				nodesWeb = w.find(a)
			}
			_, isStore := in.(*ssa.Store)
			_, isIdx := in.(*ssa.IndexAddr)
			return !isStore && !isIdx || true
		})
		if !appended {
			// go/ssa: value stored into varargs array then sliced and appended
			appended, nodesWeb = flowsToAppend(call, w)
		}
		r.Check(appended, rule, name+":scope-appended:"+fld, cpos, "conjunct is added to the list", "the lowered "+fld+" scope clause is not added to the conjunct list")
		seenScope[fld] = true
	}
	for _, f := range []string{"Principal", "Action", "Resource"} {
		if !seenScope[f] {
			r.Viol(rule, name+":scope-missing:"+f, p.pos(fn.Pos()), "no conjunct is built for the "+f+" scope clause")
		}
	}
	if nodesWeb == nil {
		r.Undec(rule, name+":nodes", p.pos(fn.Pos()), "conjunct list not identified")
		return
	}
	// (b) conditions loop: every element appended; unless negated
	condOK := checkConditionsLoop(p, r, fn, w, nodesWeb, param, pst)
	_ = condOK
	// (c) only combinator is And; fold covers every element
	checkFold(p, r, fn, w, nodesWeb)
	// (d) Compile uses PolicyToNode's result and BoolEvaler converts with ValueToBool
	if cf := p.fn(pEval, "Compile"); cf != nil {
		usesP2N, usesToEval := false, false
		for _, c := range callsIn(cf) {
			if c.Common().StaticCallee() == fn {
				usesP2N = true
			}
			if isCallTo(c, pEval, "ToEval") {
				usesToEval = true
			}
		}
		r.Check(usesP2N && usesToEval, rule, "eval.Compile", p.pos(cf.Pos()), "Compile = ToEval(PolicyToNode(fold(p)))", "eval.Compile no longer builds its evaluator from PolicyToNode via ToEval")
		// the policy handed to PolicyToNode is the folder's result for the given policy and nothing else
		chainOK := false
		var others []string
		for _, c := range callsIn(cf) {
			call, ok := c.(*ssa.Call)
			if !ok {
				continue
			}
			g := call.Call.StaticCallee()
			if g == nil {
				continue
			}
			if g == fn {
				if inner, ok := call.Call.Args[0].(*ssa.Call); ok && inner.Call.StaticCallee() != nil && inner.Call.StaticCallee().Name() == "foldPolicy" && inner.Call.Args[0] == ssa.Value(cf.Params[0]) {
					chainOK = true
				}
				continue
			}
			switch g.Name() {
			case "foldPolicy", "ToEval", "AsIsNode":
			default:
				if fnPkgPath(g) == pEval {
					others = append(others, g.Name())
				}
			}
		}
		r.Check(chainOK && len(others) == 0, rule, "eval.Compile:chain", p.pos(cf.Pos()), "the compiled form is exactly fold -> conjunction -> evaluator", "eval.Compile transforms the policy by something other than foldPolicy before building the conjunction ("+strings.Join(others, ",")+"): any extra rewriting of conditions changes which policies are satisfied")
	} else {
		r.Anchor(rule, "eval.Compile")
	}
	if be := p.fn(pEval, "BoolEvaler.Eval"); be != nil {
		conv := false
		for _, c := range callsIn(be) {
			if isCallTo(c, pEval, "ValueToBool") {
				conv = true
			}
		}
		r.Check(conv, rule, "eval.BoolEvaler.Eval", p.pos(be.Pos()), "the policy result is converted with ValueToBool (non-boolean => error)", "BoolEvaler.Eval does not convert the result with ValueToBool")
	} else {
		r.Anchor(rule, "eval.BoolEvaler.Eval")
	}
}

// variableNodeName returns the constant variable name a NewXNode constructor stores in
// NodeTypeVariable.Name.
func variableNodeName(fn *ssa.Function) string {
	name := ""
	forEachInstr(fn, func(in ssa.Instruction) {
		if st, ok := in.(*ssa.Store); ok {
			if s, ok := constString(stripConv(st.Val)); ok {
				name = s
			}
		}
	})
	if name == "" {
		// returned struct constant?
		forEachInstr(fn, func(in ssa.Instruction) {
			if ret, ok := in.(*ssa.Return); ok && len(ret.Results) == 1 {
				for _, l := range leavesOf(ret.Results[0]) {
					if s, ok := constString(l); ok {
						name = s
					}
				}
			}
		})
	}
	return name
}

// flowsToAppend: v is stored into a varargs array that is then appended; returns the append's web.
func flowsToAppend(v ssa.Value, w *webs) (bool, any) {
	seen := map[ssa.Value]bool{}
	var found bool
	var web any
	var rec func(x ssa.Value)
	rec = func(x ssa.Value) {
		if seen[x] || x.Referrers() == nil {
			return
		}
		seen[x] = true
		for _, ref := range *x.Referrers() {
			switch y := ref.(type) {
			case *ssa.Store:
				if y.Val == x {
					if ia, ok := y.Addr.(*ssa.IndexAddr); ok {
						rec(ia.X)
					}
				}
			case *ssa.Slice:
				rec(y)
			case *ssa.Call:
				if isBuiltin(&y.Call, "append") {
					found = true
					web = w.find(y)
				} else if f := y.Call.StaticCallee(); f != nil && (fnShort(f) == "NewNode" || fnShort(f) == "Not") {
					rec(y)
				}
			case *ssa.ChangeType:
				rec(y)
			case *ssa.MakeInterface:
				rec(y)
			case *ssa.Phi:
				rec(y)
			}
		}
	}
	rec(v)
	return found, web
}

func checkConditionsLoop(p *Prog, r *Report, fn *ssa.Function, w *webs, nodesWeb any, param ssa.Value, pst *types.Struct) bool {
	const rule = "R2.4-conjunction"
	name := fnQual(fn)
	// find the loop ranging over p.Conditions: an IndexAddr on load(FieldAddr(param, Conditions))
	var elemAddr *ssa.IndexAddr
	forEachInstr(fn, func(in ssa.Instruction) {
		ia, ok := in.(*ssa.IndexAddr)
		if !ok {
			return
		}
		if ld, ok := ia.X.(*ssa.UnOp); ok && ld.Op == token.MUL {
			if fa, ok := ld.X.(*ssa.FieldAddr); ok && fa.X == param && pst.Field(fa.Field).Name() == "Conditions" {
				elemAddr = ia
			}
		}
	})
	if elemAddr == nil {
		r.Undec(rule, name+":conditions-loop", p.pos(fn.Pos()), "no indexed iteration over Policy.Conditions found")
		return false
	}
	loop := innermostLoop(loopsOf(fn), elemAddr.Block())
	if loop == nil {
		r.Undec(rule, name+":conditions-loop", p.pos(elemAddr.Pos()), "access to Policy.Conditions is not in a loop")
		return false
	}
	// the range index must run over all elements: for range lowering: index phi from -1 step +1 compared with len
	if !isFullRangeLoop(loop, elemAddr) {
		r.Undec(rule, name+":conditions-loop", p.pos(elemAddr.Pos()), "iteration over Policy.Conditions is not a plain `for range` over all elements")
		return false
	}
	// element value (a load of elemAddr, copy of struct) or field addresses of it
	condT := p.namedType(pXAst, "ConditionType")
	_ = condT
	// appends inside loop into nodesWeb
	type app struct {
		call     *ssa.Call
		negated  bool
		fromBody bool
	}
	var apps []app
	for b := range loop.Body {
		for _, in := range b.Instrs {
			c, ok := in.(*ssa.Call)
			if !ok || !isBuiltin(&c.Call, "append") || w.find(c) != nodesWeb {
				continue
			}
			// element appended
			el := appendedSingle(c)
			if el == nil {
				r.Undec(rule, name+":condition-append", p.pos(c.Pos()), "appended conjunct not recognised")
				continue
			}
			a := app{call: c}
			// peel Not(...) and NewNode(...)
			cur := el
			for {
				cc, ok := cur.(*ssa.Call)
				if !ok {
					break
				}
				f := cc.Call.StaticCallee()
				if f == nil {
					break
				}
				if fnIs(f, pXAst, "Not") {
					a.negated = !a.negated
					cur = cc.Call.Args[0]
					continue
				}
				if fnIs(f, pXAst, "NewNode") {
					cur = cc.Call.Args[0]
					continue
				}
				break
			}
			// cur must be the Body field of the loop element
			a.fromBody = isFieldOfElem(cur, elemAddr, "Body")
			apps = append(apps, a)
		}
	}
	ok := true
	appendBlocks := map[*ssa.BasicBlock]bool{}
	for _, a := range apps {
		apos := p.pos(a.call.Pos())
		appendBlocks[a.call.Block()] = true
		if !a.fromBody {
			ok = false
			r.Viol(rule, name+":condition-append", apos, "a conjunct appended in the conditions loop is not (the possibly negated) body of the current condition")
			continue
		}
		// guard on condition kind
		unless, known := false, false
		extra := false
		for _, g := range guardsAt(a.call.Block()) {
			if g.If.Block() == loop.Header || !loop.Body[g.If.Block()] {
				continue
			}
			u, k := conditionKindTest(g, elemAddr)
			if k {
				unless, known = u, true
			} else {
				extra = true
			}
		}
		if extra {
			ok = false
			r.Viol(rule, name+":condition-guard", apos, "a condition's conjunct is added under a guard other than the when/unless kind test")
			continue
		}
		if a.negated {
			r.Check(known && unless, rule, name+":unless-negated", apos, "unless-bodies are negated", "a negated condition body is not guarded by `kind == unless`")
		} else {
			r.Check(known && !unless, rule, name+":when-plain", apos, "when-bodies are conjoined as they are", "a condition body is conjoined un-negated without excluding the `unless` kind")
		}
	}
	if len(apps) < 2 {
		ok = false
		r.Viol(rule, name+":condition-append", p.pos(elemAddr.Pos()), "expected both a plain (when) and a negated (unless) append in the conditions loop")
	}
	// every iteration appends: header-body path cannot avoid the append blocks
	for _, s := range loop.Header.Succs {
		if loop.Body[s] {
			if reachableAvoiding(s, loop.Header, appendBlocks) {
				ok = false
				r.Viol(rule, name+":condition-skipped", p.pos(elemAddr.Pos()), "some path through the conditions loop adds no conjunct for the current condition")
			} else {
				r.OK(rule, name+":condition-every-iteration", p.pos(elemAddr.Pos()), "every iteration adds exactly the current condition's conjunct")
			}
		}
	}
	return ok
}

// appendedSingle returns the single element of append(s, e) in variadic-literal form.
func appendedSingle(app *ssa.Call) ssa.Value {
	if len(app.Call.Args) != 2 {
		return nil
	}
	sl, ok := app.Call.Args[1].(*ssa.Slice)
	if !ok {
		return nil
	}
	arr, ok := sl.X.(*ssa.Alloc)
	if !ok {
		return nil
	}
	var elem ssa.Value
	n := 0
	for _, r := range *arr.Referrers() {
		if ia, ok := r.(*ssa.IndexAddr); ok {
			for _, rr := range *ia.Referrers() {
				if st, ok := rr.(*ssa.Store); ok && st.Addr == ia {
					elem = st.Val
					n++
				}
			}
		}
	}
	if n != 1 {
		return nil
	}
	return elem
}

// isFieldOfElem: v is (a load of) field `name` of the loop element addressed by elemAddr
// (directly or via a copy of the element).
func isFieldOfElem(v ssa.Value, elemAddr *ssa.IndexAddr, name string) bool {
	v = stripConv(v)
	fieldNameOf := func(t types.Type, i int) string {
		if pt, ok := t.Underlying().(*types.Pointer); ok {
			t = pt.Elem()
		}
		st, ok := t.Underlying().(*types.Struct)
		if !ok {
			return ""
		}
		return st.Field(i).Name()
	}
	switch x := v.(type) {
	case *ssa.UnOp:
		if x.Op == token.MUL {
			if fa, ok := x.X.(*ssa.FieldAddr); ok && fieldNameOf(fa.X.Type(), fa.Field) == name {
				return fa.X == elemAddr || isCopyOfElem(fa.X, elemAddr)
			}
		}
	case *ssa.Field:
		if fieldNameOf(x.X.Type(), x.Field) == name {
			if ld, ok := x.X.(*ssa.UnOp); ok && ld.Op == token.MUL && ld.X == elemAddr {
				return true
			}
		}
	}
	return false
}

// isCopyOfElem: ptr is a local Alloc whose only store is *elemAddr.
func isCopyOfElem(ptr ssa.Value, elemAddr *ssa.IndexAddr) bool {
	a, ok := ptr.(*ssa.Alloc)
	if !ok {
		return false
	}
	n, good := 0, 0
	for _, r := range *a.Referrers() {
		if st, ok := r.(*ssa.Store); ok && st.Addr == a {
			n++
			if ld, ok := st.Val.(*ssa.UnOp); ok && ld.Op == token.MUL && ld.X == elemAddr {
				good++
			}
		}
	}
	return n == 1 && good == 1
}

// conditionKindTest recognises c.Condition == ConditionUnless / ConditionWhen guards.
func conditionKindTest(g Guard, elemAddr *ssa.IndexAddr) (unless bool, ok bool) {
	g = flattenGuard(g)
	b, isB := g.Cond.(*ssa.BinOp)
	var cv, kv ssa.Value
	if isB && (b.Op == token.EQL || b.Op == token.NEQ) {
		if _, ok := b.Y.(*ssa.Const); ok {
			cv, kv = b.Y, b.X
		} else if _, ok := b.X.(*ssa.Const); ok {
			cv, kv = b.X, b.Y
		}
	} else if isFieldOfElem(g.Cond, elemAddr, "Condition") {
		// bare boolean kind
		kv = g.Cond
	}
	if kv == nil || !isFieldOfElem(kv, elemAddr, "Condition") {
		return false, false
	}
	n := namedOf(kv.Type())
	if n == nil {
		return false, false
	}
	// constants of this type
	constMeaning := func(val constant.Value) (bool, bool) {
		sc := n.Obj().Pkg().Scope()
		for _, nm := range sc.Names() {
			c, ok := sc.Lookup(nm).(*types.Const)
			if !ok || !constOfType(c, n) || c.Val().Kind() != val.Kind() {
				continue
			}
			if constant.Compare(c.Val(), token.EQL, val) {
				ln := strings.ToLower(nm)
				if strings.Contains(ln, "unless") {
					return true, true
				}
				if strings.Contains(ln, "when") {
					return false, true
				}
			}
		}
		return false, false
	}
	var u bool
	var known bool
	if cv != nil {
		c := cv.(*ssa.Const)
		if c.Value == nil {
			return false, false
		}
		u, known = constMeaning(c.Value)
		if !known {
			return false, false
		}
		if b.Op == token.NEQ {
			u = !u
		}
	} else {
		u, known = constMeaning(constant.MakeBool(true))
		if !known {
			return false, false
		}
	}
	if !g.Pol {
		u = !u
	}
	return u, true
}

// isFullRangeLoop recognises go/ssa's lowering of `for i, x := range slice`: the loop header
// compares an index phi (init -1, step +1) against len(slice) and elemAddr indexes with it.
func isFullRangeLoop(loop *loopInfo, elemAddr *ssa.IndexAddr) bool {
	idx := elemAddr.Index
	bo, ok := idx.(*ssa.BinOp) // t = phi + 1
	if !ok || bo.Op != token.ADD {
		return false
	}
	one, ok := constInt(bo.Y)
	if !ok || one != 1 {
		return false
	}
	phi, ok := bo.X.(*ssa.Phi)
	if !ok || phi.Block() != loop.Header {
		return false
	}
	initOK, stepOK := false, false
	for i, e := range phi.Edges {
		if loop.Body[phi.Block().Preds[i]] {
			if e == bo {
				stepOK = true
			} else {
				return false
			}
		} else if k, ok := constInt(e); ok && k == -1 {
			initOK = true
		} else {
			return false
		}
	}
	if !initOK || !stepOK {
		return false
	}
	iff, ok := lastInstr(loop.Header).(*ssa.If)
	if !ok {
		return false
	}
	cmp, ok := iff.Cond.(*ssa.BinOp)
	if !ok || cmp.Op != token.LSS || cmp.X != bo {
		return false
	}
	ln, ok := cmp.Y.(*ssa.Call)
	if !ok || !isBuiltin(&ln.Call, "len") || ln.Call.Args[0] != elemAddr.X {
		return false
	}
	return loop.Body[loop.Header.Succs[0]]
}

func checkFold(p *Prog, r *Report, fn *ssa.Function, w *webs, nodesWeb any) {
	const rule = "R2.4-conjunction"
	name := fnQual(fn)
	// every method of ast.Node called in this function must be And
	bad := false
	var andCalls []*ssa.Call
	for _, c := range callsIn(fn) {
		f := c.Common().StaticCallee()
		if f == nil || f.Signature.Recv() == nil || !typeIs(f.Signature.Recv().Type(), pXAst, "Node") {
			continue
		}
		if f.Name() == "And" {
			andCalls = append(andCalls, c.(*ssa.Call))
			continue
		}
		if f.Name() == "AsIsNode" {
			continue
		}
		bad = true
		r.Viol(rule, name+":combinator", p.pos(c.Pos()), "conjuncts are combined with Node."+f.Name()+" (only And may combine scope clauses and conditions)")
	}
	if len(andCalls) != 1 {
		if !bad {
			r.Undec(rule, name+":combinator", p.pos(fn.Pos()), "expected exactly one And call folding the conjunct list, found "+itoa(len(andCalls)))
		}
		return
	}
	and := andCalls[0]
	r.OK(rule, name+":combinator", p.pos(and.Pos()), "the only combinator applied to the conjunct list is And")
	// recognise the descending fold: res := nodes[len-1]; for i := len-2; i >= 0; i-- { res = nodes[i].And(res) }
	// or ascending: res := nodes[0]; for i := 1; i < len; i++ { res = res.And(nodes[i]) }
	loop := innermostLoop(loopsOf(fn), and.Block())
	if loop == nil {
		r.Undec(rule, name+":fold", p.pos(and.Pos()), "And is not applied in a loop over the conjunct list")
		return
	}
	idxOf := func(v ssa.Value) ssa.Value { // nodes[i] load -> i
		if ld, ok := v.(*ssa.UnOp); ok && ld.Op == token.MUL {
			if ia, ok := ld.X.(*ssa.IndexAddr); ok && w.find(ia.X) == nodesWeb {
				return ia.Index
			}
		}
		return nil
	}
	lenOfNodes := func(v ssa.Value) bool {
		c, ok := v.(*ssa.Call)
		return ok && isBuiltin(&c.Call, "len") && w.find(c.Call.Args[0]) == nodesWeb
	}
	lenMinus := func(v ssa.Value, k int64) bool {
		b, ok := v.(*ssa.BinOp)
		if !ok || b.Op != token.SUB {
			return false
		}
		c, ok := constInt(b.Y)
		return ok && c == k && lenOfNodes(b.X)
	}
	recv, arg := and.Call.Args[0], and.Call.Args[1]
	resPhi, _ := arg.(*ssa.Phi)
	iv := idxOf(recv)
	desc := false
	if resPhi != nil && iv != nil {
		// res phi: init nodes[len-1], step = and
		initOK, stepOK := false, false
		for i, e := range resPhi.Edges {
			if loop.Body[resPhi.Block().Preds[i]] {
				stepOK = e == and
			} else if ii := idxOf(e); ii != nil && lenMinus(ii, 1) {
				initOK = true
			}
		}
		// i phi: init len-2, step i-1, cond i >= 0
		if iphi, ok := iv.(*ssa.Phi); ok && initOK && stepOK {
			iInit, iStep := false, false
			for i, e := range iphi.Edges {
				if loop.Body[iphi.Block().Preds[i]] {
					if b, ok := e.(*ssa.BinOp); ok && b.Op == token.SUB && b.X == iphi {
						if k, ok := constInt(b.Y); ok && k == 1 {
							iStep = true
						}
					}
				} else if lenMinus(e, 2) {
					iInit = true
				}
			}
			condOK := false
			if iff, ok := lastInstr(loop.Header).(*ssa.If); ok {
				if cmp, ok := iff.Cond.(*ssa.BinOp); ok && cmp.X == iphi {
					k, isK := constInt(cmp.Y)
					if isK && ((cmp.Op == token.GEQ && k == 0) || (cmp.Op == token.GTR && k == -1)) && loop.Body[loop.Header.Succs[0]] {
						condOK = true
					}
				}
			}
			desc = iInit && iStep && condOK
		}
	}
	asc := false
	if !desc {
		// ascending: recv is res phi, arg is nodes[i]
		rphi, _ := recv.(*ssa.Phi)
		ai := idxOf(arg)
		if rphi != nil && ai != nil {
			initOK, stepOK := false, false
			for i, e := range rphi.Edges {
				if loop.Body[rphi.Block().Preds[i]] {
					stepOK = e == and
				} else if ii := idxOf(e); ii != nil {
					if k, ok := constInt(ii); ok && k == 0 {
						initOK = true
					}
				}
			}
			if iphi, ok := ai.(*ssa.Phi); ok && initOK && stepOK {
				iInit, iStep := false, false
				for i, e := range iphi.Edges {
					if loop.Body[iphi.Block().Preds[i]] {
						if b, ok := e.(*ssa.BinOp); ok && b.Op == token.ADD && b.X == iphi {
							if k, ok := constInt(b.Y); ok && k == 1 {
								iStep = true
							}
						}
					} else if k, ok := constInt(e); ok && k == 1 {
						iInit = true
					}
				}
				condOK := false
				if iff, ok := lastInstr(loop.Header).(*ssa.If); ok {
					if cmp, ok := iff.Cond.(*ssa.BinOp); ok && cmp.X == iphi && cmp.Op == token.LSS && lenOfNodes(cmp.Y) && loop.Body[loop.Header.Succs[0]] {
						condOK = true
					}
				}
				asc = iInit && iStep && condOK
			}
		}
	}
	if !desc && !asc {
		r.Viol(rule, name+":fold", p.pos(and.Pos()), "the And-fold over the conjunct list does not visibly cover every element (expected seed = last element and i from len-2 down to 0, or seed = first and i from 1 up to len-1)")
		return
	}
	// result returned is the fold's result
	retOK := false
	for _, b := range fn.Blocks {
		if ret, ok := lastInstr(b).(*ssa.Return); ok && len(ret.Results) == 1 {
			if ph, ok := ret.Results[0].(*ssa.Phi); ok {
				for _, e := range ph.Edges {
					if e == and {
						retOK = true
					}
				}
			}
		}
	}
	r.Check(retOK, rule, name+":fold", p.pos(and.Pos()), "And-fold covers every conjunct and its result is returned", "the result of the And-fold is not what PolicyToNode returns")
}

// ---------------------------------------------------------------------------------------------
// R2.5 scope lowering tables (AST level)

type scopeRow struct {
	methods  []string // ast.Node methods called
	fields   []string // fields of the scope value used
	funcs    []string // other notable functions (True, NewSet)
	altFuncs []string // accepted alternative to funcs
}

var scopeTable = map[string]scopeRow{
	"ScopeTypeAll":   {methods: nil, fields: nil, funcs: []string{"True"}},
	"ScopeTypeEq":    {methods: []string{"Equal"}, fields: []string{"Entity"}},
	"ScopeTypeIn":    {methods: []string{"In"}, fields: []string{"Entity"}},
	"ScopeTypeInSet": {methods: []string{"In"}, fields: []string{"Entities"}, funcs: []string{"NewSet"}, altFuncs: []string{"Set"}},
	"ScopeTypeIs":    {methods: []string{"Is"}, fields: []string{"Type"}},
	"ScopeTypeIsIn":  {methods: []string{"IsIn"}, fields: []string{"Entity", "Type"}},
}

func checkScopeTables(p *Prog, r *Report) {
	const rule = "R2.5-scope-table"
	for _, site := range []struct{ pkg, fn string }{{pEval, "scopeToNode"}, {pParser, "scopeToNode"}} {
		tss := p.findTypeSwitch(site.pkg, site.fn, "IsScopeNode")
		if len(tss) != 1 {
			r.Anchor(rule, site.pkg+"."+site.fn+" type switch over IsScopeNode")
			continue
		}
		ti := tss[0]
		p.requireExhaustive(r, rule, ti)
		info := ti.Pkg.TypesInfo
		for _, st := range ti.Stmt.Body.List {
			cc := st.(*ast.CaseClause)
			if cc.List == nil || len(cc.List) != 1 {
				continue
			}
			ct := info.Types[cc.List[0]].Type
			n := namedOf(ct)
			if n == nil {
				continue
			}
			want, ok := scopeTable[n.Obj().Name()]
			if !ok {
				r.Undec(rule, fnQualAst(ti.Pkg, site.fn)+":"+n.Obj().Name(), p.pos(cc.Pos()), "scope kind not in the language table")
				continue
			}
			var methods, fields, funcs []string
			ast.Inspect(cc, func(nd ast.Node) bool {
				switch x := nd.(type) {
				case *ast.CallExpr:
					if o := calleeObj(info, x); o != nil && o.Pkg() != nil {
						sig := o.Type().(*types.Signature)
						if sig.Recv() != nil && typeIs(sig.Recv().Type(), pXAst, "Node") {
							methods = append(methods, o.Name())
						} else if o.Name() == "True" || o.Name() == "NewSet" || o.Name() == "False" || o.Name() == "Set" {
							funcs = append(funcs, o.Name())
						}
					}
				case *ast.SelectorExpr:
					if sel, ok := info.Selections[x]; ok && sel.Kind() == types.FieldVal {
						if rn := namedOf(sel.Recv()); rn != nil && rn.Obj().Name() == n.Obj().Name() {
							fields = append(fields, x.Sel.Name)
						}
					}
				}
				return true
			})
			eq := func(a, b []string) bool {
				a, b = uniqSorted(a), uniqSorted(b)
				if len(a) != len(b) {
					return false
				}
				for i := range a {
					if a[i] != b[i] {
						return false
					}
				}
				return true
			}
			good := eq(methods, want.methods) && eq(fields, want.fields) && (eq(funcs, want.funcs) || (want.altFuncs != nil && eq(funcs, want.altFuncs)))
			r.Check(good, rule, fnQualAst(ti.Pkg, site.fn)+":"+n.Obj().Name(), p.pos(cc.Pos()),
				"lowered with "+strings.Join(uniqSorted(append(methods, funcs...)), "+")+" over "+strings.Join(uniqSorted(fields), ","),
				"scope kind "+n.Obj().Name()+" is lowered with operators ["+strings.Join(uniqSorted(append(methods, funcs...)), ",")+"] over fields ["+strings.Join(uniqSorted(fields), ",")+"]; the language prescribes ["+strings.Join(append(want.methods, want.funcs...), ",")+"] over ["+strings.Join(want.fields, ",")+"]")
		}
	}
}

func uniqSorted(in []string) []string {
	m := map[string]bool{}
	for _, s := range in {
		m[s] = true
	}
	var out []string
	for s := range m {
		out = append(out, s)
	}
	sort.Strings(out)
	return out
}

// R2.6 fresh accumulators: the lists a decision loop appends to (reasons, errors) are born empty inside the call that
// returns them. An accumulator kept in state that outlives the call (a field of a long-lived struct, a package variable,
// a pooled buffer, even re-sliced to length zero) still holds — or shares storage with — what an earlier call handed out:
// a later decision then reports reasons of an earlier one, or rewrites a Diagnostic the caller still holds.
func accumulatorBirth(w *webs, outer, fn *ssa.Function, v ssa.Value) (fresh bool, why string) {
	seen := map[ssa.Value]bool{}
	var rec func(x ssa.Value, f *ssa.Function) (bool, string)
	// cellFresh: every whole store into the cell at addr keeps it self-contained
	cellFresh := func(addr ssa.Value, f *ssa.Function) (bool, string) {
		base := baseOf(addr)
		if fv, ok := base.(*ssa.FreeVar); ok {
			// the captured variable's cell in the enclosing function
			mc := makeClosureOf(f)
			if mc == nil {
				return false, "captured variable " + fv.Name() + " whose cell cannot be found"
			}
			for i, b := range f.FreeVars {
				if b == fv && i < len(mc.Bindings) {
					base = baseOf(mc.Bindings[i])
				}
			}
		}
		al, ok := base.(*ssa.Alloc)
		if !ok {
			return false, "it is kept in " + describeVal(addr) + ", which outlives the call"
		}
		_ = al
		// everything ever stored into that cell is itself born empty here (its own appends included)
		if w != nil {
			cw := w.find(w.cellOf(addr))
			for _, g := range withAnon(outer) {
				bad := ""
				forEachInstr(g, func(in ssa.Instruction) {
					st, ok := in.(*ssa.Store)
					if !ok || bad != "" || w.find(w.cellOf(st.Addr)) != cw {
						return
					}
					if ok2, why := rec(st.Val, g); !ok2 {
						bad = why
					}
				})
				if bad != "" {
					return false, bad
				}
			}
		}
		return true, ""
	}
	rec = func(x ssa.Value, f *ssa.Function) (bool, string) {
		if seen[x] {
			return true, ""
		}
		seen[x] = true
		switch y := x.(type) {
		case *ssa.Const:
			return true, ""
		case *ssa.Phi:
			for _, e := range y.Edges {
				if ok, w := rec(e, f); !ok {
					return false, w
				}
			}
			return true, ""
		case *ssa.Call:
			if isBuiltin(&y.Call, "append") {
				return rec(y.Call.Args[0], f)
			}
			if y.Call.StaticCallee() != nil && (stdName(y.Call.StaticCallee()) == "slices.Clone" || stdName(y.Call.StaticCallee()) == "slices.Clip") {
				return true, ""
			}
			return false, "it starts from the result of " + calleeName(y)
		case *ssa.MakeSlice:
			return true, ""
		case *ssa.Slice:
			return rec(y.X, f)
		case *ssa.ChangeType:
			return rec(y.X, f)
		case *ssa.UnOp:
			if y.Op == token.MUL {
				return cellFresh(y.X, f)
			}
		case *ssa.Alloc:
			// the array behind make(T, 0, constant)
			if y.Comment == "makeslice" {
				return true, ""
			}
		}
		return false, "its origin (" + x.Name() + ") is not a local, empty list"
	}
	return rec(v, fn)
}

// R2.3 (errors travel with the decision): the Diagnostic handed back on every return is the object whose Errors field the
// loop appended to. Building a fresh Diagnostic on one arm of the decision drops the collected errors on that arm.
func checkErrorsReturnedWithDecision(p *Prog, r *Report, al *authLoop, errWeb any) {
	const rule = "R2.3-decision"
	outer := al.outer
	name := al.name
	// the object the errors are collected in
	resolve := func(base ssa.Value, f *ssa.Function) ssa.Value {
		if fv, ok := base.(*ssa.FreeVar); ok {
			if mc := makeClosureOf(f); mc != nil {
				for i, b := range f.FreeVars {
					if b == fv && i < len(mc.Bindings) {
						return baseOf(mc.Bindings[i])
					}
				}
			}
		}
		return base
	}
	var errObj ssa.Value
	for _, f := range withAnon(outer) {
		forEachInstr(f, func(in ssa.Instruction) {
			st, ok := in.(*ssa.Store)
			if !ok || al.w.find(st.Val) != errWeb {
				return
			}
			if fa, ok := st.Addr.(*ssa.FieldAddr); ok {
				if _, fname := fieldAddrName(fa); fname == "Errors" {
					errObj = resolve(baseOf(fa.X), f)
				}
			}
		})
	}
	if errObj == nil {
		r.Undec(rule, name+":errors-object", p.pos(outer.Pos()), "the Diagnostic whose Errors field collects the evaluation errors was not found")
		return
	}
	n := 0
	for _, b := range outer.Blocks {
		ret, ok := lastInstr(b).(*ssa.Return)
		if !ok || len(ret.Results) < 2 || !typeIs(ret.Results[1].Type(), pTypes, "Diagnostic") {
			continue
		}
		n++
		good := true
		var visit func(v ssa.Value, d int)
		visit = func(v ssa.Value, d int) {
			if d > 4 {
				good = false
				return
			}
			switch x := v.(type) {
			case *ssa.UnOp:
				if x.Op == token.MUL && baseOf(x.X) == errObj {
					return
				}
				// another Diagnostic that was given the collected errors
				if al2, ok := baseOf(x.X).(*ssa.Alloc); ok && x.Op == token.MUL && al2.Referrers() != nil {
					for _, rf := range *al2.Referrers() {
						fa, ok := rf.(*ssa.FieldAddr)
						if !ok || fa.Referrers() == nil {
							continue
						}
						if _, fname := fieldAddrName(fa); fname != "Errors" {
							continue
						}
						for _, u := range *fa.Referrers() {
							if st, ok := u.(*ssa.Store); ok && st.Addr == ssa.Value(fa) && al.w.find(st.Val) == errWeb {
								return
							}
						}
					}
				}
				good = false
			case *ssa.Phi:
				for _, e := range x.Edges {
					visit(e, d+1)
				}
			default:
				good = false
			}
		}
		visit(retVal(ret, 1), 0)
		r.Check(good, rule, name+":errors-travel-with-decision@"+itoa(n), p.pos(ret.Pos()), "the returned Diagnostic is the one the errors were collected in",
			"this return hands back a Diagnostic other than the one whose Errors field the loop appended to: the evaluation errors are lost on this arm of the decision")
	}
	if n == 0 {
		r.Undec(rule, name+":errors-travel-with-decision", p.pos(outer.Pos()), "no return of a Diagnostic found")
	}
}

// R2.4 (the evaluator follows the syntax tree): a cedar.Policy carries its syntax tree and the evaluator compiled from it.
// Authorize runs the evaluator; everything else (Effect, Position, marshalling, AST) reads the tree. They describe the same
// policy only if every write of the tree field is accompanied, in the same function and on the same object, by a write of
// the evaluator field with eval.Compile of that very tree. A decoder that replaces the tree alone leaves a policy that
// prints as the new text and decides as the old one.
func checkEvaluatorFollowsTree(p *Prog, r *Report) {
	const rule = "R2.4-conjunction"
	pt := p.namedType(pRoot, "Policy")
	if pt == nil {
		r.Anchor(rule, "cedar.Policy")
		return
	}
	st, ok := pt.Underlying().(*types.Struct)
	if !ok {
		r.Anchor(rule, "cedar.Policy struct")
		return
	}
	astF, evalF := -1, -1
	for i := 0; i < st.NumFields(); i++ {
		ft := st.Field(i).Type()
		if pp, ok := ft.Underlying().(*types.Pointer); ok && typeIs(pp.Elem(), pXAst, "Policy") {
			astF = i
		}
		if typeIs(ft, pEval, "BoolEvaler") {
			evalF = i
		}
	}
	if astF < 0 || evalF < 0 {
		r.Anchor(rule, "cedar.Policy fields (syntax tree, compiled evaluator)")
		return
	}
	n := 0
	for _, fn := range p.Funcs {
		if fnPkgPath(fn) != pRoot || len(fn.Blocks) == 0 {
			continue
		}
		type wr struct {
			st   *ssa.Store
			base ssa.Value
		}
		var astW, evalW []wr
		forEachInstr(fn, func(in ssa.Instruction) {
			s, ok := in.(*ssa.Store)
			if !ok {
				return
			}
			fa, ok := s.Addr.(*ssa.FieldAddr)
			if !ok {
				return
			}
			pp, ok := fa.X.Type().Underlying().(*types.Pointer)
			if !ok || !types.Identical(pp.Elem(), pt) {
				return
			}
			if fa.Field == astF {
				astW = append(astW, wr{s, fa.X})
			}
			if fa.Field == evalF {
				evalW = append(evalW, wr{s, fa.X})
			}
		})
		for _, a := range astW {
			n++
			good := false
			if al, ok := a.base.(*ssa.Alloc); ok && len(evalW) == 0 {
				// a Policy born here without an evaluator (compiled later, on demand): nothing stale to keep. What must
				// not happen is the replacement of the tree of a Policy that may already have been compiled.
				_ = al
				r.OK(rule, fnQual(fn)+":tree-write", p.pos(a.st.Pos()), "the syntax tree of a Policy created here (no evaluator exists yet)")
				continue
			}
			for _, e := range evalW {
				if e.base != a.base {
					continue
				}
				if c, ok := e.st.Val.(*ssa.Call); ok && c.Call.StaticCallee() != nil && fnPkgPath(c.Call.StaticCallee()) == pEval && c.Call.StaticCallee().Name() == "Compile" && len(c.Call.Args) == 1 {
					arg := c.Call.Args[0]
					if arg == a.st.Val {
						good = true
					}
					// or the tree read back from the field just written
					if ld, ok := arg.(*ssa.UnOp); ok && ld.Op == token.MUL {
						if fa, ok := ld.X.(*ssa.FieldAddr); ok && fa.X == a.base && fa.Field == astF && instrDominates(a.st, ld) {
							good = true
						}
					}
				}
			}
			r.Check(good, rule, fnQual(fn)+":tree-write", p.pos(a.st.Pos()), "the syntax tree is written together with the evaluator compiled from it",
				fnQual(fn)+" writes a Policy's syntax tree without writing, on the same object, the evaluator compiled from that tree (eval.Compile): the policy then reads as one text and is decided by another (or by none)")
		}
	}
	r.Check(n >= 1, rule, "cedar.Policy:tree-writes", "-", itoa(n)+" write(s) of a Policy's syntax tree, each paired with its evaluator", "no write of cedar.Policy's syntax tree field was found (anchor lost)")
}
