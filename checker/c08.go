package main

// C08: Cedar text marshalling round-trips every policy.
//
// Decided (necessary conditions visible in the code):
//   R8.1  the printer's dispatch covers every AST node kind;
//   R8.2  the parenthesisation table: per node kind the printer's own rank, the rank it demands of each child, the order in
//         which it prints the children and the operator text between them, extracted from the marshalCedar bodies by
//         field-provenance evaluation (E10) and compared with the Cedar grammar (frozen table: rank, associativity,
//         token) — a child position must demand at least the rank the grammar accepts there, or a lower-ranked child is
//         printed bare and re-parsed into a different tree; the single parenthesisation decision is checked for all
//         (demanded rank, child kind) pairs: parentheses exactly when the child's rank is lower;
//   R8.3  one escape vocabulary: no Go-style quoting (strconv.Quote*, %q) is reachable from a Cedar emitter;
//   R8.4  the printer's "may be written bare" test is built from the tokenizer's own identifier predicate and reserved-word
//         test (same functions), so what is printed bare lexes as an identifier;
//   R8.7  Cedar emitters compose Cedar emitters: from a value's MarshalCedar no element is rendered through the
//         element's String() (which for strings and extension values is not Cedar syntax).
// Not decided: byte-exact idempotence, layout, escape *values*.

import (
	"go/constant"
	"go/types"
	"sort"
	"strings"

	"golang.org/x/tools/go/ssa"
)

func init() {
	register(&propCheck{
		ID: "C08",
		Explanation: "Structural necessary conditions of the Cedar text round trip: R8.1 printer dispatch exhaustive over the 31 node kinds; R8.2 parenthesisation table — per node kind the printer's own rank, the rank demanded of each child, " +
			"child order and operator text, extracted from the marshalCedar bodies by field-provenance evaluation and compared with the Cedar grammar's rank/associativity/token table, plus the parenthesisation decision for every " +
			"(demanded rank, child kind) pair; R8.3 no Go-style quoting reachable from a Cedar emitter; R8.4 the bare-identifier test is built from the tokenizer's identifier predicate and reserved-word test; R8.7 value emitters render " +
			"elements through MarshalCedar, never String(). Not decided: byte-exact idempotence, layout, the values of escapes.",
		Run: runC08,
	})
}

type synRow struct {
	rank int
	form string
	tok  string
}

// The Cedar grammar's expression ladder (DESIGN.md appendix D); not derived from /repo.
var langSyntax = map[string]synRow{
	"NodeTypeIfThenElse":         {0, "if", "ifthenelse"},
	"NodeTypeOr":                 {1, "infixL", "||"},
	"NodeTypeAnd":                {2, "infixL", "&&"},
	"NodeTypeLessThan":           {3, "infixN", "<"},
	"NodeTypeLessThanOrEqual":    {3, "infixN", "<="},
	"NodeTypeGreaterThan":        {3, "infixN", ">"},
	"NodeTypeGreaterThanOrEqual": {3, "infixN", ">="},
	"NodeTypeEquals":             {3, "infixN", "=="},
	"NodeTypeNotEquals":          {3, "infixN", "!="},
	"NodeTypeIn":                 {3, "infixN", "in"},
	"NodeTypeHas":                {3, "relL", "has"},
	"NodeTypeLike":               {3, "relL", "like"},
	"NodeTypeIs":                 {3, "relL", "is"},
	"NodeTypeIsIn":               {3, "isin", "isin"},
	"NodeTypeAdd":                {4, "infixL", "+"},
	"NodeTypeSub":                {4, "infixL", "-"},
	"NodeTypeMult":               {5, "infixL", "*"},
	"NodeTypeNegate":             {6, "prefix", "-"},
	"NodeTypeNot":                {6, "prefix", "!"},
	"NodeTypeAccess":             {7, "access", "."},
	"NodeTypeGetTag":             {7, "method", ".getTag()"},
	"NodeTypeHasTag":             {7, "method", ".hasTag()"},
	"NodeTypeContains":           {7, "method", ".contains()"},
	"NodeTypeContainsAll":        {7, "method", ".containsAll()"},
	"NodeTypeContainsAny":        {7, "method", ".containsAny()"},
	"NodeTypeIsEmpty":            {7, "method0", ".isEmpty()"},
	"NodeTypeExtensionCall":      {7, "call", ""},
	"NodeValue":                  {8, "primary", ""},
	"NodeTypeVariable":           {8, "primary", ""},
	"NodeTypeSet":                {8, "primary", ""},
	"NodeTypeRecord":             {8, "primary", ""},
}

// accepted returns the lowest rank the grammar accepts at child position i (in syntactic order) of a form at rank r;
// -1 means "any".
func (row synRow) accepted(i int) int {
	switch row.form {
	case "infixL":
		if i == 0 {
			return row.rank
		}
		return row.rank + 1
	case "infixN", "relL", "isin":
		return row.rank + 1
	case "prefix":
		return row.rank
	case "access", "method", "method0":
		if i == 0 {
			return row.rank
		}
		return 0
	case "call":
		return -1 // decided per style below
	}
	return 0
}

type c8ctx struct {
	p           *Prog
	r           *Report
	isNode      *types.Named
	wrapFn      *types.Func   // func(ast.IsNode) parser.IsNode
	childFn     *types.Func   // func(rank, ast.IsNode, *bytes.Buffer)
	receiverFns []*types.Func // wrappers of childFn used for receiver positions
	precM       string        // method names of the printer interface
	emitM       string
	rankT       types.Type
}

func runC08(p *Prog, r *Report) {
	c := &c8ctx{p: p, r: r}
	if c.anchors() {
		c.table()
		c.parenDecision()
	}
	c8Exhaustive(p, r)
	c8NoGoQuoting(p, r)
	c8SharedIdentPredicate(p, r)
	c8EmittersCompose(p, r)
	checkSortedIDsAs(p, r, "R8.6-documented-order")
	c18FreshDestinationAs(p, r, "R8.8-fresh-destination")
	ownedBytesRule(p, r, "R8.9-owned-bytes", 6, pRoot, pTypes, pParser)
}

func (c *c8ctx) anchors() bool {
	p, r := c.p, c.r
	const rule = "R8.2-paren-table"
	pk := p.Pkgs[pParser]
	c.isNode = p.namedType(pXAst, "IsNode")
	if pk == nil || c.isNode == nil {
		r.Anchor(rule, "internal/parser / ast.IsNode")
		return false
	}
	var printerIface *types.Named
	var childCands []*types.Func
	scope := pk.Types.Scope()
	for _, name := range scope.Names() {
		fo, ok := scope.Lookup(name).(*types.Func)
		if !ok {
			continue
		}
		sig := fo.Type().(*types.Signature)
		if sig.Recv() != nil {
			continue
		}
		if sig.Params().Len() == 1 && sig.Results().Len() == 1 && types.Identical(sig.Params().At(0).Type(), c.isNode) {
			if n := namedOf(sig.Results().At(0).Type()); n != nil && n.Obj().Pkg() == pk.Types {
				if _, isI := n.Underlying().(*types.Interface); isI {
					c.wrapFn, printerIface = fo, n
				}
			}
		}
		if sig.Params().Len() == 3 && sig.Results().Len() == 0 && types.Identical(sig.Params().At(1).Type(), c.isNode) {
			if b, ok := sig.Params().At(0).Type().Underlying().(*types.Basic); ok && b.Info()&types.IsInteger != 0 {
				childCands = append(childCands, fo)
				c.rankT = sig.Params().At(0).Type()
			}
		}
	}
	// the child printer is the candidate that calls no other candidate; the others are wrappers for special positions
	// (the receiver of an attribute access / method call)
	for _, cand := range childCands {
		callsOther := false
		if f := p.SSA.FuncValue(cand); f != nil {
			for _, cl := range callsIn(f) {
				if g := cl.Common().StaticCallee(); g != nil {
					for _, o := range childCands {
						if o != cand && g.Object() == types.Object(o) {
							callsOther = true
						}
					}
				}
			}
		}
		if callsOther {
			c.receiverFns = append(c.receiverFns, cand)
		} else {
			c.childFn = cand
		}
	}
	if c.wrapFn == nil || c.childFn == nil || printerIface == nil {
		r.Anchor(rule, "the printer's dispatch func(ast.IsNode) IsNode and its child printer func(rank, ast.IsNode, *bytes.Buffer) in internal/parser")
		return false
	}
	it := printerIface.Underlying().(*types.Interface)
	for i := 0; i < it.NumMethods(); i++ {
		m := it.Method(i)
		sig := m.Type().(*types.Signature)
		if sig.Params().Len() == 0 && sig.Results().Len() == 1 {
			c.precM = m.Name()
		}
		if sig.Params().Len() == 1 && sig.Results().Len() == 0 {
			c.emitM = m.Name()
		}
	}
	if c.precM == "" || c.emitM == "" {
		r.Anchor(rule, "rank and emit methods of the printer interface")
		return false
	}
	return true
}

type c8child struct {
	path     string
	req      int
	loop     bool
	receiver bool // printed through the receiver wrapper (which also parenthesises a negative integer literal)
}

type c8row struct {
	literal  string
	assume   string
	own      int
	children []c8child
	lits     string // constant text written, spaces removed
	dyn      []string
	abort    string
}

// printerRows extracts, for node kind K, what the printer emits.
func (c *c8ctx) printerRows(K types.Type) []c8row { return c.printerRowsHyp(K, nil) }

func (c *c8ctx) printerRowsHyp(K types.Type, extra map[string]types.Type) []c8row {
	p := c.p
	outs := runForks(func() *sev {
		s := newSev(p)
		s.hypType["t"] = K
		for k, v := range extra {
			s.hypType[k] = v
		}
		s.eventFns = map[*types.Func]string{c.childFn: "child"}
		for _, rf := range c.receiverFns {
			s.eventFns[rf] = "receiver"
		}
		s.sink = "buf"
		s.opaque = valueCodecOpaque
		return s
	}, func(s *sev) (tv, any) {
		src := &tSym{Name: "t", T: c.isNode}
		w := s.callFn(nil, &tFn{Obj: c.wrapFn}, []tv{src}, false, nil)
		dyn := s.dynType(w)
		if dyn == nil {
			s.abort("printer wrapper for %s has no fixed type", typeShort(K))
		}
		prec := s.methodOn(w, dyn, c.precM)
		emit := s.methodOn(w, dyn, c.emitM)
		if prec == nil || emit == nil {
			s.abort("printer wrapper %s lacks %s/%s", typeShort(dyn), c.precM, c.emitM)
		}
		own := s.callFn(nil, prec, nil, false, nil)
		s.events = nil
		buf := &tSym{Name: "buf", T: c.childFn.Type().(*types.Signature).Params().At(2).Type()}
		s.callFn(nil, emit, []tv{buf}, false, nil)
		return own, append([]sevEvent{}, s.events...)
	})
	var rows []c8row
	for _, o := range outs {
		row := c8row{assume: assumeString(o.Assume), own: -1, abort: o.Abort}
		if o.Abort == "" {
			if k, ok := o.Result.(tConst); ok {
				if n, ok := constInt64(k); ok {
					row.own = int(n)
				}
			}
			evs, _ := o.State.([]sevEvent)
			for _, e := range evs {
				switch e.Kind {
				case "child", "receiver":
					ch := c8child{req: -1, loop: e.Loop > 0, receiver: e.Kind == "receiver"}
					if k, ok := e.Args[0].(tConst); ok {
						if n, ok := constInt64(k); ok {
							ch.req = int(n)
						}
					}
					ch.path = e.Args[1].ts()
					row.children = append(row.children, ch)
				case "lit":
					row.lits += strings.ReplaceAll(e.Text, " ", "")
				case "dyn":
					row.dyn = append(row.dyn, e.Text)
				}
			}
		}
		rows = append(rows, row)
	}
	return rows
}

func constInt64(k tConst) (int64, bool) {
	v := k.V
	if v == nil {
		return 0, false
	}
	return constantInt64(v)
}

// methodOn resolves method name on a value of (known) dynamic type, walking embedded fields.
func (s *sev) methodOn(v tv, dyn types.Type, name string) *tFn {
	var pkgOf *types.Package
	if n := namedOf(dyn); n != nil {
		pkgOf = n.Obj().Pkg()
	}
	sel := types.NewMethodSet(dyn).Lookup(pkgOf, name)
	if sel == nil {
		sel = types.NewMethodSet(types.NewPointer(dyn)).Lookup(pkgOf, name)
	}
	if sel == nil {
		return nil
	}
	base, t := v, dyn
	var rc *tcell
	idx := sel.Index()
	for _, ix := range idx[:len(idx)-1] {
		st := structOf(t)
		fld := st.Field(ix)
		cl := s.fieldCell(base, fld.Name(), fld.Type())
		base, rc, t = cl.v, cl, fld.Type()
	}
	return &tFn{Obj: sel.Obj().(*types.Func), Recv: base, RecvCell: rc}
}

// ctorOperandOrder: for node kind K, the field paths of its node-typed children in the order the canonical
// constructor takes them (receiver first) — the syntactic order of the operands.
func (c *c8ctx) ctorOperandOrder() map[string][]string {
	p := c.p
	out := map[string][]string{}
	pk := p.Pkgs[pXAst]
	nodeT := p.namedType(pXAst, "Node")
	if pk == nil || nodeT == nil {
		return out
	}
	var ctors []*types.Func
	scope := pk.Types.Scope()
	for _, name := range scope.Names() {
		if fo, ok := scope.Lookup(name).(*types.Func); ok && fo.Exported() {
			ctors = append(ctors, fo)
		}
	}
	ms := types.NewMethodSet(nodeT)
	for i := 0; i < ms.Len(); i++ {
		if fo, ok := ms.At(i).Obj().(*types.Func); ok && fo.Exported() {
			ctors = append(ctors, fo)
		}
	}
	for _, fo := range ctors {
		sig := fo.Type().(*types.Signature)
		if sig.Results().Len() != 1 || !types.Identical(sig.Results().At(0).Type(), nodeT) || sig.Variadic() || sig.TypeParams().Len() > 0 {
			continue
		}
		var args []tv
		nNode := 0
		recv := tv(nil)
		if sig.Recv() != nil {
			recv = &tObj{T: nodeT, F: map[string]*tcell{"v": {&tSym{Name: "arg0", T: c.isNode}}}}
			nNode++
		}
		okSig := true
		for i := 0; i < sig.Params().Len(); i++ {
			pt := sig.Params().At(i).Type()
			if types.Identical(pt, nodeT) {
				args = append(args, &tObj{T: nodeT, F: map[string]*tcell{"v": {&tSym{Name: "arg" + itoa(nNode), T: c.isNode}}}})
				nNode++
			} else {
				args = append(args, &tSym{Name: "x" + itoa(i), T: pt})
			}
		}
		if !okSig || nNode == 0 {
			continue
		}
		var res tv
		func() {
			defer func() {
				if e := recover(); e != nil {
					if _, ok := e.(sevAbort); ok {
						return
					}
					if _, ok := e.(sevFork); ok {
						return
					}
					panic(e)
				}
			}()
			s := newSev(p)
			res = s.callFn(nil, &tFn{Obj: fo, Recv: recv}, args, false, nil)
		}()
		o, ok := res.(*tObj)
		if !ok {
			continue
		}
		var node tv = o
		if len(o.F) == 1 {
			for _, fc := range o.F {
				node = fc.v
			}
		}
		no, ok := node.(*tObj)
		if !ok || namedOf(no.T) == nil {
			continue
		}
		kind := namedOf(no.T).Obj().Name()
		paths := make([]string, nNode)
		found := 0
		var walk func(o *tObj, prefix string)
		walk = func(o *tObj, prefix string) {
			for fname, fc := range o.F {
				switch v := fc.v.(type) {
				case *tObj:
					walk(v, prefix+"."+fname)
				case *tSym:
					if strings.HasPrefix(v.Name, "arg") {
						var k int
						for _, ch := range v.Name[3:] {
							k = k*10 + int(ch-'0')
						}
						if k < nNode && paths[k] == "" {
							paths[k] = prefix + "." + fname
							found++
						}
					}
				}
			}
		}
		walk(no, "t")
		if found == nNode {
			if prev, ok := out[kind]; !ok || len(paths) > len(prev) {
				out[kind] = paths
			}
		}
	}
	return out
}

func (c *c8ctx) table() {
	p, r := c.p, c.r
	const rule = "R8.2-paren-table"
	sealed := p.sealedOf(c.isNode)
	if sealed == nil {
		r.Anchor(rule, "ast.IsNode implementers")
		return
	}
	order := c.ctorOperandOrder()
	for _, K := range sealed.Impls {
		kname := namedOf(K).Obj().Name()
		lang, known := langSyntax[kname]
		if !known {
			r.Undec(rule, "parser."+kname, "-", "node kind "+kname+" is not in the grammar table of the checker (a new node kind needs a row: rank, form, token)")
			continue
		}
		var rows []c8row
		if hyps := c.literalHyps(K, "t"); hyps != nil {
			for _, h := range hyps {
				for _, row := range c.printerRowsHyp(K, h.hyp) {
					row.assume = strings.TrimSpace(h.label + " " + row.assume)
					row.literal = h.label
					rows = append(rows, row)
				}
			}
		} else {
			rows = c.printerRows(K)
		}
		if len(rows) == 0 {
			r.Undec(rule, "parser."+kname, "-", "no printer row extracted")
		}
		for _, row := range rows {
			cs := "parser." + kname
			if row.assume != "" {
				cs += "[" + row.assume + "]"
			}
			pos := p.pos(c.wrapFn.Pos())
			if row.abort != "" {
				r.Undec(rule, cs, pos, "the printer of "+kname+" is outside the idioms the extraction understands: "+row.abort)
				continue
			}
			wantOwn := lang.rank
			r.Check(row.own == wantOwn, "R8.2-own-rank", cs, pos, kname+" prints at rank "+itoa(row.own),
				kname+" declares rank "+itoa(row.own)+" to its parent; the grammar places it at rank "+itoa(wantOwn)+": parents will add or omit parentheses wrongly")
			// children: order and demanded rank
			want := order[kname]
			switch lang.form {
			case "primary", "call":
				// elements / arguments: any expression is accepted inside brackets; receiver of a method-style call needs rank 7
				for i, ch := range row.children {
					if lang.form == "call" && !ch.loop && i == 0 {
						r.Check(ch.req >= lang.rank, rule, cs+":receiver", pos, "receiver demanded at rank "+itoa(ch.req),
							"the receiver of a method-style call is demanded at rank "+itoa(ch.req)+", the grammar needs "+itoa(lang.rank))
						r.Check(ch.receiver, "R8.2-receiver-literal", cs+":receiver", pos, "the receiver is printed through the receiver wrapper",
							"the receiver of a method-style extension call is printed by the plain child printer: a negative integer literal there is printed bare and does not parse back")
					}
				}
				r.OK(rule, cs, pos, "bracketed children ("+itoa(len(row.children))+" positions) accept any expression")
				continue
			}
			if len(want) == 0 {
				r.Undec(rule, cs, pos, "no constructor found for "+kname+" to fix the operand order")
				continue
			}
			if len(row.children) != len(want) {
				r.Viol(rule, cs, pos, kname+" has "+itoa(len(want))+" operands but the printer emits "+itoa(len(row.children))+" children")
				continue
			}
			for i, ch := range row.children {
				if ch.path != want[i] {
					r.Viol(rule, cs+":operand"+itoa(i), pos, "operand "+itoa(i)+" printed is "+ch.path+", the constructor's operand "+itoa(i)+" is "+want[i]+": operands are printed in the wrong order")
					continue
				}
				if i == 0 && (lang.form == "access" || lang.form == "method" || lang.form == "method0") {
					r.Check(ch.receiver, "R8.2-receiver-literal", cs+":receiver", pos, "the receiver is printed through the receiver wrapper (a negative integer literal is parenthesised there)",
						"the receiver of "+kname+" is printed by the plain child printer: a negative integer literal is written with a leading '-', so `(-1)"+strings.TrimSuffix(lang.tok, "()")+"…` is printed as `-1"+strings.TrimSuffix(lang.tok, "()")+"…`, which the parser reads as a literal followed by text it cannot continue with")
				}
				acc := lang.accepted(i)
				r.Check(ch.req >= acc, rule, cs+":operand"+itoa(i), pos, "operand "+itoa(i)+" ("+ch.path+") demanded at rank "+itoa(ch.req)+" ≥ accepted "+itoa(acc),
					"operand "+itoa(i)+" ("+ch.path+") of "+kname+" is printed bare from rank "+itoa(ch.req)+" up, but the grammar only accepts rank ≥ "+itoa(acc)+
						" in that position: a child of rank "+itoa(ch.req)+" is printed without parentheses and re-parsed into a different tree")
			}
			// operator text
			lits := row.lits
			wantTok := lang.tok
			okTok := lits == wantTok
			if lang.form == "access" {
				okTok = lits == "." || lits == "[]"
			}
			r.Check(okTok, "R8.2-operator-text", cs, pos, "operator text `"+lits+"`", kname+" is printed with the text `"+lits+"`, the grammar writes it `"+wantTok+"`")
		}
	}
	r.Floor(rule, 40)
	r.Floor("R8.2-own-rank", 28)
}

type c8hyp struct {
	label string
	hyp   map[string]types.Type
}

// literalHyps: a node kind that wraps a types.Value is extracted once per value kind.
func (c *c8ctx) literalHyps(K types.Type, root string) []c8hyp {
	st := structOf(K)
	valT := c.p.namedType(pTypes, "Value")
	if st == nil || valT == nil || st.NumFields() != 1 || !types.Identical(st.Field(0).Type(), valT) {
		return nil
	}
	var out []c8hyp
	for _, V := range valueImpls(c.p) {
		out = append(out, c8hyp{typeShort(V), map[string]types.Type{root + "." + st.Field(0).Name(): V}})
	}
	return out
}

// literalRank: the grammar's rank of a literal: an integer written with a leading '-' is a unary-level form (rank 6),
// every other literal is a primary.
func literalRank(base int, assume string) int {
	if strings.Contains(assume, "<0=true") && strings.Contains(assume, "types.Long") {
		return 6
	}
	return base
}

// parenDecision: for every demanded rank q and every child kind, parentheses are written exactly when the child's rank
// is lower than q.
func (c *c8ctx) parenDecision() {
	p, r := c.p, c.r
	const rule = "R8.2-paren-decision"
	sealed := p.sealedOf(c.isNode)
	if sealed == nil {
		return
	}
	// every concrete emit method is an event
	evFns := map[*types.Func]string{}
	pk := p.Pkgs[pParser]
	for _, name := range pk.Types.Scope().Names() {
		if tn, ok := pk.Types.Scope().Lookup(name).(*types.TypeName); ok {
			if nt, ok := tn.Type().(*types.Named); ok {
				for i := 0; i < nt.NumMethods(); i++ {
					if nt.Method(i).Name() == c.emitM {
						evFns[nt.Method(i)] = "emit"
					}
				}
			}
		}
	}
	printers := append([]*types.Func{c.childFn}, c.receiverFns...)
	for pi, printerFn := range printers {
		isReceiver := pi > 0
		for _, K := range sealed.Impls {
			kname := namedOf(K).Obj().Name()
			lang, known := langSyntax[kname]
			if !known {
				continue
			}
			bad := ""
			hyps := c.literalHyps(K, "ch")
			if hyps == nil {
				hyps = []c8hyp{{"", nil}}
			}
			for _, h := range hyps {
				for q := 0; q <= 9 && bad == ""; q++ {
					outs := runForks(func() *sev {
						s := newSev(p)
						s.hypType["ch"] = K
						for k, v := range h.hyp {
							s.hypType[k] = v
						}
						s.eventFns = evFns
						s.sink = "buf"
						return s
					}, func(s *sev) (tv, any) {
						buf := &tSym{Name: "buf", T: c.childFn.Type().(*types.Signature).Params().At(2).Type()}
						s.callFn(nil, &tFn{Obj: printerFn}, []tv{tConst{constantMakeInt(int64(q))}, &tSym{Name: "ch", T: c.isNode}, buf}, false, nil)
						return nil, append([]sevEvent{}, s.events...)
					})
					for _, o := range outs {
						if o.Abort != "" {
							bad = "not understood: " + o.Abort
							break
						}
						evs, _ := o.State.([]sevEvent)
						text := ""
						emits := 0
						for _, e := range evs {
							switch e.Kind {
							case "lit":
								text += e.Text
							case "emit":
								emits++
								text += "•"
							case "dyn":
								// the literal written directly (the receiver wrapper renders a negative integer itself)
								emits++
								text += "•"
							}
						}
						rk := lang.rank
						wantParen := rk < q
						if isReceiver && literalRank(lang.rank, h.label+" "+assumeString(o.Assume)) < lang.rank {
							wantParen = true // a negative integer literal is always parenthesised as a receiver
						}
						switch {
						case emits != 1:
							bad = "child printed " + itoa(emits) + " times at demanded rank " + itoa(q)
						case wantParen && text != "(•)":
							bad = "a " + kname + " " + h.label + " (rank " + itoa(rk) + ") under a position demanding rank " + itoa(q) + " is written as `" + text + "`: parentheses are required"
						case !wantParen && text != "•":
							bad = "a " + kname + " " + h.label + " (rank " + itoa(rk) + ") under a position demanding rank " + itoa(q) + " is written as `" + text + "`: no parentheses are needed"
						}
					}
				}
			}
			cons := "parser." + kname
			if isReceiver {
				cons = "parser." + printerFn.Name() + "~" + kname
			}
			r.Check(bad == "", rule, cons, p.pos(printerFn.Pos()), "parenthesised exactly under positions demanding more than rank "+itoa(lang.rank)+map[bool]string{true: " (and always when it is a negative integer literal)", false: ""}[isReceiver && kname == "NodeValue"], bad)
		}
	}
	r.Floor(rule, 28)
}

func c8Exhaustive(p *Prog, r *Report) {
	const rule = "R8.1-exhaustive"
	isNode := p.namedType(pXAst, "IsNode")
	found := false
	for _, ti := range p.typeSwitches(pParser) {
		if isNode != nil && ti.Sealed.Named.Obj() == isNode.Obj() {
			found = true
			p.requireExhaustive(r, rule, ti)
		}
	}
	if !found {
		r.Anchor(rule, "type switch over ast.IsNode in internal/parser")
	}
}

// cedarEmitters: every function named MarshalCedar / marshalCedar (methods and functions) in the module, plus the schema
// text printer's entry points.
func cedarEmitters(p *Prog) []*ssa.Function {
	var out []*ssa.Function
	for _, fn := range p.Funcs {
		if fn.Parent() != nil || testSupportPkgs[fnPkgPath(fn)] {
			continue
		}
		n := fnBase(fn)
		if n == "MarshalCedar" || n == "marshalCedar" {
			out = append(out, fn)
		}
	}
	return out
}

// reachFrom: functions reachable from the roots through static calls and interface dispatch resolved by the call graph,
// staying inside the repository.
func reachFrom(p *Prog, roots []*ssa.Function) map[*ssa.Function]bool {
	cg := p.CG()
	seen := map[*ssa.Function]bool{}
	var st []*ssa.Function
	st = append(st, roots...)
	for len(st) > 0 {
		f := st[len(st)-1]
		st = st[:len(st)-1]
		if seen[f] {
			continue
		}
		seen[f] = true
		if n := cg.Nodes[f]; n != nil {
			for _, e := range n.Out {
				if e.Callee.Func != nil && p.inRepo(e.Callee.Func) && !seen[e.Callee.Func] {
					st = append(st, e.Callee.Func)
				}
			}
		}
	}
	return seen
}

func c8NoGoQuoting(p *Prog, r *Report) {
	const rule = "R8.3-escape-vocabulary"
	em := cedarEmitters(p)
	if len(em) < 10 {
		r.Anchor(rule, "MarshalCedar emitters (found "+itoa(len(em))+")")
		return
	}
	reach := reachFrom(p, em)
	var fns []*ssa.Function
	for f := range reach {
		fns = append(fns, f)
	}
	sort.Slice(fns, func(i, j int) bool { return fns[i].String() < fns[j].String() })
	n := 0
	for _, fn := range fns {
		bad := ""
		for _, cl := range callsIn(fn) {
			f := cl.Common().StaticCallee()
			if f == nil {
				continue
			}
			switch fnPkgPath(f) {
			case "strconv":
				if strings.HasPrefix(f.Name(), "Quote") || strings.HasPrefix(f.Name(), "AppendQuote") {
					bad = "strconv." + f.Name()
				}
			case "fmt":
				if len(cl.Common().Args) > 0 {
					for _, a := range cl.Common().Args {
						if s, ok := constString(a); ok && (strings.Contains(s, "%q") || strings.Contains(s, "%#v") || strings.Contains(s, "%+q")) {
							bad = "fmt verb in " + s
						}
					}
				}
			}
		}
		n++
		if bad != "" {
			r.Viol(rule, fnQual(fn)+":go-quoting", p.pos(fn.Pos()), fnQual(fn)+" is reachable from a Cedar emitter and quotes with "+bad+": Go's escapes (\\a \\b \\f \\v \\xNN \\uNNNN) are outside what the Cedar reader accepts")
		}
	}
	r.OK(rule, "emitters", "-", itoa(len(em))+" Cedar emitters, "+itoa(n)+" reachable functions scanned for Go-style quoting")
}

func c8SharedIdentPredicate(p *Prog, r *Report) {
	const rule = "R8.4-shared-ident-predicate"
	// the tokenizer's identifier-rune predicate: the func(rune, bool) bool used by the scanner's identifier scanning
	pk := p.SSAPkg[pParser]
	if pk == nil {
		r.Anchor(rule, "internal/parser")
		return
	}
	var identRune, reserved *ssa.Function
	for _, m := range pk.Members {
		f, ok := m.(*ssa.Function)
		if !ok {
			continue
		}
		sig := f.Signature
		if sig.Recv() == nil && sig.Params().Len() == 2 && sig.Results().Len() == 1 {
			if b0, ok := sig.Params().At(0).Type().Underlying().(*types.Basic); ok && b0.Kind() == types.Int32 {
				if b1, ok := sig.Params().At(1).Type().Underlying().(*types.Basic); ok && b1.Kind() == types.Bool {
					identRune = f
				}
			}
		}
	}
	// reserved-word test: func(string) bool that reads a package-level table and is called by the scanner/parser
	for _, m := range pk.Members {
		f, ok := m.(*ssa.Function)
		if !ok || f.Signature.Recv() != nil || f.Signature.Params().Len() != 1 || f.Signature.Results().Len() != 1 {
			continue
		}
		if b, ok := f.Signature.Params().At(0).Type().Underlying().(*types.Basic); !ok || b.Kind() != types.String {
			continue
		}
		if b, ok := f.Signature.Results().At(0).Type().Underlying().(*types.Basic); !ok || b.Kind() != types.Bool {
			continue
		}
		readsGlobal := false
		forEachInstr(f, func(in ssa.Instruction) {
			for _, op := range in.Operands(nil) {
				if _, ok := (*op).(*ssa.Global); ok {
					readsGlobal = true
				}
			}
		})
		if readsGlobal && f.Blocks != nil {
			reserved = f
		}
	}
	if identRune == nil || reserved == nil {
		r.Anchor(rule, "tokenizer identifier-rune predicate func(rune,bool) bool / reserved-word test func(string) bool")
		return
	}
	// scanner uses identRune
	scannerUses := false
	for _, fn := range p.Funcs {
		if fnPkgPath(fn) != pParser || fn == identRune {
			continue
		}
		if fn.Signature.Recv() != nil && strings.Contains(strings.ToLower(typeShort(fn.Signature.Recv().Type())), "scanner") {
			for _, cl := range callsIn(fn) {
				if cl.Common().StaticCallee() == identRune {
					scannerUses = true
				}
			}
		}
	}
	r.Check(scannerUses, rule, "parser.scanner~"+identRune.Name(), p.pos(identRune.Pos()), "the tokenizer scans identifiers with "+identRune.Name(), "the tokenizer's scanner does not use "+identRune.Name()+": anchor lost")
	// the printer's bare-name tests: func(string) bool in internal/parser, called from emitters, other than `reserved`
	em := cedarEmitters(p)
	n := 0
	for _, e := range em {
		if fnPkgPath(e) != pParser {
			continue
		}
		for _, cl := range callsIn(e) {
			f := cl.Common().StaticCallee()
			if f == nil || fnPkgPath(f) != pParser || f == reserved || f.Signature.Recv() != nil || f.Signature.Params().Len() != 1 || f.Signature.Results().Len() != 1 {
				continue
			}
			if b, ok := f.Signature.Results().At(0).Type().Underlying().(*types.Basic); !ok || b.Kind() != types.Bool {
				continue
			}
			if b, ok := f.Signature.Params().At(0).Type().Underlying().(*types.Basic); !ok || b.Kind() != types.String {
				continue
			}
			n++
			usesRune, usesReserved, foreign := false, false, ""
			for _, c2 := range callsIn(f) {
				g := c2.Common().StaticCallee()
				if g == identRune {
					usesRune = true
				} else if g == reserved {
					usesReserved = true
				} else if g != nil && (fnPkgPath(g) == "unicode" || fnPkgPath(g) == "regexp") {
					foreign = g.String()
				}
			}
			construct := fnQual(f)
			r.Check(usesRune && usesReserved && foreign == "", rule, construct, p.pos(f.Pos()), "bare names are exactly what the tokenizer lexes as a non-reserved identifier (same predicate functions)",
				construct+" decides whether a name is printed bare but is not built from the tokenizer's own "+identRune.Name()+" and "+reserved.Name()+" (uses rune predicate: "+yesNo(usesRune)+", reserved test: "+yesNo(usesReserved)+", other character classes: "+foreign+"): a name printed bare may not lex as an identifier")
		}
	}
	if n == 0 {
		r.Anchor(rule, "the printer's bare-name test (func(string) bool called from marshalCedar)")
	}
}

func yesNo(b bool) string {
	if b {
		return "yes"
	}
	return "no"
}

// c8EmittersCompose: from a MarshalCedar of a value type, no element is rendered through an interface-dispatched
// String(): String() of strings and extension values is not Cedar syntax.
func c8EmittersCompose(p *Prog, r *Report) {
	const rule = "R8.7-emitters-compose"
	n := 0
	for _, e := range cedarEmitters(p) {
		if fnPkgPath(e) != pTypes && fnPkgPath(e) != pParser {
			continue
		}
		n++
		// follow static calls within the same receiver type (String() helpers), look for interface String() invokes
		seen := map[*ssa.Function]bool{}
		var bad []string
		var walk func(f *ssa.Function, d int)
		walk = func(f *ssa.Function, d int) {
			if seen[f] || d > 4 || f.Blocks == nil {
				return
			}
			seen[f] = true
			for _, g := range withAnon(f) {
				for _, cl := range callsIn(g) {
					cc := cl.Common()
					if cc.IsInvoke() && cc.Method.Name() == "String" {
						bad = append(bad, fnQual(g)+" calls String() on a "+typeShort(cc.Value.Type()))
					}
					if sf := cc.StaticCallee(); sf != nil && p.inRepo(sf) && sf.Signature.Recv() != nil && e.Signature.Recv() != nil &&
						namedOf(sf.Signature.Recv().Type()) == namedOf(e.Signature.Recv().Type()) {
						walk(sf, d+1)
					}
				}
			}
		}
		walk(e, 0)
		r.Check(len(bad) == 0, rule, fnQual(e), p.pos(e.Pos()), "elements are rendered through Cedar emitters",
			fnQual(e)+" renders an element through its String() form ("+strings.Join(bad, "; ")+"): for strings, entity ids and extension values that is not Cedar syntax, so the text does not parse back to the same value")
	}
	r.Floor(rule, 12)
}

func constantInt64(v constant.Value) (int64, bool) {
	if v.Kind() != constant.Int {
		return 0, false
	}
	return constant.Int64Val(v)
}

func constantMakeInt(n int64) constant.Value { return constant.MakeInt64(n) }

// valueCodecOpaque: the text forms of values (package types) are not part of the expression printer's table.
func valueCodecOpaque(fo *types.Func) bool {
	return fo.Pkg() != nil && (fo.Pkg().Path() == pTypes || fo.Pkg().Path() == pRust)
}
