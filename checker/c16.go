package main

// C16: schema resolution and validation terminate without crashing.

import (
	"go/constant"
	"go/token"
	"go/types"
	"sort"
	"strings"

	"golang.org/x/tools/go/ssa"
)

var c16Pkgs = map[string]bool{pResolved: true, pValidate: true, pSchema: true}

func init() {
	register(&propCheck{
		ID: "C16",
		Explanation: "Termination and crash-freedom of schema resolution and validation, as structural rules over packages resolved, validate and schema: R16.1 every recursive component of the call " +
			"graph is classified — structural (every cycle passes a strict part of a parameter to the next call), or by-name (a reference is followed through a schema map), which needs a visited set " +
			"tested and marked before the recursive call, or a tabled acyclicity argument backed by R16.2; R16.2 Resolve rejects cyclic common types (error returned) before any call that inlines type " +
			"references, returns the action-hierarchy cycle check's error, and no other exported function reaches the inliner; R16.4 every single-result type assertion has, on every path, either the " +
			"asserted kind confirmed or every other implementer of the sealed interface excluded, or its callers establish the kind (kind predicates, constant tables); R16.6 every loop is a range, " +
			"a counter loop, a queue drain with bounded pushes or a monotone fixpoint. R16.2-edge-filter the cycle detector drops a collected reference only on a miss in the common-type table; R16.2-namespace-agreement the inliner descends into a looked-up common type with the namespace of the path it was looked up under; R16.7 every variable index is the range index of its slice, bounded by a dominating comparison with its length, or counted from the end under a length fact. Explicit panics and wire-struct nil dereferences in these packages are decided under C10. Not decided: " +
			"stack depth of structural recursion over deep policy ASTs (C10 F6).",
		Run: runC16,
	})
}

func runC16(p *Prog, r *Report) {
	c16Recursion(p, r)
	c16Asserts(p, r)
	c16Loops(p, r)
	c16IndexInRange(p, r)
	c16EdgeFilter(p, r)
	c16NamespaceAgreement(p, r)
	c16NamespaceSplit(p, r)
	c16ResolveOrder(p, r)
	c16DegreeSymmetry(p, r)
	visitedScopeRule(p, r, "R16.1-visited-scope", 2, pValidate, pResolved)
}

// sccsOf computes the strongly connected components (with at least one cycle) of the call graph restricted to fns.
func sccsOf(p *Prog, inSet map[*ssa.Function]bool) [][]*ssa.Function {
	cg := p.CG()
	idx := map[*ssa.Function]int{}
	low := map[*ssa.Function]int{}
	onst := map[*ssa.Function]bool{}
	var stack []*ssa.Function
	var sccs [][]*ssa.Function
	counter := 0
	succ := func(f *ssa.Function) []*ssa.Function {
		var out []*ssa.Function
		seen := map[*ssa.Function]bool{}
		if n := cg.Nodes[f]; n != nil {
			for _, e := range n.Out {
				if e.Callee != nil && inSet[e.Callee.Func] && !seen[e.Callee.Func] {
					seen[e.Callee.Func] = true
					out = append(out, e.Callee.Func)
				}
			}
		}
		// a closure is "called" by the function that creates it (it may run it or hand it to an iterator)
		for _, a := range f.AnonFuncs {
			if inSet[a] && !seen[a] {
				out = append(out, a)
			}
		}
		sort.Slice(out, func(i, j int) bool { return out[i].String() < out[j].String() })
		return out
	}
	var strong func(v *ssa.Function)
	strong = func(v *ssa.Function) {
		counter++
		idx[v], low[v] = counter, counter
		stack = append(stack, v)
		onst[v] = true
		for _, w := range succ(v) {
			if idx[w] == 0 {
				strong(w)
				if low[w] < low[v] {
					low[v] = low[w]
				}
			} else if onst[w] && idx[w] < low[v] {
				low[v] = idx[w]
			}
		}
		if low[v] == idx[v] {
			var comp []*ssa.Function
			for {
				w := stack[len(stack)-1]
				stack = stack[:len(stack)-1]
				onst[w] = false
				comp = append(comp, w)
				if w == v {
					break
				}
			}
			selfLoop := false
			for _, w := range succ(v) {
				if w == v {
					selfLoop = true
				}
			}
			if len(comp) > 1 || selfLoop {
				sort.Slice(comp, func(i, j int) bool { return comp[i].String() < comp[j].String() })
				sccs = append(sccs, comp)
			}
		}
	}
	var fns []*ssa.Function
	for f := range inSet {
		fns = append(fns, f)
	}
	sort.Slice(fns, func(i, j int) bool { return fns[i].String() < fns[j].String() })
	for _, f := range fns {
		if idx[f] == 0 {
			strong(f)
		}
	}
	return sccs
}

// recursive call sites of an SCC: (caller, call instruction, callee) including calls through closure variables.
type recSite struct {
	caller, callee *ssa.Function
	site           ssa.CallInstruction
}

func recSites(p *Prog, comp []*ssa.Function) []recSite {
	cg := p.CG()
	in := map[*ssa.Function]bool{}
	for _, f := range comp {
		in[f] = true
	}
	var out []recSite
	seen := map[ssa.CallInstruction]map[*ssa.Function]bool{}
	for _, f := range comp {
		n := cg.Nodes[f]
		if n == nil {
			continue
		}
		for _, e := range n.Out {
			if e.Callee == nil || !in[e.Callee.Func] || e.Site == nil {
				continue
			}
			if seen[e.Site] == nil {
				seen[e.Site] = map[*ssa.Function]bool{}
			}
			if seen[e.Site][e.Callee.Func] {
				continue
			}
			seen[e.Site][e.Callee.Func] = true
			out = append(out, recSite{f, e.Callee.Func, e.Site})
		}
	}
	sort.Slice(out, func(i, j int) bool { return out[i].site.Pos() < out[j].site.Pos() })
	return out
}

// c16Acyclic: recursion that follows references by name and is safe only because the referenced graph was checked to
// be acyclic elsewhere; each entry names the rule that establishes it.
var c16Acyclic = map[string]string{
	"resolved.resolverState.resolveType": "common-type references: Resolve rejects cyclic common types before resolving (R16.2-cycle-check-first)",
}

func c16Recursion(p *Prog, r *Report) {
	const rule = "R16.1-recursion"
	inSet := map[*ssa.Function]bool{}
	for _, fn := range p.Funcs {
		if c16Pkgs[fnPkgPath(fn)] && len(fn.Blocks) > 0 {
			inSet[fn] = true
		}
	}
	n := 0
	for _, comp := range sccsOf(p, inSet) {
		n++
		var names []string
		for _, f := range comp {
			names = append(names, fnQual(f))
		}
		construct := names[0] + ":cycle"
		inComp := map[*ssa.Function]bool{}
		for _, f := range comp {
			inComp[f] = true
		}
		sites := recSites(p, comp)
		if len(sites) == 0 {
			// closure creation edges only (no call): not a recursion
			r.OK(rule, construct, p.pos(comp[0].Pos()), "no recursive call sites")
			continue
		}
		// classify every recursive call site
		neutral := map[*ssa.Function][]*ssa.Function{}
		var nameSites []recSite
		var undecided []string
		for _, s := range sites {
			args := s.site.Common().Args
			if s.site.Common().IsInvoke() {
				args = append([]ssa.Value{s.site.Common().Value}, args...)
			}
			desc, byName, changedOther := false, false, false
			for _, a := range args {
				if _, isFn := a.Type().Underlying().(*types.Signature); isFn {
					continue
				}
				o := originOf(a, 0)
				switch {
				case o.param >= 0 && o.steps == 0:
					// passed along unchanged
				case isNameType(a.Type()):
					byName = true
				case o.param >= 0 && o.steps >= 1:
					desc = true
				default:
					if _, isConst := a.(*ssa.Const); isConst {
						continue
					}
					if k := kindOfType(a.Type()); k.ok {
						continue // counters, flags
					}
					if b, ok := a.Type().Underlying().(*types.Basic); ok && b.Info()&types.IsBoolean != 0 {
						continue
					}
					changedOther = true
				}
			}
			switch {
			case byName:
				nameSites = append(nameSites, s)
			case desc && !changedOther:
				// structural descent: removes this edge from the cycle graph
			case changedOther:
				undecided = append(undecided, p.pos(s.site.Pos()))
			default:
				neutral[s.caller] = append(neutral[s.caller], s.callee)
			}
		}
		// creating a closure that belongs to the component hands control to it without making anything smaller
		for _, f := range comp {
			for _, an := range f.AnonFuncs {
				if inComp[an] {
					neutral[f] = append(neutral[f], an)
				}
			}
		}
		// every cycle must contain a descending edge: the neutral edges alone are acyclic
		cyc := false
		state := map[*ssa.Function]int{}
		var dfs func(f *ssa.Function)
		dfs = func(f *ssa.Function) {
			state[f] = 1
			for _, g := range neutral[f] {
				if state[g] == 1 {
					cyc = true
				} else if state[g] == 0 {
					dfs(g)
				}
			}
			state[f] = 2
		}
		for _, f := range comp {
			if state[f] == 0 {
				dfs(f)
			}
		}
		if len(undecided) > 0 {
			r.Undec(rule, construct, p.pos(comp[0].Pos()), "recursive call whose arguments are neither unchanged parameters nor parts of them: "+strings.Join(undecided, ", "))
			continue
		}
		if cyc {
			r.Viol(rule, construct, p.pos(comp[0].Pos()), "the functions ["+strings.Join(names, ", ")+"] can call each other with unchanged arguments: nothing gets smaller along that cycle, so the recursion need not end")
			continue
		}
		if len(nameSites) == 0 {
			r.OK(rule, construct, p.pos(comp[0].Pos()), "structural recursion: every cycle through ["+strings.Join(shortList(names, 4), ", ")+"] passes a strict part of a parameter")
			continue
		}
		// recursion by name: a visited set, or a tabled acyclicity argument
		allOK := true
		why := ""
		for _, s := range nameSites {
			if visitedDiscipline(s) {
				why = "visited set"
				continue
			}
			tabled := ""
			for _, f := range comp {
				if t, ok := c16Acyclic[fnQual(f)]; ok {
					tabled = t
				}
			}
			if tabled != "" {
				why = "tabled: " + tabled
				continue
			}
			allOK = false
			r.Viol(rule, construct, p.pos(s.site.Pos()), fnQual(s.caller)+" follows a reference by name into "+fnQual(s.callee)+" with no visited set, and nothing rejects cycles in the referenced graph: a cyclic (or self-referential) declaration recurses until the stack overflows, which is a fatal crash")
		}
		if allOK {
			r.OK(rule, construct, p.pos(comp[0].Pos()), "recursion by name is bounded: "+why)
		}
	}
	r.Check(n >= 12, rule, "sccs", "-", itoa(n)+" recursive components in resolution and validation", "expected at least 12 recursive components, found "+itoa(n))
}

func shortList(xs []string, n int) []string {
	if len(xs) <= n {
		return xs
	}
	return append(append([]string{}, xs[:n]...), "…")
}

// visitedDiscipline: the function containing the recursive call (or the function enclosing its loop closure) tests
// membership of its own name parameter in a map and records it before reaching the call.
func visitedDiscipline(s recSite) bool {
	// the function whose parameter names the node being visited: the callee of the recursive call
	f := s.callee
	var marks []*ssa.MapUpdate
	for _, g := range withAnon(f) {
		forEachInstr(g, func(in ssa.Instruction) {
			if mu, ok := in.(*ssa.MapUpdate); ok && g == f {
				if o := originOf(mu.Key, 0); o.param >= 0 && o.param < 1000 && o.steps == 0 && isNameType(mu.Key.Type()) {
					marks = append(marks, mu)
				}
			}
		})
	}
	for _, mu := range marks {
		// a lookup of the same map with the same key precedes the mark and guards a return
		tested := false
		forEachInstr(f, func(in ssa.Instruction) {
			lk, ok := in.(*ssa.Lookup)
			if !ok || !sameMapValue(lk.X, mu.Map) || originOf(lk.Index, 0) != originOf(mu.Key, 0) || !instrDominates(lk, mu) {
				return
			}
			for _, b := range f.Blocks {
				if _, isRet := lastInstr(b).(*ssa.Return); !isRet {
					continue
				}
				for _, g := range guardsAt(b) {
					if dependsOnValue(g.Cond, lk) {
						tested = true
					}
				}
			}
		})
		if !tested {
			continue
		}
		// the mark dominates the recursive call (through the closure that contains it, if any)
		site := s.site.(ssa.Instruction)
		at := site
		for fn := site.Parent(); fn != f && fn != nil; fn = fn.Parent() {
			mc := makeClosureOf(fn)
			if mc == nil {
				at = nil
				break
			}
			at = mc
		}
		if at != nil && at.Parent() == f && instrDominates(mu, at) {
			return true
		}
	}
	return false
}

func sameMapValue(a, b ssa.Value) bool {
	if a == b {
		return true
	}
	la, ok1 := a.(*ssa.UnOp)
	lb, ok2 := b.(*ssa.UnOp)
	if ok1 && ok2 && la.Op == token.MUL && lb.Op == token.MUL {
		return la.X == lb.X || termKey(la.X, 0) == termKey(lb.X, 0)
	}
	return false
}

// ---- E7: classification of recursive calls ----

// argOrigin describes how a value relates to the parameters of the function it is computed in.
type argOrigin struct {
	param int  // index of the parameter it derives from (-1: none)
	steps int  // number of projections applied (0 = the parameter itself)
	via   bool // passed through a call result
}

// originOf follows projections back to a parameter (or free variable bound to one).
func originOf(v ssa.Value, depth int) argOrigin {
	if depth > 14 {
		return argOrigin{param: -1}
	}
	switch x := v.(type) {
	case *ssa.Parameter:
		if isRangeFuncYield(x.Parent()) {
			// the loop variable of a range-over-func: an element of the iterated sequence
			if mc := makeClosureOf(x.Parent()); mc != nil {
				for _, ref := range *mc.Referrers() {
					if c, ok := ref.(*ssa.Call); ok && !c.Call.IsInvoke() {
						o := originOf(c.Call.Value, depth+1)
						if o.param >= 0 {
							o.steps++
							return o
						}
					}
				}
			}
			return argOrigin{param: -1}
		}
		for i, q := range x.Parent().Params {
			if q == x {
				return argOrigin{param: i}
			}
		}
	case *ssa.FreeVar:
		// closure: the captured variable of the enclosing function
		if mc := makeClosureOf(x.Parent()); mc != nil {
			for j, fv := range x.Parent().FreeVars {
				if fv == x && j < len(mc.Bindings) {
					o := originOf(mc.Bindings[j], depth+1)
					if o.param >= 0 {
						// report relative to the enclosing function's parameter (encoded with an offset)
						return argOrigin{param: 1000 + o.param, steps: o.steps, via: o.via}
					}
				}
			}
		}
	case *ssa.FieldAddr:
		o := originOf(x.X, depth+1)
		o.steps++
		return o
	case *ssa.Field:
		o := originOf(x.X, depth+1)
		o.steps++
		return o
	case *ssa.IndexAddr:
		o := originOf(x.X, depth+1)
		o.steps++
		return o
	case *ssa.Index:
		o := originOf(x.X, depth+1)
		o.steps++
		return o
	case *ssa.Lookup:
		o := originOf(x.X, depth+1)
		o.steps++
		return o
	case *ssa.UnOp:
		if x.Op == token.MUL {
			if al, ok := x.X.(*ssa.Alloc); ok {
				// a local: take the (single) stored value
				var src ssa.Value
				n := 0
				for _, ref := range *al.Referrers() {
					if st, ok := ref.(*ssa.Store); ok && st.Addr == ssa.Value(al) {
						src = st.Val
						n++
					}
				}
				if n == 1 {
					return originOf(src, depth+1)
				}
				return argOrigin{param: -1}
			}
			return originOf(x.X, depth+1)
		}
	case *ssa.Alloc:
		if src := singleStore(x); src != nil {
			return originOf(src, depth+1)
		}
	case *ssa.TypeAssert:
		return originOf(x.X, depth+1)
	case *ssa.Extract:
		o := originOf(x.Tuple, depth+1)
		return o
	case *ssa.Next:
		o := originOf(x.Iter, depth+1)
		o.steps++
		return o
	case *ssa.Range:
		return originOf(x.X, depth+1)
	case *ssa.MakeInterface:
		return originOf(x.X, depth+1)
	case *ssa.ChangeInterface:
		return originOf(x.X, depth+1)
	case *ssa.ChangeType:
		return originOf(x.X, depth+1)
	case *ssa.Convert:
		return originOf(x.X, depth+1)
	case *ssa.Slice:
		return originOf(x.X, depth+1)
	case *ssa.Phi:
		// all edges from the same parameter: the least number of steps
		var res *argOrigin
		for _, e := range x.Edges {
			if e == ssa.Value(x) {
				continue
			}
			o := originOf(e, depth+1)
			if o.param < 0 {
				return o
			}
			if res == nil {
				res = &o
			} else if res.param != o.param {
				return argOrigin{param: -1}
			} else if o.steps < res.steps {
				res.steps = o.steps
			}
		}
		if res != nil {
			return *res
		}
	case *ssa.Call:
		// accessor on a parameter-derived receiver: a part of it
		if len(x.Call.Args) >= 1 && !x.Call.IsInvoke() {
			o := originOf(x.Call.Args[0], depth+1)
			if o.param >= 0 {
				o.steps++
				o.via = true
				return o
			}
		}
		if x.Call.IsInvoke() {
			o := originOf(x.Call.Value, depth+1)
			if o.param >= 0 {
				o.steps++
				o.via = true
				return o
			}
		}
	}
	return argOrigin{param: -1}
}

// isNameType: a reference by name (string-like, or a struct/slice made only of strings such as EntityUID and Path).
func isNameType(t types.Type) bool {
	switch u := t.Underlying().(type) {
	case *types.Basic:
		return u.Info()&types.IsString != 0
	case *types.Struct:
		if u.NumFields() == 0 {
			return false
		}
		for i := 0; i < u.NumFields(); i++ {
			if !isNameType(u.Field(i).Type()) {
				return false
			}
		}
		return true
	}
	return false
}

// ---- R16.4 unchecked assertions in the schema packages ----

func c16Asserts(p *Prog, r *Report) {
	const rule = "R16.4-assertions"
	n := 0
	for _, fn := range p.Funcs {
		if !c16Pkgs[fnPkgPath(fn)] || len(fn.Blocks) == 0 {
			continue
		}
		counts := map[string]int{}
		forEachInstr(fn, func(in ssa.Instruction) {
			ta, ok := in.(*ssa.TypeAssert)
			if !ok || ta.CommaOk {
				return
			}
			for _, g := range guardsAt(ta.Block()) {
				fg := flattenGuard(g)
				if ex, ok := fg.Cond.(*ssa.Extract); ok && fg.Pol {
					if t2, ok := ex.Tuple.(*ssa.TypeAssert); ok && t2.X == ta.X && types.Identical(t2.AssertedType, ta.AssertedType) {
						return
					}
				}
			}
			n++
			base := fnQual(fn) + ":.(" + typeShort(ta.AssertedType) + ")"
			counts[base]++
			key := base
			if counts[base] > 1 {
				key += "#" + itoa(counts[base])
			}
			// the operand's static type must be a sealed interface; on every path to the assertion either the asserted kind
			// was confirmed or every other implementer was excluded
			var sealed *sealedIface
			if nt := namedOf(ta.X.Type()); nt != nil {
				sealed = p.sealedOf(nt)
			}
			if sealed == nil {
				// same-kind idiom: rank(a) == rank(b) and a is T  =>  b is T
				if c16SameKind(ta) {
					r.OK(rule, key, p.pos(ta.Pos()), "both operands were shown to have the same kind and the other one is a "+typeShort(ta.AssertedType))
					return
				}
				r.Viol(rule, key, p.pos(ta.Pos()), "unchecked type assertion on a value whose possible kinds are not a closed set: any other kind panics here")
				return
			}
			a := &ivFn{gcach: map[*ssa.BasicBlock][]Guard{}}
			missing := map[string]bool{}
			for _, cube := range a.cubesAt(ta.Block()) {
				confirmed := false
				excluded := map[string]bool{}
				for _, g := range cube {
					ex, ok := g.Cond.(*ssa.Extract)
					if !ok {
						continue
					}
					t2, ok := ex.Tuple.(*ssa.TypeAssert)
					if !ok || stripConv(t2.X) != stripConv(ta.X) && termKey(t2.X, 0) != termKey(ta.X, 0) {
						continue
					}
					if g.Pol && types.Identical(t2.AssertedType, ta.AssertedType) {
						confirmed = true
					}
					if !g.Pol {
						excluded[t2.AssertedType.String()] = true
					}
				}
				if confirmed {
					continue
				}
				for _, impl := range sealed.Impls {
					if types.Identical(impl, ta.AssertedType) {
						continue
					}
					if !excluded[impl.String()] {
						missing[typeShort(impl)] = true
					}
				}
			}
			if len(missing) == 0 {
				r.OK(rule, key, p.pos(ta.Pos()), "every other kind of "+sealed.name()+" was excluded on every path")
				return
			}
			var ms []string
			for m := range missing {
				ms = append(ms, m)
			}
			sort.Strings(ms)
			if c16SameKind(ta) {
				r.OK(rule, key, p.pos(ta.Pos()), "both operands were shown to have the same kind and the other one is a "+typeShort(ta.AssertedType))
				return
			}
			if why, ok := c16CallerContract(p, fn, ta, missing, 0); ok {
				r.OK(rule, key, p.pos(ta.Pos()), "callers guarantee the kind: "+why)
				return
			}
			r.Viol(rule, key, p.pos(ta.Pos()), "unchecked assertion to "+typeShort(ta.AssertedType)+": a value of kind "+strings.Join(ms, ", ")+" reaches it on some path and panics (decoders can produce such values)")
		})
	}
	r.Check(n >= 10, rule, "sites", "-", itoa(n)+" single-result assertions in the schema packages", "expected at least 10 single-result assertions, found "+itoa(n))
}

// c16SameKind recognises compareCedarType's idiom: the function returned early unless kindRank(a) == kindRank(b), and the
// assertion b.(T) sits under a successful a.(T).
func c16SameKind(ta *ssa.TypeAssert) bool {
	fn := ta.Parent()
	sameRank, otherIs := false, false
	for _, g := range guardsAt(ta.Block()) {
		fg := flattenGuard(g)
		if bo, ok := fg.Cond.(*ssa.BinOp); ok {
			cx, ok1 := bo.X.(*ssa.Call)
			cy, ok2 := bo.Y.(*ssa.Call)
			if ok1 && ok2 && cx.Call.StaticCallee() != nil && cx.Call.StaticCallee() == cy.Call.StaticCallee() && len(cx.Call.Args) == 1 && len(cy.Call.Args) == 1 {
				if (bo.Op == token.NEQ && !fg.Pol) || (bo.Op == token.EQL && fg.Pol) {
					args := map[ssa.Value]bool{cx.Call.Args[0]: true, cy.Call.Args[0]: true}
					if args[ta.X] && rankInjective(cx.Call.StaticCallee()) {
						sameRank = true
					}
				}
			}
		}
		if ex, ok := fg.Cond.(*ssa.Extract); ok && fg.Pol {
			if t2, ok := ex.Tuple.(*ssa.TypeAssert); ok && t2.X != ta.X && types.Identical(t2.AssertedType, ta.AssertedType) {
				otherIs = true
			}
		}
	}
	_ = fn
	return sameRank && otherIs
}

// rankInjective: the ranking function returns a distinct constant for each case of its type switch... for the kinds
// that carry structure (set, record, entity) it is enough that those three get constants no other kind gets.
func rankInjective(f *ssa.Function) bool {
	if f == nil || len(f.Blocks) == 0 {
		return false
	}
	byConst := map[int64][]string{}
	for _, b := range f.Blocks {
		ret, ok := lastInstr(b).(*ssa.Return)
		if !ok || len(ret.Results) != 1 {
			continue
		}
		c, ok := constInt(ret.Results[0])
		if !ok {
			return false
		}
		var kinds []string
		for _, g := range guardsAt(b) {
			fg := flattenGuard(g)
			if ex, ok := fg.Cond.(*ssa.Extract); ok && fg.Pol {
				if t2, ok := ex.Tuple.(*ssa.TypeAssert); ok {
					kinds = append(kinds, typeShort(t2.AssertedType))
				}
			}
		}
		if len(kinds) == 0 {
			kinds = []string{"<default>"}
		}
		byConst[c] = append(byConst[c], kinds...)
	}
	for _, ks := range byConst {
		structured := 0
		for _, k := range ks {
			if strings.HasSuffix(k, "typeSet") || strings.HasSuffix(k, "typeRecord") || strings.HasSuffix(k, "typeEntity") {
				structured++
			}
		}
		if structured > 0 && len(ks) > 1 {
			return false
		}
	}
	return len(byConst) >= 4
}

// ---- R16.6 loops ----

func c16Loops(p *Prog, r *Report) {
	const rule = "R16.6-loops"
	n := 0
	for _, fn := range p.Funcs {
		if !c16Pkgs[fnPkgPath(fn)] || len(fn.Blocks) == 0 {
			continue
		}
		for _, l := range loopsOf(fn) {
			n++
			construct := fnQual(fn) + ":loop@" + itoa(l.Header.Index)
			pos := p.pos(fn.Pos())
			kind := c16LoopKind(fn, l)
			r.Check(kind != "", rule, construct, pos, kind, "a loop in "+fnQual(fn)+" is neither a range loop, a counted loop, a queue drain nor a monotone fixpoint: it is not shown to terminate")
		}
	}
	r.Check(n >= 60, rule, "sites", "-", itoa(n)+" loops in the schema packages", "expected at least 60 loops, found "+itoa(n))
}

func c16LoopKind(fn *ssa.Function, l *loopInfo) string {
	for _, in := range l.Header.Instrs {
		if ph, ok := in.(*ssa.Phi); ok && strings.HasPrefix(ph.Comment, "rangeindex") {
			return "range over a slice"
		}
		if ph, ok := in.(*ssa.Phi); ok && strings.HasPrefix(ph.Comment, "rangeint") {
			return "range over an integer (bound evaluated once)"
		}
		if _, ok := in.(*ssa.Next); ok {
			return "range over a map or string"
		}
	}
	iff, ok := lastInstr(l.Header).(*ssa.If)
	if !ok {
		return ""
	}
	// counted: i < n with i incremented (or i > 0 decremented) on every path round the loop and n loop-invariant
	if bo, ok := iff.Cond.(*ssa.BinOp); ok {
		if ph, ok := bo.X.(*ssa.Phi); ok && ph.Block() == l.Header {
			up, all := 0, true
			for j, e := range ph.Edges {
				if !l.Body[l.Header.Preds[j]] {
					continue
				}
				st, ok := e.(*ssa.BinOp)
				c, isC := int64(0), false
				if ok {
					c, isC = constInt(st.Y)
				}
				if !ok || st.X != ssa.Value(ph) || !isC || c <= 0 {
					all = false
					break
				}
				if st.Op == token.ADD {
					up++
				} else if st.Op == token.SUB {
					up--
				} else {
					all = false
				}
			}
			inv := true
			if yi, ok := bo.Y.(ssa.Instruction); ok && l.Body[yi.Block()] {
				if c, ok := bo.Y.(*ssa.Call); !ok || !isBuiltin(&c.Call, "len") {
					inv = false
				}
			}
			if all && inv && ((up > 0 && (bo.Op == token.LSS || bo.Op == token.LEQ)) || (up < 0 && (bo.Op == token.GTR || bo.Op == token.GEQ))) {
				return "counted loop"
			}
		}
		// queue drain: for len(q) > 0 { q = q[1:] ... } where every append inside is guarded by a counter reaching zero
		if c, ok := bo.X.(*ssa.Call); ok && isBuiltin(&c.Call, "len") && bo.Op == token.GTR {
			if ph, ok := c.Call.Args[0].(*ssa.Phi); ok && ph.Block() == l.Header {
				pops := false
				for b := range l.Body {
					for _, in := range b.Instrs {
						if sl, ok := in.(*ssa.Slice); ok && sl.X == ssa.Value(ph) && sl.Low != nil {
							if k, ok := constInt(sl.Low); ok && k >= 1 {
								pops = true
							}
						}
					}
				}
				if pops && c16PushesBounded(l) {
					return "queue drain: each iteration pops one element and an element is pushed only when its counter reaches zero (at most once per element)"
				}
			}
		}
	}
	if c16MultiCounter(l) {
		return "counter loop: every trip round the loop increases one of the counters tested against a fixed bound and decreases none"
	}
	// monotone fixpoint: for changed { changed = false; ... if !contains(result, x) { result = append(result, x); changed = true } }
	if ph, ok := iff.Cond.(*ssa.Phi); ok || true {
		_ = ph
		if c16MonotoneFixpoint(fn, l, iff.Cond) {
			return "monotone fixpoint: the flag is set only when a new element of a finite universe is added"
		}
	}
	return ""
}

// c16PushesBounded: every append to the queue inside the loop is guarded by `counter == 0` right after a decrement.
func c16PushesBounded(l *loopInfo) bool {
	ok := true
	found := false
	for b := range l.Body {
		for _, in := range b.Instrs {
			c, isC := in.(*ssa.Call)
			if !isC || !isBuiltin(&c.Call, "append") {
				continue
			}
			found = true
			guarded := false
			for _, g := range guardsAt(b) {
				fg := flattenGuard(g)
				if bo, isB := fg.Cond.(*ssa.BinOp); isB && bo.Op == token.EQL && fg.Pol {
					if k, isK := constInt(bo.Y); isK && k == 0 {
						guarded = true
					}
				}
			}
			if !guarded {
				ok = false
			}
		}
	}
	return ok && found
}

// c16MonotoneFixpoint: the loop condition is a flag that is reset at the top of each round and set to true only in a
// block that also appends to a slice under a failed membership test of that slice.
func c16MonotoneFixpoint(fn *ssa.Function, l *loopInfo, cond ssa.Value) bool {
	ph, ok := cond.(*ssa.Phi)
	if !ok {
		return false
	}
	// find the inner phi chain: edges that are the constant true must come from blocks with a guarded append
	seen := map[*ssa.Phi]bool{}
	okAll := true
	found := false
	var walk func(x *ssa.Phi)
	walk = func(x *ssa.Phi) {
		if seen[x] {
			return
		}
		seen[x] = true
		for j, e := range x.Edges {
			pred := x.Block().Preds[j]
			if cb, isC := constBool(e); isC {
				if !cb {
					continue
				}
				if !l.Body[pred] {
					continue // initial `changed := true`
				}
				found = true
				// pred (or a dominator inside the loop) appends under `!slices.Contains(result, x)`
				appended := false
				for b := pred; b != nil && l.Body[b]; b = b.Idom() {
					for _, in := range b.Instrs {
						if c, isCall := in.(*ssa.Call); isCall && isBuiltin(&c.Call, "append") {
							appended = true
						}
					}
					if appended {
						break
					}
				}
				notMember := false
				for _, g := range guardsAt(pred) {
					fg := flattenGuard(g)
					if c, isCall := fg.Cond.(*ssa.Call); isCall && !fg.Pol && c.Call.StaticCallee() != nil && fnBase(c.Call.StaticCallee()) == "Contains" {
						notMember = true
					}
				}
				if !appended || !notMember {
					okAll = false
				}
				continue
			}
			if p2, isPhi := e.(*ssa.Phi); isPhi {
				walk(p2)
				continue
			}
			okAll = false
		}
	}
	walk(ph)
	return okAll && found
}

// ---- R16.2 cycle checks precede resolution ----

func c16ResolveOrder(p *Prog, r *Report) {
	const rule = "R16.2-cycle-check-first"
	res := p.fn(pResolved, "Resolve")
	if res == nil {
		r.Anchor(rule, "resolved.Resolve")
		return
	}
	cg := p.CG()
	reaches := func(from *ssa.Function, target string) bool {
		seen := map[*ssa.Function]bool{}
		work := []*ssa.Function{from}
		for len(work) > 0 {
			f := work[len(work)-1]
			work = work[:len(work)-1]
			if seen[f] {
				continue
			}
			seen[f] = true
			if fnQual(f) == target {
				return true
			}
			if n := cg.Nodes[f]; n != nil {
				for _, e := range n.Out {
					if e.Callee != nil && fnPkgPath(e.Callee.Func) == pResolved {
						work = append(work, e.Callee.Func)
					}
				}
			}
		}
		return false
	}
	errReturned := func(call *ssa.Call) bool {
		// the error result is tested and returned (non-nil) on that branch
		var ev ssa.Value = call
		if call.Call.Signature().Results().Len() > 1 {
			ev = extractOf(call, call.Call.Signature().Results().Len()-1)
		}
		if ev == nil {
			return false
		}
		for _, ref := range *ev.Referrers() {
			bo, ok := ref.(*ssa.BinOp)
			if !ok || bo.Op != token.NEQ {
				continue
			}
			if iff := ifUsing(bo); iff != nil {
				if ret, ok := lastInstrDeep(iff.Block().Succs[0]).(*ssa.Return); ok && retLast(ret) == ev {
					return true
				}
			}
		}
		return false
	}
	var detect, membership *ssa.Call
	var resolvers []*ssa.Call
	for _, c := range callsIn(res) {
		call, ok := c.(*ssa.Call)
		if !ok || call.Call.StaticCallee() == nil {
			continue
		}
		f := call.Call.StaticCallee()
		switch {
		case fnQual(f) == "resolved.resolverState.detectCommonTypeCycles":
			detect = call
		case fnQual(f) == "resolved.resolverState.validateActionMembership":
			membership = call
		case fnPkgPath(f) == pResolved && reaches(f, "resolved.resolverState.resolveTypeRef"):
			resolvers = append(resolvers, call)
		}
	}
	okDetect := detect != nil && errReturned(detect) && len(resolvers) > 0
	for _, rc := range resolvers {
		if detect == nil || !instrDominates(detect, rc) {
			okDetect = false
		}
	}
	r.Check(okDetect, rule, "resolved.Resolve:common-type-cycles", p.pos(res.Pos()), "cyclic common types are rejected (error returned) before any of the "+itoa(len(resolvers))+" calls that inline type references",
		"Resolve must call detectCommonTypeCycles and return its error before every call that reaches resolveTypeRef: inlining a cyclic common type recurses without end")
	r.Check(membership != nil && errReturned(membership), rule, "resolved.Resolve:action-cycles", p.pos(res.Pos()), "cyclic action groups are rejected by Resolve", "Resolve must return validateActionMembership's error: a cyclic action hierarchy is a schema error the caller has to be told about")
	// the type-reference resolver is only reachable through Resolve
	for _, fn := range p.Funcs {
		if fnPkgPath(fn) != pResolved || fn.Parent() != nil || fn == res {
			continue
		}
		obj, _ := fn.Object().(*types.Func)
		if obj == nil || !obj.Exported() {
			continue
		}
		if reaches(fn, "resolved.resolverState.resolveTypeRef") {
			r.Viol(rule, fnQual(fn)+":bypasses-cycle-check", p.pos(fn.Pos()), "exported function "+fnQual(fn)+" reaches resolveTypeRef without going through Resolve's cycle check")
		}
	}
}

// singleStore: the one value ever stored (as a whole) into a local; nil when it is assigned more than once or written
// through a field or from a closure.
func singleStore(al *ssa.Alloc) ssa.Value {
	var src ssa.Value
	n := 0
	bad := false
	var visit func(v ssa.Value, whole bool, depth int)
	visit = func(v ssa.Value, whole bool, depth int) {
		if depth > 4 || v.Referrers() == nil {
			return
		}
		for _, ref := range *v.Referrers() {
			switch y := ref.(type) {
			case *ssa.Store:
				if y.Addr == v {
					if !whole {
						bad = true
						return
					}
					n++
					src = y.Val
				}
			case *ssa.FieldAddr:
				visit(y, false, depth+1)
			case *ssa.IndexAddr:
				visit(y, false, depth+1)
			case *ssa.MakeClosure:
				for j, b := range y.Bindings {
					if b == v {
						if fn, ok := y.Fn.(*ssa.Function); ok && j < len(fn.FreeVars) {
							visit(fn.FreeVars[j], whole, depth+1)
						}
					}
				}
			}
		}
	}
	visit(al, true, 0)
	if bad || n != 1 {
		return nil
	}
	return src
}

// ---- caller contracts for assertions on parameters ----

// kindsConfirmed returns the kinds a cube confirms for value x: successful type tests and successful kind predicates.
func kindsConfirmed(p *Prog, cube []Guard, x ssa.Value, depth int) map[string]bool {
	var out map[string]bool
	meet := func(s map[string]bool) {
		if out == nil {
			out = map[string]bool{}
			for k := range s {
				out[k] = true
			}
			return
		}
		for k := range out {
			if !s[k] {
				delete(out, k)
			}
		}
	}
	for _, g := range cube {
		if ex, ok := g.Cond.(*ssa.Extract); ok && g.Pol {
			if t2, ok := ex.Tuple.(*ssa.TypeAssert); ok && (t2.X == x || termKey(t2.X, 0) == termKey(x, 0)) {
				meet(map[string]bool{typeShort(t2.AssertedType): true})
			}
		}
		if c, ok := g.Cond.(*ssa.Call); ok && g.Pol && len(c.Call.Args) == 1 && (c.Call.Args[0] == x || termKey(c.Call.Args[0], 0) == termKey(x, 0)) {
			if ts := predicateTrueSet(p, c.Call.StaticCallee(), depth+1); ts != nil {
				meet(ts)
			}
		}
	}
	return out
}

var predMemo = map[*ssa.Function]map[string]bool{}

// predicateTrueSet: for a one-argument boolean function over a sealed interface, the kinds for which it can return true
// (nil = not such a predicate / unknown).
func predicateTrueSet(p *Prog, f *ssa.Function, depth int) map[string]bool {
	if f == nil || len(f.Blocks) == 0 || len(f.Params) != 1 || f.Signature.Results().Len() != 1 || depth > 3 {
		return nil
	}
	if m, ok := predMemo[f]; ok {
		return m
	}
	predMemo[f] = nil
	out := map[string]bool{}
	a := &ivFn{gcach: map[*ssa.BasicBlock][]Guard{}}
	for _, b := range f.Blocks {
		ret, ok := lastInstr(b).(*ssa.Return)
		if !ok {
			continue
		}
		v := ret.Results[0]
		if cb, isC := constBool(v); isC {
			if !cb {
				continue
			}
			for _, cube := range a.cubesAt(b) {
				ks := kindsConfirmed(p, cube, f.Params[0], depth)
				if ks == nil {
					return nil
				}
				for k := range ks {
					out[k] = true
				}
			}
			continue
		}
		// return ok of a type test / return q(t)
		if ex, ok := v.(*ssa.Extract); ok && ex.Index == 1 {
			if t2, ok := ex.Tuple.(*ssa.TypeAssert); ok && t2.X == ssa.Value(f.Params[0]) {
				out[typeShort(t2.AssertedType)] = true
				continue
			}
		}
		if c, ok := v.(*ssa.Call); ok && len(c.Call.Args) == 1 && c.Call.Args[0] == ssa.Value(f.Params[0]) {
			if ts := predicateTrueSet(p, c.Call.StaticCallee(), depth+1); ts != nil {
				for k := range ts {
					out[k] = true
				}
				continue
			}
		}
		return nil
	}
	predMemo[f] = out
	return out
}

// tableKinds: the concrete kinds ever stored into the slice field `field` of struct type st by the package
// initialiser, provided nothing else writes that field.
func tableKinds(p *Prog, st *types.Named, field string) map[string]bool {
	out := map[string]bool{}
	okAll := true
	for _, fn := range p.Funcs {
		if fn.Pkg == nil || fn.Pkg.Pkg != st.Obj().Pkg() {
			continue
		}
		forEachInstr(fn, func(in ssa.Instruction) {
			store, ok := in.(*ssa.Store)
			if !ok {
				return
			}
			fa, ok := store.Addr.(*ssa.FieldAddr)
			if !ok {
				return
			}
			pt, ok := fa.X.Type().Underlying().(*types.Pointer)
			if !ok || namedOf(pt.Elem()) != st {
				return
			}
			if pt.Elem().Underlying().(*types.Struct).Field(fa.Field).Name() != field {
				return
			}
			if fn.Name() != "init" || fn.Parent() != nil {
				okAll = false
				return
			}
			sl, ok := store.Val.(*ssa.Slice)
			if !ok {
				okAll = false
				return
			}
			arr, ok := sl.X.(*ssa.Alloc)
			if !ok {
				okAll = false
				return
			}
			for _, ref := range *arr.Referrers() {
				ia, ok := ref.(*ssa.IndexAddr)
				if !ok {
					continue
				}
				for _, r2 := range *ia.Referrers() {
					if st2, ok := r2.(*ssa.Store); ok {
						mi, ok := st2.Val.(*ssa.MakeInterface)
						if !ok {
							okAll = false
							continue
						}
						out[typeShort(mi.X.Type())] = true
					}
				}
			}
		})
	}
	if !okAll || len(out) == 0 {
		return nil
	}
	return out
}

// c16CallerContract: the asserted value is an unchanged parameter of an unexported function and every call site rules
// out the kinds in `missing`, by a successful kind predicate on the argument or because the argument comes from a
// constant table that contains none of them.
func c16CallerContract(p *Prog, fn *ssa.Function, ta *ssa.TypeAssert, missing map[string]bool, depth int) (string, bool) {
	o := originOf(ta.X, 0)
	if o.param < 0 || o.param >= 1000 || o.steps != 0 || depth > 2 {
		return "", false
	}
	if obj, _ := fn.Object().(*types.Func); obj == nil || obj.Exported() {
		return "", false
	}
	node := p.CG().Nodes[fn]
	if node == nil || len(node.In) == 0 {
		return "", false
	}
	reasons := map[string]bool{}
	a := &ivFn{gcach: map[*ssa.BasicBlock][]Guard{}}
	for _, e := range node.In {
		site := e.Site
		if site == nil || site.Common().StaticCallee() != fn {
			return "", false
		}
		args := site.Common().Args
		if o.param >= len(args) {
			return "", false
		}
		arg := args[o.param]
		okSite := false
		// (1) a kind predicate (or type test) holds on every path to the call
		all := true
		for _, cube := range a.cubesAt(site.Block()) {
			ks := kindsConfirmed(p, cube, arg, 0)
			if ks == nil {
				all = false
				break
			}
			for k := range ks {
				if missing[k] {
					all = false
				}
			}
		}
		if all {
			okSite = true
			reasons["kind predicate at "+fnQual(e.Caller.Func)] = true
		}
		// (2) the argument is read from a constant table
		if !okSite {
			v := arg
			for i := 0; i < 6 && v != nil; i++ {
				switch x := v.(type) {
				case *ssa.UnOp:
					v = x.X
					continue
				case *ssa.IndexAddr:
					v = x.X
					continue
				case *ssa.Index:
					v = x.X
					continue
				case *ssa.Field:
					if n := namedOf(x.X.Type()); n != nil {
						if tk := tableKinds(p, n, n.Underlying().(*types.Struct).Field(x.Field).Name()); tk != nil {
							clean := true
							for k := range tk {
								if missing[k] {
									clean = false
								}
							}
							if clean {
								okSite = true
								reasons["constant table "+n.Obj().Name()+"."+n.Underlying().(*types.Struct).Field(x.Field).Name()] = true
							}
						}
					}
				case *ssa.FieldAddr:
					if pt, ok := x.X.Type().Underlying().(*types.Pointer); ok {
						if n := namedOf(pt.Elem()); n != nil {
							if tk := tableKinds(p, n, n.Underlying().(*types.Struct).Field(x.Field).Name()); tk != nil {
								clean := true
								for k := range tk {
									if missing[k] {
										clean = false
									}
								}
								if clean {
									okSite = true
									reasons["constant table "+n.Obj().Name()+"."+n.Underlying().(*types.Struct).Field(x.Field).Name()] = true
								}
							}
						}
					}
				}
				break
			}
		}
		if !okSite {
			return "", false
		}
	}
	var rs []string
	for k := range reasons {
		rs = append(rs, k)
	}
	sort.Strings(rs)
	return strings.Join(rs, "; "), true
}

// c16MultiCounter: the loop's exits test header phis (counters) with < / <= against loop-invariant bounds, and along
// every acyclic path from the header back to it each counter stays or grows by a positive constant and at least one grows.
func c16MultiCounter(l *loopInfo) bool {
	counters := map[*ssa.Phi]bool{}
	for b := range l.Body {
		iff, ok := lastInstr(b).(*ssa.If)
		if !ok {
			continue
		}
		exits := !l.Body[b.Succs[0]] || !l.Body[b.Succs[1]]
		if !exits {
			continue
		}
		bo, ok := iff.Cond.(*ssa.BinOp)
		if !ok || (bo.Op != token.LSS && bo.Op != token.LEQ) {
			continue
		}
		ph, ok := bo.X.(*ssa.Phi)
		if !ok || ph.Block() != l.Header {
			continue
		}
		// the bound does not change inside the loop
		if yi, ok := bo.Y.(ssa.Instruction); ok && l.Body[yi.Block()] {
			c, isCall := bo.Y.(*ssa.Call)
			if !isCall || !isBuiltin(&c.Call, "len") {
				continue
			}
			if ai, ok := c.Call.Args[0].(ssa.Instruction); ok && l.Body[ai.Block()] {
				if _, isPhi := c.Call.Args[0].(*ssa.Phi); isPhi {
					continue
				}
			}
		}
		// the exit is taken when the test fails
		if l.Body[b.Succs[1]] {
			continue
		}
		counters[ph] = true
	}
	if len(counters) == 0 {
		return false
	}
	// enumerate acyclic paths header -> header
	type pathT []*ssa.BasicBlock
	var paths []pathT
	var walk func(b *ssa.BasicBlock, cur pathT, on map[*ssa.BasicBlock]bool)
	tooMany := false
	walk = func(b *ssa.BasicBlock, cur pathT, on map[*ssa.BasicBlock]bool) {
		if tooMany {
			return
		}
		for _, s2 := range b.Succs {
			if !l.Body[s2] {
				continue
			}
			if s2 == l.Header {
				paths = append(paths, append(append(pathT{}, cur...), b))
				if len(paths) > 64 {
					tooMany = true
				}
				continue
			}
			if on[s2] {
				// an inner loop: not handled here
				tooMany = true
				return
			}
			on[s2] = true
			walk(s2, append(cur, b), on)
			delete(on, s2)
		}
	}
	walk(l.Header, nil, map[*ssa.BasicBlock]bool{l.Header: true})
	if tooMany || len(paths) == 0 {
		return false
	}
	for _, path := range paths {
		// predecessor of each block on this path
		predOf := map[*ssa.BasicBlock]*ssa.BasicBlock{}
		for i := 1; i < len(path); i++ {
			predOf[path[i]] = path[i-1]
		}
		latch := path[len(path)-1]
		grew := false
		for ph := range counters {
			// the value flowing back along this path
			var v ssa.Value
			for j, pb := range l.Header.Preds {
				if pb == latch {
					v = ph.Edges[j]
				}
			}
			delta, ok := int64(0), true
			for steps := 0; steps < 8 && v != ssa.Value(ph); steps++ {
				switch x := v.(type) {
				case *ssa.Phi:
					pb := predOf[x.Block()]
					found := false
					for j, q := range x.Block().Preds {
						if q == pb {
							v = x.Edges[j]
							found = true
						}
					}
					if !found {
						ok = false
					}
				case *ssa.BinOp:
					c, isC := constInt(x.Y)
					if x.Op != token.ADD || !isC || c <= 0 {
						ok = false
					} else {
						delta += c
						v = x.X
					}
				default:
					ok = false
				}
				if !ok {
					break
				}
			}
			if !ok || v != ssa.Value(ph) {
				return false
			}
			if delta > 0 {
				grew = true
			}
		}
		if !grew {
			return false
		}
	}
	return true
}

// R16.2-degree-symmetry: a cycle detector that counts in-degrees (Kahn) is only right when the count and the drain are
// symmetric: one increment per edge while counting, one decrement per edge while draining — both unconditional within
// their loop bodies. A conditional increment (e.g. "count each distinct predecessor once") with an unconditional
// decrement lets a duplicated edge drive a cyclic node's degree to zero, the cycle goes unreported and the resolver
// then inlines it forever.
func c16DegreeSymmetry(p *Prog, r *Report) {
	const rule = "R16.2-degree-symmetry"
	n := 0
	for _, fn := range p.Funcs {
		if fnPkgPath(fn) != pResolved || fn.Parent() != nil {
			continue
		}
		type upd struct {
			mu  *ssa.MapUpdate
			inc bool
		}
		byMap := map[ssa.Value][]upd{}
		forEachInstr(fn, func(in ssa.Instruction) {
			mu, ok := in.(*ssa.MapUpdate)
			if !ok {
				return
			}
			bo, ok := mu.Value.(*ssa.BinOp)
			if !ok || (bo.Op != token.ADD && bo.Op != token.SUB) {
				return
			}
			if k, ok := constInt(bo.Y); !ok || k != 1 {
				return
			}
			lk, ok := bo.X.(*ssa.Lookup)
			if !ok || lk.X != mu.Map || lk.Index != mu.Key {
				return
			}
			byMap[mu.Map] = append(byMap[mu.Map], upd{mu, bo.Op == token.ADD})
		})
		loops := loopsOf(fn)
		for _, ups := range byMap {
			hasInc, hasDec := false, false
			for _, u := range ups {
				if u.inc {
					hasInc = true
				} else {
					hasDec = true
				}
			}
			if !hasInc || !hasDec {
				continue
			}
			for _, u := range ups {
				n++
				l := innermostLoop(loops, u.mu.Block())
				uncond := l != nil
				if l != nil {
					for _, pred := range l.Header.Preds {
						if l.Body[pred] && !u.mu.Block().Dominates(pred) {
							uncond = false
						}
					}
				}
				what := "decrement"
				if u.inc {
					what = "increment"
				}
				r.Check(uncond, rule, fnQual(fn)+":degree-"+what, p.pos(u.mu.Pos()), "one "+what+" per edge, unconditionally",
					"in "+fnShort(fn)+" the in-degree "+what+" is not executed for every edge visited by its loop while its counterpart is: counting and draining disagree on duplicated edges, so a cycle referenced twice from one type is not reported and resolution recurses without end")
			}
		}
	}
	if n == 0 {
		r.Undec(rule, "resolved:degree-table", "-", "no in-degree table with matching increments and decrements found in the resolver (the cycle detector changed shape)")
	}
}

// ---- R16.7 variable indexes stay inside the slice ----

// c16IndexInRange: every s[i] with a non-constant i in the schema packages is in range by construction: i is the index of
// a range loop over s itself, or a dominating comparison bounds i by len(s) (directly, through min(len(s), …), or through a
// length equality with the slice that i ranges over), or i is len(s)-1 under len(s) > 0. Anything else is reported: an index
// that ranges over one slice and is applied to another panics as soon as the other is shorter.
func c16IndexInRange(p *Prog, r *Report) {
	const rule = "R16.7-index-in-range"
	n := 0
	for _, fn := range p.Funcs {
		if !c16Pkgs[fnPkgPath(fn)] || len(fn.Blocks) == 0 {
			continue
		}
		loops := loopsOf(fn)
		ord := map[string]int{}
		forEachInstr(fn, func(in ssa.Instruction) {
			var seq, idx ssa.Value
			switch x := in.(type) {
			case *ssa.IndexAddr:
				seq, idx = x.X, x.Index
			case *ssa.Index:
				seq, idx = x.X, x.Index
			default:
				return
			}
			switch seq.Type().Underlying().(type) {
			case *types.Slice, *types.Basic:
			default:
				return // arrays and pointers to arrays: the compiler checks constant indexes, varargs packing is generated
			}
			if _, isK := constInt(idx); isK {
				return // constant indexes are R16.4/R10.4 territory (length tests)
			}
			n++
			base := fnQual(fn) + ":" + describeVal(seq) + "[" + describeVal(idx) + "]"
			ord[base]++
			construct := base
			if ord[base] > 1 {
				construct = base + "#" + itoa(ord[base])
			}
			if why := c16IndexWhy(p, fn, loops, in.Block(), seq, idx); why != "" {
				r.OK(rule, construct, p.pos(in.Pos()), why)
				return
			}
			r.Viol(rule, construct, p.pos(in.Pos()), "the index "+describeVal(idx)+" is not bounded by the length of "+describeVal(seq)+" on the way here (it is neither the range index of that slice nor compared with its length): a shorter slice panics with index out of range")
		})
	}
	r.Check(n >= 5, rule, "sites", "-", itoa(n)+" variable index expressions in resolution and validation", "expected at least 5 variable index expressions, found "+itoa(n))
}

func c16SameSeq(a, b ssa.Value) bool {
	if a == b {
		return true
	}
	da, db := describeVal(a), describeVal(b)
	if da == "" || da != db {
		return false
	}
	// names of temporaries (t12) say nothing; named things (params, fields of params, locals) do
	if len(da) > 1 && da[0] == 't' && da[1] >= '0' && da[1] <= '9' {
		return false
	}
	return true
}

func c16LenOf(v ssa.Value) ssa.Value {
	if c, ok := v.(*ssa.Call); ok && isBuiltin(&c.Call, "len") {
		return c.Call.Args[0]
	}
	return nil
}

// c16UpperBy: value v (an upper bound expression) is at most len(seq).
func c16UpperBy(v ssa.Value, seq ssa.Value, b *ssa.BasicBlock, depth int) bool {
	if depth > 3 {
		return false
	}
	if s := c16LenOf(v); s != nil {
		if c16SameSeq(s, seq) {
			return true
		}
		// len(t) with a dominating len(t) == len(seq) or len(t) <= len(seq)
		for _, g := range guardsAt(b) {
			fg := flattenGuard(g)
			bo, ok := fg.Cond.(*ssa.BinOp)
			if !ok {
				continue
			}
			lx, ly := c16LenOf(bo.X), c16LenOf(bo.Y)
			if lx == nil || ly == nil {
				continue
			}
			eq := bo.Op == token.EQL && fg.Pol || bo.Op == token.NEQ && !fg.Pol
			if eq && (c16SameSeq(lx, s) && c16SameSeq(ly, seq) || c16SameSeq(ly, s) && c16SameSeq(lx, seq)) {
				return true
			}
		}
		return false
	}
	if c, ok := v.(*ssa.Call); ok && isBuiltin(&c.Call, "min") {
		for _, a := range c.Call.Args {
			if c16UpperBy(a, seq, b, depth+1) {
				return true
			}
		}
	}
	if ph, ok := v.(*ssa.Phi); ok {
		// n := len(a); if len(b) < n { n = len(b) }: each incoming value is at most len(seq) either outright or because of
		// the comparison that selected it
		for i, e := range ph.Edges {
			if c16UpperBy(e, seq, b, depth+1) {
				continue
			}
			pred := ph.Block().Preds[i]
			gs := guardsAt(pred)
			if iff, ok := lastInstr(pred).(*ssa.If); ok && pred.Succs[0] != pred.Succs[1] {
				gs = append(gs, Guard{Cond: iff.Cond, Pol: pred.Succs[0] == ph.Block(), If: iff})
			}
			okEdge := false
			for _, g := range gs {
				fg := flattenGuard(g)
				bo, isB := fg.Cond.(*ssa.BinOp)
				if !isB {
					continue
				}
				x, y, op := bo.X, bo.Y, bo.Op
				if !fg.Pol {
					op = negateOp(op)
				}
				// want: e <= (something at most len(seq))
				if y == e || c16LenOf(y) != nil && c16LenOf(e) != nil && c16SameSeq(c16LenOf(y), c16LenOf(e)) {
					x, y, op = y, x, mirrorOp(op)
				}
				same := x == e || c16LenOf(x) != nil && c16LenOf(e) != nil && c16SameSeq(c16LenOf(x), c16LenOf(e))
				if same && (op == token.LSS || op == token.LEQ) && c16UpperBy(y, seq, b, depth+1) {
					okEdge = true
				}
			}
			if !okEdge {
				return false
			}
		}
		return len(ph.Edges) > 0
	}
	return false
}

// c16RangedSlices: the slices whose range loop l is and whose index idx is.
func c16RangedSlices(l *loopInfo, idx ssa.Value) []ssa.Value {
	var out []ssa.Value
	iff, ok := lastInstr(l.Header).(*ssa.If)
	if !ok {
		return nil
	}
	cmp, ok := iff.Cond.(*ssa.BinOp)
	if !ok {
		return nil
	}
	if t := c16LenOf(cmp.Y); t != nil && isFullRangeLoopIdx(l, idx, t) {
		out = append(out, t)
	}
	return out
}

// c16LenAtLeast: slice v has at least k elements at block b.
func c16LenAtLeast(p *Prog, fn *ssa.Function, b *ssa.BasicBlock, v ssa.Value, k int64, depth int) (string, bool) {
	if depth > 4 {
		return "", false
	}
	if lenFactAtLeast(b, v, k) {
		return "dominating length test", true
	}
	switch x := v.(type) {
	case *ssa.MakeSlice:
		if t := c16LenOf(x.Len); t != nil {
			if why, ok := c16LenAtLeast(p, fn, b, t, k, depth+1); ok {
				return "sized from a slice with " + why, true
			}
		}
		if n, isK := constInt(x.Len); isK && n >= k {
			return "made with constant length", true
		}
	case *ssa.Call:
		if f := x.Call.StaticCallee(); f != nil && stdName(f) == "slices.Compact" && k <= 1 {
			if why, ok := c16LenAtLeast(p, fn, b, x.Call.Args[0], 1, depth+1); ok {
				return "slices.Compact of a non-empty slice (" + why + ")", true
			}
		}
	case *ssa.Parameter:
		if why, ok := c10CallersGuarantee(p, fn, x, k, 0); ok {
			return "every caller passes that many (" + why + ")", true
		}
	}
	return "", false
}

func c16IndexWhy(p *Prog, fn *ssa.Function, loops []*loopInfo, b *ssa.BasicBlock, seq, idx ssa.Value) string {
	// (1) range index of the same slice
	for _, l := range loops {
		if !l.Body[b] {
			continue
		}
		if isFullRangeLoopIdx(l, idx, seq) {
			return "range index of the same slice"
		}
		// dst := make([]T, len(t)); for i := range t { dst[i] = … }
		if ms, ok := seq.(*ssa.MakeSlice); ok {
			if t := c16LenOf(ms.Len); t != nil {
				hit := false
				for _, cand := range c16RangedSlices(l, idx) {
					if c16SameSeq(cand, t) {
						hit = true
					}
				}
				if hit {
					return "range index of the slice this one was sized from (make(_, len(that)))"
				}
			}
		}
		// range over another slice t with len(t) bounded by len(seq)
		if bo, ok := idx.(*ssa.BinOp); ok && bo.Op == token.ADD {
			if iff, ok := lastInstr(l.Header).(*ssa.If); ok {
				if cmp, ok := iff.Cond.(*ssa.BinOp); ok && cmp.Op == token.LSS && cmp.X == ssa.Value(bo) {
					if t := c16LenOf(cmp.Y); t != nil && isFullRangeLoopIdx(l, idx, t) && c16UpperBy(cmp.Y, seq, b, 0) {
						return "range index of a slice whose length was tested equal to this one's"
					}
				}
			}
		}
	}
	// (2) a dominating i < bound with bound <= len(seq), and i counts up from a non-negative start
	for _, g := range guardsAt(b) {
		fg := flattenGuard(g)
		bo, ok := fg.Cond.(*ssa.BinOp)
		if !ok {
			continue
		}
		x, y, op := bo.X, bo.Y, bo.Op
		if !fg.Pol {
			op = negateOp(op)
		}
		if y == idx {
			x, y, op = y, x, mirrorOp(op)
		}
		if x != idx || op != token.LSS {
			continue
		}
		if c16UpperBy(y, seq, b, 0) && c16NonNegative(idx, 0) {
			return "under " + describeVal(idx) + " < " + describeVal(y) + " with that bound at most the slice's length"
		}
	}
	// (3) len(seq)-1 under len(seq) > 0
	if bo, ok := idx.(*ssa.BinOp); ok && bo.Op == token.SUB {
		if k, isK := constInt(bo.Y); isK && k >= 1 {
			if s := c16LenOf(bo.X); s != nil && c16SameSeq(s, seq) {
				if why, ok := c16LenAtLeast(p, fn, b, seq, k, 0); ok {
					return "element counted from the end; the slice has at least " + itoa(int(k)) + " element(s): " + why
				}
			}
		}
	}
	return ""
}

// c16NonNegative: a counter that starts at a non-negative constant (or a length) and only grows, or a range index.
func c16NonNegative(v ssa.Value, depth int) bool {
	if depth > 3 {
		return false
	}
	if k, isK := constInt(v); isK {
		return k >= 0
	}
	if c16LenOf(v) != nil {
		return true
	}
	switch x := v.(type) {
	case *ssa.Phi:
		for _, e := range x.Edges {
			if e == ssa.Value(x) {
				continue
			}
			if bo, ok := e.(*ssa.BinOp); ok && bo.Op == token.ADD && (bo.X == ssa.Value(x) || c16NonNegative(bo.X, depth+1)) {
				if k, isK := constInt(bo.Y); isK && k >= 0 {
					continue
				}
			}
			if k, isK := constInt(e); isK && k >= -1 && depth > 0 {
				continue // the -1 start of a rotated range loop, seen through its increment
			}
			if !c16NonNegative(e, depth+1) {
				return false
			}
		}
		return true
	case *ssa.BinOp:
		if x.Op == token.ADD {
			if k, isK := constInt(x.Y); isK && k >= 1 {
				if ph, ok := x.X.(*ssa.Phi); ok {
					// range index: phi [-1, phi+1] + 1
					good := true
					for _, e := range ph.Edges {
						if k2, isK2 := constInt(e); isK2 && k2 >= -1 {
							continue
						}
						if e == ssa.Value(x) {
							continue
						}
						good = false
					}
					if good {
						return true
					}
				}
				return c16NonNegative(x.X, depth+1)
			}
		}
	}
	return false
}

// R16.2-edge-filter: the common-type cycle detector may leave a collected reference out of its graph only because the
// reference does not name a common type (a miss in the common-type table). Any other filter — "this also resolves as an
// entity", "already seen" — removes edges the inliner still follows (it tries the common-type table first), so a cycle
// through such an edge goes unreported and the inliner then recurses without end.
func c16EdgeFilter(p *Prog, r *Report) {
	const rule = "R16.2-edge-filter"
	fn := p.fn(pResolved, "resolverState.detectCommonTypeCycles")
	if fn == nil {
		r.Anchor(rule, "resolved.resolverState.detectCommonTypeCycles")
		return
	}
	// the edge store: deps[name] = append(deps[name], resolved) on a map[Path][]Path made locally
	var store *ssa.MapUpdate
	forEachInstr(fn, func(in ssa.Instruction) {
		mu, ok := in.(*ssa.MapUpdate)
		if !ok {
			return
		}
		mt, ok := mu.Map.Type().Underlying().(*types.Map)
		if !ok {
			return
		}
		if _, isSl := mt.Elem().Underlying().(*types.Slice); isSl {
			if _, isMk := mu.Map.(*ssa.MakeMap); isMk {
				store = mu
			}
		}
	})
	if store == nil {
		r.Undec(rule, "resolved.resolverState.detectCommonTypeCycles:edge-store", p.pos(fn.Pos()), "the store that records a dependency edge was not found")
		return
	}
	var loop *loopInfo
	for _, l := range loopsOf(fn) {
		if l.Body[store.Block()] && (loop == nil || len(l.Body) < len(loop.Body)) {
			loop = l
		}
	}
	if loop == nil {
		r.Undec(rule, "resolved.resolverState.detectCommonTypeCycles:edge-store", p.pos(store.Pos()), "the edge store is not inside a loop over the collected references")
		return
	}
	reach := func(from *ssa.BasicBlock) bool {
		if from == loop.Header {
			return false // next iteration: this reference is done with
		}
		seen := map[*ssa.BasicBlock]bool{}
		work := []*ssa.BasicBlock{from}
		for len(work) > 0 {
			b := work[len(work)-1]
			work = work[:len(work)-1]
			if seen[b] || !loop.Body[b] {
				continue
			}
			seen[b] = true
			if b == store.Block() {
				return true
			}
			for _, s := range b.Succs {
				if s != loop.Header {
					work = append(work, s)
				}
			}
		}
		return false
	}
	var bad []string
	nFilters := 0
	for b := range loop.Body {
		iff, ok := lastInstr(b).(*ssa.If)
		if !ok || b == loop.Header {
			continue
		}
		r0, r1 := reach(b.Succs[0]), reach(b.Succs[1])
		if r0 == r1 {
			continue
		}
		nFilters++
		g := flattenGuard(Guard{Cond: iff.Cond, Pol: true, If: iff})
		good := false
		if ex, ok := g.Cond.(*ssa.Extract); ok && ex.Index == 1 {
			if lk, ok := ex.Tuple.(*ssa.Lookup); ok && lk.CommaOk {
				if _, f := fieldAddrName(loadAddr(lk.X)); f == "commonTypes" {
					good = true
				}
			}
		}
		if !good {
			bad = append(bad, p.pos(iff.Cond.Pos()))
		}
	}
	sort.Strings(bad)
	r.Check(len(bad) == 0 && nFilters >= 1, rule, "resolved.resolverState.detectCommonTypeCycles:edge-filter", p.pos(store.Pos()),
		"a collected reference is left out of the dependency graph only on a miss in the common-type table ("+itoa(nFilters)+" filter)",
		"the cycle detector drops collected references on a condition other than a miss in the common-type table (at ["+strings.Join(bad, ", ")+"]; "+itoa(nFilters)+" filter(s) found): the inliner follows a reference whenever the common-type table has it, so a cycle through a dropped edge is not reported and resolution recurses until the stack overflows")
}

// loadAddr: the address a load reads from (nil otherwise).
func loadAddr(v ssa.Value) ssa.Value {
	if ld, ok := v.(*ssa.UnOp); ok && ld.Op == token.MUL {
		return ld.X
	}
	return nil
}

// R16.2-namespace-agreement: the cycle detector resolves the references inside a common type relative to the namespace the
// type was declared in (extractNamespace of its table key). The inliner must follow them the same way: wherever it looks a
// common type up under a path P and descends into its body, the namespace it descends with is the namespace of P — the
// prefix P was built from, extractNamespace(P), or the empty namespace when P is a bare unqualified name. Otherwise the
// inliner walks edges the detector never saw, and a cycle through them recurses until the stack overflows.
func c16NamespaceAgreement(p *Prog, r *Report) {
	const rule = "R16.2-namespace-agreement"
	rt := p.fn(pResolved, "resolverState.resolveType")
	if rt == nil {
		r.Anchor(rule, "resolved.resolverState.resolveType")
		return
	}
	n := 0
	for _, fn := range p.Funcs {
		if fnPkgPath(fn) != pResolved || len(fn.Blocks) == 0 {
			continue
		}
		ord := 0
		for _, c := range callsIn(fn) {
			call, ok := c.(*ssa.Call)
			if !ok || call.Call.StaticCallee() != rt || len(call.Call.Args) != 3 {
				continue
			}
			// is the type argument a body taken out of the common-type table?
			ex, ok := call.Call.Args[2].(*ssa.Extract)
			if !ok || ex.Index != 0 {
				continue
			}
			lk, ok := ex.Tuple.(*ssa.Lookup)
			if !ok {
				continue
			}
			if _, f := fieldAddrName(loadAddr(lk.X)); f != "commonTypes" {
				continue
			}
			n++
			ord++
			construct := fnQual(fn) + ":inline#" + itoa(ord)
			ns, key := call.Call.Args[1], lk.Index
			why := ""
			// (a) ns = extractNamespace(key)
			if ec, ok := ns.(*ssa.Call); ok && ec.Call.StaticCallee() != nil && ec.Call.StaticCallee().Name() == "extractNamespace" && ec.Call.Args[0] == key {
				why = "descends with extractNamespace of the looked-up path"
			}
			// (b) key = Path(string(ns) + "::" + …)
			if why == "" {
				if bo, ok := stripConv(key).(*ssa.BinOp); ok && bo.Op == token.ADD {
					var parts []ssa.Value
					var flat func(v ssa.Value)
					flat = func(v ssa.Value) {
						if b, ok := v.(*ssa.BinOp); ok && b.Op == token.ADD && basicKind(b.Type()) == types.String {
							flat(b.X)
							flat(b.Y)
							return
						}
						parts = append(parts, v)
					}
					flat(bo)
					if len(parts) >= 3 && stripConv(parts[0]) == stripConv(ns) {
						if sep, ok := parts[1].(*ssa.Const); ok && sep.Value != nil && sep.Value.Kind() == constant.String && constant.StringVal(sep.Value) == "::" {
							why = "descends with the namespace the looked-up path was prefixed with"
						}
					}
				}
			}
			// (c) a bare name: key is the unqualified reference itself and the namespace is the empty one
			if why == "" {
				if k, ok := ns.(*ssa.Const); ok && k.Value != nil && k.Value.Kind() == constant.String && constant.StringVal(k.Value) == "" {
					if _, isPar := stripConv(key).(*ssa.Parameter); isPar {
						unq := false
						for _, g := range guardsAt(call.Block()) {
							fg := flattenGuard(g)
							if cc, ok := fg.Cond.(*ssa.Call); ok && !fg.Pol && cc.Call.StaticCallee() != nil && stdName(cc.Call.StaticCallee()) == "strings.Contains" {
								if sep, ok := cc.Call.Args[1].(*ssa.Const); ok && sep.Value != nil && constant.StringVal(sep.Value) == "::" && stripConv(cc.Call.Args[0]) == stripConv(key) {
									unq = true
								}
							}
						}
						if unq {
							why = "an unqualified name looked up as such descends with the empty namespace"
						}
					}
				}
			}
			r.Check(why != "", rule, construct, p.pos(call.Pos()), why,
				"a common type looked up under "+describeVal(key)+" is inlined relative to "+describeVal(ns)+", which is not the namespace of that path: the cycle detector resolves the type's references relative to its declaring namespace, so the inliner can follow a cycle the detector never saw")
		}
	}
	r.Check(n >= 3, rule, "sites", "-", itoa(n)+" places inline a common type's body", "expected at least 3 places that inline a common type's body, found "+itoa(n))
	// the detector's side: namespace = extractNamespace(table key)
	det := p.fn(pResolved, "resolverState.detectCommonTypeCycles")
	if det == nil {
		r.Anchor(rule, "resolved.resolverState.detectCommonTypeCycles")
		return
	}
	good := false
	for _, c := range callsIn(det) {
		cc := c.Common()
		if cc.StaticCallee() == nil || cc.StaticCallee().Name() != "resolveTypeRefPath" || len(cc.Args) != 3 {
			continue
		}
		if ec, ok := cc.Args[1].(*ssa.Call); ok && ec.Call.StaticCallee() != nil && ec.Call.StaticCallee().Name() == "extractNamespace" {
			if ex, ok := ec.Call.Args[0].(*ssa.Extract); ok {
				if _, isNext := ex.Tuple.(*ssa.Next); isNext && ex.Index == 1 {
					good = true
				}
			}
		}
	}
	r.Check(good, rule, "resolved.resolverState.detectCommonTypeCycles:namespace", p.pos(det.Pos()), "the detector resolves a type's references relative to extractNamespace of its table key",
		"the cycle detector does not resolve a common type's references relative to the namespace of its table key")
}

// R16.2-namespace-split: a qualified name is built as namespace + "::" + base name, where the namespace itself may contain
// "::" and the base name never does. Whoever takes such a name apart again must therefore cut at the LAST separator. A
// helper that cuts at the first one (strings.Cut, strings.Index, strings.SplitN with the separator "::") gives `A` for
// `A::B::T`: the cycle detector then looks the references of types in namespace A::B up under A, finds nothing, records
// no edge — and the inliner, which is handed the real namespace, follows the cycle until the stack is gone.
func c16NamespaceSplit(p *Prog, r *Report) {
	const rule = "R16.2-namespace-split"
	pkgs := map[string]bool{pResolved: true, pValidate: true, pSchemaPar: true, pSchema: true}
	last, bad := 0, 0
	var fns []*ssa.Function
	for _, fn := range p.Funcs {
		if pkgs[fnPkgPath(fn)] && len(fn.Blocks) > 0 {
			fns = append(fns, fn)
		}
	}
	sort.Slice(fns, func(i, j int) bool { return fns[i].String() < fns[j].String() })
	for _, fn := range fns {
		for _, cl := range callsIn(fn) {
			f := cl.Common().StaticCallee()
			if f == nil || fnPkgPath(f) != "strings" {
				continue
			}
			sep := false
			for _, a := range cl.Common().Args {
				if s, ok := constString(a); ok && s == "::" {
					sep = true
				}
			}
			if !sep {
				continue
			}
			switch f.Name() {
			case "LastIndex":
				last++
				r.OK(rule, fnQual(fn)+":strings.LastIndex", p.pos(cl.Pos()), "the name is cut at its last separator")
			case "Cut", "Index", "SplitN", "SplitAfterN", "CutPrefix":
				bad++
				r.Viol(rule, fnQual(fn)+":strings."+f.Name(), p.pos(cl.Pos()), fnShort(fn)+" takes a qualified name apart with strings."+f.Name()+"(…, \"::\"), i.e. at the FIRST separator: for a type in a nested namespace (A::B::T) the namespace comes out as A, so references inside its body are looked up in the wrong namespace — the common-type cycle detector misses the cycle and the inliner recurses without end")
			}
		}
	}
	if last == 0 && bad == 0 {
		r.Undec(rule, "namespace-of-a-path", "-", "no function takes a qualified name apart at \"::\" any more: the anchor of this rule (the helper that gives the namespace of a path) is gone")
	}
}
