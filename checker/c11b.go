package main

// R11.8 — the cached hash of a container has one author. Set and Record cache a hash of their
// members next to the member map, and Equal answers "different" as soon as the cached hashes differ.
// Two values with the same members are therefore equal only if every place that fills the cache
// computes the same function of the members. The structural guarantee is that there is one such
// place per container type (the constructor, or helpers only it calls); a decoder that builds the
// struct itself "to save a copy" has to repeat the computation exactly, and the seeded change that
// tried summed the probe slot instead of the member hash.

import (
	"go/types"
	"sort"
	"strings"

	"golang.org/x/tools/go/ssa"
)

func cachedHashAuthors(p *Prog, r *Report, rule string) {
	cg := p.CG()
	n := 0
	for _, tn := range []string{"Set", "Record"} {
		nt := p.namedType(pTypes, tn)
		if nt == nil {
			r.Anchor(rule, "types."+tn)
			continue
		}
		st, ok := nt.Underlying().(*types.Struct)
		if !ok {
			r.Anchor(rule, "types."+tn+" struct")
			continue
		}
		hf := -1
		for i := 0; i < st.NumFields(); i++ {
			if b, ok := st.Field(i).Type().Underlying().(*types.Basic); ok && b.Kind() == types.Uint64 {
				hf = i
			}
		}
		if hf < 0 {
			r.Anchor(rule, "types."+tn+": cached hash member")
			continue
		}
		authors := map[*ssa.Function]string{}
		for _, fn := range p.Funcs {
			if !p.inRepo(fn) || len(fn.Blocks) == 0 {
				continue
			}
			forEachInstr(fn, func(in ssa.Instruction) {
				sto, ok := in.(*ssa.Store)
				if !ok {
					return
				}
				fa, ok := sto.Addr.(*ssa.FieldAddr)
				if !ok || fa.Field != hf || structOf(fa.X.Type()) != st {
					return
				}
				if _, isC := sto.Val.(*ssa.Const); isC {
					return
				}
				authors[topOf(fn)] = p.pos(sto.Pos())
			})
		}
		var fns []*ssa.Function
		for f := range authors {
			fns = append(fns, f)
		}
		sort.Slice(fns, func(i, j int) bool { return fns[i].String() < fns[j].String() })
		// helpers called only from another author collapse into it
		var roots []*ssa.Function
		for _, f := range fns {
			onlyFromAuthors := false
			if nd := cg.Nodes[f]; nd != nil && len(nd.In) > 0 {
				onlyFromAuthors = true
				for _, e := range nd.In {
					if _, ok := authors[topOf(e.Caller.Func)]; !ok || topOf(e.Caller.Func) == f {
						onlyFromAuthors = false
					}
				}
			}
			if !onlyFromAuthors {
				roots = append(roots, f)
			}
		}
		n++
		q := "types." + tn + ":cached-hash"
		switch len(roots) {
		case 0:
			r.Undec(rule, q, p.pos(nt.Obj().Pos()), "no function fills the cached hash of "+tn)
		case 1:
			r.OK(rule, q, authors[roots[0]], "the cached hash of "+tn+" is computed in one place ("+fnQual(roots[0])+")")
		default:
			var names []string
			for _, f := range roots {
				names = append(names, fnQual(f)+" ("+authors[f]+")")
			}
			r.Viol(rule, q, authors[roots[1]], "the cached hash of "+tn+" is filled in "+itoa(len(roots))+" places: "+strings.Join(names, ", ")+". "+tn+".Equal answers `different` when the cached hashes differ, so values built at the two places are equal only if both compute exactly the same function of the members — which nothing guarantees once the computation is written twice")
		}
	}
	if n < 2 {
		r.Anchor(rule, "hashed containers")
	}
}
