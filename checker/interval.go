package main

// E8: interval analysis over go/ssa with guard refinement, path-condition case splitting and a small set of relational
// guard templates. It decides "this signed arithmetic / narrowing conversion / float->int conversion cannot leave the
// range of its type" for the value constructors and parsers of package types. Nothing is executed: every fact comes from
// constants, dominating comparisons, and frozen models of a handful of standard-library functions.

import (
	"fmt"
	"go/constant"
	"go/token"
	"go/types"
	"math"
	"math/big"
	"sort"
	"strings"

	"golang.org/x/tools/go/ssa"
)

// ival is an abstract number: an integer interval [lo,hi] (big ints, both non-nil) or a float interval with open/closed
// ends and a may-be-NaN flag. top means "not a number we track".
type ival struct {
	top              bool
	float            bool
	lo, hi           *big.Int
	flo, fhi         float64
	floOpen, fhiOpen bool
	nan              bool
}

func (a ival) String() string {
	if a.top {
		return "⊤"
	}
	if a.float {
		l, r := "[", "]"
		if a.floOpen {
			l = "("
		}
		if a.fhiOpen {
			r = ")"
		}
		s := fmt.Sprintf("%s%g,%g%s", l, a.flo, a.fhi, r)
		if a.nan {
			s += "∪NaN"
		}
		return s
	}
	return "[" + a.lo.String() + "," + a.hi.String() + "]"
}

func ipoint(n int64) ival      { return ival{lo: big.NewInt(n), hi: big.NewInt(n)} }
func irange(lo, hi int64) ival { return ival{lo: big.NewInt(lo), hi: big.NewInt(hi)} }
func ibig(lo, hi *big.Int) ival {
	return ival{lo: new(big.Int).Set(lo), hi: new(big.Int).Set(hi)}
}

var topVal = ival{top: true}

// numKind describes the numeric representation of a Go type.
type numKind struct {
	ok     bool
	float  bool
	signed bool
	bits   int
	lo, hi *big.Int
}

func kindOfType(t types.Type) numKind {
	t = types.Unalias(t)
	if tp, ok := t.(*types.TypeParam); ok {
		// a type parameter whose type set is all floats / all signed integers is treated as the widest member
		iface, _ := tp.Constraint().Underlying().(*types.Interface)
		if iface == nil {
			return numKind{}
		}
		allFloat, allSigned, n := true, true, 0
		var visit func(t types.Type)
		visit = func(t types.Type) {
			switch x := types.Unalias(t).(type) {
			case *types.Union:
				for i := 0; i < x.Len(); i++ {
					visit(x.Term(i).Type())
				}
			case *types.Interface:
				for i := 0; i < x.NumEmbeddeds(); i++ {
					visit(x.EmbeddedType(i))
				}
			case *types.Named:
				visit(x.Underlying())
			case *types.Basic:
				n++
				if x.Info()&types.IsFloat == 0 {
					allFloat = false
				}
				if x.Info()&types.IsInteger == 0 || x.Info()&types.IsUnsigned != 0 {
					allSigned = false
				}
			default:
				allFloat, allSigned = false, false
			}
		}
		visit(iface)
		if n == 0 {
			return numKind{}
		}
		if allFloat {
			return numKind{ok: true, float: true, bits: 64}
		}
		if allSigned {
			return kindOfType(types.Typ[types.Int64])
		}
		return numKind{}
	}
	b, ok := t.Underlying().(*types.Basic)
	if !ok {
		return numKind{}
	}
	if b.Info()&types.IsFloat != 0 {
		bits := 64
		if b.Kind() == types.Float32 {
			bits = 32
		}
		return numKind{ok: true, float: true, bits: bits}
	}
	if b.Info()&types.IsInteger == 0 {
		return numKind{}
	}
	bits := 64
	switch b.Kind() {
	case types.Int8, types.Uint8:
		bits = 8
	case types.Int16, types.Uint16:
		bits = 16
	case types.Int32, types.Uint32:
		bits = 32
	}
	k := numKind{ok: true, signed: b.Info()&types.IsUnsigned == 0, bits: bits}
	if k.signed {
		k.hi = new(big.Int).Sub(new(big.Int).Lsh(big.NewInt(1), uint(bits-1)), big.NewInt(1))
		k.lo = new(big.Int).Neg(new(big.Int).Lsh(big.NewInt(1), uint(bits-1)))
	} else {
		k.lo = big.NewInt(0)
		k.hi = new(big.Int).Sub(new(big.Int).Lsh(big.NewInt(1), uint(bits)), big.NewInt(1))
	}
	return k
}

func (k numKind) full() ival {
	if !k.ok {
		return topVal
	}
	if k.float {
		return ival{float: true, flo: math.Inf(-1), fhi: math.Inf(1), nan: true}
	}
	return ibig(k.lo, k.hi)
}

func (k numKind) contains(a ival) bool {
	if a.top || a.float || !k.ok || k.float {
		return false
	}
	return a.lo.Cmp(k.lo) >= 0 && a.hi.Cmp(k.hi) <= 0
}

func bmin(a, b *big.Int) *big.Int {
	if a.Cmp(b) <= 0 {
		return a
	}
	return b
}
func bmax(a, b *big.Int) *big.Int {
	if a.Cmp(b) >= 0 {
		return a
	}
	return b
}

func joinI(a, b ival) ival {
	if a.top || b.top || a.float != b.float {
		return topVal
	}
	if a.float {
		r := ival{float: true, nan: a.nan || b.nan}
		switch {
		case a.flo < b.flo:
			r.flo, r.floOpen = a.flo, a.floOpen
		case b.flo < a.flo:
			r.flo, r.floOpen = b.flo, b.floOpen
		default:
			r.flo, r.floOpen = a.flo, a.floOpen && b.floOpen
		}
		switch {
		case a.fhi > b.fhi:
			r.fhi, r.fhiOpen = a.fhi, a.fhiOpen
		case b.fhi > a.fhi:
			r.fhi, r.fhiOpen = b.fhi, b.fhiOpen
		default:
			r.fhi, r.fhiOpen = a.fhi, a.fhiOpen && b.fhiOpen
		}
		return r
	}
	return ibig(bmin(a.lo, b.lo), bmax(a.hi, b.hi))
}

// meetI intersects; an empty intersection (infeasible path) is reported through ok=false.
func meetI(a, b ival) (ival, bool) {
	if a.top {
		return b, true
	}
	if b.top {
		return a, true
	}
	if a.float != b.float {
		return a, true
	}
	if a.float {
		r := ival{float: true, nan: a.nan && b.nan}
		switch {
		case a.flo > b.flo:
			r.flo, r.floOpen = a.flo, a.floOpen
		case b.flo > a.flo:
			r.flo, r.floOpen = b.flo, b.floOpen
		default:
			r.flo, r.floOpen = a.flo, a.floOpen || b.floOpen
		}
		switch {
		case a.fhi < b.fhi:
			r.fhi, r.fhiOpen = a.fhi, a.fhiOpen
		case b.fhi < a.fhi:
			r.fhi, r.fhiOpen = b.fhi, b.fhiOpen
		default:
			r.fhi, r.fhiOpen = a.fhi, a.fhiOpen || b.fhiOpen
		}
		if r.flo > r.fhi || (r.flo == r.fhi && (r.floOpen || r.fhiOpen)) {
			// only NaN may remain
			return r, r.nan
		}
		return r, true
	}
	lo, hi := bmax(a.lo, b.lo), bmin(a.hi, b.hi)
	if lo.Cmp(hi) > 0 {
		return a, false
	}
	return ibig(lo, hi), true
}

func eqI(a, b ival) bool {
	if a.top != b.top || a.float != b.float {
		return false
	}
	if a.top {
		return true
	}
	if a.float {
		return a.flo == b.flo && a.fhi == b.fhi && a.floOpen == b.floOpen && a.fhiOpen == b.fhiOpen && a.nan == b.nan
	}
	return a.lo.Cmp(b.lo) == 0 && a.hi.Cmp(b.hi) == 0
}

// ---- integer arithmetic on unbounded intervals ----

func addI(a, b ival) ival {
	return ibig(new(big.Int).Add(a.lo, b.lo), new(big.Int).Add(a.hi, b.hi))
}
func subI(a, b ival) ival {
	return ibig(new(big.Int).Sub(a.lo, b.hi), new(big.Int).Sub(a.hi, b.lo))
}
func mulI(a, b ival) ival {
	c := []*big.Int{new(big.Int).Mul(a.lo, b.lo), new(big.Int).Mul(a.lo, b.hi), new(big.Int).Mul(a.hi, b.lo), new(big.Int).Mul(a.hi, b.hi)}
	lo, hi := c[0], c[0]
	for _, x := range c[1:] {
		lo, hi = bmin(lo, x), bmax(hi, x)
	}
	return ibig(lo, hi)
}
func negI(a ival) ival { return ibig(new(big.Int).Neg(a.hi), new(big.Int).Neg(a.lo)) }

// quoI is Go's truncated division; b must not contain 0 for a tight answer (a zero divisor panics, which is C10's
// subject, so 0 is removed from the divisor first).
func quoI(a, b ival) ival {
	var parts []ival
	zero := big.NewInt(0)
	if b.hi.Cmp(zero) > 0 {
		parts = append(parts, ibig(bmax(b.lo, big.NewInt(1)), b.hi))
	}
	if b.lo.Cmp(zero) < 0 {
		parts = append(parts, ibig(b.lo, bmin(b.hi, big.NewInt(-1))))
	}
	if len(parts) == 0 {
		return ipoint(0)
	}
	var out *ival
	for _, d := range parts {
		c := []*big.Int{new(big.Int).Quo(a.lo, d.lo), new(big.Int).Quo(a.lo, d.hi), new(big.Int).Quo(a.hi, d.lo), new(big.Int).Quo(a.hi, d.hi)}
		lo, hi := c[0], c[0]
		for _, x := range c[1:] {
			lo, hi = bmin(lo, x), bmax(hi, x)
		}
		// an interval spanning zero in the dividend also reaches 0
		if a.lo.Sign() <= 0 && a.hi.Sign() >= 0 {
			lo, hi = bmin(lo, zero), bmax(hi, zero)
		}
		r := ibig(lo, hi)
		if out == nil {
			out = &r
		} else {
			j := joinI(*out, r)
			out = &j
		}
	}
	return *out
}

// remI: |a % b| < |b| and the sign follows the dividend.
func remI(a, b ival) ival {
	m := bmax(new(big.Int).Abs(b.lo), new(big.Int).Abs(b.hi))
	if m.Sign() == 0 {
		return ipoint(0)
	}
	m = new(big.Int).Sub(m, big.NewInt(1))
	lo, hi := new(big.Int).Neg(m), m
	if a.lo.Sign() >= 0 {
		lo = big.NewInt(0)
		hi = bmin(hi, a.hi)
	}
	if a.hi.Sign() <= 0 {
		hi = big.NewInt(0)
		lo = bmax(lo, a.lo)
	}
	return ibig(lo, hi)
}

// ---- the engine ----

type ivEngine struct {
	p       *Prog
	scope   func(*ssa.Function) bool // functions analysed interprocedurally
	memo    map[string]*ivFn
	stack   map[*ssa.Function]int
	globals map[*ssa.Global]*ival // value range of package-level maps initialised once with constants
	obs     map[string]*ivOb      // obligations, keyed by construct
}

type ivOb struct {
	fn     *ssa.Function
	in     ssa.Instruction
	kind   string
	key    string
	ok     bool
	reason string
	bad    string
}

type ivFn struct {
	e     *ivEngine
	fn    *ssa.Function
	par   []ival
	st    map[ssa.Value]ival
	ret   []ival
	gcach map[*ssa.BasicBlock][]Guard
	// proven records arithmetic whose result was shown in range by a relational template (result then clipped)
	proven map[ssa.Value]string
	// pins: results of discharged obligations (tightened by case analysis), fed back into the next fixpoint
	pins        map[ssa.Value]ival
	pinsChanged bool
	caseEnv     map[string]ival
	evMemo      map[evKey]evRes
	record      bool
	finalized   bool
}

func newIvEngine(p *Prog, scope func(*ssa.Function) bool) *ivEngine {
	return &ivEngine{p: p, scope: scope, memo: map[string]*ivFn{}, stack: map[*ssa.Function]int{}, globals: map[*ssa.Global]*ival{}, obs: map[string]*ivOb{}}
}

func (e *ivEngine) ctxKey(fn *ssa.Function, par []ival) string {
	var sb strings.Builder
	sb.WriteString(fnQual(fn))
	for _, a := range par {
		sb.WriteString("|")
		sb.WriteString(a.String())
	}
	return sb.String()
}

// analyze runs the fixpoint for fn under the given parameter values (nil = the full range of each parameter's type) and
// checks the obligations inside it in that context.
func (e *ivEngine) analyze(fn *ssa.Function, par []ival) *ivFn {
	if par == nil {
		for _, q := range fn.Params {
			par = append(par, kindOfType(q.Type()).full())
		}
	}
	key := e.ctxKey(fn, par)
	if a, ok := e.memo[key]; ok {
		return a
	}
	a := &ivFn{e: e, fn: fn, par: par, st: map[ssa.Value]ival{}, gcach: map[*ssa.BasicBlock][]Guard{}, proven: map[ssa.Value]string{}, pins: map[ssa.Value]ival{}}
	e.memo[key] = a
	if len(fn.Blocks) == 0 || e.stack[fn] > 0 || len(e.stack) > 12 {
		for i := 0; i < fn.Signature.Results().Len(); i++ {
			a.ret = append(a.ret, kindOfType(fn.Signature.Results().At(i).Type()).full())
		}
		return a
	}
	e.stack[fn]++
	defer func() {
		e.stack[fn]--
		if e.stack[fn] == 0 {
			delete(e.stack, fn)
		}
	}()
	for pass := 0; pass < 4; pass++ {
		a.fixpoint()
		a.pinsChanged = false
		a.record = false
		a.checkObligations()
		if !a.pinsChanged {
			break
		}
	}
	return a
}

// finalize records the obligations of context a in its converged state and of every callee context its final state
// creates (contexts explored on the way to the fixpoint with cruder arguments are not reported).
func (e *ivEngine) finalize(a *ivFn) {
	if a.finalized || len(a.fn.Blocks) == 0 || a.st == nil {
		return
	}
	a.finalized = true
	a.record = true
	a.checkObligations()
	for _, b := range a.fn.Blocks {
		for _, in := range b.Instrs {
			c, ok := in.(*ssa.Call)
			if !ok {
				continue
			}
			f := c.Call.StaticCallee()
			if f == nil || !e.scope(f) {
				continue
			}
			e.finalize(e.analyze(f, a.argVals(c, b, f)))
		}
	}
}

func (a *ivFn) fixpoint() {
	fn, par := a.fn, a.par
	a.st = map[ssa.Value]ival{}
	for i, q := range fn.Params {
		if i < len(par) {
			a.st[q] = par[i]
		}
	}
	for round := 0; round < 40; round++ {
		changed := false
		for _, b := range fn.Blocks {
			for _, in := range b.Instrs {
				v, ok := in.(ssa.Value)
				if !ok {
					continue
				}
				nv := a.transfer(v, b)
				if pin, ok := a.pins[v]; ok && !nv.top {
					if m, ok := meetI(nv, pin); ok {
						nv = m
					}
				}
				old, had := a.st[v]
				if had {
					if _, isPhi := v.(*ssa.Phi); isPhi && round >= 3 && !nv.top && !old.top && !nv.float {
						// widen moving bounds to the type's bounds
						k := kindOfType(v.Type())
						if k.ok && !k.float {
							if nv.lo.Cmp(old.lo) < 0 {
								nv.lo = new(big.Int).Set(k.lo)
							}
							if nv.hi.Cmp(old.hi) > 0 {
								nv.hi = new(big.Int).Set(k.hi)
							}
						}
					}
					if _, isPhi := v.(*ssa.Phi); isPhi && !nv.top && !old.top {
						nv = joinI(nv, old)
					}
				}
				if !had || !eqI(old, nv) {
					a.st[v] = nv
					changed = true
				}
			}
		}
		if !changed {
			break
		}
	}
	// narrowing: from the (widened) post-fixpoint, re-apply the transfer functions without joining with the old value; each
	// application of a monotone transfer to a post-fixpoint is again a post-fixpoint, so this only removes slack
	for round := 0; round < 3; round++ {
		for _, b := range fn.Blocks {
			for _, in := range b.Instrs {
				v, ok := in.(ssa.Value)
				if !ok {
					continue
				}
				nv := a.transfer(v, b)
				if pin, ok := a.pins[v]; ok && !nv.top {
					if m, ok := meetI(nv, pin); ok {
						nv = m
					}
				}
				if old, had := a.st[v]; had && !nv.top && !old.top {
					if m, ok := meetI(nv, old); ok {
						nv = m
					}
				}
				a.st[v] = nv
			}
		}
	}
	// returns
	n := fn.Signature.Results().Len()
	a.ret = make([]ival, n)
	seen := false
	for _, b := range fn.Blocks {
		ret, ok := lastInstr(b).(*ssa.Return)
		if !ok {
			continue
		}
		for i := 0; i < n; i++ {
			v := a.get(retVal(ret, i), b)
			if !seen {
				a.ret[i] = v
			} else {
				a.ret[i] = joinI(a.ret[i], v)
			}
		}
		seen = true
	}
	if !seen {
		for i := 0; i < n; i++ {
			a.ret[i] = kindOfType(fn.Signature.Results().At(i).Type()).full()
		}
	}
}

func (a *ivFn) guards(b *ssa.BasicBlock) []Guard {
	if g, ok := a.gcach[b]; ok {
		return g
	}
	var out []Guard
	for _, g := range guardsAt(b) {
		for _, x := range expandGuard(g, 0) {
			out = append(out, flattenGuard(x))
		}
	}
	a.gcach[b] = out
	return out
}

// raw returns the current abstract value of v without refinement.
func (a *ivFn) raw(v ssa.Value) ival {
	if c, ok := v.(*ssa.Const); ok {
		return constIval(c)
	}
	if x, ok := a.st[v]; ok {
		return x
	}
	if _, ok := v.(ssa.Instruction); ok {
		// not yet computed in this round (loop-carried): bottom is modelled by "unknown yet" = the phi's other edges
		return ival{top: true, float: false, lo: nil}
	}
	return kindOfType(v.Type()).full()
}

func constIval(c *ssa.Const) ival {
	if c.Value == nil {
		return topVal
	}
	switch c.Value.Kind() {
	case constant.Int:
		if k := kindOfType(c.Type()); k.ok && k.float {
			f, _ := constant.Float64Val(c.Value)
			return ival{float: true, flo: f, fhi: f}
		}
		n, ok := new(big.Int).SetString(c.Value.ExactString(), 10)
		if !ok {
			return topVal
		}
		return ibig(n, n)
	case constant.Float:
		if k := kindOfType(c.Type()); k.ok && !k.float {
			if n, ok := new(big.Int).SetString(constant.ToInt(c.Value).ExactString(), 10); ok {
				return ibig(n, n)
			}
			return topVal
		}
		f, _ := constant.Float64Val(c.Value)
		if k := kindOfType(c.Type()); k.ok && k.float && k.bits == 32 {
			f = float64(float32(f))
		}
		return ival{float: true, flo: f, fhi: f}
	}
	return topVal
}

// get returns v's value as seen in block b: the stored value refined by every guard dominating b.
func (a *ivFn) get(v ssa.Value, b *ssa.BasicBlock) ival {
	x := a.raw(v)
	if b == nil {
		return x
	}
	return a.refine(v, x, a.guards(b), b)
}

// termKey gives structurally equal pure expressions the same key (go/ssa performs no CSE).
var termKeyMemo = map[ssa.Value]string{}

func termKey(v ssa.Value, depth int) string {
	if depth == 0 {
		if k, ok := termKeyMemo[v]; ok {
			return k
		}
		k := termKey1(v, 0)
		termKeyMemo[v] = k
		return k
	}
	return termKey1(v, depth)
}

func termKey1(v ssa.Value, depth int) string {
	if depth > 6 {
		return fmt.Sprintf("%p", v)
	}
	switch x := v.(type) {
	case *ssa.Const:
		if x.Value == nil {
			return "nil"
		}
		return "c:" + x.Value.ExactString()
	case *ssa.Parameter, *ssa.FreeVar, *ssa.Global:
		return fmt.Sprintf("%p", v)
	case *ssa.Field:
		return "(fld " + termKey(x.X, depth+1) + " " + itoa(x.Field) + ")"
	case *ssa.BinOp:
		return "(" + x.Op.String() + " " + termKey(x.X, depth+1) + " " + termKey(x.Y, depth+1) + ")"
	case *ssa.Convert:
		return "(conv " + x.Type().String() + " " + termKey(x.X, depth+1) + ")"
	case *ssa.ChangeType:
		return termKey(x.X, depth+1)
	case *ssa.Lookup:
		if !x.CommaOk {
			if b, ok := x.X.Type().Underlying().(*types.Basic); ok && b.Info()&types.IsString != 0 {
				return "(idx " + termKey(x.X, depth+1) + " " + termKey(x.Index, depth+1) + ")"
			}
		}
	case *ssa.Call:
		if f := x.Call.StaticCallee(); f != nil && !x.Call.IsInvoke() && pureArithmeticFn(f) {
			k := "(call " + f.String()
			for _, a := range x.Call.Args {
				k += " " + termKey(a, depth+1)
			}
			return k + ")"
		}
		if bi, ok := x.Call.Value.(*ssa.Builtin); ok && (bi.Name() == "len") && len(x.Call.Args) == 1 {
			switch x.Call.Args[0].Type().Underlying().(type) {
			case *types.Basic, *types.Slice:
				// the length of a string or slice VALUE never changes (appending makes a new value)
				return "(len " + termKey(x.Call.Args[0], depth+1) + ")"
			}
		}
	case *ssa.UnOp:
		if x.Op == token.SUB {
			return "(neg " + termKey(x.X, depth+1) + ")"
		}
		if x.Op == token.MUL {
			if al, ok := x.X.(*ssa.Alloc); ok {
				if settledLoad(al, x) {
					return fmt.Sprintf("(load %p)", al)
				}
			}
			if g, ok := x.X.(*ssa.Global); ok && globalWrittenOnlyByInit(g) {
				return "(glob " + g.Pkg.Pkg.Path() + "." + g.Name() + ")"
			}
			// a field of a struct parameter that go/ssa spilled to a local: *(&local.f) where local is stored once
			if fa, ok := x.X.(*ssa.FieldAddr); ok {
				if al, ok := fa.X.(*ssa.Alloc); ok && !al.Heap {
					if src := spillSource(al); src != nil {
						return "(fld " + termKey(src, depth+1) + " " + itoa(fa.Field) + ")"
					}
				}
			}
		}
	}
	return fmt.Sprintf("%p", v)
}

var spillCache = map[*ssa.Alloc]ssa.Value{}
var spillDone = map[*ssa.Alloc]bool{}

// spillSource: a non-escaping local struct that is assigned exactly once as a whole and whose fields are only read.
func spillSource(al *ssa.Alloc) ssa.Value {
	if spillDone[al] {
		return spillCache[al]
	}
	spillDone[al] = true
	var src ssa.Value
	n := 0
	for _, ref := range *al.Referrers() {
		switch y := ref.(type) {
		case *ssa.Store:
			if y.Addr != ssa.Value(al) {
				return nil
			}
			n++
			src = y.Val
		case *ssa.FieldAddr:
			for _, r2 := range *y.Referrers() {
				if ld, ok := r2.(*ssa.UnOp); !ok || ld.Op != token.MUL {
					return nil
				}
			}
		case *ssa.UnOp:
			if y.Op != token.MUL {
				return nil
			}
		case *ssa.DebugRef:
		default:
			return nil
		}
	}
	if n != 1 {
		return nil
	}
	spillCache[al] = src
	return src
}

// refine intersects x (the value of v) with what the guards say about v.
func (a *ivFn) refine(v ssa.Value, x ival, gs []Guard, at *ssa.BasicBlock) ival {
	if x.top && !kindOfType(v.Type()).ok {
		return x
	}
	if _, isC := v.(*ssa.Const); isC {
		return x
	}
	if x.top {
		x = kindOfType(v.Type()).full()
		if x.top {
			return x
		}
	}
	key := termKey(v, 0)
	// two sweeps: a != fact only bites once the <= / >= facts have moved the bound onto the excluded point
	for sweep := 0; sweep < 2; sweep++ {
		for _, g := range gs {
			switch c := g.Cond.(type) {
			case *ssa.BinOp:
				var other ssa.Value
				op := c.Op
				if x.float && termKey(c.X, 0) == key && termKey(c.Y, 0) == key {
					if (op == token.EQL && g.Pol) || (op == token.NEQ && !g.Pol) {
						x.nan = false
					}
					continue
				}
				if termKey(c.X, 0) == key {
					other = c.Y
				} else if termKey(c.Y, 0) == key {
					other = c.X
					op = mirrorOp(op)
				} else if cv, ok := c.X.(*ssa.Convert); ok && wideningConv(cv) && termKey(cv.X, 0) == key {
					other = c.Y
				} else if cv, ok := c.Y.(*ssa.Convert); ok && wideningConv(cv) && termKey(cv.X, 0) == key {
					other = c.X
					op = mirrorOp(op)
				} else {
					continue
				}
				if !g.Pol {
					op = negateOp(op)
				}
				var o ival
				if g.If != nil {
					o = a.raw(other)
					if o.top {
						o = kindOfType(other.Type()).full()
					}
				}
				if o.top {
					continue
				}
				x = constrain(x, op, o, x.float && !g.Pol)
			case *ssa.Call:
				// math.IsNaN(float64(f)) known false: f is a number
				if f := c.Call.StaticCallee(); f != nil && fnPkgPath(f) == "math" && f.Name() == "IsNaN" && !g.Pol && len(c.Call.Args) == 1 && x.float {
					arg := c.Call.Args[0]
					match := termKey(arg, 0) == key
					switch cv := arg.(type) {
					case *ssa.Convert:
						match = match || termKey(cv.X, 0) == key
					case *ssa.ChangeType:
						match = match || termKey(cv.X, 0) == key
					case *ssa.MultiConvert:
						match = match || termKey(cv.X, 0) == key
					}
					if match {
						x.nan = false
					}
				}
				// unicode.IsDigit(rune(b)) on a byte: only '0'..'9' below 256
				if f := c.Call.StaticCallee(); f != nil && fnPkgPath(f) == "unicode" && f.Name() == "IsDigit" && g.Pol && len(c.Call.Args) == 1 {
					arg := c.Call.Args[0]
					match := termKey(arg, 0) == key
					if cv, ok := arg.(*ssa.Convert); ok && wideningConv(cv) && termKey(cv.X, 0) == key {
						match = true
					}
					if match && !x.float && x.hi.Cmp(big.NewInt(255)) <= 0 {
						if m, ok := meetI(x, irange('0', '9')); ok {
							x = m
						}
					}
				}
			}
		}
	}
	return x
}

func wideningConv(c *ssa.Convert) bool {
	from, to := kindOfType(c.X.Type()), kindOfType(c.Type())
	if !from.ok || !to.ok || from.float || to.float {
		return false
	}
	return to.lo.Cmp(from.lo) <= 0 && to.hi.Cmp(from.hi) >= 0
}

func mirrorOp(op token.Token) token.Token {
	switch op {
	case token.LSS:
		return token.GTR
	case token.LEQ:
		return token.GEQ
	case token.GTR:
		return token.LSS
	case token.GEQ:
		return token.LEQ
	}
	return op
}

func negateOp(op token.Token) token.Token {
	switch op {
	case token.LSS:
		return token.GEQ
	case token.LEQ:
		return token.GTR
	case token.GTR:
		return token.LEQ
	case token.GEQ:
		return token.LSS
	case token.EQL:
		return token.NEQ
	case token.NEQ:
		return token.EQL
	}
	return token.ILLEGAL
}

// constrain narrows x by "x op o". negated marks a float comparison that is known to be FALSE (its negation then also
// admits NaN, because every comparison with NaN is false).
func constrain(x ival, op token.Token, o ival, negatedFloat bool) ival {
	if x.float {
		if !o.float {
			return x
		}
		r := x
		switch op {
		case token.LSS: // x < o
			if o.fhi < r.fhi || (o.fhi == r.fhi && !r.fhiOpen) {
				r.fhi, r.fhiOpen = o.fhi, true
			}
		case token.LEQ:
			if o.fhi < r.fhi {
				r.fhi, r.fhiOpen = o.fhi, o.fhiOpen
			}
		case token.GTR:
			if o.flo > r.flo || (o.flo == r.flo && !r.floOpen) {
				r.flo, r.floOpen = o.flo, true
			}
		case token.GEQ:
			if o.flo > r.flo {
				r.flo, r.floOpen = o.flo, o.floOpen
			}
		case token.EQL:
			if m, ok := meetI(r, o); ok {
				r = m
			}
			r.nan = false
			return r
		case token.NEQ:
			return r
		default:
			return x
		}
		// a comparison that holds excludes NaN; one that is known false does not
		if !negatedFloat {
			r.nan = false
		}
		return r
	}
	if o.float {
		return x
	}
	one := big.NewInt(1)
	r := ibig(x.lo, x.hi)
	switch op {
	case token.LSS:
		r.hi = bmin(r.hi, new(big.Int).Sub(o.hi, one))
	case token.LEQ:
		r.hi = bmin(r.hi, o.hi)
	case token.GTR:
		r.lo = bmax(r.lo, new(big.Int).Add(o.lo, one))
	case token.GEQ:
		r.lo = bmax(r.lo, o.lo)
	case token.EQL:
		r.lo, r.hi = bmax(r.lo, o.lo), bmin(r.hi, o.hi)
	case token.NEQ:
		if o.lo.Cmp(o.hi) == 0 {
			if r.lo.Cmp(o.lo) == 0 {
				r.lo = new(big.Int).Add(r.lo, one)
			}
			if r.hi.Cmp(o.lo) == 0 {
				r.hi = new(big.Int).Sub(r.hi, one)
			}
		}
	}
	if r.lo.Cmp(r.hi) > 0 {
		// infeasible here; keep the unrefined value (sound)
		return x
	}
	return r
}

// transfer computes the abstract value of v (defined in block b).
func (a *ivFn) transfer(v ssa.Value, b *ssa.BasicBlock) ival {
	k := kindOfType(v.Type())
	switch x := v.(type) {
	case *ssa.Phi:
		var out *ival
		for i, e := range x.Edges {
			pred := b.Preds[i]
			if _, isC := e.(*ssa.Const); !isC {
				if _, have := a.st[e]; !have {
					if _, isInstr := e.(ssa.Instruction); isInstr {
						continue // not computed yet (bottom)
					}
				}
			}
			ev := a.get(e, pred)
			// the edge's own condition
			if iff, ok := lastInstr(pred).(*ssa.If); ok && pred.Succs[0] != pred.Succs[1] {
				pol := pred.Succs[0] == b
				ev = a.refine(e, ev, []Guard{flattenGuard(Guard{Cond: iff.Cond, Pol: pol, If: iff})}, pred)
			}
			if ev.top {
				ev = k.full()
			}
			if out == nil {
				out = &ev
			} else {
				j := joinI(*out, ev)
				out = &j
			}
		}
		if out == nil {
			return k.full()
		}
		return *out
	case *ssa.BinOp:
		if !k.ok {
			return topVal
		}
		l, r := a.get(x.X, b), a.get(x.Y, b)
		if l.top {
			l = kindOfType(x.X.Type()).full()
		}
		if r.top {
			r = kindOfType(x.Y.Type()).full()
		}
		if l.top || r.top {
			return k.full()
		}
		if k.float {
			return floatBin(x.Op, l, r)
		}
		if l.float || r.float {
			return k.full()
		}
		res, exact := intBin(x, l, r)
		if !exact {
			return k.full()
		}
		if k.contains(res) {
			return res
		}
		// Every signed add/sub/mul is an obligation of its own (reported when it can overflow), so inside the analysis the
		// operation may be assumed not to wrap: the first overflow on any execution is the one that gets reported.
		if k.signed {
			if m, ok := meetI(res, k.full()); ok {
				return m
			}
		}
		return k.full()
	case *ssa.UnOp:
		switch x.Op {
		case token.SUB:
			o := a.get(x.X, b)
			if o.top || !k.ok {
				return k.full()
			}
			if o.float {
				return ival{float: true, flo: -o.fhi, fhi: -o.flo, floOpen: o.fhiOpen, fhiOpen: o.floOpen, nan: o.nan}
			}
			r := negI(o)
			if k.contains(r) {
				return r
			}
			return k.full()
		case token.MUL:
			return a.load(x)
		}
		return k.full()
	case *ssa.Convert:
		return a.convert(x, a.get(x.X, b))
	case *ssa.ChangeType:
		return a.get(x.X, b)
	case *ssa.Call:
		return a.call(x, b)
	case *ssa.Extract:
		return a.extract(x, b)
	case *ssa.Lookup:
		if x.CommaOk {
			return topVal
		}
		if bt, ok := x.X.Type().Underlying().(*types.Basic); ok && bt.Info()&types.IsString != 0 {
			return irange(0, 255)
		}
		if ld, ok := x.X.(*ssa.UnOp); ok && ld.Op == token.MUL {
			if g, ok := ld.X.(*ssa.Global); ok {
				if r := a.e.globalMapRange(g); r != nil {
					return joinI(*r, ipoint(0))
				}
			}
		}
		return k.full()
	}
	return k.full()
}

func (a *ivFn) load(x *ssa.UnOp) ival {
	return kindOfType(x.Type()).full()
}

// globalMapRange: a package-level map written only by its initialiser with constant integer values.
func (e *ivEngine) globalMapRange(g *ssa.Global) *ival {
	if r, ok := e.globals[g]; ok {
		return r
	}
	e.globals[g] = nil
	var out *ival
	bad := false
	var mk ssa.Value
	for _, fn := range e.p.Funcs {
		if fn.Pkg == nil || fn.Pkg != g.Pkg {
			continue
		}
		forEachInstr(fn, func(in ssa.Instruction) {
			st, ok := in.(*ssa.Store)
			if !ok || st.Addr != ssa.Value(g) {
				return
			}
			if fn.Name() != "init" || mk != nil {
				bad = true
				return
			}
			mk = st.Val
		})
	}
	if bad || mk == nil {
		return nil
	}
	mm, ok := mk.(*ssa.MakeMap)
	if !ok {
		return nil
	}
	for _, ref := range *mm.Referrers() {
		switch y := ref.(type) {
		case *ssa.MapUpdate:
			c, ok := y.Value.(*ssa.Const)
			if !ok {
				return nil
			}
			cv := constIval(c)
			if cv.top || cv.float {
				return nil
			}
			if out == nil {
				out = &cv
			} else {
				j := joinI(*out, cv)
				out = &j
			}
		case *ssa.Store:
			if y.Val != ssa.Value(mm) {
				return nil
			}
		default:
			return nil
		}
	}
	// any other function writing through a load of the global?
	for _, fn := range e.p.Funcs {
		if fn.Pkg == nil || fn.Pkg != g.Pkg || fn.Name() == "init" {
			continue
		}
		forEachInstr(fn, func(in ssa.Instruction) {
			if mu, ok := in.(*ssa.MapUpdate); ok {
				if ld, ok := mu.Map.(*ssa.UnOp); ok && ld.X == ssa.Value(g) {
					bad = true
				}
			}
		})
	}
	if bad {
		return nil
	}
	e.globals[g] = out
	return out
}

// intBin evaluates an integer BinOp on unbounded intervals. exact=false when the operator is not modelled.
func intBin(x *ssa.BinOp, l, r ival) (ival, bool) {
	switch x.Op {
	case token.ADD:
		return addI(l, r), true
	case token.SUB:
		// (a/K)*K - a  ==  -(a % K)
		if m, ok := x.X.(*ssa.BinOp); ok && m.Op == token.MUL {
			if q, ok := m.X.(*ssa.BinOp); ok && q.Op == token.QUO && termKey(q.Y, 0) == termKey(m.Y, 0) && termKey(q.X, 0) == termKey(x.Y, 0) {
				if kc, ok := q.Y.(*ssa.Const); ok {
					kv := constIval(kc)
					if !kv.top && !kv.float && kv.lo.Sign() != 0 {
						return negI(remI(r, kv)), true
					}
				}
			}
		}
		return subI(l, r), true
	case token.MUL:
		return mulI(l, r), true
	case token.QUO:
		return quoI(l, r), true
	case token.REM:
		return remI(l, r), true
	}
	return ival{}, false
}

func floatBin(op token.Token, l, r ival) ival {
	full := ival{float: true, flo: math.Inf(-1), fhi: math.Inf(1), nan: true}
	if !l.float || !r.float {
		return full
	}
	switch op {
	case token.MUL:
		c := []float64{l.flo * r.flo, l.flo * r.fhi, l.fhi * r.flo, l.fhi * r.fhi}
		lo, hi := math.Inf(1), math.Inf(-1)
		nan := l.nan || r.nan
		for _, x := range c {
			if math.IsNaN(x) {
				nan = true
				continue
			}
			lo, hi = math.Min(lo, x), math.Max(hi, x)
		}
		if lo > hi {
			return full
		}
		// 0 * inf inside the ranges
		if (math.IsInf(l.flo, 0) || math.IsInf(l.fhi, 0)) && r.flo <= 0 && r.fhi >= 0 {
			nan = true
		}
		if (math.IsInf(r.flo, 0) || math.IsInf(r.fhi, 0)) && l.flo <= 0 && l.fhi >= 0 {
			nan = true
		}
		return ival{float: true, flo: lo, fhi: hi, nan: nan}
	case token.QUO:
		if r.flo > 0 || r.fhi < 0 {
			c := []float64{l.flo / r.flo, l.flo / r.fhi, l.fhi / r.flo, l.fhi / r.fhi}
			lo, hi := math.Inf(1), math.Inf(-1)
			nan := l.nan || r.nan
			for _, x := range c {
				if math.IsNaN(x) {
					nan = true
					continue
				}
				lo, hi = math.Min(lo, x), math.Max(hi, x)
			}
			if lo <= hi {
				return ival{float: true, flo: lo, fhi: hi, nan: nan}
			}
		}
	}
	return full
}

func (a *ivFn) convert(x *ssa.Convert, o ival) ival {
	to, from := kindOfType(x.Type()), kindOfType(x.X.Type())
	if !to.ok {
		return topVal
	}
	if o.top {
		o = from.full()
	}
	if o.top {
		return to.full()
	}
	switch {
	case !to.float && !o.float:
		if to.contains(o) {
			return o
		}
		return to.full()
	case to.float && !o.float:
		lo, _ := new(big.Float).SetInt(o.lo).Float64()
		hi, _ := new(big.Float).SetInt(o.hi).Float64()
		// rounding to nearest may move a bound outward by at most one ulp; widen
		return ival{float: true, flo: math.Nextafter(lo, math.Inf(-1)), fhi: math.Nextafter(hi, math.Inf(1))}
	case to.float && o.float:
		return o
	default: // float -> int
		if floatFits(o, to) {
			lo, _ := big.NewFloat(math.Trunc(o.flo)).Int(nil)
			hi, _ := big.NewFloat(math.Trunc(o.fhi)).Int(nil)
			return ibig(lo, hi)
		}
		return to.full()
	}
}

// floatFits: every float in o (and not NaN) truncates to a value of the integer kind k.
func floatFits(o ival, k numKind) bool {
	if o.nan || !o.float {
		return false
	}
	lo, _ := new(big.Float).SetInt(k.lo).Float64() // exact for powers of two
	hiP1, _ := new(big.Float).SetInt(new(big.Int).Add(k.hi, big.NewInt(1))).Float64()
	// need lo-1 < x < hi+1
	okLo := o.flo > lo-1 || (o.flo >= lo) // lo is a power of two; lo-1 is not representable for 64-bit, so x>=lo
	if lo-1 == lo {
		okLo = o.flo >= lo
	}
	okHi := o.fhi < hiP1 || (o.fhi == hiP1 && o.fhiOpen)
	return okLo && okHi
}

func (a *ivFn) call(c *ssa.Call, b *ssa.BasicBlock) ival {
	k := kindOfType(c.Type())
	if bi, ok := c.Call.Value.(*ssa.Builtin); ok {
		switch bi.Name() {
		case "len":
			return ibig(a.lenLowerOf(c.Call.Args[0], b, 0), kindOfType(types.Typ[types.Int]).hi)
		case "cap":
			return ibig(big.NewInt(0), kindOfType(types.Typ[types.Int]).hi)
		case "min", "max":
			return k.full()
		}
		return k.full()
	}
	f := c.Call.StaticCallee()
	if f == nil {
		return k.full()
	}
	if r, ok := stdIntervalModel(f, c, a, b); ok {
		return r
	}
	if a.e.scope(f) && f.Signature.Results().Len() == 1 {
		cal := a.e.analyze(f, a.argVals(c, b, f))
		if len(cal.ret) == 1 && !cal.ret[0].top {
			return cal.ret[0]
		}
	} else if a.e.scope(f) {
		a.e.analyze(f, a.argVals(c, b, f))
	}
	return k.full()
}

func (a *ivFn) argVals(c *ssa.Call, b *ssa.BasicBlock, f *ssa.Function) []ival {
	var out []ival
	for i, arg := range c.Call.Args {
		v := a.get(arg, b)
		if v.top && i < len(f.Params) {
			v = kindOfType(f.Params[i].Type()).full()
		}
		out = append(out, v)
	}
	return out
}

func (a *ivFn) extract(x *ssa.Extract, b *ssa.BasicBlock) ival {
	k := kindOfType(x.Type())
	c, ok := x.Tuple.(*ssa.Call)
	if !ok {
		return k.full()
	}
	f := c.Call.StaticCallee()
	if f == nil {
		return k.full()
	}
	if r, ok := stdTupleModel(f, c, x.Index, a, b); ok {
		return r
	}
	if a.e.scope(f) {
		cal := a.e.analyze(f, a.argVals(c, b, f))
		if x.Index < len(cal.ret) && !cal.ret[x.Index].top {
			return cal.ret[x.Index]
		}
	}
	return k.full()
}

// ---- frozen models of standard-library functions (result ranges only) ----

func stdIntervalModel(f *ssa.Function, c *ssa.Call, a *ivFn, b *ssa.BasicBlock) (ival, bool) {
	pk, name := fnPkgPath(f), fnShort(f)
	switch pk + "." + name {
	case "math.Pow10":
		n := a.get(c.Call.Args[0], b)
		if n.top || n.float || n.lo.Cmp(big.NewInt(0)) < 0 || n.hi.Cmp(big.NewInt(22)) > 0 {
			return ival{float: true, flo: 0, fhi: math.Inf(1)}, true
		}
		// exact powers of ten up to 1e22
		return ival{float: true, flo: math.Pow10(int(n.lo.Int64())), fhi: math.Pow10(int(n.hi.Int64()))}, true
	case "strings.Index", "strings.LastIndex", "bytes.Index", "bytes.LastIndex":
		// -1, or a position p with p+len(sep) <= len(s)
		hi := new(big.Int).Set(kindOfType(types.Typ[types.Int]).hi)
		if sep, ok := constString(c.Call.Args[1]); ok {
			hi.Sub(hi, big.NewInt(int64(len(sep))))
		}
		return ibig(big.NewInt(-1), hi), true
	case "strings.IndexByte", "strings.IndexRune", "strings.LastIndexByte":
		return ibig(big.NewInt(-1), new(big.Int).Sub(kindOfType(types.Typ[types.Int]).hi, big.NewInt(1))), true
	case "time.Time.Year":
		return irange(-300000000000, 300000000000), true
	case "time.Time.Month":
		return irange(1, 12), true
	case "time.Time.Day":
		return irange(1, 31), true
	case "time.Time.Hour":
		return irange(0, 23), true
	case "time.Time.Minute", "time.Time.Second":
		return irange(0, 59), true
	case "time.Time.Nanosecond":
		return irange(0, 999999999), true
	case "time.Duration.Milliseconds":
		return irange(math.MinInt64/1000000, math.MaxInt64/1000000), true
	}
	return ival{}, false
}

func stdTupleModel(f *ssa.Function, c *ssa.Call, idx int, a *ivFn, b *ssa.BasicBlock) (ival, bool) {
	pk, name := fnPkgPath(f), fnShort(f)
	if idx != 0 {
		return ival{}, false
	}
	switch pk + "." + name {
	case "strconv.ParseInt", "strconv.ParseUint":
		bits, ok := constInt(c.Call.Args[2])
		if !ok {
			return ival{}, false
		}
		if bits == 0 {
			bits = 64
		}
		var r ival
		if name == "ParseInt" {
			hi := new(big.Int).Sub(new(big.Int).Lsh(big.NewInt(1), uint(bits-1)), big.NewInt(1))
			r = ibig(new(big.Int).Neg(new(big.Int).Add(hi, big.NewInt(1))), hi)
		} else {
			r = ibig(big.NewInt(0), new(big.Int).Sub(new(big.Int).Lsh(big.NewInt(1), uint(bits)), big.NewInt(1)))
		}
		// base 10: |value| < 10^len(s)
		if base, ok := constInt(c.Call.Args[1]); ok && base == 10 {
			if n := a.lenOf(c.Call.Args[0], b); n != nil && n.Cmp(big.NewInt(30)) <= 0 {
				m := new(big.Int).Sub(new(big.Int).Exp(big.NewInt(10), n, nil), big.NewInt(1))
				if mm, ok := meetI(r, ibig(new(big.Int).Neg(m), m)); ok {
					r = mm
				}
			}
		}
		return r, true
	}
	return ival{}, false
}

// lenOf returns an upper bound for len(s) when the analysis has one: a constant-length slice expression s[i:i+k] /
// s[0:k], or a len(s) call on the same string whose value is bounded in the current state/case.
func (a *ivFn) lenOf(s ssa.Value, b *ssa.BasicBlock) *big.Int {
	if sl, ok := s.(*ssa.Slice); ok && sl.High != nil {
		hi := a.get(sl.High, b)
		lo := ipoint(0)
		if sl.Low != nil {
			lo = a.get(sl.Low, b)
		}
		if !hi.top && !lo.top && !hi.float && !lo.float {
			d := new(big.Int).Sub(hi.hi, lo.lo)
			if d.Sign() >= 0 {
				return d
			}
		}
	}
	key := "(len " + termKey(s, 0) + ")"
	var best *big.Int
	for v, x := range a.st {
		if x.top || x.float {
			continue
		}
		if termKey(v, 0) == key {
			in, _ := v.(ssa.Instruction)
			var xv ival
			if in != nil {
				xv = a.get(v, b)
			} else {
				xv = x
			}
			if a.caseEnv != nil {
				if cv, ok := a.caseEnv[key]; ok {
					xv = cv
				}
			}
			if best == nil || xv.hi.Cmp(best) < 0 {
				best = xv.hi
			}
		}
	}
	if a.caseEnv != nil {
		if cv, ok := a.caseEnv[key]; ok && (best == nil || cv.hi.Cmp(best) < 0) {
			best = cv.hi
		}
	}
	return best
}

func sortedObKeys(m map[string]*ivOb) []string {
	var ks []string
	for k := range m {
		ks = append(ks, k)
	}
	sort.Strings(ks)
	return ks
}

var globInitOnly = map[*ssa.Global]bool{}
var globInitDone = map[*ssa.Global]bool{}

// globalWrittenOnlyByInit: no function other than the package initialiser stores to g or takes its address for
// anything but loading.
func globalWrittenOnlyByInit(g *ssa.Global) bool {
	if globInitDone[g] {
		return globInitOnly[g]
	}
	globInitDone[g] = true
	ok := true
	for _, mem := range g.Pkg.Members {
		fn, isFn := mem.(*ssa.Function)
		if !isFn {
			continue
		}
		for _, f := range withAnon(fn) {
			forEachInstr(f, func(in ssa.Instruction) {
				for _, op := range in.Operands(nil) {
					if *op != ssa.Value(g) {
						continue
					}
					if ld, isLd := in.(*ssa.UnOp); isLd && ld.Op == token.MUL {
						continue
					}
					if f.Name() == "init" && f.Parent() == nil {
						continue
					}
					ok = false
				}
			})
		}
	}
	// methods
	prog := g.Pkg.Prog
	for _, mem := range g.Pkg.Members {
		tn, isT := mem.(*ssa.Type)
		if !isT {
			continue
		}
		for _, t := range []types.Type{tn.Type(), types.NewPointer(tn.Type())} {
			ms := prog.MethodSets.MethodSet(t)
			for i := 0; i < ms.Len(); i++ {
				m := prog.MethodValue(ms.At(i))
				if m == nil {
					continue
				}
				for _, f := range withAnon(m) {
					forEachInstr(f, func(in ssa.Instruction) {
						for _, op := range in.Operands(nil) {
							if *op == ssa.Value(g) {
								if ld, isLd := in.(*ssa.UnOp); !isLd || ld.Op != token.MUL {
									ok = false
								}
							}
						}
					})
				}
			}
		}
	}
	globInitOnly[g] = ok
	return ok
}

// lenLowerOf: a lower bound for len(v) as seen in block b (0 when nothing is known).
func (a *ivFn) lenLowerOf(v ssa.Value, b *ssa.BasicBlock, depth int) *big.Int {
	zero := big.NewInt(0)
	if depth > 4 {
		return zero
	}
	best := zero
	up := func(n *big.Int) {
		if n != nil && n.Cmp(best) > 0 {
			best = n
		}
	}
	switch x := v.(type) {
	case *ssa.Phi:
		var m *big.Int
		for i, e := range x.Edges {
			pred := x.Block().Preds[i]
			l := a.lenLowerOf(e, pred, depth+1)
			// the edge's own condition
			if iff, ok := lastInstr(pred).(*ssa.If); ok && pred.Succs[0] != pred.Succs[1] {
				g := []Guard{flattenGuard(Guard{Cond: iff.Cond, Pol: pred.Succs[0] == x.Block(), If: iff})}
				if l2 := lenLowerBound(a, e, g, pred); l2.Cmp(l) > 0 {
					l = l2
				}
			}
			if m == nil || l.Cmp(m) < 0 {
				m = l
			}
		}
		up(m)
	case *ssa.Slice:
		if x.High != nil {
			hi := a.get(x.High, b)
			lo := ipoint(0)
			if x.Low != nil {
				lo = a.get(x.Low, b)
			}
			if !hi.top && !lo.top && !hi.float && !lo.float {
				up(new(big.Int).Sub(hi.lo, lo.hi))
			}
		} else if al, ok := x.X.(*ssa.Alloc); ok && x.Low == nil {
			if at, ok := al.Type().Underlying().(*types.Pointer).Elem().Underlying().(*types.Array); ok {
				up(big.NewInt(at.Len()))
			}
		}
	case *ssa.MakeSlice:
		l := a.get(x.Len, b)
		if !l.top && !l.float {
			up(l.lo)
		}
	case *ssa.Const:
		if s, ok := constString(x); ok {
			up(big.NewInt(int64(len(s))))
		}
	}
	if b != nil {
		up(lenLowerBound(a, v, a.guards(b), b))
	}
	return best
}

// settledLoad: every instruction that may write the local al (a store to it, or a call that receives its address and
// is known not to retain it) dominates the load ld, and the address escapes in no other way — so all such loads see the
// same value.
func settledLoad(al *ssa.Alloc, ld *ssa.UnOp) bool {
	for _, ref := range *al.Referrers() {
		switch y := ref.(type) {
		case *ssa.UnOp:
			if y.Op != token.MUL {
				return false
			}
		case *ssa.Store:
			if y.Addr != ssa.Value(al) || !instrDominates(y, ld) {
				return false
			}
		case *ssa.Call:
			f := y.Call.StaticCallee()
			if f == nil {
				return false
			}
			q := fnPkgPath(f) + "." + fnShort(f)
			if q != "encoding/json.Unmarshal" && q != "encoding/json.Decoder.Decode" {
				return false
			}
			if !instrDominates(y, ld) {
				return false
			}
		case *ssa.MakeInterface:
			// &x passed as `any` to a call
			for _, r2 := range *y.Referrers() {
				c, ok := r2.(*ssa.Call)
				if !ok || c.Call.StaticCallee() == nil {
					return false
				}
				q := fnPkgPath(c.Call.StaticCallee()) + "." + fnShort(c.Call.StaticCallee())
				if q != "encoding/json.Unmarshal" && q != "encoding/json.Decoder.Decode" {
					return false
				}
				if !instrDominates(c, ld) {
					return false
				}
			}
		case *ssa.DebugRef:
		default:
			return false
		}
	}
	return true
}

var pureFnMemo = map[*ssa.Function]bool{}

// pureArithmeticFn: a function whose whole body is one block of arithmetic on its scalar parameters and constants
// (`func lower(ch rune) rune { return ('a' - 'A') | ch }`): two calls with equal arguments are the same value.
func pureArithmeticFn(f *ssa.Function) bool {
	if v, ok := pureFnMemo[f]; ok {
		return v
	}
	ok := len(f.Blocks) == 1 && len(f.FreeVars) == 0 && f.Signature.Results().Len() == 1
	if ok {
		for _, q := range f.Params {
			if _, isB := q.Type().Underlying().(*types.Basic); !isB {
				ok = false
			}
		}
		for _, in := range f.Blocks[0].Instrs {
			switch x := in.(type) {
			case *ssa.BinOp, *ssa.Convert, *ssa.ChangeType, *ssa.Return, *ssa.DebugRef:
			case *ssa.UnOp:
				if x.Op == token.MUL || x.Op == token.ARROW {
					ok = false
				}
			default:
				ok = false
			}
		}
	}
	pureFnMemo[f] = ok
	return ok
}
