package main

// (iii) value-aware reaching stores for struct-field cells addressed through an arbitrary base
// pointer (typically a pointer parameter): `be.evalers = make(...); for ... { be.evalers[k] = v }`
// must be seen to update the map allocated here, not whatever the caller had stored in the field.
// A store through the same SSA base value is a strong definition; stores through possibly
// aliasing bases, whole-object stores and calls whose (mapped) write set intersects the base's
// referents are weak definitions contributing "unknown" (= the flow-insensitive value).

import (
	"go/token"
	"go/types"

	"golang.org/x/tools/go/ssa"
)

type fcell struct {
	base ssa.Value
	f    int
}

type defset struct {
	stores  map[*ssa.Store]bool
	calls   map[ssa.Instruction]bool // calls that may store into the cell (values from callDefs)
	unknown bool
}

func newDefset() *defset {
	return &defset{stores: map[*ssa.Store]bool{}, calls: map[ssa.Instruction]bool{}}
}

func (d *defset) clone() *defset {
	n := newDefset()
	n.unknown = d.unknown
	for s := range d.stores {
		n.stores[s] = true
	}
	for s := range d.calls {
		n.calls[s] = true
	}
	return n
}

func (d *defset) merge(o *defset) bool {
	ch := false
	if o.unknown && !d.unknown {
		d.unknown = true
		ch = true
	}
	for s := range o.stores {
		if !d.stores[s] {
			d.stores[s] = true
			ch = true
		}
	}
	for s := range o.calls {
		if !d.calls[s] {
			d.calls[s] = true
			ch = true
		}
	}
	return ch
}

func (d *defset) equal(o *defset) bool {
	if d.unknown != o.unknown || len(d.stores) != len(o.stores) || len(d.calls) != len(o.calls) {
		return false
	}
	for s := range d.stores {
		if !o.stores[s] {
			return false
		}
	}
	for s := range d.calls {
		if !o.calls[s] {
			return false
		}
	}
	return true
}

// objsOf: the set of memory objects a pointer value may refer to (field-insensitive for sites,
// depth-sensitive for regions).
func (u *unit) objsOf(v ssa.Value) map[loc]bool {
	out := map[loc]bool{}
	for l := range u.val(v).flat() {
		if l.o.key.Kind == okSite {
			out[loc{l.o, -1}] = true
		} else {
			out[l] = true
		}
	}
	return out
}

func intersects(a, b map[loc]bool) bool {
	for l := range a {
		if b[l] {
			return true
		}
	}
	return false
}

// genReach computes, for loads of field cells that have at least one same-base store in fn, the
// reaching definitions under the current abstract values.
func (u *unit) genReach(fn *ssa.Function) map[*ssa.UnOp]*defset {
	ri := u.reach[fn]
	// collect cells
	strong := map[fcell]bool{}
	for _, b := range fn.Blocks {
		for _, in := range b.Instrs {
			if st, ok := in.(*ssa.Store); ok {
				if fa, ok := st.Addr.(*ssa.FieldAddr); ok {
					if a, isA := fa.X.(*ssa.Alloc); isA && isPrivateAlloc(a) {
						continue
					}
					strong[fcell{fa.X, fa.Field}] = true
				}
			}
		}
	}
	if len(strong) == 0 {
		return nil
	}
	type loadRef struct {
		ld *ssa.UnOp
		c  fcell
	}
	var loads []loadRef
	cells := map[fcell]bool{}
	for _, b := range fn.Blocks {
		for _, in := range b.Instrs {
			ld, ok := in.(*ssa.UnOp)
			if !ok || ld.Op != token.MUL || !mayPoint(ld.Type()) {
				continue
			}
			if _, done := ri.fwd[ld]; done {
				continue
			}
			if _, done := ri.loads[ld]; done {
				continue
			}
			fa, ok := ld.X.(*ssa.FieldAddr)
			if !ok {
				continue
			}
			c := fcell{fa.X, fa.Field}
			if strong[c] {
				loads = append(loads, loadRef{ld, c})
				cells[c] = true
			}
		}
	}
	if len(loads) == 0 {
		return nil
	}
	baseObjs := map[ssa.Value]map[loc]bool{}
	objs := func(v ssa.Value) map[loc]bool {
		if m, ok := baseObjs[v]; ok {
			return m
		}
		m := u.objsOf(v)
		baseObjs[v] = m
		return m
	}
	structOf := func(v ssa.Value) types.Type {
		if pt, ok := v.Type().Underlying().(*types.Pointer); ok {
			return pt.Elem()
		}
		return nil
	}
	type state map[fcell]*defset
	transfer := func(s state, in ssa.Instruction) {
		switch x := in.(type) {
		case *ssa.Store:
			if fa, ok := x.Addr.(*ssa.FieldAddr); ok {
				for c := range cells {
					if c.f != fa.Field {
						continue
					}
					if c.base == fa.X {
						s[c] = newDefset()
						s[c].stores[x] = true
					} else if t1, t2 := structOf(c.base), structOf(fa.X); t1 != nil && t2 != nil && types.Identical(t1, t2) && intersects(objs(c.base), objs(fa.X)) {
						s[c].stores[x] = true
					}
				}
				// nested field store: a partial (weak) definition of the enclosing top-level field
				if base, f, ok := topField(x.Addr); ok && base != fa.X {
					for c := range cells {
						if c.f == f && (c.base == base || intersects(objs(c.base), objs(base))) {
							s[c].stores[x] = true
						}
					}
				}
				return
			}
			// whole-object store through some pointer
			for c := range cells {
				if x.Addr == c.base {
					s[c] = newDefset()
					s[c].stores[x] = true
				} else if t1 := structOf(c.base); t1 != nil {
					if pt, ok := x.Addr.Type().Underlying().(*types.Pointer); ok && types.Identical(pt.Elem(), t1) && intersects(objs(c.base), objs(x.Addr)) {
						s[c].unknown = true
					}
				}
			}
		case ssa.CallInstruction:
			w := u.callW[x]
			for c := range cells {
				if len(w) > 0 && intersects(objs(c.base), w) {
					s[c].unknown = true
				}
				for _, cd := range u.callDefs[x] {
					if cd.field == c.f && intersects(objs(c.base), cd.objs) {
						s[c].calls[x] = true
					}
				}
			}
		}
	}
	n := len(fn.Blocks)
	out := make([]state, n)
	for i := range out {
		out[i] = nil
	}
	inState := func(b *ssa.BasicBlock) state {
		s := state{}
		if len(b.Preds) == 0 {
			for c := range cells {
				s[c] = newDefset()
				s[c].unknown = true
			}
			return s
		}
		for c := range cells {
			s[c] = newDefset()
		}
		for _, p := range b.Preds {
			if out[p.Index] == nil {
				continue
			}
			for c, d := range out[p.Index] {
				s[c].merge(d)
			}
		}
		return s
	}
	changed := true
	for iter := 0; changed && iter < 100; iter++ {
		changed = false
		for _, b := range fn.Blocks {
			s := inState(b)
			for _, in := range b.Instrs {
				transfer(s, in)
			}
			if out[b.Index] == nil {
				out[b.Index] = s
				changed = true
				continue
			}
			for c, d := range s {
				if !d.equal(out[b.Index][c]) {
					out[b.Index] = s
					changed = true
					break
				}
			}
		}
	}
	res := map[*ssa.UnOp]*defset{}
	want := map[*ssa.UnOp]fcell{}
	for _, l := range loads {
		want[l.ld] = l.c
	}
	for _, b := range fn.Blocks {
		s := inState(b)
		for _, in := range b.Instrs {
			if ld, ok := in.(*ssa.UnOp); ok {
				if c, ok := want[ld]; ok {
					res[ld] = s[c].clone()
				}
			}
			transfer(s, in)
		}
	}
	return res
}
