package main

// Variable webs: a union-find over SSA values that identifies "the same source-level accumulator"
// whether go/ssa kept it in memory (Alloc + loads/stores, or a heap cell shared with a closure) or
// lifted it to registers (phi nodes). Used by rules that speak about "the slice the loop appends
// to" and "the slice the decision tests".

import (
	"fmt"
	"go/token"

	"golang.org/x/tools/go/ssa"
)

type fieldCell struct {
	base  any
	field int
}

type webs struct {
	parent map[any]any
}

func (w *webs) find(x any) any {
	p, ok := w.parent[x]
	if !ok {
		w.parent[x] = x
		return x
	}
	if p == x {
		return x
	}
	r := w.find(p)
	w.parent[x] = r
	return r
}

func (w *webs) union(a, b any) {
	ra, rb := w.find(a), w.find(b)
	if ra != rb {
		w.parent[ra] = rb
	}
}

// cellOf returns the node that stands for "the contents stored at address addr".
func (w *webs) cellOf(addr ssa.Value) any {
	switch a := addr.(type) {
	case *ssa.FieldAddr:
		return fieldCell{w.find(w.ptrNode(a.X)), a.Field}
	}
	return w.ptrNode(addr)
}

// ptrNode canonicalises a pointer value (Alloc, FreeVar bound to an Alloc, Parameter).
func (w *webs) ptrNode(v ssa.Value) any {
	return w.find(v)
}

func isBuiltin(c *ssa.CallCommon, name string) bool {
	b, ok := c.Value.(*ssa.Builtin)
	return ok && b.Name() == name
}

// buildWebs unions values over the given functions (typically a function and its closures).
func buildWebs(fns ...*ssa.Function) *webs {
	w := &webs{parent: map[any]any{}}
	// closure bindings first so that FreeVars and their cells coincide
	for _, fn := range fns {
		forEachInstr(fn, func(in ssa.Instruction) {
			if mc, ok := in.(*ssa.MakeClosure); ok {
				cf := mc.Fn.(*ssa.Function)
				for i, b := range mc.Bindings {
					if i < len(cf.FreeVars) {
						w.union(b, cf.FreeVars[i])
					}
				}
			}
		})
	}
	for _, fn := range fns {
		forEachInstr(fn, func(in ssa.Instruction) {
			switch x := in.(type) {
			case *ssa.Phi:
				for _, e := range x.Edges {
					if _, isC := e.(*ssa.Const); !isC {
						w.union(x, e)
					}
				}
			case *ssa.Call:
				if isBuiltin(&x.Call, "append") && len(x.Call.Args) > 0 {
					if _, isC := x.Call.Args[0].(*ssa.Const); !isC {
						w.union(x, x.Call.Args[0])
					}
				}
			case *ssa.UnOp:
				if x.Op == token.MUL {
					w.union(x, w.cellOf(x.X))
				}
			case *ssa.ChangeType:
				w.union(x, x.X)
			}
		})
	}
	// stores: second pass so that loads are already attached to cells
	for _, fn := range fns {
		forEachInstr(fn, func(in ssa.Instruction) {
			st, ok := in.(*ssa.Store)
			if !ok {
				return
			}
			if _, isC := st.Val.(*ssa.Const); isC {
				return
			}
			switch st.Addr.(type) {
			case *ssa.Alloc, *ssa.FreeVar:
				w.union(w.cellOf(st.Addr), st.Val)
			case *ssa.FieldAddr:
				// only the accumulator idiom  x.f = append(x.f, ...)  joins the webs
				if c, ok := st.Val.(*ssa.Call); ok && isBuiltin(&c.Call, "append") {
					if w.find(c) == w.find(w.cellOf(st.Addr)) {
						return
					}
					if ld, ok := c.Call.Args[0].(*ssa.UnOp); ok && ld.Op == token.MUL {
						if w.find(w.cellOf(ld.X)) == w.find(w.cellOf(st.Addr)) {
							w.union(w.cellOf(st.Addr), st.Val)
						}
					}
				}
			}
		})
	}
	return w
}

func (w *webs) same(a, b any) bool { return w.find(a) == w.find(b) }

func (w *webs) String(x any) string { return fmt.Sprintf("%v", w.find(x)) }

// ---------------------------------------------------------------------------------------------
// natural loops

type loopInfo struct {
	Header *ssa.BasicBlock
	Body   map[*ssa.BasicBlock]bool // includes header
}

// loopsOf computes the natural loops of a function (one per header; back edges to the same
// header are merged).
func loopsOf(fn *ssa.Function) []*loopInfo {
	byHeader := map[*ssa.BasicBlock]*loopInfo{}
	var out []*loopInfo
	for _, b := range fn.Blocks {
		for _, s := range b.Succs {
			if s.Dominates(b) { // back edge b -> s
				li := byHeader[s]
				if li == nil {
					li = &loopInfo{Header: s, Body: map[*ssa.BasicBlock]bool{s: true}}
					byHeader[s] = li
					out = append(out, li)
				}
				// nodes that reach b without passing through s
				st := []*ssa.BasicBlock{b}
				for len(st) > 0 {
					x := st[len(st)-1]
					st = st[:len(st)-1]
					if li.Body[x] {
						continue
					}
					li.Body[x] = true
					st = append(st, x.Preds...)
				}
			}
		}
	}
	return out
}

// innermostLoop returns the smallest loop containing b, or nil.
func innermostLoop(loops []*loopInfo, b *ssa.BasicBlock) *loopInfo {
	var best *loopInfo
	for _, l := range loops {
		if l.Body[b] && (best == nil || len(l.Body) < len(best.Body)) {
			best = l
		}
	}
	return best
}

// exitEdges lists the edges leaving the loop as (from, to) pairs; blocks that end in Return or
// Panic inside the loop are reported with to == nil.
func (l *loopInfo) exitEdges() [][2]*ssa.BasicBlock {
	var out [][2]*ssa.BasicBlock
	for b := range l.Body {
		if len(b.Succs) == 0 {
			out = append(out, [2]*ssa.BasicBlock{b, nil})
		}
		for _, s := range b.Succs {
			if !l.Body[s] {
				out = append(out, [2]*ssa.BasicBlock{b, s})
			}
		}
	}
	return out
}

// makeClosureOf finds the MakeClosure instruction that creates closure fn in its parent.
func makeClosureOf(fn *ssa.Function) *ssa.MakeClosure {
	if fn.Parent() == nil {
		return nil
	}
	var out *ssa.MakeClosure
	forEachInstr(fn.Parent(), func(in ssa.Instruction) {
		if mc, ok := in.(*ssa.MakeClosure); ok && mc.Fn == fn {
			out = mc
		}
	})
	return out
}

// isRangeFuncYield reports whether fn is the synthetic body closure of a range-over-func loop.
func isRangeFuncYield(fn *ssa.Function) bool {
	return fn.Synthetic == "range-over-func yield"
}
