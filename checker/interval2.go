package main

// E8 continued: obligations, relational guard templates, path-condition case splitting.

import (
	"go/ast"
	"go/token"
	"go/types"
	"math/big"
	"sort"
	"strings"

	"golang.org/x/tools/go/ssa"
)

// relOf normalises a guard into "X op Y" that is known to hold (ok=false when the guard is not a comparison).
func relOf(g Guard) (x, y ssa.Value, op token.Token, ok bool) {
	c, isB := g.Cond.(*ssa.BinOp)
	if !isB {
		return nil, nil, 0, false
	}
	op = c.Op
	switch op {
	case token.LSS, token.LEQ, token.GTR, token.GEQ, token.EQL, token.NEQ:
	default:
		return nil, nil, 0, false
	}
	if !g.Pol {
		op = negateOp(op)
	}
	return c.X, c.Y, op, true
}

// upperBoundExprs lists expressions E with "a <= E" (strict=false) or "a < E" among the guards.
func upperBoundExprs(a ssa.Value, gs []Guard) []ssa.Value {
	key := termKey(a, 0)
	var out []ssa.Value
	for _, g := range gs {
		x, y, op, ok := relOf(g)
		if !ok {
			continue
		}
		if termKey(x, 0) == key && (op == token.LEQ || op == token.LSS) {
			out = append(out, y)
		}
		if termKey(y, 0) == key && (op == token.GEQ || op == token.GTR) {
			out = append(out, x)
		}
	}
	return out
}

func lowerBoundExprs(a ssa.Value, gs []Guard) []ssa.Value {
	key := termKey(a, 0)
	var out []ssa.Value
	for _, g := range gs {
		x, y, op, ok := relOf(g)
		if !ok {
			continue
		}
		if termKey(x, 0) == key && (op == token.GEQ || op == token.GTR) {
			out = append(out, y)
		}
		if termKey(y, 0) == key && (op == token.LEQ || op == token.LSS) {
			out = append(out, x)
		}
	}
	return out
}

// boundIsStrict: the fact relating a and e among the guards is only available in its strict form (a > e for a lower
// bound, a < e for an upper bound) — i.e. the rejecting test was written with <= / >=.
func boundIsStrict(a, e ssa.Value, gs []Guard, lower bool) bool {
	key, ek := termKey(a, 0), termKey(e, 0)
	strict, nonStrict := false, false
	for _, g := range gs {
		x, y, op, ok := relOf(g)
		if !ok {
			continue
		}
		if termKey(x, 0) == key && termKey(y, 0) == ek {
			if lower {
				strict = strict || op == token.GTR
				nonStrict = nonStrict || op == token.GEQ
			} else {
				strict = strict || op == token.LSS
				nonStrict = nonStrict || op == token.LEQ
			}
		}
		if termKey(y, 0) == key && termKey(x, 0) == ek {
			if lower {
				strict = strict || op == token.LSS
				nonStrict = nonStrict || op == token.LEQ
			} else {
				strict = strict || op == token.GTR
				nonStrict = nonStrict || op == token.GEQ
			}
		}
	}
	return strict && !nonStrict
}

func constBig(v ssa.Value) *big.Int {
	c, ok := v.(*ssa.Const)
	if !ok {
		return nil
	}
	cv := constIval(c)
	if cv.top || cv.float {
		return nil
	}
	return cv.lo
}

// template tries the relational idioms that plain intervals cannot see. It returns the reason when x is shown to stay
// within its type's range.
//
//	T1  a*K (+ d)   under  a <= (C - d)/K     K>0 constant, 0 <= d <= C, C <= max
//	T2  a*m         under  a <= C/m           m >= 1, C <= max
//	T3  a + b       under  a <= C - b         C <= max
//	T4  a - b       under  a >= C + b         C >= min
//
// The other side of the range is checked with intervals.
func (a *ivFn) template(x *ssa.BinOp, b *ssa.BasicBlock, gs []Guard) string {
	k := kindOfType(x.Type())
	if !k.ok || k.float {
		return ""
	}
	val := func(v ssa.Value) ival {
		r := a.refine(v, a.raw(v), gs, b)
		if r.top {
			r = kindOfType(v.Type()).full()
		}
		return r
	}
	inRangeLow := func(lo *big.Int) bool { return lo.Cmp(k.lo) >= 0 }
	inRangeHigh := func(hi *big.Int) bool { return hi.Cmp(k.hi) <= 0 }
	// matchT1 reports whether E = (C - d)/K for the given K and (optional) d
	matchT1 := func(e ssa.Value, kc *big.Int, d ssa.Value) bool {
		q, ok := e.(*ssa.BinOp)
		if !ok || q.Op != token.QUO {
			return false
		}
		kk := constBig(q.Y)
		if kk == nil || kk.Cmp(kc) != 0 || kk.Sign() <= 0 {
			return false
		}
		s, ok := q.X.(*ssa.BinOp)
		if !ok || s.Op != token.SUB {
			return false
		}
		c := constBig(s.X)
		if c == nil || !inRangeHigh(c) {
			return false
		}
		dv := val(s.Y)
		if dv.top || dv.float || dv.lo.Sign() < 0 || dv.hi.Cmp(c) > 0 {
			return false
		}
		if d != nil && termKey(d, 0) != termKey(s.Y, 0) {
			return false
		}
		return true
	}
	switch x.Op {
	case token.MUL:
		for _, pair := range [][2]ssa.Value{{x.X, x.Y}, {x.Y, x.X}} {
			av, mv := pair[0], pair[1]
			ai, mi := val(av), val(mv)
			if ai.top || mi.top || ai.float || mi.float {
				continue
			}
			prod := mulI(ai, mi)
			upper, lower := "", ""
			if inRangeHigh(prod.hi) {
				upper = "intervals"
			}
			if inRangeLow(prod.lo) {
				lower = "intervals"
			}
			if kc := constBig(mv); kc != nil && kc.Sign() > 0 && upper == "" {
				for _, e := range upperBoundExprs(av, gs) {
					if matchT1(e, kc, nil) {
						upper = "T1: a*K under a <= (C-d)/K"
					}
				}
			}
			if mi.lo.Sign() >= 1 {
				if upper == "" {
					for _, e := range upperBoundExprs(av, gs) {
						if q, ok := e.(*ssa.BinOp); ok && q.Op == token.QUO && termKey(q.Y, 0) == termKey(mv, 0) {
							if c := constBig(q.X); c != nil && inRangeHigh(c) && c.Sign() >= 0 {
								upper = "T2: a*m under a <= C/m, m >= 1"
							}
						}
					}
				}
				if lower == "" {
					// truncated division rounds a negative bound towards zero, i.e. upwards: a >= C/m gives a*m >= C
					for _, e := range lowerBoundExprs(av, gs) {
						if q, ok := e.(*ssa.BinOp); ok && q.Op == token.QUO && termKey(q.Y, 0) == termKey(mv, 0) {
							if c := constBig(q.X); c != nil && inRangeLow(c) && c.Sign() <= 0 {
								lower = "T2: a*m under a >= C/m, m >= 1"
							}
						}
					}
				}
			}
			if upper != "" && lower != "" {
				if upper == lower {
					return upper
				}
				return upper + " / " + lower
			}
		}
	case token.ADD:
		for _, pair := range [][2]ssa.Value{{x.X, x.Y}, {x.Y, x.X}} {
			mv, dv := pair[0], pair[1]
			mi, di := val(mv), val(dv)
			if mi.top || di.top || mi.float || di.float {
				continue
			}
			if !inRangeLow(new(big.Int).Add(mi.lo, di.lo)) {
				continue
			}
			// T1 with the addend: mv = a*K
			if m, ok := mv.(*ssa.BinOp); ok && m.Op == token.MUL {
				for _, p2 := range [][2]ssa.Value{{m.X, m.Y}, {m.Y, m.X}} {
					if kc := constBig(p2[1]); kc != nil && kc.Sign() > 0 {
						for _, e := range upperBoundExprs(p2[0], gs) {
							if matchT1(e, kc, dv) {
								return "T1: a*K+d under a <= (C-d)/K"
							}
						}
					}
				}
			}
			// T3
			for _, e := range upperBoundExprs(mv, gs) {
				if s, ok := e.(*ssa.BinOp); ok && s.Op == token.SUB && termKey(s.Y, 0) == termKey(dv, 0) {
					if c := constBig(s.X); c != nil && inRangeHigh(c) {
						if c.Cmp(k.hi) == 0 && boundIsStrict(mv, e, gs, false) {
							return "T3: a+b under a < C-b [over-strict: the guard also rejects the operands whose sum is exactly the type's maximum]"
						}
						return "T3: a+b under a <= C-b"
					}
				}
			}
		}
	case token.SUB:
		ai, bi := val(x.X), val(x.Y)
		if ai.top || bi.top || ai.float || bi.float {
			return ""
		}
		if !inRangeHigh(new(big.Int).Sub(ai.hi, bi.lo)) {
			return ""
		}
		for _, e := range lowerBoundExprs(x.X, gs) {
			if s, ok := e.(*ssa.BinOp); ok && s.Op == token.ADD {
				for _, p2 := range [][2]ssa.Value{{s.X, s.Y}, {s.Y, s.X}} {
					if c := constBig(p2[0]); c != nil && inRangeLow(c) && termKey(p2[1], 0) == termKey(x.Y, 0) {
						if c.Cmp(k.lo) == 0 && boundIsStrict(x.X, e, gs, true) {
							return "T4: a-b under a > C+b [over-strict: the guard also rejects the operands whose difference is exactly the type's minimum]"
						}
						return "T4: a-b under a >= C+b"
					}
				}
			}
		}
	}
	return ""
}

// ---- path conditions ----

// cubesAt returns the disjunction of conjunctions of branch facts that hold on entry to b: dominator guards, refined by
// enumerating the acyclic paths between each block and its immediate dominator (so the join after `if a || (b && c)
// { return }` knows "!a and (!b or !c)").
func (a *ivFn) cubesAt(b *ssa.BasicBlock) [][]Guard {
	cubes := [][]Guard{nil}
	for x := b; x != nil && x.Idom() != nil; x = x.Idom() {
		d := x.Idom()
		alts := pathAlternatives(d, x)
		if alts == nil {
			continue
		}
		var next [][]Guard
		for _, c := range cubes {
			for _, alt := range alts {
				nc := append(append([]Guard{}, c...), alt...)
				next = append(next, nc)
			}
		}
		if len(next) > 48 {
			// too many cases: keep only what every alternative agrees on (nothing) for this step
			continue
		}
		cubes = next
	}
	// expand && / || phis inside each cube
	for i, c := range cubes {
		var out []Guard
		for _, g := range c {
			for _, e := range expandGuard(g, 0) {
				out = append(out, flattenGuard(e))
			}
		}
		cubes[i] = out
	}
	return cubes
}

// pathAlternatives enumerates the simple paths d -> x that stay inside the region dominated by d and do not pass
// through x or d again; each yields the list of branch facts along it. nil = too many paths (no facts).
func pathAlternatives(d, x *ssa.BasicBlock) [][]Guard {
	var out [][]Guard
	tooMany := false
	onPath := map[*ssa.BasicBlock]bool{d: true}
	var walk func(cur *ssa.BasicBlock, facts []Guard, depth int)
	walk = func(cur *ssa.BasicBlock, facts []Guard, depth int) {
		if tooMany {
			return
		}
		if depth > 12 {
			tooMany = true
			return
		}
		for i, s := range cur.Succs {
			f := facts
			if iff, ok := lastInstr(cur).(*ssa.If); ok && cur.Succs[0] != cur.Succs[1] {
				f = append(append([]Guard{}, facts...), Guard{Cond: iff.Cond, Pol: i == 0, If: iff})
			}
			if s == x {
				out = append(out, f)
				if len(out) > 8 {
					tooMany = true
				}
				continue
			}
			if onPath[s] || !d.Dominates(s) || !reachable(s, x) {
				continue
			}
			onPath[s] = true
			walk(s, f, depth+1)
			delete(onPath, s)
		}
	}
	walk(d, nil, 0)
	if tooMany || len(out) == 0 {
		return nil
	}
	return out
}

// ---- evaluation of an expression under a case (cube + optional fixed values) ----

type evKey struct {
	v  ssa.Value
	b  *ssa.BasicBlock
	ng int
}
type evRes struct {
	r  ival
	ok bool
}

func (a *ivFn) evalUnder(v ssa.Value, gs []Guard, b *ssa.BasicBlock, depth int) (ival, bool) {
	if c, ok := v.(*ssa.Const); ok {
		return constIval(c), true
	}
	if a.evMemo != nil {
		if r, ok := a.evMemo[evKey{v, b, len(gs)}]; ok {
			return r.r, r.ok
		}
	}
	r, ok := a.evalUnder1(v, gs, b, depth)
	if a.evMemo != nil && depth <= 8 {
		a.evMemo[evKey{v, b, len(gs)}] = evRes{r, ok}
	}
	return r, ok
}

func (a *ivFn) evalUnder1(v ssa.Value, gs []Guard, b *ssa.BasicBlock, depth int) (ival, bool) {
	key := termKey(v, 0)
	if a.caseEnv != nil {
		if cv, ok := a.caseEnv[key]; ok {
			return cv, true
		}
	}
	base := a.refine(v, a.raw(v), gs, b)
	if base.top {
		base = kindOfType(v.Type()).full()
	}
	if depth > 8 {
		return base, true
	}
	k := kindOfType(v.Type())
	var rec ival
	have := false
	feasible := true
	switch x := v.(type) {
	case *ssa.BinOp:
		if !k.ok {
			break
		}
		l, ok1 := a.evalUnder(x.X, gs, b, depth+1)
		r, ok2 := a.evalUnder(x.Y, gs, b, depth+1)
		if !ok1 || !ok2 {
			return base, false
		}
		if l.top || r.top {
			break
		}
		if k.float {
			rec, have = floatBin(x.Op, l, r), true
			break
		}
		if l.float || r.float {
			break
		}
		res, exact := intBin(x, l, r)
		if !exact {
			break
		}
		if k.contains(res) {
			rec, have = res, true
		} else if _, pinned := a.pins[x]; pinned || a.template(x, b, gs) != "" {
			if m, ok := meetI(res, k.full()); ok {
				rec, have = m, true
			}
		}
	case *ssa.UnOp:
		if x.Op == token.SUB && k.ok {
			o, ok := a.evalUnder(x.X, gs, b, depth+1)
			if !ok {
				return base, false
			}
			if !o.top && !o.float {
				if r := negI(o); k.contains(r) {
					rec, have = r, true
				}
			}
		}
	case *ssa.Convert:
		o, ok := a.evalUnder(x.X, gs, b, depth+1)
		if !ok {
			return base, false
		}
		rec, have = a.convert(x, o), true
	case *ssa.ChangeType:
		return a.evalUnder(x.X, gs, b, depth+1)
	case *ssa.Phi:
		var out *ival
		for i, e := range x.Edges {
			pred := x.Block().Preds[i]
			// is this edge possible under the case?
			eg := a.guards(pred)
			if iff, ok := lastInstr(pred).(*ssa.If); ok && pred.Succs[0] != pred.Succs[1] {
				eg = append(append([]Guard{}, eg...), flattenGuard(Guard{Cond: iff.Cond, Pol: pred.Succs[0] == x.Block(), If: iff}))
			}
			if !a.feasibleUnder(eg, gs, pred, depth) {
				continue
			}
			ev, ok := a.evalUnder(e, append(append([]Guard{}, gs...), eg...), pred, depth+1)
			if !ok {
				continue
			}
			if ev.top {
				ev = k.full()
			}
			if out == nil {
				out = &ev
			} else {
				j := joinI(*out, ev)
				out = &j
			}
		}
		if out != nil {
			rec, have = *out, true
		}
	case *ssa.Call:
		if f := x.Call.StaticCallee(); f != nil {
			getter := func(arg ssa.Value) ival {
				r, _ := a.evalUnder(arg, gs, b, depth+1)
				return r
			}
			if r, ok := stdIntervalModelG(f, x, getter); ok {
				rec, have = r, true
			}
		}
	case *ssa.Extract:
		if c, ok := x.Tuple.(*ssa.Call); ok {
			if f := c.Call.StaticCallee(); f != nil {
				if r, ok := stdTupleModel(f, c, x.Index, a, b); ok {
					rec, have = r, true
				}
			}
		}
	}
	if have && !rec.top {
		m, ok := meetI(base, rec)
		if !ok {
			feasible = false
		}
		return m, feasible
	}
	return base, true
}

// feasibleUnder: can all of the guards eg hold together with the case (gs + caseEnv)? Only decides "no" when a single
// comparison is contradicted by the intervals.
func (a *ivFn) feasibleUnder(eg, gs []Guard, b *ssa.BasicBlock, depth int) bool {
	for _, g := range eg {
		x, y, op, ok := relOf(g)
		if !ok {
			continue
		}
		l, ok1 := a.evalUnder(x, gs, b, depth+2)
		r, ok2 := a.evalUnder(y, gs, b, depth+2)
		if !ok1 || !ok2 {
			return false
		}
		if l.top || r.top || l.float || r.float {
			continue
		}
		switch op {
		case token.LSS:
			if l.lo.Cmp(r.hi) >= 0 {
				return false
			}
		case token.LEQ:
			if l.lo.Cmp(r.hi) > 0 {
				return false
			}
		case token.GTR:
			if l.hi.Cmp(r.lo) <= 0 {
				return false
			}
		case token.GEQ:
			if l.hi.Cmp(r.lo) < 0 {
				return false
			}
		case token.EQL:
			if l.hi.Cmp(r.lo) < 0 || l.lo.Cmp(r.hi) > 0 {
				return false
			}
		case token.NEQ:
			if l.lo.Cmp(l.hi) == 0 && r.lo.Cmp(r.hi) == 0 && l.lo.Cmp(r.lo) == 0 {
				return false
			}
		}
	}
	return true
}

func stdIntervalModelG(f *ssa.Function, c *ssa.Call, get func(ssa.Value) ival) (ival, bool) {
	if fnPkgPath(f) == "math" && f.Name() == "Pow10" {
		n := get(c.Call.Args[0])
		if n.top || n.float || n.lo.Sign() < 0 || n.hi.Cmp(big.NewInt(22)) > 0 {
			return ival{}, false
		}
		return ival{float: true, flo: pow10f(int(n.lo.Int64())), fhi: pow10f(int(n.hi.Int64()))}, true
	}
	return ival{}, false
}

func pow10f(n int) float64 {
	f := 1.0
	for i := 0; i < n; i++ {
		f *= 10
	}
	return f
}

// ---- obligations ----

// ivAllow lists functions whose modular arithmetic is intended; one line of reason each.
var ivAllow = map[string]string{
	"hash": "hash functions fold the bits of a value; wrap-around and sign reinterpretation are the intent",
}

func (a *ivFn) checkObligations() {
	fn := a.fn
	if _, ok := ivAllow[fn.Name()]; ok {
		return
	}
	counts := map[string]int{}
	for _, b := range fn.Blocks {
		for _, in := range b.Instrs {
			v, ok := in.(ssa.Value)
			if !ok {
				continue
			}
			kind, expr := a.obligationOf(v)
			if kind == "" {
				continue
			}
			text := a.e.exprText(fn, in, expr)
			base := fnQual(fn) + ":" + kind + ":" + text
			counts[base]++
			key := base
			if counts[base] > 1 {
				key += "#" + itoa(counts[base])
			}
			ok2, reason, bad := a.discharge(v, b, kind)
			if !a.record {
				continue
			}
			ob := a.e.obs[key]
			if ob == nil {
				ob = &ivOb{fn: fn, in: in, kind: kind, key: key, ok: true}
				a.e.obs[key] = ob
			}
			if ok2 {
				if ob.reason == "" {
					ob.reason = reason
				}
			} else {
				ob.ok = false
				if ob.bad == "" {
					ob.bad = bad + a.ctxNote()
				}
			}
		}
	}
}

func (a *ivFn) ctxNote() string {
	var parts []string
	for i, q := range a.fn.Params {
		if i < len(a.par) && !a.par[i].top {
			if k := kindOfType(q.Type()); k.ok && !eqI(a.par[i], k.full()) {
				parts = append(parts, q.Name()+"∈"+a.par[i].String())
			}
		}
	}
	if len(parts) == 0 {
		return ""
	}
	return " (called with " + strings.Join(parts, ", ") + ")"
}

// obligationOf classifies v: "" = nothing to prove.
func (a *ivFn) obligationOf(v ssa.Value) (string, string) {
	k := kindOfType(v.Type())
	switch x := v.(type) {
	case *ssa.BinOp:
		if !k.ok || k.float {
			return "", ""
		}
		if !k.signed {
			// unsigned accumulators (a magnitude summed up before a sign is applied) wrap just as silently
			if k.bits == 64 && (x.Op == token.ADD || x.Op == token.MUL) && readsText(a.fn) {
				if x.Op == token.ADD {
					return "add", ""
				}
				return "mul", ""
			}
			return "", ""
		}
		switch x.Op {
		case token.ADD:
			return "add", ""
		case token.SUB:
			return "sub", ""
		case token.MUL:
			return "mul", ""
		case token.QUO:
			return "quo", ""
		}
	case *ssa.UnOp:
		if x.Op == token.SUB && k.ok && !k.float && k.signed {
			return "neg", ""
		}
	case *ssa.Convert:
		from := kindOfType(x.X.Type())
		if !k.ok || !from.ok || k.float {
			return "", ""
		}
		if from.float {
			return "float-to-int", ""
		}
		if k.lo.Cmp(from.lo) <= 0 && k.hi.Cmp(from.hi) >= 0 {
			return "", "" // widening
		}
		return "narrow", ""
	}
	return "", ""
}

// discharge decides one obligation in the current context.
func (a *ivFn) discharge(v ssa.Value, b *ssa.BasicBlock, kind string) (bool, string, string) {
	cubes := a.cubesAt(b)
	var worst string
	reasons := map[string]bool{}
	var joined *ival
	for _, gs := range cubes {
		ok, reason, res, bad := a.dischargeUnder(v, b, kind, gs)
		if !ok {
			// try a finite case split on one small-range leaf
			ok2, reason2, res2 := a.splitAndDischarge(v, b, kind, gs)
			if !ok2 {
				worst = bad
				return false, "", worst
			}
			reason, res = reason2, res2
		}
		reasons[reason] = true
		if res != nil {
			if joined == nil {
				joined = res
			} else {
				j := joinI(*joined, *res)
				joined = &j
			}
		}
	}
	if joined != nil && !joined.top {
		if old, ok := a.pins[v]; !ok || !eqI(old, *joined) {
			a.pins[v] = *joined
			a.pinsChanged = true
		}
	}
	var rs []string
	for r := range reasons {
		rs = append(rs, r)
	}
	sort.Strings(rs)
	return true, strings.Join(rs, "; "), ""
}

// dischargeUnder: ok, reason, resulting interval (nil = infeasible case), failure text.
func (a *ivFn) dischargeUnder(v ssa.Value, b *ssa.BasicBlock, kind string, gs []Guard) (bool, string, *ival, string) {
	a.evMemo = map[evKey]evRes{}
	defer func() { a.evMemo = nil }()
	k := kindOfType(v.Type())
	ev := func(x ssa.Value) (ival, bool) {
		r, ok := a.evalUnder(x, gs, b, 0)
		if r.top {
			r = kindOfType(x.Type()).full()
		}
		return r, ok
	}
	switch x := v.(type) {
	case *ssa.BinOp:
		l, ok1 := ev(x.X)
		r, ok2 := ev(x.Y)
		if !ok1 || !ok2 {
			return true, "infeasible case", nil, ""
		}
		if l.top || r.top || l.float || r.float {
			return false, "", nil, "operand range unknown"
		}
		if kind == "quo" {
			if l.lo.Cmp(k.lo) == 0 && r.lo.Cmp(big.NewInt(-1)) <= 0 && r.hi.Cmp(big.NewInt(-1)) >= 0 {
				return false, "", nil, "the most negative value may be divided by -1 (dividend " + l.String() + ", divisor " + r.String() + ")"
			}
			res := quoI(l, r)
			return true, "intervals", &res, ""
		}
		res, exact := intBin(x, l, r)
		if !exact {
			return false, "", nil, "operator not modelled"
		}
		if k.contains(res) {
			return true, "intervals", &res, ""
		}
		if why := a.template(x, b, gs); why != "" {
			m, _ := meetI(res, k.full())
			return true, why, &m, ""
		}
		return false, "", nil, "operands " + l.String() + " and " + r.String() + " give " + res.String() + ", outside " + k.full().String()
	case *ssa.UnOp:
		o, ok := ev(x.X)
		if !ok {
			return true, "infeasible case", nil, ""
		}
		if o.top || o.float {
			return false, "", nil, "operand range unknown"
		}
		res := negI(o)
		if k.contains(res) {
			return true, "intervals", &res, ""
		}
		return false, "", nil, "operand " + o.String() + " includes the most negative value, whose negation does not exist"
	case *ssa.Convert:
		o, ok := ev(x.X)
		if !ok {
			return true, "infeasible case", nil, ""
		}
		if o.top {
			return false, "", nil, "operand range unknown"
		}
		if o.float {
			if floatFits(o, k) {
				res := a.convert(x, o)
				return true, "float range check", &res, ""
			}
			return false, "", nil, "the converted float ranges over " + o.String() + "; values outside (" + k.lo.String() + "-1, " + k.hi.String() + "+1) and NaN have no defined integer result"
		}
		if k.contains(o) {
			return true, "intervals", &o, ""
		}
		return false, "", nil, "operand " + o.String() + " does not fit " + k.full().String()
	}
	return false, "", nil, "unhandled obligation"
}

// splitAndDischarge fixes one leaf with a small range to each of its values in turn.
func (a *ivFn) splitAndDischarge(v ssa.Value, b *ssa.BasicBlock, kind string, gs []Guard) (bool, string, *ival) {
	if a.caseEnv != nil {
		return false, "", nil
	}
	leaves := map[string]ssa.Value{}
	var collect func(x ssa.Value, depth int)
	seen := map[ssa.Value]bool{}
	collect = func(x ssa.Value, depth int) {
		if depth > 10 || seen[x] {
			return
		}
		seen[x] = true
		switch y := x.(type) {
		case *ssa.Const:
		case *ssa.Parameter:
			leaves[termKey(x, 0)] = x
		case *ssa.BinOp:
			collect(y.X, depth+1)
			collect(y.Y, depth+1)
		case *ssa.UnOp:
			collect(y.X, depth+1)
		case *ssa.Convert:
			collect(y.X, depth+1)
		case *ssa.ChangeType:
			collect(y.X, depth+1)
		case *ssa.Phi:
			for _, e := range y.Edges {
				collect(e, depth+1)
			}
		case *ssa.Extract:
			collect(y.Tuple, depth+1)
		case *ssa.Call:
			if bi, ok := y.Call.Value.(*ssa.Builtin); ok && bi.Name() == "len" {
				leaves[termKey(x, 0)] = x
				return
			}
			for _, arg := range y.Call.Args {
				collect(arg, depth+1)
				// the length of a string argument is a leaf too (ParseUint's digit-count bound)
				if bt, ok := arg.Type().Underlying().(*types.Basic); ok && bt.Info()&types.IsString != 0 {
					for sv := range a.st {
						if c2, ok := sv.(*ssa.Call); ok {
							if bi, ok := c2.Call.Value.(*ssa.Builtin); ok && bi.Name() == "len" && termKey(c2.Call.Args[0], 0) == termKey(arg, 0) {
								leaves[termKey(sv, 0)] = sv
							}
						}
					}
				}
			}
		}
	}
	collect(v, 0)
	var keys []string
	for k := range leaves {
		keys = append(keys, k)
	}
	sort.Strings(keys)
	for _, lk := range keys {
		leaf := leaves[lk]
		r := a.refine(leaf, a.raw(leaf), gs, b)
		if r.top || r.float {
			continue
		}
		width := new(big.Int).Sub(r.hi, r.lo)
		if width.Cmp(big.NewInt(32)) > 0 {
			continue
		}
		allOK := true
		var joined *ival
		for n := new(big.Int).Set(r.lo); n.Cmp(r.hi) <= 0; n = new(big.Int).Add(n, big.NewInt(1)) {
			a.caseEnv = map[string]ival{lk: ibig(n, n)}
			ok, _, res, _ := a.dischargeUnder(v, b, kind, gs)
			a.caseEnv = nil
			if !ok {
				allOK = false
				break
			}
			if res != nil {
				if joined == nil {
					joined = res
				} else {
					j := joinI(*joined, *res)
					joined = &j
				}
			}
		}
		if allOK {
			name := leaf.Name()
			return true, "case split on " + name + "∈" + r.String(), joined
		}
	}
	return false, "", nil
}

// exprText renders the source expression of an instruction (the construct key must not depend on line numbers).
func (e *ivEngine) exprText(fn *ssa.Function, in ssa.Instruction, _ string) string {
	pos := in.Pos()
	if !pos.IsValid() {
		if v, ok := in.(ssa.Value); ok {
			return v.Name()
		}
		return "?"
	}
	decl := funcDecl(fn)
	if decl == nil {
		for f := fn; f != nil && decl == nil; f = f.Parent() {
			decl = funcDecl(f)
		}
	}
	var found ast.Node
	var root ast.Node
	if decl != nil {
		root = decl
	} else if syn := fn.Syntax(); syn != nil {
		root = syn
	}
	if root == nil {
		return "?"
	}
	ast.Inspect(root, func(n ast.Node) bool {
		if n == nil || found != nil {
			return false
		}
		switch x := n.(type) {
		case *ast.BinaryExpr:
			if x.OpPos == pos {
				found = x
			}
		case *ast.UnaryExpr:
			if x.OpPos == pos {
				found = x
			}
		case *ast.IncDecStmt:
			if x.TokPos == pos {
				found = x
			}
		case *ast.AssignStmt:
			if x.TokPos == pos && x.Tok != token.ASSIGN && x.Tok != token.DEFINE {
				found = x
			}
		case *ast.CallExpr:
			if x.Lparen == pos {
				found = x
			}
		}
		return true
	})
	if found == nil {
		if v, ok := in.(ssa.Value); ok {
			return v.Name()
		}
		return "?"
	}
	switch x := found.(type) {
	case ast.Expr:
		return types.ExprString(x)
	case *ast.IncDecStmt:
		return types.ExprString(x.X) + x.Tok.String()
	case *ast.AssignStmt:
		return types.ExprString(x.Lhs[0]) + " " + x.Tok.String() + " " + types.ExprString(x.Rhs[0])
	}
	return "?"
}

// readsText: the function converts text to a value (it has a string or byte-slice parameter). Unsigned arithmetic is an
// obligation only there; elsewhere (hash folding, probe sequences) wrap-around of unsigned values is the intent.
func readsText(fn *ssa.Function) bool {
	for fn.Parent() != nil {
		fn = fn.Parent()
	}
	for _, q := range fn.Params {
		switch t := q.Type().Underlying().(type) {
		case *types.Basic:
			if t.Info()&types.IsString != 0 {
				return true
			}
		case *types.Slice:
			if b, ok := t.Elem().Underlying().(*types.Basic); ok && b.Kind() == types.Uint8 {
				return true
			}
		}
	}
	return false
}
