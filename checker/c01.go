package main

// C01 — expression evaluation follows the language semantics (structural clauses).

import (
	"go/ast"
	"go/constant"
	"go/token"
	"go/types"
	"sort"
	"strings"

	"golang.org/x/tools/go/ssa"
)

func init() {
	register(&propCheck{
		ID: "C01",
		Explanation: "The evaluator as a complete, consistent, error-propagating, overflow-checked dispatch over the language's operators: R1.1 the AST->evaluator conversion has a case " +
			"for every node kind (and every request variable); R1.2 the extension registry, the constructor dispatch, the validator's signature table and the AST builders agree on names " +
			"and arities, and every args[k] is dominated by the arity test; R1.3 each operator's evaluator demands exactly the operand kinds the language prescribes (extracted by following " +
			"each operand evaluator field to the conversion its value flows through) and every ValueToX/evalX helper raises the type error on the failing assertion; R1.4 every error " +
			"produced inside an Eval method is returned before the paired value is used; R1.5 no unchecked + - * or unary - on Long/int64 outside the checked helpers, each helper's ok is " +
			"tested and the failing edge returns an overflow error; R1.6 the right/branch operand of && || if is evaluated only under the left operand's boolean with the prescribed polarity; " +
			"R1.7 remainders of datetime milliseconds are sign-corrected (floor semantics); R1.8 entity lookups are used only under their ok; R1.9 ordering operators map to the comparison " +
			"with the right direction and negation, and the value kinds implementing the comparable interface are exactly long, datetime, duration. Not decided: the numeric value any operator computes, `like` matching, extension parsing.",
		Run: runC01,
	})
}

// the language's operand-kind table (DESIGN appendix D). Kinds are sets of accepted value kinds;
// "any" = no conversion demanded.
var langOperands = map[string][]string{
	"NodeTypeAdd": {"Long", "Long"}, "NodeTypeSub": {"Long", "Long"}, "NodeTypeMult": {"Long", "Long"}, "NodeTypeNegate": {"Long"},
	"NodeTypeNot": {"Boolean"}, "NodeTypeAnd": {"Boolean", "Boolean"}, "NodeTypeOr": {"Boolean", "Boolean"},
	"NodeTypeIfThenElse": {"Boolean", "any", "any"},
	"NodeTypeEquals":     {"any", "any"}, "NodeTypeNotEquals": {"any", "any"},
	"NodeTypeLessThan": {"Comparable", "Comparable"}, "NodeTypeLessThanOrEqual": {"Comparable", "Comparable"},
	"NodeTypeGreaterThan": {"Comparable", "Comparable"}, "NodeTypeGreaterThanOrEqual": {"Comparable", "Comparable"},
	"NodeTypeIn": {"EntityUID", "EntityUID|Set"}, "NodeTypeIs": {"EntityUID"}, "NodeTypeIsIn": {"EntityUID", "EntityUID|Set"},
	"NodeTypeHas": {"EntityUID|Record"}, "NodeTypeAccess": {"EntityUID|Record"},
	"NodeTypeGetTag": {"EntityUID", "String"}, "NodeTypeHasTag": {"EntityUID", "String"},
	"NodeTypeLike":     {"String"},
	"NodeTypeContains": {"Set", "any"}, "NodeTypeContainsAll": {"Set", "Set"}, "NodeTypeContainsAny": {"Set", "Set"}, "NodeTypeIsEmpty": {"Set"},
}

// extension functions: argument kinds (receiver first)
var langExt = map[string][]string{
	"ip": {"String"}, "decimal": {"String"}, "datetime": {"String"}, "duration": {"String"},
	"lessThan": {"Decimal", "Decimal"}, "lessThanOrEqual": {"Decimal", "Decimal"}, "greaterThan": {"Decimal", "Decimal"}, "greaterThanOrEqual": {"Decimal", "Decimal"},
	"isIpv4": {"IPAddr"}, "isIpv6": {"IPAddr"}, "isLoopback": {"IPAddr"}, "isMulticast": {"IPAddr"}, "isInRange": {"IPAddr", "IPAddr"},
	"toDate": {"Datetime"}, "toTime": {"Datetime"}, "offset": {"Datetime", "Duration"}, "durationSince": {"Datetime", "Datetime"},
	"toDays": {"Duration"}, "toHours": {"Duration"}, "toMinutes": {"Duration"}, "toSeconds": {"Duration"}, "toMilliseconds": {"Duration"},
}

type evalCtx struct {
	p       *Prog
	r       *Report
	evaler  *types.Named // eval.Evaler interface
	evalIfc *types.Interface
}

func runC01(p *Prog, r *Report) {
	ev := p.namedType(pEval, "Evaler")
	if ev == nil {
		r.Anchor("R1.anchor", "eval.Evaler")
		return
	}
	c := &evalCtx{p: p, r: r, evaler: ev, evalIfc: ev.Underlying().(*types.Interface)}
	c.dispatch()
	c.extTables()
	c.helpers()
	c.errorDiscipline()
	c.arithmetic()
	c.shortCircuit()
	c.entityLookups()
	c.comparisons()
	r.Floor("R1.1-dispatch", 2)
	r.Floor("R1.2-ext-table", 60)
	r.Floor("R1.3-operand-kinds", 45)
	r.Floor("R1.4-error-propagation", 80)
	r.Floor("R1.5-checked-arith", 8)
	r.Floor("R1.6-short-circuit", 4)
	r.Floor("R1.8-entity-lookup", 4)
	r.Floor("R1.9-comparisons", 10)
}

// ctorInfo: an evaluator constructor newXEval(args...) -> which parameter lands in which field of
// which evaler struct.
type ctorInfo struct {
	fn       *ssa.Function
	evalerT  *types.Named // struct type (pointer receiver assumed)
	paramFld map[int]int  // ctor param index -> struct field index
}

func (c *evalCtx) ctorOf(fn *ssa.Function) *ctorInfo {
	ci := &ctorInfo{fn: fn, paramFld: map[int]int{}}
	forEachInstr(fn, func(in ssa.Instruction) {
		st, ok := in.(*ssa.Store)
		if !ok {
			return
		}
		fa, ok := st.Addr.(*ssa.FieldAddr)
		if !ok {
			return
		}
		n := namedOf(fa.X.Type())
		if n == nil {
			return
		}
		for i, prm := range fn.Params {
			if stripConv(st.Val) == prm {
				ci.evalerT = n
				ci.paramFld[i] = fa.Field
			}
		}
		if ci.evalerT == nil {
			ci.evalerT = n
		}
	})
	if ci.evalerT == nil {
		// zero-field evalers / literal wrappers: take the returned type
		for _, b := range fn.Blocks {
			if ret, ok := lastInstr(b).(*ssa.Return); ok && len(ret.Results) == 1 {
				if n := namedOf(stripConv(ret.Results[0]).Type()); n != nil {
					ci.evalerT = n
				}
			}
		}
	}
	return ci
}

// evalMethod returns the Eval method of an evaler struct type.
func (c *evalCtx) evalMethod(n *types.Named) *ssa.Function {
	for _, t := range []types.Type{types.NewPointer(n), n} {
		ms := c.p.SSA.MethodSets.MethodSet(t)
		for i := 0; i < ms.Len(); i++ {
			if ms.At(i).Obj().Name() == "Eval" {
				if f := c.p.SSA.FuncValue(ms.At(i).Obj().(*types.Func)); f != nil && f.Blocks != nil {
					return f
				}
			}
		}
	}
	return nil
}

// kindsOfOperand: the value kinds an Eval method accepts for the evaler stored in field fld.
func (c *evalCtx) kindsOfOperand(fn *ssa.Function, fld int) (string, bool) {
	kinds := map[string]bool{}
	found := false
	recv := fn.Params[0]
	forEachInstr(fn, func(in ssa.Instruction) {
		fa, ok := in.(*ssa.FieldAddr)
		if !ok || fa.X != recv || fa.Field != fld {
			return
		}
		for _, r := range *fa.Referrers() {
			ld, ok := r.(*ssa.UnOp)
			if !ok || ld.Op != token.MUL {
				continue
			}
			for _, u := range *ld.Referrers() {
				call, ok := u.(*ssa.Call)
				if !ok {
					continue
				}
				found = true
				if call.Call.IsInvoke() && call.Call.Value == ld && call.Call.Method.Name() == "Eval" {
					if v := extractOf(call, 0); v != nil {
						c.kindsOfValue(v, kinds, map[ssa.Value]bool{}, 0)
					} else {
						// tail call: result returned as is
						kinds["any"] = true
					}
					continue
				}
				if f := call.Call.StaticCallee(); f != nil && fnPkgPath(f) == pEval {
					// helper evalX(n, env): kind = first result type
					for i, a := range call.Call.Args {
						if a == ld {
							c.kindsViaParam(f, i, kinds, 0)
						}
					}
				}
			}
		}
	})
	if !found {
		return "", false
	}
	var ks []string
	for k := range kinds {
		ks = append(ks, k)
	}
	sort.Strings(ks)
	if len(ks) > 1 {
		// "any" alongside concrete kinds means the value is also used unconverted
		var conc []string
		for _, k := range ks {
			if k != "any" {
				conc = append(conc, k)
			}
		}
		ks = conc
	}
	return strings.Join(ks, "|"), true
}

// kindsViaParam: evaler passed as parameter i of helper f.
func (c *evalCtx) kindsViaParam(f *ssa.Function, i int, kinds map[string]bool, depth int) {
	if depth > 4 || i >= len(f.Params) {
		kinds["any"] = true
		return
	}
	prm := f.Params[i]
	used := false
	for _, u := range *prm.Referrers() {
		call, ok := u.(*ssa.Call)
		if !ok {
			continue
		}
		if call.Call.IsInvoke() && call.Call.Value == prm && call.Call.Method.Name() == "Eval" {
			used = true
			if v := extractOf(call, 0); v != nil {
				c.kindsOfValue(v, kinds, map[ssa.Value]bool{}, depth+1)
			} else {
				kinds["any"] = true
			}
		}
	}
	if !used {
		kinds["any"] = true
	}
}

func valueKindName(t types.Type) string {
	n := namedOf(t)
	if n == nil {
		return typeShort(t)
	}
	if n.Obj().Name() == "ComparableValue" {
		return "Comparable"
	}
	return n.Obj().Name()
}

// kindsOfValue follows an evaluated types.Value to the assertions it flows through.
func (c *evalCtx) kindsOfValue(v ssa.Value, kinds map[string]bool, seen map[ssa.Value]bool, depth int) {
	if seen[v] || depth > 5 {
		return
	}
	seen[v] = true
	refs := v.Referrers()
	if refs == nil {
		return
	}
	conv := false
	for _, r := range *refs {
		switch x := r.(type) {
		case *ssa.TypeAssert:
			if _, isI := x.AssertedType.Underlying().(*types.Interface); isI && valueKindName(x.AssertedType) != "Comparable" {
				continue
			}
			if x.CommaOk && !assertFailureIsError(x) {
				// a lenient assertion: other kinds are accepted too
				kinds[valueKindName(x.AssertedType)+"?"] = true
				continue
			}
			kinds[valueKindName(x.AssertedType)] = true
			conv = true
		case *ssa.Call:
			if f := x.Call.StaticCallee(); f != nil && fnPkgPath(f) == pEval {
				if res := f.Signature.Results(); res.Len() == 1 {
					if b, ok := res.At(0).Type().Underlying().(*types.Basic); ok && b.Kind() == types.String {
						continue // naming/formatting helper (TypeName): not a conversion
					}
				}
				for i, a := range x.Call.Args {
					if a == v && i < len(f.Params) {
						before := len(kinds)
						c.kindsOfValue(f.Params[i], kinds, seen, depth+1)
						if len(kinds) > before {
							conv = true
						}
					}
				}
			}
		case *ssa.Phi:
			before := len(kinds)
			c.kindsOfValue(x, kinds, seen, depth+1)
			if len(kinds) > before {
				conv = true
			}
		case *ssa.Store:
			// spilled to a local and reloaded
			if a, ok := x.Addr.(*ssa.Alloc); ok {
				for _, rr := range *a.Referrers() {
					if ld, ok := rr.(*ssa.UnOp); ok && ld.Op == token.MUL {
						before := len(kinds)
						c.kindsOfValue(ld, kinds, seen, depth+1)
						if len(kinds) > before {
							conv = true
						}
					}
				}
			}
		}
	}
	if !conv {
		kinds["any"] = true
	}
}

// assertFailureIsError: on the failing edge of a comma-ok assertion every path returns a non-nil
// error, possibly after trying further assertions of the same value (type-switch chains).
func assertFailureIsError(ta *ssa.TypeAssert) bool {
	okv := extractOf(ta, 1)
	if okv == nil {
		return false
	}
	var iff *ssa.If
	for _, u := range *okv.Referrers() {
		if i, ok := u.(*ssa.If); ok {
			iff = i
		}
	}
	if iff == nil {
		return false
	}
	start := iff.Block().Succs[1]
	seen := map[*ssa.BasicBlock]bool{}
	var walk func(b *ssa.BasicBlock) bool
	walk = func(b *ssa.BasicBlock) bool {
		if seen[b] {
			return true
		}
		seen[b] = true
		// a further assertion of the same value in this block: only its failing edge continues
		for _, in := range b.Instrs {
			if t2, ok := in.(*ssa.TypeAssert); ok && t2.X == ta.X && t2.CommaOk {
				if ok2 := extractOf(t2, 1); ok2 != nil {
					if i2, ok := lastInstr(b).(*ssa.If); ok && i2.Cond == ok2 {
						return walk(b.Succs[1])
					}
				}
			}
		}
		switch x := lastInstr(b).(type) {
		case *ssa.Return:
			if len(x.Results) == 0 {
				return false
			}
			last := retLast(x)
			return isErrorType(last.Type()) && !isNilConst(last)
		case *ssa.Panic:
			return true
		}
		for _, s := range b.Succs {
			if !walk(s) {
				return false
			}
		}
		return len(b.Succs) > 0
	}
	return walk(start)
}

// R1.1 + R1.3 (per node kind)
func (c *evalCtx) dispatch() {
	p, r := c.p, c.r
	tss := p.findTypeSwitch(pEval, "ToEval", "IsNode")
	if len(tss) != 1 {
		// role-based: func(ast.IsNode) Evaler
		r.Anchor("R1.1-dispatch", "eval.ToEval type switch over ast.IsNode")
		return
	}
	ti := tss[0]
	p.requireExhaustive(r, "R1.1-dispatch", ti)
	info := ti.Pkg.TypesInfo
	// variable names
	consts := map[string]bool{}
	if pk := p.Pkgs[pConsts]; pk != nil {
		for _, n := range []string{"Principal", "Action", "Resource", "Context"} {
			if cst, ok := pk.Types.Scope().Lookup(n).(*types.Const); ok {
				consts[constant.StringVal(cst.Val())] = true
			}
		}
	}
	for _, st := range ti.Stmt.Body.List {
		cc := st.(*ast.CaseClause)
		if cc.List == nil || len(cc.List) != 1 {
			continue
		}
		nk := namedOf(info.Types[cc.List[0]].Type)
		if nk == nil {
			continue
		}
		kind := nk.Obj().Name()
		// constructor called in this clause (the outermost call returning an Evaler that is not ToEval itself)
		var ctor *types.Func
		var ctorCall *ast.CallExpr
		ast.Inspect(cc, func(n ast.Node) bool {
			call, ok := n.(*ast.CallExpr)
			if !ok {
				return true
			}
			o := calleeObj(info, call)
			if o == nil || o.Pkg() == nil || o.Pkg().Path() != pEval || o.Name() == "ToEval" {
				return true
			}
			if ctor == nil {
				ctor, ctorCall = o, call
			}
			return true
		})
		if kind == "NodeTypeVariable" {
			// inner switch covers exactly the four variable names
			names := map[string]bool{}
			ast.Inspect(cc, func(n ast.Node) bool {
				if sw, ok := n.(*ast.SwitchStmt); ok {
					for _, s := range sw.Body.List {
						for _, e := range s.(*ast.CaseClause).List {
							if tv, ok := info.Types[e]; ok && tv.Value != nil && tv.Value.Kind() == constant.String {
								names[constant.StringVal(tv.Value)] = true
							}
						}
					}
				}
				return true
			})
			good := len(names) == len(consts)
			for n := range consts {
				if !names[n] {
					good = false
				}
			}
			r.Check(good, "R1.1-dispatch", "eval.ToEval:variables", p.pos(cc.Pos()), "all four request variables are dispatched", "the variable dispatch does not cover exactly principal, action, resource, context")
			continue
		}
		want, has := langOperands[kind]
		if !has {
			continue // literals, records, sets, extension calls: no fixed operand table
		}
		if ctor == nil {
			r.Undec("R1.3-operand-kinds", "eval.ToEval:"+kind, p.pos(cc.Pos()), "no evaluator constructor call found in this case")
			continue
		}
		cf := p.SSA.FuncValue(ctor)
		ci := c.ctorOf(cf)
		em := (*ssa.Function)(nil)
		if ci.evalerT != nil {
			em = c.evalMethod(ci.evalerT)
		}
		if em == nil {
			r.Undec("R1.3-operand-kinds", "eval.ToEval:"+kind, p.pos(cc.Pos()), "cannot resolve the Eval method behind constructor "+ctor.Name())
			continue
		}
		// constructor arguments that are ToEval(v.X): operand order = argument order
		var operandParams []int
		var operandFields []string
		for i, a := range ctorCall.Args {
			if call, ok := ast.Unparen(a).(*ast.CallExpr); ok {
				if o := calleeObj(info, call); o != nil && o.Name() == "ToEval" {
					operandParams = append(operandParams, i)
					if sel, ok := ast.Unparen(call.Args[0]).(*ast.SelectorExpr); ok {
						operandFields = append(operandFields, sel.Sel.Name)
					} else {
						operandFields = append(operandFields, "?")
					}
				}
			}
		}
		// AST operand order: Left before Right, If/Then/Else, Arg
		order := map[string]int{"Left": 0, "Arg": 0, "If": 0, "Right": 1, "Then": 1, "Entity": 1, "Else": 2}
		okOrder := true
		for i, f := range operandFields {
			if o, known := order[f]; !known || o != i {
				okOrder = false
			}
		}
		r.Check(okOrder && len(operandParams) == len(want), "R1.3-operand-kinds", "eval.ToEval:"+kind+":operand-order", p.pos(ctorCall.Pos()),
			"operands passed in AST order ("+strings.Join(operandFields, ",")+")", "operands of "+kind+" are passed to "+ctor.Name()+" as ("+strings.Join(operandFields, ",")+"), expected AST order with "+itoa(len(want))+" operand(s)")
		for i, pi := range operandParams {
			if i >= len(want) {
				break
			}
			fld, ok := ci.paramFld[pi]
			if !ok {
				r.Undec("R1.3-operand-kinds", "eval."+ci.evalerT.Obj().Name()+":operand"+itoa(i), p.pos(cf.Pos()), "constructor parameter is not stored into an evaluator field")
				continue
			}
			got, found := c.kindsOfOperand(em, fld)
			construct := "eval." + ci.evalerT.Obj().Name() + ".Eval:operand" + itoa(i)
			if !found {
				r.Viol("R1.3-operand-kinds", construct, p.pos(em.Pos()), "operand "+itoa(i)+" of "+kind+" is never evaluated")
				continue
			}
			r.Check(got == want[i], "R1.3-operand-kinds", construct, p.pos(em.Pos()), kind+" operand "+itoa(i)+" demands "+got,
				kind+" operand "+itoa(i)+" is converted as ["+got+"], the language prescribes ["+want[i]+"]")
		}
	}
}

// R1.2 extension tables
func (c *evalCtx) extTables() {
	p, r := c.p, c.r
	const rule = "R1.2-ext-table"
	// registry: extensions.ExtMap composite literal
	reg := map[string][2]int{} // name -> (args, isMethod)
	if pk := p.Pkgs[pExt]; pk != nil {
		for _, f := range pk.Syntax {
			ast.Inspect(f, func(n ast.Node) bool {
				vs, ok := n.(*ast.ValueSpec)
				if !ok || len(vs.Names) != 1 || vs.Names[0].Name != "ExtMap" || len(vs.Values) != 1 {
					return true
				}
				cl, ok := vs.Values[0].(*ast.CompositeLit)
				if !ok {
					return true
				}
				for _, el := range cl.Elts {
					kv := el.(*ast.KeyValueExpr)
					name := constant.StringVal(pk.TypesInfo.Types[kv.Key].Value)
					args, meth := -1, 0
					if v, ok := kv.Value.(*ast.CompositeLit); ok {
						for _, fe := range v.Elts {
							fkv, ok := fe.(*ast.KeyValueExpr)
							if !ok {
								continue
							}
							tv := pk.TypesInfo.Types[fkv.Value]
							switch fkv.Key.(*ast.Ident).Name {
							case "Args":
								if i, ok := constant.Int64Val(tv.Value); ok {
									args = int(i)
								}
							case "IsMethod":
								if constant.BoolVal(tv.Value) {
									meth = 1
								}
							}
						}
					}
					reg[name] = [2]int{args, meth}
				}
				return true
			})
		}
	}
	if len(reg) == 0 {
		r.Anchor(rule, "extensions.ExtMap literal")
		return
	}
	// language table agreement
	for name, kinds := range langExt {
		e, ok := reg[name]
		isMeth := 1
		if name == "ip" || name == "decimal" || name == "datetime" || name == "duration" {
			isMeth = 0
		}
		r.Check(ok && e[0] == len(kinds) && e[1] == isMeth, rule, "extensions.ExtMap:"+name, "-", "registered with arity "+itoa(len(kinds)),
			"extension `"+name+"` must be registered with arity "+itoa(len(kinds))+" and method-style="+itoa(isMeth)+boolStr(ok, " (found arity "+itoa(e[0])+", method="+itoa(e[1])+")", " (not registered)"))
	}
	for name := range reg {
		if _, ok := langExt[name]; !ok {
			r.Viol(rule, "extensions.ExtMap:"+name, "-", "extension `"+name+"` is registered but is not part of the language table")
		}
	}
	// constructor dispatch: switch on name in newExtensionEval
	fn := p.fn(pEval, "newExtensionEval")
	if fn == nil {
		r.Anchor(rule, "eval.newExtensionEval")
		return
	}
	fd := funcDecl(fn)
	info := p.Pkgs[pEval].TypesInfo
	seen := map[string]bool{}
	ast.Inspect(fd, func(n ast.Node) bool {
		sw, ok := n.(*ast.SwitchStmt)
		if !ok {
			return true
		}
		for _, s := range sw.Body.List {
			cc := s.(*ast.CaseClause)
			for _, e := range cc.List {
				tv := info.Types[e]
				if tv.Value == nil || tv.Value.Kind() != constant.String {
					continue
				}
				name := constant.StringVal(tv.Value)
				seen[name] = true
				want, ok := langExt[name]
				if !ok {
					r.Viol(rule, "eval.newExtensionEval:"+name, p.pos(cc.Pos()), "dispatch has a case for `"+name+"`, which is not a language extension")
					continue
				}
				// args[k] indices used, constructor called
				maxIdx := -1
				var ctor *types.Func
				var ctorCall *ast.CallExpr
				ast.Inspect(cc, func(m ast.Node) bool {
					switch x := m.(type) {
					case *ast.IndexExpr:
						if tv := info.Types[x.Index]; tv.Value != nil {
							if i, ok := constant.Int64Val(tv.Value); ok && int(i) > maxIdx {
								maxIdx = int(i)
							}
						}
					case *ast.CallExpr:
						if o := calleeObj(info, x); o != nil && o.Pkg() != nil && o.Pkg().Path() == pEval && ctor == nil {
							ctor, ctorCall = o, x
						}
					}
					return true
				})
				r.Check(maxIdx+1 == len(want), rule, "eval.newExtensionEval:"+name+":arity", p.pos(cc.Pos()), "uses args[0.."+itoa(maxIdx)+"]", "`"+name+"` uses "+itoa(maxIdx+1)+" argument(s), the language gives it "+itoa(len(want)))
				if ctor == nil {
					r.Undec(rule, "eval.newExtensionEval:"+name+":ctor", p.pos(cc.Pos()), "no evaluator constructor in this case")
					continue
				}
				cf := p.SSA.FuncValue(ctor)
				ci := c.ctorOf(cf)
				var em *ssa.Function
				if ci.evalerT != nil {
					em = c.evalMethod(ci.evalerT)
				}
				if em == nil {
					r.Undec(rule, "eval.newExtensionEval:"+name+":ctor", p.pos(cc.Pos()), "cannot resolve Eval method of "+ctor.Name())
					continue
				}
				// argument k of the extension -> ctor param -> field -> kind
				for ai, a := range ctorCall.Args {
					ix, ok := ast.Unparen(a).(*ast.IndexExpr)
					if !ok {
						continue
					}
					k64, _ := constant.Int64Val(info.Types[ix.Index].Value)
					k := int(k64)
					if k >= len(want) {
						continue
					}
					fld, ok := ci.paramFld[ai]
					if !ok {
						continue
					}
					got, found := c.kindsOfOperand(em, fld)
					construct := "eval." + ci.evalerT.Obj().Name() + ".Eval:" + name + ":arg" + itoa(k)
					r.Check(found && got == want[k], "R1.3-operand-kinds", construct, p.pos(em.Pos()), "`"+name+"` argument "+itoa(k)+" demands "+got,
						"`"+name+"` argument "+itoa(k)+" is converted as ["+got+"], the language prescribes ["+want[k]+"]")
				}
			}
		}
		return true
	})
	for name := range reg {
		if !seen[name] {
			r.Viol(rule, "eval.newExtensionEval:"+name, p.pos(fn.Pos()), "registered extension `"+name+"` has no case in the evaluator dispatch (it would evaluate to `function does not exist`)")
		}
	}
	// arity test dominates every args[k]
	var arityGuardOK = true
	nIdx := 0
	forEachInstr(fn, func(in ssa.Instruction) {
		ia, ok := in.(*ssa.IndexAddr)
		if !ok || ia.X != fn.Params[1] {
			return
		}
		nIdx++
		guarded := false
		for _, g := range guardsAt(ia.Block()) {
			g = flattenGuard(g)
			if b, ok := g.Cond.(*ssa.BinOp); ok && (b.Op == token.NEQ || b.Op == token.EQL) {
				isLen := func(v ssa.Value) bool {
					cl, ok := v.(*ssa.Call)
					return ok && isBuiltin(&cl.Call, "len") && cl.Call.Args[0] == fn.Params[1]
				}
				if isLen(b.X) || isLen(b.Y) {
					// (Args != len) false, or (Args == len) true
					if (b.Op == token.NEQ && !g.Pol) || (b.Op == token.EQL && g.Pol) {
						guarded = true
					}
				}
			}
		}
		if !guarded {
			arityGuardOK = false
			r.Viol(rule, "eval.newExtensionEval:args-index", p.pos(ia.Pos()), "args[k] is indexed on a path where the arity test against the registry has not succeeded")
		}
	})
	if arityGuardOK && nIdx > 0 {
		r.OK(rule, "eval.newExtensionEval:args-index", p.pos(fn.Pos()), itoa(nIdx)+" uses of args[k] are dominated by the arity test")
	}
	// the arity failure and unknown-name paths return error evaluators
	errCalls := 0
	for _, cl := range callsIn(fn) {
		if isCallTo(cl, pEval, "newErrorEval") {
			errCalls++
		}
	}
	r.Check(errCalls >= 2, rule, "eval.newExtensionEval:error-paths", p.pos(fn.Pos()), "arity mismatch and unknown name produce error evaluators", "expected error evaluators for both the arity mismatch and the unknown-function path")
	// AST builders: names passed to NewMethodCall/NewExtensionCall are registered
	if pk := p.Pkgs[pXAst]; pk != nil {
		for _, f := range pk.Syntax {
			ast.Inspect(f, func(n ast.Node) bool {
				call, ok := n.(*ast.CallExpr)
				if !ok {
					return true
				}
				o := calleeObj(pk.TypesInfo, call)
				if o == nil || (o.Name() != "NewMethodCall" && o.Name() != "NewExtensionCall") || o.Pkg().Path() != pXAst {
					return true
				}
				for _, a := range call.Args {
					if tv := pk.TypesInfo.Types[a]; tv.Value != nil && tv.Value.Kind() == constant.String {
						name := constant.StringVal(tv.Value)
						e, ok := reg[name]
						wantMeth := 0
						if o.Name() == "NewMethodCall" {
							wantMeth = 1
						}
						r.Check(ok && e[1] == wantMeth, rule, "ast-builder:"+name, p.pos(call.Pos()), "builder for `"+name+"` matches the registry", "AST builder emits `"+name+"` as "+o.Name()+" but the registry "+boolStr(ok, "has method-style="+itoa(e[1]), "does not know it"))
					}
				}
				return true
			})
		}
	}
}

// R1.3b: ValueToX / evalX helpers
func (c *evalCtx) helpers() {
	p, r := c.p, c.r
	const rule = "R1.3-operand-kinds"
	errType := p.SSAPkg[pEval].Var("ErrType")
	for _, fn := range p.Funcs {
		if fnPkgPath(fn) != pEval || fn.Parent() != nil || fn.Signature.Recv() != nil {
			continue
		}
		sig := fn.Signature
		if sig.Params().Len() != 1 || sig.Results().Len() != 2 || !typeIs(sig.Params().At(0).Type(), pTypes, "Value") || !isErrorType(sig.Results().At(1).Type()) {
			continue
		}
		if !strings.HasPrefix(fn.Name(), "ValueTo") {
			continue
		}
		want := sig.Results().At(0).Type()
		// a comma-ok assertion of the parameter to the result type; the !ok edge returns a non-nil error wrapping ErrType
		good := false
		forEachInstr(fn, func(in ssa.Instruction) {
			ta, ok := in.(*ssa.TypeAssert)
			if !ok || !ta.CommaOk || ta.X != fn.Params[0] || !types.Identical(ta.AssertedType, want) {
				return
			}
			okv := extractOf(ta, 1)
			if okv == nil {
				return
			}
			for _, b := range fn.Blocks {
				ret, isRet := lastInstr(b).(*ssa.Return)
				if !isRet {
					continue
				}
				for _, g := range guardsAt(b) {
					if v, k := boolTest(g, okv); k && !v {
						// failing edge
						if !isNilConst(retVal(ret, 1)) && derivesFromGlobal(retVal(ret, 1), errType) {
							good = true
						}
					}
				}
			}
		})
		r.Check(good, rule, "eval."+fn.Name(), p.pos(fn.Pos()), "asserts "+valueKindName(want)+" and raises a type error otherwise", fn.Name()+" must assert its argument to "+valueKindName(want)+" and return an error wrapping ErrType when the assertion fails")
	}
	// evalX helpers: Eval error returned, then ValueToX of the matching kind, error returned
	for _, fn := range p.Funcs {
		if fnPkgPath(fn) != pEval || fn.Parent() != nil || fn.Signature.Recv() != nil || !strings.HasPrefix(fn.Name(), "eval") {
			continue
		}
		sig := fn.Signature
		if sig.Params().Len() != 2 || sig.Results().Len() != 2 || !types.Identical(sig.Params().At(0).Type(), c.evaler) {
			continue
		}
		want := sig.Results().At(0).Type()
		kinds := map[string]bool{}
		c.kindsViaParam(fn, 0, kinds, 0)
		got := strings.Join(sortedKeys(kinds), "|")
		r.Check(got == valueKindName(want), rule, "eval."+fn.Name(), p.pos(fn.Pos()), "evaluates and converts to "+got, fn.Name()+" returns "+valueKindName(want)+" but converts the evaluated value as ["+got+"]")
	}
}

func derivesFromGlobal(v ssa.Value, g *ssa.Global) bool {
	if g == nil {
		return false
	}
	for _, l := range leavesOf(v) {
		if l == g {
			return true
		}
	}
	// fmt.Errorf varargs: walk stores into the varargs array
	seen := map[ssa.Value]bool{}
	var rec func(x ssa.Value) bool
	rec = func(x ssa.Value) bool {
		if seen[x] {
			return false
		}
		seen[x] = true
		switch y := x.(type) {
		case *ssa.Global:
			return y == g
		case *ssa.UnOp:
			return rec(y.X)
		case *ssa.MakeInterface:
			return rec(y.X)
		case *ssa.ChangeInterface:
			return rec(y.X)
		case *ssa.Extract:
			return rec(y.Tuple)
		case *ssa.Phi:
			for _, e := range y.Edges {
				if rec(e) {
					return true
				}
			}
		case *ssa.Call:
			for _, a := range y.Call.Args {
				if rec(a) {
					return true
				}
			}
		case *ssa.Slice:
			return rec(y.X)
		case *ssa.Alloc:
			for _, r := range *y.Referrers() {
				switch z := r.(type) {
				case *ssa.IndexAddr:
					for _, rr := range *z.Referrers() {
						if st, ok := rr.(*ssa.Store); ok && rec(st.Val) {
							return true
						}
					}
				case *ssa.Store:
					if z.Addr == y && rec(z.Val) {
						return true
					}
				}
			}
		}
		return false
	}
	return rec(v)
}

// evalScope: the functions R1.4/R1.5 apply to: every Eval method of the evaluator package and the
// helpers they call inside the package (the partial evaluator and folder have their own rules).
func (c *evalCtx) evalScope() []*ssa.Function {
	var roots []*ssa.Function
	for _, fn := range c.p.Funcs {
		if fnPkgPath(fn) != pEval || fn.Parent() != nil {
			continue
		}
		if fn.Name() == "Eval" && fn.Signature.Recv() != nil {
			rn := namedOf(fn.Signature.Recv().Type())
			if rn != nil && strings.HasPrefix(rn.Obj().Name(), "partial") {
				continue
			}
			roots = append(roots, fn)
		}
	}
	seen := map[*ssa.Function]bool{}
	var out []*ssa.Function
	var st []*ssa.Function
	st = append(st, roots...)
	for len(st) > 0 {
		f := st[len(st)-1]
		st = st[:len(st)-1]
		if seen[f] || f.Blocks == nil || fnPkgPath(f) != pEval {
			continue
		}
		seen[f] = true
		out = append(out, f)
		for _, cl := range callsIn(f) {
			if g := cl.Common().StaticCallee(); g != nil {
				st = append(st, g)
			}
		}
		st = append(st, f.AnonFuncs...)
	}
	sort.Slice(out, func(i, j int) bool { return out[i].String() < out[j].String() })
	return out
}

// R1.4: every error produced by a call is tested and returned on the failing edge.
func (c *evalCtx) errorDiscipline() {
	for _, fn := range c.evalScope() {
		checkErrorsReturned(c.p, c.r, "R1.4-error-propagation", fn)
	}
}

// checkErrorsReturned is the shared E4 rule: for each call in fn with an error result, the error
// is (a) returned directly as part of a tail call, or (b) compared with nil, with the non-nil edge
// leading to a return that carries a non-nil error, and the paired value not used on that edge.
func checkErrorsReturned(p *Prog, r *Report, rule string, fn *ssa.Function) {
	q := fnQual(fn)
	for _, cl := range callsIn(fn) {
		call, ok := cl.(*ssa.Call)
		if !ok {
			continue
		}
		sig := call.Call.Signature()
		n := sig.Results().Len()
		if n == 0 || !isErrorType(sig.Results().At(n-1).Type()) {
			continue
		}
		name := calleeName(call)
		if strings.HasPrefix(name, "fmt.Errorf") || strings.HasPrefix(name, "errors.") {
			continue // constructors of error values, not fallible operations
		}
		construct := q + ":" + shortCallee(name)
		pos := p.pos(call.Pos())
		var errv ssa.Value
		if n == 1 {
			errv = call
		} else {
			errv = extractOf(call, n-1)
		}
		// tail call: the whole tuple is returned
		tail := false
		if refs := call.Referrers(); refs != nil && len(*refs) > 0 {
			tail = true
			for _, ref := range *refs {
				switch x := ref.(type) {
				case *ssa.Return:
					if x.Block() != call.Block() {
						tail = false
					}
				case *ssa.Extract:
					if x.Referrers() == nil || len(*x.Referrers()) == 0 {
						tail = false
					}
					for _, rr := range *x.Referrers() {
						if ret, isRet := rr.(*ssa.Return); !isRet || ret.Block() != call.Block() {
							tail = false
						}
					}
				case *ssa.DebugRef:
				default:
					tail = false
				}
			}
		}
		if tail {
			r.OK(rule, construct, pos, "result returned as is")
			continue
		}
		if errv == nil {
			r.Viol(rule, construct, pos, "the error result of "+shortCallee(name)+" is discarded")
			continue
		}
		// uses of the error
		handled, why := false, "the error of "+shortCallee(name)+" is never tested"
		nilTests, badTest := 0, false
		for _, ref := range *errv.Referrers() {
			switch x := ref.(type) {
			case *ssa.Return:
				handled = true
			case *ssa.BinOp:
				if (x.Op == token.NEQ || x.Op == token.EQL) && (isNilConst(x.X) || isNilConst(x.Y)) {
					// every branch on this comparison: the non-nil side must return a non-nil error on all its paths
					var uses []ssa.Instruction
					uses = append(uses, *x.Referrers()...)
					for _, rr := range uses {
						var blk *ssa.BasicBlock
						var nonNil, cont *ssa.BasicBlock
						switch y := rr.(type) {
						case *ssa.If:
							blk = y.Block()
							nonNil, cont = blk.Succs[0], blk.Succs[1]
						case *ssa.Phi:
							// `err != nil && cond`: the conjunction as a value; find the If on the phi
							continue
						default:
							continue
						}
						if x.Op == token.EQL {
							nonNil, cont = cont, nonNil
						}
						nilTests++
						if nonNil == cont {
							continue
						}
						if reachable(nonNil, cont) {
							// idiom: record the error and `continue` the enclosing loop (diagnostics collection)
							if loop := innermostLoop(loopsOf(fn), blk); loop != nil && loop.Body[nonNil] {
								avoid := map[*ssa.BasicBlock]bool{loop.Header: true}
								recorded := false
								for _, in := range nonNil.Instrs {
									if c, ok := in.(*ssa.Call); ok && c.Call.IsInvoke() && c.Call.Value == errv && c.Call.Method.Name() == "Error" {
										recorded = true
									}
								}
								if recorded && !reachableAvoiding(nonNil, cont, avoid) {
									handled = true
									continue
								}
							}
							badTest = true
							why = "after `err != nil` control can continue into the code that uses the value (the error is not returned on every such path)"
							continue
						}
						retOK, sawRet := true, false
						seen := map[*ssa.BasicBlock]bool{}
						var walk func(b *ssa.BasicBlock)
						walk = func(b *ssa.BasicBlock) {
							if seen[b] {
								return
							}
							seen[b] = true
							if ret, ok := lastInstr(b).(*ssa.Return); ok {
								sawRet = true
								last := retLast(ret)
								if !isErrorType(last.Type()) || isNilConst(last) {
									retOK = false
								}
							}
							for _, s := range b.Succs {
								walk(s)
							}
						}
						walk(nonNil)
						if !retOK && isRangeFuncYield(fn) {
							// in a range-over-func body `return x, err` is: store into the enclosing function's result
							// cells, then stop the iteration (return false)
							stored, stops := false, true
							for b := range seen {
								for _, in := range b.Instrs {
									if st, ok := in.(*ssa.Store); ok && st.Val == errv {
										if _, isFV := st.Addr.(*ssa.FreeVar); isFV {
											stored = true
										}
									}
								}
								if ret, ok := lastInstr(b).(*ssa.Return); ok {
									if cb, isC := constBool(ret.Results[0]); !isC || cb {
										stops = false
									}
								}
							}
							if stored && stops {
								retOK = true
							}
						}
						if sawRet && retOK {
							handled = true
						} else {
							badTest = true
							why = "the `err != nil` edge does not return a non-nil error"
						}
					}
				}
			case *ssa.Call:
				// passed on (errors.Is, fmt.Errorf wrapping before a test elsewhere)
				handled = true
			case *ssa.MakeInterface, *ssa.Phi, *ssa.Store:
				handled = true
			}
		}
		if badTest {
			handled = false
		}
		_ = nilTests
		// the paired value must not be used where the error is known non-nil
		if handled && n > 1 {
			if val := extractOf(call, 0); val != nil && val.Referrers() != nil {
				for _, u := range usesThroughSpill(val) {
					ub := u.Block()
					if _, isPhi := u.(*ssa.Phi); isPhi {
						continue
					}
					// the use must be dominated by a test that err is nil
					okUse := false
					for _, g := range guardsAt(ub) {
						if nn, k := nilTest(g, errv); k && !nn {
							okUse = true
						}
					}
					if !okUse {
						if _, isRet := u.(*ssa.Return); isRet {
							continue
						}
						handled = false
						why = "the value returned alongside the error is used on a path where the error has not been excluded"
					}
				}
			}
		}
		r.Check(handled, rule, construct, pos, "error tested and returned before the value is used", why)
	}
}

// usesThroughSpill: the instructions that consume v, looking through a spill of v into a local
// variable (go/ssa stores struct values and captured variables into an Alloc first).
func usesThroughSpill(v ssa.Value) []ssa.Instruction {
	var out []ssa.Instruction
	if v.Referrers() == nil {
		return nil
	}
	for _, u := range *v.Referrers() {
		if st, ok := u.(*ssa.Store); ok && st.Val == v {
			// assignment into a field of a local struct (res.Request.Principal, err = f()): a spill as well
			if base, _, isField := topField(st.Addr); isField {
				if la, isLocal := base.(*ssa.Alloc); isLocal {
					// the value is consumed where the local struct (or that field) is read
					for _, r := range *la.Referrers() {
						switch x := r.(type) {
						case *ssa.UnOp:
							out = append(out, x)
						case *ssa.FieldAddr:
							if x.Field == st.Addr.(*ssa.FieldAddr).Field || true {
								for _, rr := range *x.Referrers() {
									if ld, isLd := rr.(*ssa.UnOp); isLd {
										out = append(out, ld)
									}
								}
							}
						}
					}
					continue
				}
			}
			if a, ok := st.Addr.(*ssa.Alloc); ok {
				for _, r := range *a.Referrers() {
					switch x := r.(type) {
					case *ssa.UnOp:
						out = append(out, x)
					case *ssa.FieldAddr:
						for _, rr := range *x.Referrers() {
							if _, isSt := rr.(*ssa.Store); !isSt {
								out = append(out, rr)
							}
						}
					case *ssa.MakeClosure:
						out = append(out, x)
					}
				}
				continue
			}
		}
		out = append(out, u)
	}
	return out
}

func shortCallee(name string) string {
	name = strings.ReplaceAll(name, modPath+"/", "")
	if len(name) > 70 {
		name = name[:70]
	}
	return name
}

// R1.5 + R1.7
func (c *evalCtx) arithmetic() {
	p, r := c.p, c.r
	const rule = "R1.5-checked-arith"
	isChecked := func(fn *ssa.Function) bool {
		sig := fn.Signature
		if sig.Recv() != nil || sig.Results().Len() != 2 {
			return false
		}
		b, ok := sig.Results().At(1).Type().Underlying().(*types.Basic)
		if !ok || b.Kind() != types.Bool {
			return false
		}
		if !typeIs(sig.Results().At(0).Type(), pTypes, "Long") {
			return false
		}
		for i := 0; i < sig.Params().Len(); i++ {
			if !typeIs(sig.Params().At(i).Type(), pTypes, "Long") {
				return false
			}
		}
		return sig.Params().Len() >= 1
	}
	is64 := func(t types.Type) bool {
		if typeIs(t, pTypes, "Long") {
			return true
		}
		b, ok := t.Underlying().(*types.Basic)
		return ok && (b.Kind() == types.Int64 || b.Kind() == types.Uint64)
	}
	errOverflow := p.SSAPkg[pEval].Var("errOverflow")
	nHelpers := 0
	for _, fn := range c.evalScope() {
		q := fnQual(fn)
		checked := isChecked(fn)
		if checked {
			nHelpers++
		}
		forEachInstr(fn, func(in ssa.Instruction) {
			switch x := in.(type) {
			case *ssa.BinOp:
				if !is64(x.Type()) {
					return
				}
				switch x.Op {
				case token.ADD, token.SUB, token.MUL, token.SHL:
					if checked {
						r.OK(rule, q+":"+x.Op.String(), p.pos(x.Pos()), "inside a checked helper")
					} else if bound, ok := remBounded(x); ok && (x.Op == token.ADD || x.Op == token.SUB) {
						r.OK(rule, q+":"+x.Op.String(), p.pos(x.Pos()), "operands bounded: a remainder by a constant plus/minus a constant (|result| <= "+itoa(int(bound))+")")
					} else {
						r.Viol(rule, q+":"+x.Op.String(), p.pos(x.Pos()), "unchecked 64-bit `"+x.Op.String()+"` in the evaluator: overflow would wrap silently instead of raising an error (use the checked helpers)")
					}
				case token.QUO, token.REM:
					k, isK := constInt(x.Y)
					if checked {
						r.OK(rule, q+":"+x.Op.String(), p.pos(x.Pos()), "inside a checked helper")
						return
					}
					if !isK || k <= 0 {
						r.Viol(rule, q+":"+x.Op.String(), p.pos(x.Pos()), "division/remainder by a non-constant or non-positive divisor (MinInt64 / -1 overflows; zero panics)")
						return
					}
					r.OK(rule, q+":"+x.Op.String(), p.pos(x.Pos()), "division by the positive constant "+itoa(int(k))+" cannot overflow")
					// R1.7 floor semantics for datetimes
					if derivesFromDatetimeMillis(x.X) {
						if x.Op == token.REM {
							signTested := false
							for _, ref := range *x.Referrers() {
								if cmp, ok := ref.(*ssa.BinOp); ok && (cmp.Op == token.LSS || cmp.Op == token.GEQ || cmp.Op == token.GTR || cmp.Op == token.LEQ) {
									signTested = true
								}
							}
							r.Check(signTested, "R1.7-floor", q+":datetime-rem", p.pos(x.Pos()), "remainder of datetime milliseconds is sign-corrected (floor semantics)",
								"Go's % truncates toward zero: the remainder of a pre-1970 datetime is negative; toDate/toTime are defined with floor semantics, so the remainder must be sign-tested and corrected")
						} else {
							r.Viol("R1.7-floor", q+":datetime-quo", p.pos(x.Pos()), "Go's / truncates toward zero; dividing datetime milliseconds needs floor semantics for pre-1970 values")
						}
					}
				}
			case *ssa.UnOp:
				if x.Op == token.SUB && is64(x.Type()) {
					if checked {
						r.OK(rule, q+":neg", p.pos(x.Pos()), "inside a checked helper")
					} else {
						r.Viol(rule, q+":neg", p.pos(x.Pos()), "unchecked 64-bit negation in the evaluator: -MinInt64 wraps silently")
					}
				}
			case *ssa.Call:
				g := x.Call.StaticCallee()
				if g == nil || !isChecked(g) || fnPkgPath(g) != pEval {
					return
				}
				okv := extractOf(x, 1)
				good := false
				if okv != nil {
					for _, b := range fn.Blocks {
						ret, isRet := lastInstr(b).(*ssa.Return)
						if !isRet {
							continue
						}
						for _, gd := range guardsAt(b) {
							if v, k := boolTest(gd, okv); k && !v {
								last := retLast(ret)
								if isErrorType(last.Type()) && !isNilConst(last) && derivesFromGlobal(last, errOverflow) {
									good = true
								}
							}
						}
					}
					// and the result is used only under ok
					if res := extractOf(x, 0); res != nil && good {
						for _, u := range *res.Referrers() {
							used := false
							for _, gd := range guardsAt(u.Block()) {
								if v, k := boolTest(gd, okv); k && v {
									used = true
								}
							}
							if !used {
								good = false
							}
						}
					}
				}
				r.Check(good, rule, q+":"+g.Name()+":ok", p.pos(x.Pos()), "ok tested; overflow returns an error", "the ok result of "+g.Name()+" is not tested with the failing edge returning an overflow error before the result is used")
			}
		})
	}
	r.Check(nHelpers >= 4, rule, "eval:checked-helpers", "-", itoa(nHelpers)+" checked helpers", "expected the four checked helpers (add, sub, mul, neg)")
	// inside a checked helper: a `result, true` return of the raw operation must sit under a test that
	// inspects that result (post-hoc overflow test), or — for negation — under operand != MinInt64
	for _, fn := range c.evalScope() {
		if !isChecked(fn) {
			continue
		}
		q := fnQual(fn)
		for _, b := range fn.Blocks {
			ret, ok := lastInstr(b).(*ssa.Return)
			if !ok {
				continue
			}
			okc, isC := constBool(retVal(ret, 1))
			if !isC || !okc {
				continue
			}
			v := stripConv(retVal(ret, 0))
			var op ssa.Value
			switch x := v.(type) {
			case *ssa.BinOp:
				if x.Op == token.ADD || x.Op == token.SUB || x.Op == token.MUL {
					op = x
				}
			case *ssa.UnOp:
				if x.Op == token.SUB {
					op = x
				}
			}
			if op == nil {
				r.OK(rule, q+":ok-return", p.pos(ret.Pos()), "returns a constant / operand with ok=true")
				continue
			}
			justified := false
			for _, g := range guardsAt(b) {
				fg := flattenGuard(g)
				if dependsOnValue(fg.Cond, op) {
					justified = true
				}
				if u, isNeg := op.(*ssa.UnOp); isNeg {
					if bo, ok := fg.Cond.(*ssa.BinOp); ok && (bo.Op == token.EQL || bo.Op == token.NEQ) {
						k, isK := constInt(bo.Y)
						eq := fg.Pol
						if bo.Op == token.NEQ {
							eq = !eq
						}
						if isK && k == -9223372036854775808 && stripConv(bo.X) == stripConv(u.X) && !eq {
							justified = true
						}
					}
				}
			}
			r.Check(justified, rule, q+":ok-return", p.pos(ret.Pos()), "the unchecked result is returned as ok only under a test of that result (or operand != MinInt64)",
				"a checked helper returns the raw result of the operation with ok=true on a path that never tested that result for overflow (a fast path that skips the overflow test)")
		}
	}
	r.Floor("R1.7-floor", 2)
}

// dependsOnValue: cond is computed (transitively) from v.
func dependsOnValue(cond ssa.Value, v ssa.Value) bool {
	seen := map[ssa.Value]bool{}
	var rec func(x ssa.Value) bool
	rec = func(x ssa.Value) bool {
		if x == v {
			return true
		}
		if seen[x] {
			return false
		}
		seen[x] = true
		in, ok := x.(ssa.Instruction)
		if !ok {
			return false
		}
		for _, op := range in.Operands(nil) {
			if *op != nil && rec(*op) {
				return true
			}
		}
		return false
	}
	return rec(cond)
}

// remBounded: x is (a % c1) op c2 with small constants, so the result cannot overflow.
func remBounded(x *ssa.BinOp) (int64, bool) {
	rem, k := x.X, x.Y
	if _, isC := rem.(*ssa.Const); isC {
		rem, k = k, rem
	}
	c2, ok := constInt(k)
	if !ok {
		return 0, false
	}
	b, ok := rem.(*ssa.BinOp)
	if !ok || b.Op != token.REM {
		return 0, false
	}
	c1, ok := constInt(b.Y)
	if !ok || c1 <= 0 {
		return 0, false
	}
	abs := func(v int64) int64 {
		if v < 0 {
			return -v
		}
		return v
	}
	if c1 > 1<<61 || abs(c2) > 1<<61 {
		return 0, false
	}
	return c1 + abs(c2), true
}

func derivesFromDatetimeMillis(v ssa.Value) bool {
	for _, l := range leavesOf(v) {
		_ = l
	}
	seen := map[ssa.Value]bool{}
	var rec func(x ssa.Value) bool
	rec = func(x ssa.Value) bool {
		if seen[x] {
			return false
		}
		seen[x] = true
		switch y := x.(type) {
		case *ssa.Call:
			if f := y.Call.StaticCallee(); f != nil && f.Signature.Recv() != nil && typeIs(f.Signature.Recv().Type(), pTypes, "Datetime") {
				return true
			}
		case *ssa.Convert:
			return rec(y.X)
		case *ssa.ChangeType:
			return rec(y.X)
		case *ssa.Phi:
			for _, e := range y.Edges {
				if rec(e) {
					return true
				}
			}
		case *ssa.BinOp:
			return rec(y.X)
		}
		return false
	}
	return rec(v)
}

// R1.6 short-circuit
func (c *evalCtx) shortCircuit() {
	p, r := c.p, c.r
	const rule = "R1.6-short-circuit"
	type sc struct {
		kind     string
		polarity []int // per operand after the first: +1 evaluated only if first is true, -1 only if false
	}
	for _, k := range []sc{{"NodeTypeAnd", []int{+1}}, {"NodeTypeOr", []int{-1}}, {"NodeTypeIfThenElse", []int{+1, -1}}} {
		em, flds := c.evalerFor(k.kind)
		if em == nil || len(flds) != len(k.polarity)+1 {
			r.Undec(rule, k.kind, "-", "cannot resolve the evaluator / operand fields")
			continue
		}
		q := fnQual(em)
		evalCall := func(fld int) *ssa.Call {
			var out *ssa.Call
			forEachInstr(em, func(in ssa.Instruction) {
				call, ok := in.(*ssa.Call)
				if !ok {
					return
				}
				isFld := func(v ssa.Value) bool {
					ld, ok := v.(*ssa.UnOp)
					if !ok || ld.Op != token.MUL {
						return false
					}
					fa, ok := ld.X.(*ssa.FieldAddr)
					return ok && fa.X == em.Params[0] && fa.Field == fld
				}
				if call.Call.IsInvoke() && isFld(call.Call.Value) {
					out = call
				}
				for _, a := range call.Call.Args {
					if isFld(a) {
						out = call
					}
				}
			})
			return out
		}
		first := evalCall(flds[0])
		if first == nil {
			r.Viol(rule, q+":first", p.pos(em.Pos()), "the first operand is never evaluated")
			continue
		}
		// the boolean of the first operand: result of ValueToBool(v) or of evalBool(...)
		var boolVals []ssa.Value
		if first.Call.IsInvoke() {
			if v := extractOf(first, 0); v != nil {
				for _, u := range *v.Referrers() {
					if cl, ok := u.(*ssa.Call); ok && isCallTo(cl, pEval, "ValueToBool") {
						if b := extractOf(cl, 0); b != nil {
							boolVals = append(boolVals, b)
						}
					}
				}
			}
		} else if b := extractOf(first, 0); b != nil {
			boolVals = append(boolVals, b)
		}
		if len(boolVals) == 0 {
			r.Viol(rule, q+":first-bool", p.pos(first.Pos()), "the first operand is not converted to a boolean")
			continue
		}
		for i, pol := range k.polarity {
			call := evalCall(flds[i+1])
			if call == nil {
				r.Viol(rule, q+":operand"+itoa(i+1), p.pos(em.Pos()), "operand "+itoa(i+1)+" is never evaluated")
				continue
			}
			good := false
			for _, g := range guardsAt(call.Block()) {
				for _, bv := range boolVals {
					if v, known := boolTest(g, bv); known && ((pol > 0 && v) || (pol < 0 && !v)) {
						good = true
					}
				}
			}
			if !instrDominates(first, call) {
				good = false
			}
			r.Check(good, rule, q+":operand"+itoa(i+1), p.pos(call.Pos()), "operand "+itoa(i+1)+" evaluated only when the first is "+boolStr(pol > 0, "true", "false"),
				"operand "+itoa(i+1)+" of "+k.kind+" must be evaluated only when the first operand is "+boolStr(pol > 0, "true", "false")+" (short-circuit semantics)")
		}
	}
}

// evalerFor resolves node kind -> (Eval method, operand fields in AST operand order).
func (c *evalCtx) evalerFor(kind string) (*ssa.Function, []int) {
	p := c.p
	tss := p.findTypeSwitch(pEval, "ToEval", "IsNode")
	if len(tss) != 1 {
		return nil, nil
	}
	ti := tss[0]
	info := ti.Pkg.TypesInfo
	for _, st := range ti.Stmt.Body.List {
		cc := st.(*ast.CaseClause)
		if len(cc.List) != 1 {
			continue
		}
		nk := namedOf(info.Types[cc.List[0]].Type)
		if nk == nil || nk.Obj().Name() != kind {
			continue
		}
		var ctor *types.Func
		var ctorCall *ast.CallExpr
		ast.Inspect(cc, func(n ast.Node) bool {
			call, ok := n.(*ast.CallExpr)
			if !ok {
				return true
			}
			o := calleeObj(info, call)
			if o != nil && o.Pkg() != nil && o.Pkg().Path() == pEval && o.Name() != "ToEval" && ctor == nil {
				ctor, ctorCall = o, call
			}
			return true
		})
		if ctor == nil {
			return nil, nil
		}
		ci := c.ctorOf(p.SSA.FuncValue(ctor))
		if ci.evalerT == nil {
			return nil, nil
		}
		var flds []int
		for i, a := range ctorCall.Args {
			if call, ok := ast.Unparen(a).(*ast.CallExpr); ok {
				if o := calleeObj(info, call); o != nil && o.Name() == "ToEval" {
					if f, ok := ci.paramFld[i]; ok {
						flds = append(flds, f)
					}
				}
			}
		}
		return c.evalMethod(ci.evalerT), flds
	}
	return nil, nil
}

// R1.8: the Entity returned by EntityGetter.Get is used only under its ok.
func (c *evalCtx) entityLookups() {
	p, r := c.p, c.r
	const rule = "R1.8-entity-lookup"
	for _, fn := range p.Funcs {
		if fnPkgPath(fn) != pEval {
			continue
		}
		for _, cl := range callsIn(fn) {
			call, ok := cl.(*ssa.Call)
			if !ok || !call.Call.IsInvoke() || call.Call.Method.Name() != "Get" || !typeIs(call.Call.Value.Type(), pTypes, "EntityGetter") {
				continue
			}
			ent, okv := extractOf(call, 0), extractOf(call, 1)
			construct := fnQual(fn) + ":Entities.Get"
			if okv == nil {
				r.Viol(rule, construct, p.pos(call.Pos()), "the ok result of the entity lookup is discarded")
				continue
			}
			good := true
			if ent != nil {
				for _, u := range usesThroughSpill(ent) {
					under := false
					for _, g := range guardsAt(u.Block()) {
						if v, k := boolTest(g, okv); k && v {
							under = true
						}
					}
					if _, isPhi := u.(*ssa.Phi); isPhi {
						under = true
					}
					if !under {
						good = false
					}
				}
			}
			r.Check(good, rule, construct, p.pos(call.Pos()), "the entity is used only when it exists in the store", "the Entity returned by Entities.Get is used on a path where ok has not been established (a missing entity would read as an empty one)")
		}
	}
}

// R1.9 comparison direction tables
func (c *evalCtx) comparisons() {
	p, r := c.p, c.r
	const rule = "R1.9-comparisons"
	// (a) the four ordering evaluators
	type form struct {
		method string
		swap   bool
		neg    bool
	}
	allowed := map[string][]form{
		"NodeTypeLessThan":           {{"LessThan", false, false}, {"LessThanOrEqual", true, true}},
		"NodeTypeLessThanOrEqual":    {{"LessThanOrEqual", false, false}, {"LessThan", true, true}},
		"NodeTypeGreaterThan":        {{"LessThanOrEqual", false, true}, {"LessThan", true, false}},
		"NodeTypeGreaterThanOrEqual": {{"LessThan", false, true}, {"LessThanOrEqual", true, false}},
	}
	for kind, forms := range allowed {
		em, flds := c.evalerFor(kind)
		if em == nil || len(flds) != 2 {
			r.Undec(rule, kind, "-", "cannot resolve evaluator")
			continue
		}
		q := fnQual(em)
		var cmp *ssa.Call
		forEachInstr(em, func(in ssa.Instruction) {
			if call, ok := in.(*ssa.Call); ok && call.Call.IsInvoke() && (call.Call.Method.Name() == "LessThan" || call.Call.Method.Name() == "LessThanOrEqual") {
				cmp = call
			}
		})
		if cmp == nil {
			r.Viol(rule, q, p.pos(em.Pos()), "no LessThan/LessThanOrEqual comparison in the evaluator of "+kind)
			continue
		}
		fieldOf := func(v ssa.Value) int {
			// value <- extract 0 of evalComparableValue(load field)
			for _, l := range leavesOf(v) {
				_ = l
			}
			ex, ok := stripConv(v).(*ssa.Extract)
			if !ok {
				return -1
			}
			call, ok := ex.Tuple.(*ssa.Call)
			if !ok {
				return -1
			}
			for _, a := range call.Call.Args {
				if ld, ok := a.(*ssa.UnOp); ok && ld.Op == token.MUL {
					if fa, ok := ld.X.(*ssa.FieldAddr); ok && fa.X == em.Params[0] {
						return fa.Field
					}
				}
			}
			return -1
		}
		recvF, argF := fieldOf(cmp.Call.Value), fieldOf(cmp.Call.Args[0])
		swap := recvF == flds[1] && argF == flds[0]
		straight := recvF == flds[0] && argF == flds[1]
		// negation of the boolean result in the success return
		neg, negKnown := false, false
		if b := extractOf(cmp, 0); b != nil {
			for _, u := range *b.Referrers() {
				switch x := u.(type) {
				case *ssa.UnOp:
					if x.Op == token.NOT {
						neg, negKnown = true, true
					}
				case *ssa.ChangeType, *ssa.MakeInterface, *ssa.Convert:
					if !negKnown {
						neg, negKnown = false, true
					}
				}
			}
		}
		good := false
		if (swap || straight) && negKnown {
			for _, f := range forms {
				if f.method == cmp.Call.Method.Name() && f.swap == swap && f.neg == neg {
					good = true
				}
			}
		}
		r.Check(good, rule, q, p.pos(cmp.Pos()), kind+" = "+boolStr(neg, "!", "")+boolStr(swap, "rhs", "lhs")+"."+cmp.Call.Method.Name()+"("+boolStr(swap, "lhs", "rhs")+")",
			kind+" is computed as "+boolStr(neg, "!", "")+boolStr(swap, "rhs", "lhs")+"."+cmp.Call.Method.Name()+"("+boolStr(swap, "lhs", "rhs")+"), which is not the prescribed ordering")
	}
	// (b) LessThan / LessThanOrEqual methods of the comparable value types: x < y with x from the receiver
	for _, tn := range []string{"Long", "Datetime", "Duration"} {
		for _, mn := range []string{"LessThan", "LessThanOrEqual"} {
			fn := p.fn(pTypes, tn+"."+mn)
			if fn == nil {
				r.Anchor(rule, "types."+tn+"."+mn)
				continue
			}
			wantOp := token.LSS
			if mn == "LessThanOrEqual" {
				wantOp = token.LEQ
			}
			good := false
			var found string
			forEachInstr(fn, func(in ssa.Instruction) {
				b, ok := in.(*ssa.BinOp)
				if !ok || (b.Op != token.LSS && b.Op != token.LEQ && b.Op != token.GTR && b.Op != token.GEQ) {
					return
				}
				fromRecv := func(v ssa.Value) bool {
					for _, l := range leavesOf(v) {
						if l == fn.Params[0] {
							return true
						}
					}
					return false
				}
				fromArg := func(v ssa.Value) bool {
					for _, l := range leavesOf(v) {
						if l == fn.Params[1] {
							return true
						}
					}
					return false
				}
				found = b.Op.String()
				flip := map[token.Token]token.Token{token.LSS: token.GTR, token.LEQ: token.GEQ, token.GTR: token.LSS, token.GEQ: token.LEQ}
				if fromRecv(b.X) && fromArg(b.Y) && b.Op == wantOp {
					good = true
				}
				if fromRecv(b.Y) && fromArg(b.X) && flip[b.Op] == wantOp {
					good = true
				}
			})
			r.Check(good, rule, "types."+tn+"."+mn, p.pos(fn.Pos()), "receiver "+wantOp.String()+" argument", tn+"."+mn+" must compare receiver "+wantOp.String()+" argument (found `"+found+"`)")
		}
	}
	// (b') who is comparable: the ordering operators accept whatever implements the evaluator's comparable interface, so
	// the set of value kinds that implement it is part of the language table (long, datetime, duration — decimals compare
	// through their own functions and `<` on them is a type error)
	if ci := p.namedType(pEval, "ComparableValue"); ci == nil {
		r.Anchor(rule, "eval.ComparableValue")
	} else if iface, ok := ci.Underlying().(*types.Interface); ok {
		want := map[string]bool{"Long": true, "Datetime": true, "Duration": true}
		var extra, missing []string
		for _, t := range valueImpls(p) {
			n := strings.TrimPrefix(typeShort(t), "types.")
			impl := types.Implements(t, iface) || types.Implements(types.NewPointer(t), iface)
			if impl && !want[n] {
				extra = append(extra, n)
			}
			if !impl && want[n] {
				missing = append(missing, n)
			}
		}
		sort.Strings(extra)
		sort.Strings(missing)
		r.Check(len(extra) == 0 && len(missing) == 0, rule, "eval.ComparableValue:implementers", p.pos(ci.Obj().Pos()), "implemented by exactly Long, Datetime, Duration",
			"the value kinds that implement eval.ComparableValue are not exactly long, datetime and duration (additional: ["+strings.Join(extra, ",")+"], missing: ["+strings.Join(missing, ",")+"]): `<`, `<=`, `>`, `>=` accept every implementer, so the operators now accept or reject the wrong operand kinds")
	}
	// (c) equality evaluators: Equal with / without negation
	for kind, wantNeg := range map[string]bool{"NodeTypeEquals": false, "NodeTypeNotEquals": true} {
		em, _ := c.evalerFor(kind)
		if em == nil {
			r.Undec(rule, kind, "-", "cannot resolve evaluator")
			continue
		}
		neg, found := false, false
		forEachInstr(em, func(in ssa.Instruction) {
			if call, ok := in.(*ssa.Call); ok && call.Call.IsInvoke() && call.Call.Method.Name() == "Equal" {
				found = true
				for _, u := range *call.Referrers() {
					if x, ok := u.(*ssa.UnOp); ok && x.Op == token.NOT {
						neg = true
					}
				}
			}
		})
		r.Check(found && neg == wantNeg, rule, fnQual(em), p.pos(em.Pos()), kind+" = "+boolStr(wantNeg, "!", "")+"Equal", kind+" must be "+boolStr(wantNeg, "the negation of ", "")+"structural equality")
	}
	// (d) decimal comparisons: Compare(lhs, rhs) against a constant
	decAllowed := map[string]func(op token.Token, k int64) bool{
		"lessThan": func(op token.Token, k int64) bool {
			return (op == token.EQL && k == -1) || (op == token.LSS && k == 0) || (op == token.LEQ && k == -1)
		},
		"lessThanOrEqual": func(op token.Token, k int64) bool {
			return (op == token.LEQ && k == 0) || (op == token.LSS && k == 1) || (op == token.NEQ && k == 1)
		},
		"greaterThan": func(op token.Token, k int64) bool {
			return (op == token.EQL && k == 1) || (op == token.GTR && k == 0) || (op == token.GEQ && k == 1)
		},
		"greaterThanOrEqual": func(op token.Token, k int64) bool {
			return (op == token.GEQ && k == 0) || (op == token.GTR && k == -1) || (op == token.NEQ && k == -1)
		},
	}
	fn := p.fn(pEval, "newExtensionEval")
	if fn == nil {
		return
	}
	fd := funcDecl(fn)
	info := p.Pkgs[pEval].TypesInfo
	ast.Inspect(fd, func(n ast.Node) bool {
		cc, ok := n.(*ast.CaseClause)
		if !ok || len(cc.List) != 1 {
			return true
		}
		tv := info.Types[cc.List[0]]
		if tv.Value == nil || tv.Value.Kind() != constant.String {
			return true
		}
		name := constant.StringVal(tv.Value)
		pred, ok := decAllowed[name]
		if !ok {
			return true
		}
		var ctor *types.Func
		ast.Inspect(cc, func(m ast.Node) bool {
			if call, ok := m.(*ast.CallExpr); ok && ctor == nil {
				if o := calleeObj(info, call); o != nil && o.Pkg() != nil && o.Pkg().Path() == pEval {
					ctor = o
				}
			}
			return true
		})
		if ctor == nil {
			return true
		}
		ci := c.ctorOf(p.SSA.FuncValue(ctor))
		if ci.evalerT == nil {
			return true
		}
		em := c.evalMethod(ci.evalerT)
		if em == nil {
			return true
		}
		good := false
		desc := "no Compare call"
		forEachInstr(em, func(in ssa.Instruction) {
			call, ok := in.(*ssa.Call)
			if !ok || call.Call.StaticCallee() == nil || call.Call.StaticCallee().Name() != "Compare" {
				return
			}
			// receiver must come from ctor param 0's field, argument from param 1's
			fieldOf := func(v ssa.Value) int {
				ex, ok := stripConv(v).(*ssa.Extract)
				if !ok {
					return -1
				}
				cl, ok := ex.Tuple.(*ssa.Call)
				if !ok {
					return -1
				}
				for _, a := range cl.Call.Args {
					if ld, ok := a.(*ssa.UnOp); ok && ld.Op == token.MUL {
						if fa, ok := ld.X.(*ssa.FieldAddr); ok && fa.X == em.Params[0] {
							return fa.Field
						}
					}
				}
				return -1
			}
			straight := fieldOf(call.Call.Args[0]) == ci.paramFld[0] && fieldOf(call.Call.Args[1]) == ci.paramFld[1]
			for _, u := range *call.Referrers() {
				if b, ok := u.(*ssa.BinOp); ok {
					if k, isK := constInt(b.Y); isK {
						desc = "Compare(lhs, rhs) " + b.Op.String() + " " + itoa(int(k))
						if straight && pred(b.Op, k) {
							good = true
						}
					}
				}
			}
		})
		r.Check(good, rule, "eval."+ci.evalerT.Obj().Name()+".Eval:"+name, p.pos(em.Pos()), "`"+name+"` = "+desc, "decimal `"+name+"` is computed as "+desc+", which is not the prescribed comparison")
		return true
	})
}
