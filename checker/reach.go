package main

// Flow-sensitive refinements for E5:
//  (i)  reaching stores for the fields of *private* local allocations (an Alloc whose address is
//       only used for field addressing, loads, whole stores and being returned): the repository's
//       copy-then-rewrite idiom (`p2 := *p; p2.Conditions = make(...); p2.Conditions[i] = ...`)
//       is only recognisable when the load of p2.Conditions sees the fresh slice and not the
//       copied one;
//  (ii) block-local store-to-load forwarding for any base (`n.Set = &arrayJSON{}; f(n.Set)`).

import (
	"go/token"
	"go/types"

	"golang.org/x/tools/go/ssa"
)

type cell struct {
	a *ssa.Alloc
	f int // -1 whole (non-struct allocs)
}

// storeRef: a store that defines a cell; whole==true means the store wrote the entire struct and
// the field must be projected from the stored value.
type storeRef struct {
	st    *ssa.Store
	whole bool
}

type reachInfo struct {
	// for a load instruction: the stores that may reach it (nil entry = not analysable → fall back)
	loads map[*ssa.UnOp][]storeRef
	// whole-struct loads of private allocs: per field reaching stores
	wholeLoads map[*ssa.UnOp]map[int][]storeRef
	// block-local forwarding for arbitrary bases
	fwd map[*ssa.UnOp]*ssa.Store
}

func isPrivateAlloc(a *ssa.Alloc) bool {
	refs := a.Referrers()
	if refs == nil {
		return false
	}
	for _, r := range *refs {
		switch x := r.(type) {
		case *ssa.FieldAddr:
			// the field address itself must only be loaded from / stored to / further field-addressed
			if !fieldAddrLocal(x) {
				return false
			}
		case *ssa.Store:
			if x.Addr != a { // the alloc's address stored somewhere
				return false
			}
		case *ssa.UnOp:
			if x.Op != token.MUL {
				return false
			}
		case *ssa.Return:
		case *ssa.DebugRef:
		default:
			return false
		}
	}
	return true
}

func fieldAddrLocal(fa *ssa.FieldAddr) bool {
	refs := fa.Referrers()
	if refs == nil {
		return true
	}
	for _, r := range *refs {
		switch x := r.(type) {
		case *ssa.Store:
			if x.Addr != fa {
				return false
			}
		case *ssa.UnOp:
			if x.Op != token.MUL {
				return false
			}
		case *ssa.FieldAddr, *ssa.IndexAddr:
			// nested addressing: stores through it modify part of the field; treat as non-local to stay simple
			return false
		case *ssa.DebugRef:
		default:
			return false
		}
	}
	return true
}

func computeReach(fn *ssa.Function) *reachInfo {
	ri := &reachInfo{loads: map[*ssa.UnOp][]storeRef{}, wholeLoads: map[*ssa.UnOp]map[int][]storeRef{}, fwd: map[*ssa.UnOp]*ssa.Store{}}
	private := map[*ssa.Alloc]bool{}
	for _, b := range fn.Blocks {
		for _, in := range b.Instrs {
			if a, ok := in.(*ssa.Alloc); ok && isPrivateAlloc(a) {
				private[a] = true
			}
		}
	}
	cellOf := func(addr ssa.Value) (cell, bool) {
		switch x := addr.(type) {
		case *ssa.Alloc:
			if private[x] {
				return cell{x, -1}, true
			}
		case *ssa.FieldAddr:
			if a, ok := x.X.(*ssa.Alloc); ok && private[a] {
				return cell{a, x.Field}, true
			}
		}
		return cell{}, false
	}
	nfields := func(a *ssa.Alloc) int {
		if st, ok := a.Type().Underlying().(*types.Pointer).Elem().Underlying().(*types.Struct); ok {
			return st.NumFields()
		}
		return 0
	}
	if len(private) > 0 {
		// forward dataflow: state = cell -> set of storeRefs
		type state map[cell]map[storeRef]bool
		in := make([]state, len(fn.Blocks))
		out := make([]state, len(fn.Blocks))
		clone := func(s state) state {
			n := state{}
			for k, v := range s {
				m := map[storeRef]bool{}
				for r := range v {
					m[r] = true
				}
				n[k] = m
			}
			return n
		}
		apply := func(s state, ins ssa.Instruction, record bool) {
			switch x := ins.(type) {
			case *ssa.Store:
				c, ok := cellOf(x.Addr)
				if !ok {
					return
				}
				if c.f == -1 {
					n := nfields(c.a)
					if n == 0 {
						s[c] = map[storeRef]bool{{x, false}: true}
					} else {
						for i := 0; i < n; i++ {
							s[cell{c.a, i}] = map[storeRef]bool{{x, true}: true}
						}
					}
				} else {
					s[c] = map[storeRef]bool{{x, false}: true}
				}
			case *ssa.UnOp:
				if !record || x.Op != token.MUL {
					return
				}
				c, ok := cellOf(x.X)
				if !ok {
					return
				}
				if c.f == -1 && nfields(c.a) > 0 {
					m := map[int][]storeRef{}
					for i := 0; i < nfields(c.a); i++ {
						for r := range s[cell{c.a, i}] {
							m[i] = append(m[i], r)
						}
						if m[i] == nil {
							m[i] = []storeRef{}
						}
					}
					ri.wholeLoads[x] = m
				} else {
					l := []storeRef{}
					for r := range s[c] {
						l = append(l, r)
					}
					ri.loads[x] = l
				}
			}
		}
		for i := range in {
			in[i], out[i] = state{}, state{}
		}
		changed := true
		for changed {
			changed = false
			for _, b := range fn.Blocks {
				s := state{}
				for _, p := range b.Preds {
					for k, v := range out[p.Index] {
						m := s[k]
						if m == nil {
							m = map[storeRef]bool{}
							s[k] = m
						}
						for r := range v {
							m[r] = true
						}
					}
				}
				in[b.Index] = s
				o := clone(s)
				for _, ins := range b.Instrs {
					apply(o, ins, false)
				}
				// compare
				if !sameState(o, out[b.Index]) {
					out[b.Index] = o
					changed = true
				}
			}
		}
		for _, b := range fn.Blocks {
			s := clone(in[b.Index])
			for _, ins := range b.Instrs {
				apply(s, ins, true)
				if _, isLoad := ins.(*ssa.UnOp); !isLoad {
					apply(s, ins, false)
				}
			}
		}
	}
	// block-local forwarding for non-private bases
	for _, b := range fn.Blocks {
		for i, ins := range b.Instrs {
			ld, ok := ins.(*ssa.UnOp)
			if !ok || ld.Op != token.MUL {
				continue
			}
			if _, isPriv := cellOf(ld.X); isPriv {
				continue
			}
			fa, ok := ld.X.(*ssa.FieldAddr)
			if !ok {
				continue
			}
		scan:
			for j := i - 1; j >= 0; j-- {
				switch y := b.Instrs[j].(type) {
				case *ssa.Store:
					if sfa, ok := y.Addr.(*ssa.FieldAddr); ok {
						if sfa.X == fa.X && sfa.Field == fa.Field {
							ri.fwd[ld] = y
							break scan
						}
						if sfa.X == fa.X {
							continue // different field of the same object
						}
					}
					if _, priv := cellOf(y.Addr); priv {
						continue
					}
					if _, isAlloc := y.Addr.(*ssa.Alloc); isAlloc {
						continue // a different local variable
					}
					if ia, ok := y.Addr.(*ssa.IndexAddr); ok {
						if _, isAlloc := ia.X.(*ssa.Alloc); isAlloc {
							continue // varargs array
						}
					}
					break scan
				case ssa.CallInstruction:
					break scan
				case *ssa.MapUpdate:
					continue // map contents are not struct fields
				}
			}
		}
	}
	return ri
}

func sameState[K comparable](a, b map[K]map[storeRef]bool) bool {
	if len(a) != len(b) {
		return false
	}
	for k, v := range a {
		w, ok := b[k]
		if !ok || len(v) != len(w) {
			return false
		}
		for r := range v {
			if !w[r] {
				return false
			}
		}
	}
	return true
}
