package main

// E5: effect / ownership (mod-ref) analysis.
//
// For every function of the repository a summary is computed to a global fixed point:
//   - which caller-visible memory regions it may write (parameter i incl. receiver, package-level
//     variable, "external" = memory owned by an unknown caller), with a witness chain;
//   - which regions its results may alias, and which regions a freshly allocated result may
//     contain pointers into;
//   - which regions receive pointers from which other regions.
// The intraprocedural part is a field-sensitive (one level) inclusion-based points-to analysis
// over one *unit* = a declared function together with its nested closures (free variables are
// identified with their bindings). Parameter regions are "deep": everything reachable from a
// parameter belongs to that parameter's region. Standard-library callees are summarised by a
// frozen table (stdlib.go); an untabled callee with pointer-like parameters is *undecided*.

import (
	"fmt"
	"go/token"
	"go/types"
	"os"
	"sort"
	"strings"

	"golang.org/x/tools/go/callgraph"
	"golang.org/x/tools/go/ssa"
)

type objKind int

const (
	okSite objKind = iota
	okParam
	okGlobal
	okExternal
)

type rootKey struct {
	Kind objKind
	Idx  int    // parameter index
	Glob string // global's qualified name
	Deep bool   // false: the memory the parameter/global refers to directly; true: memory reachable beyond it
	Via1 int    // Deep only: k+1 = exactly the objects referenced by field k of the direct object; 0 = anything reachable
}

var freshKey = rootKey{Kind: okSite}
var externalKey = rootKey{Kind: okExternal}

func (k rootKey) String() string {
	switch k.Kind {
	case okSite:
		return "fresh"
	case okParam:
		if k.Deep && k.Via1 > 0 {
			return fmt.Sprintf("param#%d(.f%d)", k.Idx, k.Via1-1)
		}
		if k.Deep {
			return fmt.Sprintf("param#%d(deep)", k.Idx)
		}
		return fmt.Sprintf("param#%d", k.Idx)
	case okGlobal:
		if k.Deep {
			return "global " + k.Glob + "(deep)"
		}
		return "global " + k.Glob
	}
	return "external"
}

type obj struct {
	key  rootKey
	site any // instruction / description for site objects
	name string
}

type loc struct {
	o *obj
	f int // site objects: -1 = the object itself / collapsed contents, >= 0 field; regions: 0 shallow, 1 deep
}

// region depth encoding in loc.f: 0 = the memory the root refers to directly; 1 = memory
// reachable beyond it; viaBase+k = reachable beyond it, loaded through field k of the direct
// object (lets a summary recognise "field k is restored to what it held on entry").
const viaBase = 1000

// key returns the summary key of a region location.
func (l loc) key() rootKey {
	k := l.o.key
	k.Deep = l.f != 0
	if l.f >= viaBase {
		k.Via1 = l.f - viaBase + 1
	}
	if k.Kind == okExternal {
		k.Deep = false
		k.Via1 = 0
	}
	return k
}

type srcKey struct {
	R   rootKey
	Via int  // field index the value was loaded through on entry, or -1
	In  bool // the region is only pointed to from inside a freshly allocated stored object
}

func (l loc) src() srcKey {
	if l.o.key.Kind == okSite {
		return srcKey{freshKey, -1, false}
	}
	v := -1
	if l.f >= viaBase {
		v = l.f - viaBase
	}
	return srcKey{l.key(), v, false}
}

type locset map[loc]struct{}

func (s locset) addAll(o locset) bool {
	ch := false
	for l := range o {
		if _, ok := s[l]; !ok {
			s[l] = struct{}{}
			ch = true
		}
	}
	return ch
}

// aval: abstract value; key -1 = the value itself, keys >= 0 = struct field / tuple index.
type aval map[int]locset

func (a aval) flat() locset {
	out := locset{}
	for _, s := range a {
		out.addAll(s)
	}
	return out
}

type effect struct {
	Kind   string // "store", "mapupdate", "mapdelete", "append", "copy", "sort", "call"
	Pos    token.Pos
	Via    string
	Origin string // innermost primitive write: "kind at file:line in func"
}

type summary struct {
	// fstores: field-precise stores into the object a parameter refers to directly:
	// (param, field) -> sources of the stored values; field -2 = a direct write that is not
	// field-precise (map update, element store, whole store of unknown shape, stdlib write)
	fstores     map[[2]int]map[srcKey]bool
	writes      map[rootKey]*effect
	flows       map[[2]rootKey]bool // dst <- src
	retAlias    map[int]map[rootKey]bool
	retContains map[int]map[rootKey]bool
	callsExt    bool
	undecided   []string
}

func newSummary() *summary {
	return &summary{fstores: map[[2]int]map[srcKey]bool{}, writes: map[rootKey]*effect{}, flows: map[[2]rootKey]bool{}, retAlias: map[int]map[rootKey]bool{}, retContains: map[int]map[rootKey]bool{}}
}

func (s *summary) size() int {
	n := len(s.writes) + len(s.flows) + len(s.undecided)
	for _, m := range s.fstores {
		n += 1 + len(m)
	}
	for _, m := range s.retAlias {
		n += len(m)
	}
	for _, m := range s.retContains {
		n += len(m)
	}
	if s.callsExt {
		n++
	}
	return n
}

type modref struct {
	p          *Prog
	sums       map[*ssa.Function]*summary // keyed by unit top (declared function / wrapper / instance)
	units      []*ssa.Function
	byName     map[string][]*ssa.Function // repo methods by bare name (for json/fmt callbacks)
	cg         *callgraph.Graph
	rounds     int
	undec      map[string]token.Pos
	unitInfo   map[*ssa.Function]*unit
	reachCache map[*ssa.Function]*reachInfo
}

func topOf(fn *ssa.Function) *ssa.Function {
	for fn.Parent() != nil {
		fn = fn.Parent()
	}
	return fn
}

// mayPoint: values of this type can carry a reference to mutable memory.
func mayPoint(t types.Type) bool {
	return mayPointRec(t, 0)
}

func mayPointRec(t types.Type, depth int) bool {
	if depth > 6 {
		return true
	}
	if isErrorType(t) {
		// trusted assumption: error values are immutable once created; they are not tracked
		return false
	}
	switch u := t.Underlying().(type) {
	case *types.Basic:
		return u.Kind() == types.UnsafePointer
	case *types.Pointer, *types.Map, *types.Slice, *types.Chan, *types.Signature, *types.Interface:
		return true
	case *types.Struct:
		for i := 0; i < u.NumFields(); i++ {
			if mayPointRec(u.Field(i).Type(), depth+1) {
				return true
			}
		}
		return false
	case *types.Array:
		return mayPointRec(u.Elem(), depth+1)
	case *types.Tuple:
		for i := 0; i < u.Len(); i++ {
			if mayPointRec(u.At(i).Type(), depth+1) {
				return true
			}
		}
		return false
	}
	return true
}

func (p *Prog) modref() *modref {
	if p.mr != nil {
		return p.mr
	}
	m := &modref{p: p, sums: map[*ssa.Function]*summary{}, byName: map[string][]*ssa.Function{}, cg: p.CG(), undec: map[string]token.Pos{}, unitInfo: map[*ssa.Function]*unit{}, reachCache: map[*ssa.Function]*reachInfo{}}
	seen := map[*ssa.Function]bool{}
	for _, fn := range p.Funcs {
		t := topOf(fn)
		if !seen[t] && t.Blocks != nil {
			seen[t] = true
			m.units = append(m.units, t)
			m.sums[t] = newSummary()
			if t.Signature.Recv() != nil && t.Synthetic == "" {
				m.byName[t.Name()] = append(m.byName[t.Name()], t)
			}
		}
	}
	for round := 0; round < 30; round++ {
		m.rounds = round + 1
		changed := false
		for _, u := range m.units {
			ns := m.analyseUnit(u)
			if ns.size() != m.sums[u].size() {
				changed = true
			}
			m.sums[u] = ns
		}
		if !changed {
			break
		}
	}
	p.mr = m
	return m
}

// ---------------------------------------------------------------------------------------------

type unit struct {
	m        *modref
	top      *ssa.Function
	fns      []*ssa.Function
	inUnit   map[*ssa.Function]bool
	vals     map[ssa.Value]aval
	content  map[loc]locset
	objs     map[any]*obj
	sum      *summary
	changed  bool
	reach    map[*ssa.Function]*reachInfo
	reach2   map[*ssa.Function]map[*ssa.UnOp]*defset
	callW    map[ssa.Instruction]map[loc]bool
	callDefs map[ssa.Instruction][]callDef
	// regions written, with the instruction that does it (for E6 and reports)
	writeSites []writeSite
}

// callDef: a call may store vals into field `field` of the objects objs.
type callDef struct {
	objs  map[loc]bool
	field int
	vals  locset
}

type writeSite struct {
	Instr ssa.Instruction
	Root  rootKey
	Kind  string
	Via   string
}

func (u *unit) obj(key any, rk rootKey, name string) *obj {
	if o, ok := u.objs[key]; ok {
		return o
	}
	o := &obj{key: rk, site: key, name: name}
	u.objs[key] = o
	return o
}

func (u *unit) region(rk rootKey) *obj {
	return u.obj(rk, rk, rk.String())
}

func (u *unit) val(v ssa.Value) aval {
	if a, ok := u.vals[v]; ok {
		return a
	}
	a := aval{}
	u.vals[v] = a
	// leaves
	switch x := v.(type) {
	case *ssa.Parameter:
		fn := x.Parent()
		if fn == u.top {
			for i, p := range fn.Params {
				if p == x && mayPoint(x.Type()) {
					a[-1] = locset{loc{u.region(rootKey{Kind: okParam, Idx: i}), 0}: {}}
				}
			}
		}
		// nested closure params are filled by bindClosureParams
	case *ssa.Global:
		a[-1] = locset{loc{u.region(rootKey{Kind: okGlobal, Glob: x.Pkg.Pkg.Path() + "." + x.Name()}), 0}: {}}
	case *ssa.FreeVar:
		// identified with binding by bindFreeVars; if top itself has free vars (never for declared funcs)
	case *ssa.Function:
		// function value: no memory
	}
	return a
}

func (u *unit) add(v ssa.Value, key int, s locset) {
	if len(s) == 0 {
		return
	}
	a := u.val(v)
	t := a[key]
	if t == nil {
		t = locset{}
		a[key] = t
	}
	if t.addAll(s) {
		u.changed = true
	}
}

func (u *unit) addContent(l loc, s locset) {
	if len(s) == 0 || l.o.key.Kind != okSite {
		return
	}
	t := u.content[l]
	if t == nil {
		t = locset{}
		u.content[l] = t
	}
	if t.addAll(s) {
		u.changed = true
	}
}

// contentOf returns everything stored in object o (all fields).
func (u *unit) contentAll(o *obj) locset {
	out := locset{}
	for l, s := range u.content {
		if l.o == o {
			out.addAll(s)
		}
	}
	return out
}

// deep returns all locs reachable from s through site contents.
func (u *unit) deep(s locset) locset {
	out := locset{}
	var st []loc
	for l := range s {
		st = append(st, l)
	}
	seenObj := map[*obj]bool{}
	for len(st) > 0 {
		l := st[len(st)-1]
		st = st[:len(st)-1]
		if _, ok := out[l]; ok {
			continue
		}
		out[l] = struct{}{}
		if l.o.key.Kind == okSite && !seenObj[l.o] {
			seenObj[l.o] = true
			for c := range u.contentAll(l.o) {
				st = append(st, c)
			}
		}
	}
	return out
}

func (u *unit) regionsOf(s locset) map[rootKey]bool {
	out := map[rootKey]bool{}
	for l := range u.deep(s) {
		if l.o.key.Kind != okSite {
			out[l.key()] = true
		}
	}
	return out
}

func (u *unit) recordWrite(in ssa.Instruction, target locset, kind, via string, pos token.Pos) {
	for l := range target {
		if l.o.key.Kind == okSite {
			continue
		}
		if dbg := os.Getenv("MODREF_DEBUG"); dbg != "" && dbg == fnQual(u.top) {
			fmt.Printf("DEBUG %s: %s writes %s at %s: %v\n", fnQual(u.top), kind, l.key(), u.m.p.pos(pos), in)
		}
		if _, ok := u.sum.writes[l.key()]; !ok {
			u.sum.writes[l.key()] = &effect{Kind: kind, Pos: pos, Via: via, Origin: kind + " at " + u.m.p.pos(pos) + " in " + fnQual(u.top)}
			u.changed = true
		}
		u.writeSites = append(u.writeSites, writeSite{in, l.key(), kind, via})
		if _, isStore := in.(*ssa.Store); !isStore && l.o.key.Kind == okParam && l.f == 0 {
			if _, isCall := in.(ssa.CallInstruction); !isCall || kind != "call" {
				u.addFStore(l.o.key.Idx, -2, nil)
			}
		}
	}
}

func (u *unit) recordFlow(dst locset, src locset) {
	srcR := u.regionsOf(src)
	if len(srcR) == 0 {
		return
	}
	for l := range dst {
		if l.o.key.Kind == okSite {
			continue
		}
		for r := range srcR {
			if r.Kind == l.o.key.Kind && r.Idx == l.o.key.Idx && r.Glob == l.o.key.Glob {
				continue
			}
			k := [2]rootKey{l.key(), r}
			if !u.sum.flows[k] {
				u.sum.flows[k] = true
				u.changed = true
			}
		}
	}
}

func (m *modref) analyseUnit(top *ssa.Function) *summary {
	u := &unit{m: m, top: top, inUnit: map[*ssa.Function]bool{}, vals: map[ssa.Value]aval{}, content: map[loc]locset{}, objs: map[any]*obj{}, sum: newSummary()}
	u.fns = withAnon(top)
	u.reach = map[*ssa.Function]*reachInfo{}
	for _, f := range u.fns {
		u.inUnit[f] = true
		ri := m.reachCache[f]
		if ri == nil {
			ri = computeReach(f)
			m.reachCache[f] = ri
		}
		u.reach[f] = ri
	}
	u.callW = map[ssa.Instruction]map[loc]bool{}
	u.callDefs = map[ssa.Instruction][]callDef{}
	for iter := 0; iter < 50; iter++ {
		u.changed = false
		u.writeSites = u.writeSites[:0]
		u.reach2 = map[*ssa.Function]map[*ssa.UnOp]*defset{}
		for _, f := range u.fns {
			u.reach2[f] = u.genReach(f)
		}
		for _, f := range u.fns {
			for _, b := range f.Blocks {
				for _, in := range b.Instrs {
					u.transfer(f, in)
				}
			}
		}
		if !u.changed {
			break
		}
	}
	// results
	for _, b := range top.Blocks {
		ret, ok := lastInstr(b).(*ssa.Return)
		if !ok {
			continue
		}
		for i, rv := range ret.Results {
			if !mayPoint(rv.Type()) {
				continue
			}
			for l := range u.val(rv).flat() {
				ra := u.sum.retAlias[i]
				if ra == nil {
					ra = map[rootKey]bool{}
					u.sum.retAlias[i] = ra
				}
				if l.o.key.Kind == okSite {
					ra[freshKey] = true
					rc := u.sum.retContains[i]
					if rc == nil {
						rc = map[rootKey]bool{}
						u.sum.retContains[i] = rc
					}
					for r := range u.regionsOf(locset{l: {}}) {
						rc[r] = true
					}
				} else {
					ra[l.key()] = true
				}
			}
		}
	}
	m.unitInfo[top] = u
	return u.sum
}

func (u *unit) siteObj(in ssa.Value, tag string) locset {
	o := u.obj(in, freshKey, tag+"@"+u.m.p.pos(in.Pos()))
	return locset{loc{o, -1}: {}}
}

// loadAddr loads through an address value; a load through a direct field of the object a region
// root refers to is tagged with that field.
func (u *unit) loadAddr(addr ssa.Value, t types.Type) aval {
	out := u.load(u.val(addr), t)
	if fa, ok := addr.(*ssa.FieldAddr); ok {
		if _, nested := fa.X.(*ssa.FieldAddr); !nested {
			shallowRoots := map[*obj]bool{}
			for l := range u.val(fa.X).flat() {
				if l.o.key.Kind != okSite && l.f == 0 {
					shallowRoots[l.o] = true
				}
			}
			if len(shallowRoots) > 0 {
				for k, set := range out {
					ns := locset{}
					for l := range set {
						if l.o.key.Kind != okSite && l.f == 1 && shallowRoots[l.o] {
							ns[loc{l.o, viaBase + fa.Field}] = struct{}{}
						} else {
							ns[l] = struct{}{}
						}
					}
					out[k] = ns
				}
			}
		}
	} else if _, isStruct := t.Underlying().(*types.Struct); isStruct {
		// whole-object load of a struct a region root refers to directly: per-field tags
		st := t.Underlying().(*types.Struct)
		for l := range u.val(addr).flat() {
			if l.o.key.Kind != okSite && l.f == 0 {
				delete(out, -1)
				for i := 0; i < st.NumFields(); i++ {
					if mayPoint(st.Field(i).Type()) {
						if out[i] == nil {
							out[i] = locset{}
						}
						out[i][loc{l.o, viaBase + i}] = struct{}{}
					}
				}
			}
		}
	}
	return out
}

// load: the value obtained by dereferencing pointer value p, as an aval for type t.
func (u *unit) load(p aval, t types.Type) aval {
	out := aval{}
	put := func(k int, s locset) {
		if len(s) == 0 {
			return
		}
		if out[k] == nil {
			out[k] = locset{}
		}
		out[k].addAll(s)
	}
	st, isStruct := t.Underlying().(*types.Struct)
	for l := range p.flat() {
		if l.o.key.Kind != okSite {
			put(-1, locset{loc{l.o, 1}: {}})
			continue
		}
		if l.f == -1 {
			if isStruct {
				for i := 0; i < st.NumFields(); i++ {
					put(i, u.content[loc{l.o, i}])
				}
				put(-1, u.content[loc{l.o, -1}])
			} else {
				put(-1, u.contentAll(l.o))
			}
		} else {
			put(-1, u.content[loc{l.o, l.f}])
			put(-1, u.content[loc{l.o, -1}])
		}
	}
	return out
}

// store value v through pointer value p.
func (u *unit) store(in ssa.Instruction, p aval, v aval, vt types.Type, kind string) {
	target := p.flat()
	if mayPoint(vt) || kind != "store" {
		// flows into regions
		u.recordFlow(target, v.flat())
	}
	u.recordWrite(in, target, kind, "", in.Pos())
	u.recordFieldStores(in, target, v, vt, kind)
	if !mayPoint(vt) {
		return
	}
	for l := range target {
		if l.o.key.Kind != okSite {
			continue
		}
		if l.f == -1 {
			for k, s := range v {
				u.addContent(loc{l.o, k}, s)
			}
		} else {
			u.addContent(l, v.flat())
		}
	}
}

// storedValue: the abstract value a reaching store contributes to a load from addr (nil addr =
// caller projects the field itself).
func (u *unit) storedValue(r storeRef, addr ssa.Value) aval {
	v := u.val(r.st.Val)
	if !r.whole || addr == nil {
		return v
	}
	fa, ok := addr.(*ssa.FieldAddr)
	if !ok {
		return v
	}
	out := aval{-1: locset{}}
	out[-1].addAll(v[fa.Field])
	out[-1].addAll(v[-1])
	return out
}

// flatField projects field f out of a stored struct value (whole store) or returns the stored
// field value (field store).
func (a aval) flatField(r storeRef, f int) locset {
	out := locset{}
	if r.whole {
		out.addAll(a[f])
		out.addAll(a[-1])
	} else {
		out.addAll(a.flat())
	}
	return out
}

// topField walks a chain of FieldAddr down to its base pointer and returns the first field.
func topField(addr ssa.Value) (ssa.Value, int, bool) {
	fa, ok := addr.(*ssa.FieldAddr)
	if !ok {
		return nil, 0, false
	}
	for {
		inner, ok := fa.X.(*ssa.FieldAddr)
		if !ok {
			return fa.X, fa.Field, true
		}
		fa = inner
	}
}

func (u *unit) addFStore(param, field int, srcs map[srcKey]bool) {
	k := [2]int{param, field}
	m := u.sum.fstores[k]
	if m == nil {
		m = map[srcKey]bool{}
		u.sum.fstores[k] = m
		u.changed = true
	}
	for s := range srcs {
		if s.R.Kind == okParam && s.R.Idx == param && s.Via == field && field >= 0 {
			continue // the field keeps (or is restored to) what it held on entry
		}
		if !m[s] {
			m[s] = true
			u.changed = true
		}
	}
}

// srcKeys describes where the pointers in s come from, for a summary.
func (u *unit) srcKeys(s locset) map[srcKey]bool {
	out := map[srcKey]bool{}
	for l := range s {
		out[l.src()] = true
		if l.o.key.Kind == okSite {
			for r := range u.regionsOf(locset{l: {}}) {
				rr := r
				rr.Deep = true
				out[srcKey{rr, -1, true}] = true
			}
		}
	}
	return out
}

// recordFieldStores records, for direct writes into the object a parameter refers to, which
// field is written and where the stored pointers come from.
func (u *unit) recordFieldStores(in ssa.Instruction, target locset, v aval, vt types.Type, kind string) {
	for l := range target {
		if l.o.key.Kind != okParam || l.f != 0 {
			continue
		}
		st, isStore := in.(*ssa.Store)
		if !isStore || kind != "store" {
			u.addFStore(l.o.key.Idx, -2, nil)
			continue
		}
		if base, f, ok := topField(st.Addr); ok {
			direct := false
			for bl := range u.val(base).flat() {
				if bl == l {
					direct = true
				}
			}
			if direct {
				if mayPoint(vt) {
					u.addFStore(l.o.key.Idx, f, u.srcKeys(v.flat()))
				} else {
					u.addFStore(l.o.key.Idx, f, nil)
				}
				continue
			}
		}
		// whole-object store of a struct value through the parameter itself
		if sv, ok := vt.Underlying().(*types.Struct); ok {
			if _, isFA := st.Addr.(*ssa.FieldAddr); !isFA {
				if _, isIA := st.Addr.(*ssa.IndexAddr); !isIA {
					for i := 0; i < sv.NumFields(); i++ {
						s := locset{}
						s.addAll(v[i])
						s.addAll(v[-1])
						u.addFStore(l.o.key.Idx, i, u.srcKeys(s))
					}
					continue
				}
			}
		}
		u.addFStore(l.o.key.Idx, -2, nil)
	}
}

func (u *unit) copyVal(dst ssa.Value, src aval) {
	for k, s := range src {
		u.add(dst, k, s)
	}
}

func (u *unit) transfer(fn *ssa.Function, in ssa.Instruction) {
	switch x := in.(type) {
	case *ssa.Alloc:
		u.add(x, -1, u.siteObj(x, "alloc"))
	case *ssa.MakeMap:
		u.add(x, -1, u.siteObj(x, "makemap"))
	case *ssa.MakeSlice:
		u.add(x, -1, u.siteObj(x, "makeslice"))
	case *ssa.MakeChan:
		u.add(x, -1, u.siteObj(x, "makechan"))
	case *ssa.MakeClosure:
		cf := x.Fn.(*ssa.Function)
		site := u.siteObj(x, "closure")
		u.add(x, -1, site)
		for i, b := range x.Bindings {
			if i < len(cf.FreeVars) {
				u.copyVal(cf.FreeVars[i], aval{-1: u.val(b).flat()})
				for l := range site {
					u.addContent(loc{l.o, -1}, u.val(b).flat())
				}
			}
		}
		u.bindClosureParams(x, cf)
	case *ssa.FieldAddr:
		for l := range u.val(x.X).flat() {
			if l.o.key.Kind != okSite {
				u.add(x, -1, locset{l: {}})
			} else if l.f == -1 {
				u.add(x, -1, locset{loc{l.o, x.Field}: {}})
			} else {
				u.add(x, -1, locset{l: {}})
			}
		}
	case *ssa.Field:
		a := u.val(x.X)
		s := locset{}
		s.addAll(a[x.Field])
		s.addAll(a[-1])
		u.add(x, -1, s)
	case *ssa.IndexAddr:
		// pointer into slice/array: the slice value's locs (contents collapsed); for *array: pointer's locs
		for l := range u.val(x.X).flat() {
			u.add(x, -1, locset{l: {}})
		}
	case *ssa.Index:
		if mayPoint(x.Type()) {
			u.add(x, -1, u.val(x.X).flat())
		}
	case *ssa.Lookup:
		if mayPoint(x.Type()) {
			ld := u.load(u.val(x.X), x.Type())
			u.add(x, -1, ld.flat())
			if x.CommaOk {
				u.add(x, 0, ld.flat())
			}
		}
	case *ssa.Slice:
		// slicing a slice/string/*array: same backing store
		u.add(x, -1, u.val(x.X).flat())
	case *ssa.UnOp:
		switch x.Op {
		case token.MUL:
			if mayPoint(x.Type()) {
				ri := u.reach[fn]
				if st, ok := ri.fwd[x]; ok {
					u.copyVal(x, u.val(st.Val))
					return
				}
				if refs, ok := ri.loads[x]; ok {
					for _, r := range refs {
						u.copyVal(x, u.storedValue(r, x.X))
					}
					return
				}
				if d, ok := u.reach2[fn][x]; ok {
					for st := range d.stores {
						if st.Addr == x.X.(*ssa.FieldAddr).X {
							// whole-object store: project the field
							v := u.val(st.Val)
							f := x.X.(*ssa.FieldAddr).Field
							u.add(x, -1, v[f])
							u.add(x, -1, v[-1])
						} else {
							u.copyVal(x, aval{-1: u.val(st.Val).flat()})
						}
					}
					for call := range d.calls {
						for _, cd := range u.callDefs[call] {
							if cd.field == x.X.(*ssa.FieldAddr).Field && intersects(u.objsOf(x.X.(*ssa.FieldAddr).X), cd.objs) {
								u.copyVal(x, aval{-1: cd.vals})
							}
						}
					}
					if d.unknown {
						u.copyVal(x, u.loadAddr(x.X, x.Type()))
					}
					return
				}
				if m, ok := ri.wholeLoads[x]; ok {
					for f, refs := range m {
						for _, r := range refs {
							u.add(x, f, u.storedValue(storeRef{r.st, r.whole}, nil).flatField(r, f))
						}
					}
					return
				}
				u.copyVal(x, u.loadAddr(x.X, x.Type()))
			}
		case token.ARROW:
			if mayPoint(x.Type()) {
				u.copyVal(x, u.load(u.val(x.X), x.Type()))
			}
		}
	case *ssa.Store:
		u.store(x, u.val(x.Addr), u.val(x.Val), x.Val.Type(), "store")
	case *ssa.MapUpdate:
		m := u.val(x.Map)
		v := aval{-1: locset{}}
		v[-1].addAll(u.val(x.Key).flat())
		v[-1].addAll(u.val(x.Value).flat())
		mp := x.Map.Type().Underlying().(*types.Map)
		tt := mp.Elem()
		if mayPoint(mp.Key()) {
			tt = types.NewTuple(types.NewVar(0, nil, "", mp.Key()), types.NewVar(0, nil, "", mp.Elem()))
		}
		// a map value's locs are the map object; content collapsed at -1
		target := aval{-1: locset{}}
		for l := range m.flat() {
			if l.o.key.Kind != okSite {
				target[-1][l] = struct{}{}
			} else {
				target[-1][loc{l.o, -1}] = struct{}{}
			}
		}
		u.store(x, target, v, tt, "mapupdate")
	case *ssa.ChangeType:
		u.copyVal(x, u.val(x.X))
	case *ssa.ChangeInterface:
		u.copyVal(x, u.val(x.X))
	case *ssa.MakeInterface:
		if mayPoint(x.X.Type()) {
			u.add(x, -1, u.val(x.X).flat())
		}
	case *ssa.SliceToArrayPointer:
		u.add(x, -1, u.val(x.X).flat())
	case *ssa.Convert:
		// []byte(string) / []rune(string) allocate; string(...) yields nothing; pointer conversions keep
		if _, ok := x.Type().Underlying().(*types.Slice); ok {
			if _, fromStr := x.X.Type().Underlying().(*types.Basic); fromStr {
				u.add(x, -1, u.siteObj(x, "convert"))
				return
			}
		}
		if mayPoint(x.Type()) {
			u.copyVal(x, u.val(x.X))
		}
	case *ssa.TypeAssert:
		if x.CommaOk {
			if mayPoint(x.AssertedType) {
				u.add(x, 0, u.val(x.X).flat())
			}
		} else if mayPoint(x.AssertedType) {
			u.add(x, -1, u.val(x.X).flat())
		}
	case *ssa.Extract:
		if mayPoint(x.Type()) {
			a := u.val(x.Tuple)
			s := locset{}
			s.addAll(a[x.Index])
			s.addAll(a[-1])
			u.add(x, -1, s)
		}
	case *ssa.Phi:
		if mayPoint(x.Type()) {
			for _, e := range x.Edges {
				u.copyVal(x, u.val(e))
			}
		}
	case *ssa.Select:
		// not used by the repository
	case *ssa.Range:
		u.add(x, -1, u.val(x.X).flat())
	case *ssa.Next:
		if !x.IsString {
			ld := u.load(u.val(x.Iter), types.Typ[types.Invalid])
			_ = ld
			// key/value come from the map's contents
			c := locset{}
			for l := range u.val(x.Iter).flat() {
				if l.o.key.Kind != okSite {
					c[loc{l.o, 1}] = struct{}{}
				} else {
					c.addAll(u.contentAll(l.o))
				}
			}
			u.add(x, 1, c)
			u.add(x, 2, c)
		}
	case *ssa.Call:
		u.call(fn, x, &x.Call, x)
	case *ssa.Defer:
		u.call(fn, x, &x.Call, nil)
	case *ssa.Go:
		u.call(fn, x, &x.Call, nil)
	case *ssa.Send:
		u.store(x, u.val(x.Chan), u.val(x.X), x.X.Type(), "send")
	case *ssa.Return:
		// nested closure returns feed their call sites (handled in call for in-unit callees)
	}
}

// bindClosureParams gives the parameters of a nested closure their abstract values according to
// how the closure value is used.
func (u *unit) bindClosureParams(mc *ssa.MakeClosure, cf *ssa.Function) {
	refs := mc.Referrers()
	if refs == nil {
		return
	}
	external := func() {
		for _, p := range cf.Params {
			if mayPoint(p.Type()) {
				u.add(p, -1, locset{loc{u.region(externalKey), 1}: {}})
			}
		}
	}
	var visit func(v ssa.Value, depth int)
	visit = func(v ssa.Value, depth int) {
		rs := v.Referrers()
		if rs == nil || depth > 4 {
			external()
			return
		}
		for _, r := range *rs {
			switch y := r.(type) {
			case ssa.CallInstruction:
				cc := y.Common()
				if cc.Value == v && !cc.IsInvoke() {
					for i, a := range cc.Args {
						if i < len(cf.Params) && mayPoint(cf.Params[i].Type()) {
							u.add(cf.Params[i], -1, u.val(a).flat())
						}
					}
					continue
				}
				// passed as an argument: parameters may receive anything reachable from the callee value and the other arguments
				src := locset{}
				if !cc.IsInvoke() {
					if _, isFn := cc.Value.(*ssa.Function); !isFn {
						if _, isB := cc.Value.(*ssa.Builtin); !isB {
							src.addAll(u.deep(u.val(cc.Value).flat()))
						}
					}
				} else {
					src.addAll(u.deep(u.val(cc.Value).flat()))
				}
				for _, a := range cc.Args {
					if a != v {
						src.addAll(u.deep(u.val(a).flat()))
					}
				}
				// values the callee itself produces are opaque to us: model as fresh-from-callee (no region)
				for _, p := range cf.Params {
					if mayPoint(p.Type()) {
						u.add(p, -1, src)
					}
				}
			case *ssa.ChangeType:
				visit(y, depth+1)
			case *ssa.MakeInterface:
				visit(y, depth+1)
			case *ssa.Phi:
				visit(y, depth+1)
			case *ssa.Return:
				external()
			case *ssa.Store:
				// stored somewhere: if into a site object, whoever loads and calls it is in this unit or a callee
				external()
			case *ssa.DebugRef:
			default:
				external()
			}
		}
	}
	visit(mc, 0)
}

// callees resolves the possible targets of a call instruction.
func (u *unit) callees(fn *ssa.Function, site ssa.CallInstruction) []*ssa.Function {
	cc := site.Common()
	if f := cc.StaticCallee(); f != nil {
		return []*ssa.Function{f}
	}
	var out []*ssa.Function
	if n := u.m.cg.Nodes[fn]; n != nil {
		for _, e := range n.Out {
			if e.Site == site && e.Callee != nil && e.Callee.Func != nil {
				out = append(out, e.Callee.Func)
			}
		}
	}
	sort.Slice(out, func(i, j int) bool { return out[i].String() < out[j].String() })
	return out
}

func (u *unit) call(fn *ssa.Function, in ssa.Instruction, cc *ssa.CallCommon, res ssa.Value) {
	site := in.(ssa.CallInstruction)
	// actual arguments with receiver first for invoke mode
	var args []ssa.Value
	if cc.IsInvoke() {
		args = append(args, cc.Value)
	}
	args = append(args, cc.Args...)
	if b, ok := cc.Value.(*ssa.Builtin); ok {
		u.builtin(in, b.Name(), cc.Args, res)
		return
	}
	cs := u.callees(fn, site)
	if len(cs) == 0 {
		// unknown target: a caller-supplied function value or an interface with no known implementer
		u.dynamicUnknown(in, cc, args, res)
		return
	}
	for _, g := range cs {
		switch {
		case u.inUnit[g]:
			// direct call of a nested closure (or recursion into the unit's own top)
			if g == u.top && g.Parent() == nil {
				u.applySummary(in, g, u.m.sums[g], args, res)
				continue
			}
			for i, a := range args {
				if i < len(g.Params) && mayPoint(g.Params[i].Type()) {
					u.copyVal(g.Params[i], aval{-1: u.val(a).flat()})
				}
			}
			if res != nil {
				for _, b := range g.Blocks {
					if ret, ok := lastInstr(b).(*ssa.Return); ok {
						for i, rv := range ret.Results {
							if mayPoint(rv.Type()) {
								k := i
								if len(ret.Results) == 1 {
									k = -1
								}
								u.add(res, k, u.val(rv).flat())
							}
						}
					}
				}
			}
		case g.Parent() != nil:
			// closure created by another unit: its effects are charged to its creator; data it may hand
			// back: anything reachable from the callee value and the arguments
			if res != nil && mayPoint(res.Type()) {
				src := u.deep(u.val(cc.Value).flat())
				for _, a := range args {
					src.addAll(u.deep(u.val(a).flat()))
				}
				u.add(res, -1, src)
			}
		case u.m.p.funcSet[g] || u.m.sums[g] != nil:
			s := u.m.sums[g]
			if s == nil {
				s = newSummary()
			}
			u.applySummary(in, g, s, args, res)
		default:
			if g.Blocks != nil && u.m.p.inRepo(g) {
				// synthetic wrapper in repo not yet registered as unit
				s := u.m.sums[g]
				if s == nil {
					u.m.sums[g] = newSummary()
					u.m.units = append(u.m.units, g)
					s = u.m.sums[g]
					u.changed = true
				}
				u.applySummary(in, g, s, args, res)
				continue
			}
			u.stdlib(in, g, cc, args, res)
		}
	}
}

func (u *unit) dynamicUnknown(in ssa.Instruction, cc *ssa.CallCommon, args []ssa.Value, res ssa.Value) {
	if !u.sum.callsExt {
		u.sum.callsExt = true
		u.changed = true
	}
	if res != nil && mayPoint(res.Type()) {
		src := locset{loc{u.region(externalKey), 1}: {}}
		src.addAll(u.deep(u.val(cc.Value).flat()))
		for _, a := range args {
			src.addAll(u.deep(u.val(a).flat()))
		}
		u.add(res, -1, src)
	}
}

// applySummary applies callee summary s at a call with the given actual arguments.
func (u *unit) applySummary(in ssa.Instruction, g *ssa.Function, s *summary, args []ssa.Value, res ssa.Value) {
	argLocs := func(i int) locset {
		if i < len(args) {
			return u.val(args[i]).flat()
		}
		if len(args) > 0 && g.Signature.Variadic() {
			return u.val(args[len(args)-1]).flat()
		}
		return locset{}
	}
	rootLocs := func(r rootKey) locset {
		switch r.Kind {
		case okParam:
			if !r.Deep {
				return argLocs(r.Idx)
			}
			// memory reachable beyond the argument's direct referents
			out := locset{}
			for l := range argLocs(r.Idx) {
				switch {
				case l.o.key.Kind != okSite && r.Via1 > 0 && l.f == 0:
					out[loc{l.o, viaBase + r.Via1 - 1}] = struct{}{}
				case l.o.key.Kind != okSite:
					out[loc{l.o, 1}] = struct{}{}
				case r.Via1 > 0 && l.f == -1:
					out.addAll(u.content[loc{l.o, r.Via1 - 1}])
					out.addAll(u.content[loc{l.o, -1}])
				case r.Via1 > 0:
					// pointer to a field of a site object: cannot tell which nested field; everything below it
					out.addAll(u.deep(u.content[l]))
					out.addAll(u.deep(u.content[loc{l.o, -1}]))
				default:
					out.addAll(u.deep(u.contentAll(l.o)))
				}
			}
			return out
		case okGlobal:
			d := 0
			if r.Deep {
				d = 1
				if r.Via1 > 0 {
					d = viaBase + r.Via1 - 1
				}
			}
			rr := r
			rr.Deep = false
			rr.Via1 = 0
			return locset{loc{u.region(rr), d}: {}}
		case okExternal:
			return locset{loc{u.region(externalKey), 1}: {}}
		}
		return locset{}
	}
	via := fnQual(g)
	// field-precise direct stores
	precise := map[int]bool{} // params whose direct writes are all field-precise
	for k := range s.fstores {
		if _, seen := precise[k[0]]; !seen {
			precise[k[0]] = true
		}
		if k[1] == -2 {
			precise[k[0]] = false
		}
	}
	for k, srcs := range s.fstores {
		if k[1] < 0 || !precise[k[0]] {
			continue
		}
		vals := locset{}
		var freshObj *obj
		for sk := range srcs {
			if sk.R.Kind == okSite {
				freshObj = u.obj([3]any{in, "stored", k}, freshKey, "stored by "+via+"@"+u.m.p.pos(in.Pos()))
				vals[loc{freshObj, -1}] = struct{}{}
			} else if !sk.In {
				vals.addAll(rootLocs(sk.R))
			}
		}
		for sk := range srcs {
			if sk.In && freshObj != nil {
				u.addContent(loc{freshObj, -1}, rootLocs(sk.R))
			}
		}
		objs := map[loc]bool{}
		for l := range argLocs(k[0]) {
			if l.o.key.Kind == okSite {
				objs[loc{l.o, -1}] = true
				if l.f == -1 {
					u.addContent(loc{l.o, k[1]}, vals)
				} else {
					u.addContent(l, vals)
				}
			} else {
				objs[l] = true
				if l.o.key.Kind == okParam && l.f == 0 {
					if _, isP := args[k[0]].(*ssa.Parameter); isP || true {
						u.addFStore(l.o.key.Idx, k[1], u.srcKeys(vals))
					}
				}
			}
		}
		// remember for reaching-definitions
		found := false
		for i, cd := range u.callDefs[in] {
			if cd.field == k[1] && sameObjs(cd.objs, objs) {
				if u.callDefs[in][i].vals.addAll(vals) {
					u.changed = true
				}
				found = true
			}
		}
		if !found {
			u.callDefs[in] = append(u.callDefs[in], callDef{objs, k[1], vals})
			u.changed = true
		}
	}
	for r, e := range s.writes {
		target := rootLocs(r)
		v := via
		if e.Via != "" {
			v = via + " -> " + e.Via
		}
		if len(v) > 300 {
			v = v[:300] + "…"
		}
		v = v + " [" + e.Kind + " at " + u.m.p.pos(e.Pos) + "]"
		for l := range target {
			if !(r.Kind == okParam && !r.Deep && precise[r.Idx]) {
				u.noteCallWrite(in, l)
			}
			if l.o.key.Kind == okSite {
				continue
			}
			if l.o.key.Kind == okParam && l.f == 0 && !(r.Kind == okParam && !r.Deep && precise[r.Idx]) {
				u.addFStore(l.o.key.Idx, -2, nil)
			}
			if _, ok := u.sum.writes[l.key()]; !ok {
				org := e.Origin
				if org == "" {
					org = e.Kind + " in " + via
				}
				u.sum.writes[l.key()] = &effect{Kind: "call", Pos: in.Pos(), Via: v, Origin: org}
				u.changed = true
			}
			u.writeSites = append(u.writeSites, writeSite{in, l.key(), "call:" + e.Kind, v})
		}
	}
	for fl := range s.flows {
		dst, src := rootLocs(fl[0]), rootLocs(fl[1])
		u.recordFlow(dst, src)
		for l := range dst {
			if l.o.key.Kind == okSite {
				u.addContent(loc{l.o, -1}, src)
			}
		}
	}
	if s.callsExt && !u.sum.callsExt {
		u.sum.callsExt = true
		u.changed = true
	}
	if res == nil {
		return
	}
	nres := g.Signature.Results().Len()
	for i := 0; i < nres; i++ {
		if !mayPoint(g.Signature.Results().At(i).Type()) {
			continue
		}
		k := i
		if nres == 1 {
			k = -1
		}
		out := locset{}
		for r := range s.retAlias[i] {
			if r.Kind == okSite {
				o := u.obj([2]any{in, i}, freshKey, "result of "+via+"@"+u.m.p.pos(in.Pos()))
				out[loc{o, -1}] = struct{}{}
				for rc := range s.retContains[i] {
					u.addContent(loc{o, -1}, rootLocs(rc))
				}
			} else {
				out.addAll(rootLocs(r))
			}
		}
		u.add(res, k, out)
	}
}

func sameObjs(a, b map[loc]bool) bool {
	if len(a) != len(b) {
		return false
	}
	for l := range a {
		if !b[l] {
			return false
		}
	}
	return true
}

func (u *unit) noteCallWrite(in ssa.Instruction, l loc) {
	m := u.callW[in]
	if m == nil {
		m = map[loc]bool{}
		u.callW[in] = m
	}
	k := l
	if l.o.key.Kind == okSite {
		k = loc{l.o, -1}
	}
	if !m[k] {
		m[k] = true
		u.changed = true
	}
}

func (u *unit) builtin(in ssa.Instruction, name string, args []ssa.Value, res ssa.Value) {
	switch name {
	case "append":
		s := u.val(args[0]).flat()
		// result aliases the old backing store or a new one
		if res != nil {
			u.add(res, -1, s)
			u.add(res, -1, u.siteObj(res, "append"))
		}
		if len(args) > 1 {
			el := u.val(args[1])
			// elements of the appended slice: its contents
			elems := locset{}
			for l := range el.flat() {
				if l.o.key.Kind != okSite {
					elems[loc{l.o, 1}] = struct{}{}
				} else {
					elems.addAll(u.contentAll(l.o))
				}
			}
			st, ok := args[0].Type().Underlying().(*types.Slice)
			if ok && mayPoint(st.Elem()) {
				if res != nil {
					for l := range u.val(res).flat() {
						u.addContent(loc{l.o, -1}, elems)
					}
				}
				u.recordFlow(s, elems)
			}
			// append may write into spare capacity of the first argument's backing array
			if _, isC := args[0].(*ssa.Const); !isC {
				u.recordWrite(in, s, "append", "", in.Pos())
			}
		}
	case "copy":
		dst := u.val(args[0]).flat()
		u.recordWrite(in, dst, "copy", "", in.Pos())
		src := locset{}
		for l := range u.val(args[1]).flat() {
			if l.o.key.Kind != okSite {
				src[loc{l.o, 1}] = struct{}{}
			} else {
				src.addAll(u.contentAll(l.o))
			}
		}
		if st, ok := args[0].Type().Underlying().(*types.Slice); ok && mayPoint(st.Elem()) {
			for l := range dst {
				u.addContent(loc{l.o, -1}, src)
			}
			u.recordFlow(dst, src)
		}
	case "delete":
		u.recordWrite(in, u.val(args[0]).flat(), "mapdelete", "", in.Pos())
	case "clear":
		u.recordWrite(in, u.val(args[0]).flat(), "clear", "", in.Pos())
	case "ssa:wrapnilchk":
		if res != nil {
			u.copyVal(res, u.val(args[0]))
		}
	case "len", "cap", "min", "max", "print", "println", "panic", "recover", "real", "imag", "complex", "close":
	default:
		u.undecided(in, "builtin "+name+" not modelled")
	}
}

func (u *unit) undecided(in ssa.Instruction, msg string) {
	key := msg + " (in " + fnQual(u.top) + ")"
	if _, ok := u.m.undec[key]; !ok {
		u.m.undec[key] = in.Pos()
	}
	for _, x := range u.sum.undecided {
		if x == key {
			return
		}
	}
	u.sum.undecided = append(u.sum.undecided, key)
}

// ---------------------------------------------------------------------------------------------
// reporting helpers

func (m *modref) summaryOf(fn *ssa.Function) *summary {
	return m.sums[topOf(fn)]
}

func (m *modref) describe(fn *ssa.Function) string {
	s := m.summaryOf(fn)
	if s == nil {
		return "<no summary>"
	}
	var parts []string
	for r, e := range s.writes {
		parts = append(parts, fmt.Sprintf("writes %s (%s at %s; origin: %s)", r, e.Kind, m.p.pos(e.Pos), e.Origin))
	}
	for i, ra := range s.retAlias {
		for r := range ra {
			parts = append(parts, fmt.Sprintf("ret%d aliases %s", i, r))
		}
	}
	for i, ra := range s.retContains {
		for r := range ra {
			parts = append(parts, fmt.Sprintf("ret%d contains %s", i, r))
		}
	}
	for f := range s.flows {
		parts = append(parts, fmt.Sprintf("flow %s <- %s", f[0], f[1]))
	}
	if s.callsExt {
		parts = append(parts, "calls external function values")
	}
	for k, srcs := range s.fstores {
		var ss []string
		for sk := range srcs {
			ss = append(ss, fmt.Sprintf("%s/via%d/in=%v", sk.R, sk.Via, sk.In))
		}
		sort.Strings(ss)
		parts = append(parts, fmt.Sprintf("fstore param#%d.f%d <- {%s}", k[0], k[1], strings.Join(ss, ",")))
	}
	parts = append(parts, s.undecided...)
	sort.Strings(parts)
	return strings.Join(parts, "; ")
}

// writeKinds: the primitive kinds of write (store, mapupdate, append, ...) through which fn may
// modify memory belonging to parameter idx, found by following the witness origins.
func (m *modref) writeKinds(fn *ssa.Function, idx int) map[string]bool {
	out := map[string]bool{}
	s := m.sums[topOf(fn)]
	if s == nil {
		return out
	}
	for k, e := range s.writes {
		if k.Kind == okParam && k.Idx == idx {
			kind := e.Kind
			if e.Origin != "" {
				kind = strings.SplitN(e.Origin, " ", 2)[0]
			}
			out[kind] = true
		}
	}
	return out
}
