package main

// E10: field-provenance evaluation of converter code (AST level).
//
// The codecs of this repository are, for the most part, *converters*: straight-line functions that copy the fields of one
// struct into the fields of another, recursing into children, with a dispatch (type switch / tagless switch / string
// switch) at the top. For such code the question "which source field ends up in which destination field" is a dataflow
// fact that can be read off the source. This engine computes it as a *term*: every value is described by its provenance
// (a field path of a symbolic input, a constant, a struct built from such, an element-wise image of a slice or map, the
// recursive codec applied to a sub-term). Dispatches are resolved by the hypothesis under which one table row is
// extracted ("the input is a NodeTypeAdd"); conditions that depend on an unconstrained boolean/string input split the row
// (each split is one more row). Nothing is executed and no solver is involved: an unrecognised construct ends the
// extraction of that row as *undecided*.
//
// Rules use the resulting tables: composing the encoder's row for kind K with the decoder's rows must give the
// identity on K's fields (C09), etc.

import (
	"fmt"
	"go/ast"
	"go/constant"
	"go/token"
	"go/types"
	"sort"
	"strings"

	"golang.org/x/tools/go/packages"
)

type tv interface{ ts() string }

type tcell struct{ v tv }

type tSym struct {
	Name string
	T    types.Type
}
type tObj struct {
	T types.Type
	F map[string]*tcell
}
type tPtr struct{ C *tcell }
type tNil struct{}
type tConst struct{ V constant.Value }
type tEnc struct { // the image of X under a codec's encoder (summarised, see hooks)
	X  tv
	By *types.Func
}
type tEach struct { // ordered element-wise image of a slice
	Over   tv
	Elem   *tSym
	Body   tv
	Sorted bool // order replaced by a sort on a key
}
type tMapEach struct { // map built with one entry per element of Over
	Over     tv
	Elem     *tSym
	Key, Val tv
}
type tMapUnion struct { // a map filled by several loops (one part per loop), possibly after some literal entries
	T     types.Type
	Lit   *tMapLit
	Parts []*tMapEach
}
type tMapLit struct {
	T          types.Type
	Keys, Vals []tv
}
type tSliceLit struct {
	T       types.Type
	FromAcc bool // append(acc, e): the accumulated prefix plus the listed elements
	Elems   []tv
	LenOf   tv // make([]T, len(x)): elements unset
}
type tKeys struct {
	Of     tv
	Sorted bool
}
type tFn struct {
	Obj        *types.Func
	Recv       tv
	RecvCell   *tcell
	MethodExpr bool
}
type tCallU struct { // uninterpreted pure call
	Name string
	Args []tv
}
type tAcc struct { // inside a loop body: what earlier iterations accumulated in a collection
	Prev  tv // the contribution of an arbitrary earlier iteration
	IsMap bool
	Key   tv
}
type tTuple struct{ Vs []tv }
type tLen struct{ X tv }
type tUnk struct{ Why string }
type tErr struct{ Why string } // a non-nil error value

func (t *tSym) ts() string { return t.Name }
func (t *tObj) ts() string {
	var ks []string
	for k := range t.F {
		ks = append(ks, k)
	}
	sort.Strings(ks)
	var parts []string
	for _, k := range ks {
		if t.F[k].v == nil {
			continue
		}
		parts = append(parts, k+":"+t.F[k].v.ts())
	}
	return typeShort(t.T) + "{" + strings.Join(parts, ", ") + "}"
}
func (t *tPtr) ts() string {
	if t.C.v == nil {
		return "&<unset>"
	}
	return "&" + t.C.v.ts()
}
func (tNil) ts() string     { return "nil" }
func (t tConst) ts() string { return t.V.ExactString() }
func (t *tEnc) ts() string  { return "enc(" + t.X.ts() + ")" }
func (t *tEach) ts() string {
	s := ""
	if t.Sorted {
		s = " sorted"
	}
	return "each(" + t.Elem.Name + " in " + t.Over.ts() + s + " => " + t.Body.ts() + ")"
}
func (t *tMapEach) ts() string {
	return "mapeach(" + t.Elem.Name + " in " + t.Over.ts() + " => " + t.Key.ts() + ": " + t.Val.ts() + ")"
}
func (t *tMapUnion) ts() string {
	var parts []string
	if t.Lit != nil && len(t.Lit.Keys) > 0 {
		parts = append(parts, t.Lit.ts())
	}
	for _, p := range t.Parts {
		parts = append(parts, p.ts())
	}
	return "union(" + strings.Join(parts, " + ") + ")"
}
func (t *tMapLit) ts() string {
	var parts []string
	for i := range t.Keys {
		parts = append(parts, t.Keys[i].ts()+": "+t.Vals[i].ts())
	}
	return "map{" + strings.Join(parts, ", ") + "}"
}
func (t *tSliceLit) ts() string {
	var parts []string
	for _, e := range t.Elems {
		if e == nil {
			parts = append(parts, "_")
		} else {
			parts = append(parts, e.ts())
		}
	}
	return "[" + strings.Join(parts, ", ") + "]"
}
func (t *tKeys) ts() string { return "keys(" + t.Of.ts() + ")" }
func (t *tFn) ts() string {
	if t.Obj == nil {
		return "func?"
	}
	return "func " + t.Obj.FullName()
}
func (t *tCallU) ts() string {
	var parts []string
	for _, a := range t.Args {
		parts = append(parts, a.ts())
	}
	return t.Name + "(" + strings.Join(parts, ", ") + ")"
}
func (t *tAcc) ts() string { return "acc(" + t.Prev.ts() + ")" }
func (t *tTuple) ts() string {
	var parts []string
	for _, a := range t.Vs {
		parts = append(parts, a.ts())
	}
	return "(" + strings.Join(parts, ", ") + ")"
}
func (t *tLen) ts() string { return "len(" + t.X.ts() + ")" }
func (t *tUnk) ts() string { return "?(" + t.Why + ")" }
func (t *tErr) ts() string { return "error(" + t.Why + ")" }

type sevEvent struct {
	Kind string // "lit" (constant text written), "dyn" (non-constant text written), or the name given in eventFns
	Text string
	Args []tv
	Loop int // nesting depth of symbolic loops at the time
}

type sevAbort struct{ Why string }
type sevFork struct {
	Key     string
	Choices []string
}

type sevEnv struct {
	vars   map[types.Object]*tcell
	parent *sevEnv
}

func (e *sevEnv) lookup(o types.Object) *tcell {
	for x := e; x != nil; x = x.parent {
		if c, ok := x.vars[o]; ok {
			return c
		}
	}
	return nil
}

type sevFrame struct {
	pk      *packages.Package
	env     *sevEnv
	results []tv
	named   []*tcell // named results
	fn      *types.Func
}

type loopCollector struct {
	ranged   tv // the value ranged over as written (over is its underlying source collection)
	over     tv
	elem     *tSym
	idxObj   types.Object
	appends  map[*tcell][]tv        // outer slice tcell -> appended terms (per iteration)
	idxSets  map[*tcell]tv          // outer slice tcell -> value stored at [loop index]
	mapSets  map[*tcell][2]tv       // outer map tcell -> key, val
	prior    map[*tcell][]*tMapEach // maps already filled by earlier loops: this loop adds a part
	priorLit map[*tcell]*tMapLit    // literal entries the map already had
	sorted   bool
	distinct bool // the visited keys are pairwise distinct (they come from a map)
	outer    *sevEnv
}

// sev is one evaluation (one table row under one set of hypotheses).
type sev struct {
	p       *Prog
	decls   map[*types.Func]*declRef
	hypType map[string]types.Type // symbol name -> concrete dynamic type
	assume  map[string]string     // fork decisions
	refine  map[string]constant.Value
	encHook *types.Func
	decHook *types.Func
	// further summarised codec pairs: decoder -> encoder
	pairs map[*types.Func]*types.Func
	// function-style codec pairs (enc(x) (J, error) / dec(J) (x, error)): decoder -> encoder
	fnPairs  map[*types.Func]*types.Func
	depth    int
	loops    []*loopCollector
	notes    []string
	nsym     int
	steps    int
	hookTop  bool // the outermost call of a hook is inlined; nested calls are summarised
	assumeOK map[string]bool
	// event trace: calls of functions registered in eventFns and writes to byte/string sinks, in program order
	events   []sevEvent
	eventFns map[*types.Func]string
	sink     string          // name of the symbolic text sink whose writes are recorded
	symCells map[*tcell]bool // cells standing for fields of symbolic inputs (stores into them are not modelled)
	// functions not to look into (treated as uninterpreted functions of their arguments)
	opaque func(*types.Func) bool
	// identity(): accept a struct of a different named type with the identical underlying struct (a conversion wrapper)
	looseNamed bool
}

type declRef struct {
	fd *ast.FuncDecl
	pk *packages.Package
}

var declIndexCache = map[*Prog]map[*types.Func]*declRef{}

func declIndex(p *Prog) map[*types.Func]*declRef {
	if m, ok := declIndexCache[p]; ok {
		return m
	}
	m := map[*types.Func]*declRef{}
	for _, pk := range p.All {
		for _, f := range pk.Syntax {
			for _, d := range f.Decls {
				if fd, ok := d.(*ast.FuncDecl); ok && fd.Body != nil {
					if o, ok := pk.TypesInfo.Defs[fd.Name].(*types.Func); ok {
						m[o] = &declRef{fd, pk}
					}
				}
			}
		}
	}
	declIndexCache[p] = m
	return m
}

func newSev(p *Prog) *sev {
	return &sev{p: p, decls: declIndex(p), hypType: map[string]types.Type{}, assume: map[string]string{}, refine: map[string]constant.Value{}, assumeOK: map[string]bool{}}
}

func (s *sev) abort(format string, a ...any) {
	panic(sevAbort{fmt.Sprintf(format, a...)})
}

func (s *sev) note(n string) {
	for _, x := range s.notes {
		if x == n {
			return
		}
	}
	s.notes = append(s.notes, n)
}

// choose returns the decision for a fork key, requesting a fork when none was made yet.
func (s *sev) choose(key string, choices []string) string {
	if c, ok := s.assume[key]; ok {
		return c
	}
	panic(sevFork{key, choices})
}

// ---------------------------------------------------------------------------------------------
// zero values and cloning

func zeroOf(t types.Type) tv {
	switch u := types.Unalias(t).Underlying().(type) {
	case *types.Struct:
		return &tObj{T: t, F: map[string]*tcell{}}
	case *types.Basic:
		switch {
		case u.Info()&types.IsString != 0:
			return tConst{constant.MakeString("")}
		case u.Info()&types.IsBoolean != 0:
			return tConst{constant.MakeBool(false)}
		case u.Info()&types.IsNumeric != 0:
			return tConst{constant.MakeInt64(0)}
		}
	}
	return tNil{}
}

func cloneTV(v tv) tv {
	if o, ok := v.(*tObj); ok {
		n := &tObj{T: o.T, F: map[string]*tcell{}}
		for k, c := range o.F {
			n.F[k] = &tcell{cloneTV(c.v)}
		}
		return n
	}
	return v
}

func structOf(t types.Type) *types.Struct {
	t = types.Unalias(t)
	if p, ok := t.Underlying().(*types.Pointer); ok {
		t = types.Unalias(p.Elem())
	}
	st, _ := t.Underlying().(*types.Struct)
	return st
}

func derefT(t types.Type) types.Type {
	if p, ok := types.Unalias(t).Underlying().(*types.Pointer); ok {
		return p.Elem()
	}
	return t
}

// fieldCell returns the tcell of field name in the struct value base (auto-dereferencing pointers).
func (s *sev) fieldCell(base tv, name string, ft types.Type) *tcell {
	for {
		if p, ok := base.(*tPtr); ok {
			if p.C.v == nil {
				s.abort("field %s of an unset pointer", name)
			}
			base = p.C.v
			continue
		}
		break
	}
	switch b := base.(type) {
	case *tObj:
		c, ok := b.F[name]
		if !ok {
			c = &tcell{zeroOf(ft)}
			b.F[name] = c
		}
		return c
	case *tSym:
		return &tcell{&tSym{Name: b.Name + "." + name, T: ft}}
	case *tEnc:
		s.abort("field %s read from the recursive encoder's result", name)
	case tNil:
		s.abort("field %s of nil", name)
	}
	s.abort("field %s of %s", name, base.ts())
	return nil
}

// selectField follows a (possibly promoted) field selection.
func (s *sev) selectField(base tv, recvT types.Type, sel *types.Selection) *tcell {
	t := recvT
	var c *tcell
	idx := sel.Index()
	for i, ix := range idx {
		st := structOf(t)
		if st == nil {
			s.abort("selection through non-struct %s", typeShort(t))
		}
		f := st.Field(ix)
		c = s.fieldCell(base, f.Name(), f.Type())
		if i < len(idx)-1 {
			base = c.v
			t = f.Type()
		}
	}
	return c
}

// ---------------------------------------------------------------------------------------------
// calls

func (s *sev) newSym(prefix string, t types.Type) *tSym {
	s.nsym++
	return &tSym{Name: fmt.Sprintf("%s#%d", prefix, s.nsym), T: t}
}

func (s *sev) callDecl(fo *types.Func, recv tv, recvCell *tcell, args []tv, variadicPacked bool) tv {
	dr := s.decls[fo.Origin()]
	if dr == nil {
		return nil
	}
	if s.depth > 14 {
		s.abort("call depth exceeded at %s", fo.FullName())
	}
	s.depth++
	defer func() { s.depth-- }()
	fr := &sevFrame{pk: dr.pk, env: &sevEnv{vars: map[types.Object]*tcell{}}, fn: fo}
	fd := dr.fd
	sig := fo.Type().(*types.Signature)
	if fd.Recv != nil && len(fd.Recv.List) > 0 && len(fd.Recv.List[0].Names) > 0 {
		ro := dr.pk.TypesInfo.Defs[fd.Recv.List[0].Names[0]]
		if ro != nil {
			_, isPtr := types.Unalias(sig.Recv().Type()).Underlying().(*types.Pointer)
			var rv tv = recv
			if isPtr {
				if _, ok := recv.(*tPtr); !ok {
					if recvCell != nil {
						rv = &tPtr{recvCell}
					} else if _, isSym := recv.(*tSym); !isSym {
						rv = &tPtr{&tcell{recv}}
					}
				}
			} else {
				if pp, ok := recv.(*tPtr); ok {
					rv = pp.C.v
				}
				rv = cloneTV(rv)
			}
			fr.env.vars[ro] = &tcell{rv}
		}
	}
	i := 0
	for _, fl := range fd.Type.Params.List {
		for _, nm := range fl.Names {
			o := dr.pk.TypesInfo.Defs[nm]
			var v tv
			isVariadic := sig.Variadic() && i == sig.Params().Len()-1
			if isVariadic && !variadicPacked {
				rest := args[min(i, len(args)):]
				if len(rest) == 0 {
					v = tNil{}
				} else {
					v = &tSliceLit{T: sig.Params().At(i).Type(), Elems: append([]tv{}, rest...)}
				}
			} else if i < len(args) {
				v = args[i]
				if _, isStruct := v.(*tObj); isStruct {
					v = cloneTV(v)
				}
			} else {
				v = &tUnk{"missing arg"}
			}
			if o != nil {
				fr.env.vars[o] = &tcell{v}
			}
			i++
		}
		if len(fl.Names) == 0 {
			i++
		}
	}
	if fd.Type.Results != nil {
		for _, fl := range fd.Type.Results.List {
			for _, nm := range fl.Names {
				o := dr.pk.TypesInfo.Defs[nm]
				c := &tcell{zeroOf(o.Type())}
				fr.env.vars[o] = c
				fr.named = append(fr.named, c)
			}
		}
	}
	ctl := s.execBlock(fr, fd.Body.List)
	if ctl != ctlReturn {
		if sig.Results().Len() == 0 {
			return &tTuple{}
		}
		s.abort("%s ends without return", fo.FullName())
	}
	if len(fr.results) == 1 {
		return fr.results[0]
	}
	return &tTuple{fr.results}
}

func isErrT(t types.Type) bool { return isErrorType(t) }

func clipS(s string, n int) string {
	if len(s) > n {
		return s[:n] + "…"
	}
	return s
}

// isZeroTerm: the term is certainly the zero value of its type.
func isZeroTerm(v tv) bool {
	switch x := v.(type) {
	case nil, tNil:
		return true
	case tConst:
		switch x.V.Kind() {
		case constant.String:
			return constant.StringVal(x.V) == ""
		case constant.Bool:
			return !constant.BoolVal(x.V)
		case constant.Int:
			return constant.Sign(x.V) == 0
		}
	case *tObj:
		for _, c := range x.F {
			if !isZeroTerm(c.v) {
				return false
			}
		}
		return true
	}
	return false
}

// immutableArgs: none of the values can be written through by the callee (so an abandoned extraction of the callee
// leaves no half-made change behind).
func immutableArgs(recv tv, args []tv) bool {
	ok := func(v tv) bool {
		switch v.(type) {
		case nil, *tSym, tConst, tNil, *tCallU, *tLen, *tEnc:
			return true
		}
		return false
	}
	if !ok(recv) {
		return false
	}
	for _, a := range args {
		if !ok(a) {
			return false
		}
	}
	return true
}

// callFn applies a function value.
func (s *sev) callFn(fr *sevFrame, f *tFn, args []tv, packed bool, resT types.Type) tv {
	if f.Obj == nil {
		s.abort("call of unknown function value")
	}
	fo := f.Obj.Origin()
	recv, rc := f.Recv, f.RecvCell
	if f.MethodExpr {
		if len(args) == 0 {
			s.abort("method expression without receiver")
		}
		recv, rc, args = args[0], nil, args[1:]
	}
	// function-style pairs
	if !s.hookTop {
		for d, e := range s.fnPairs {
			sig := fo.Type().(*types.Signature)
			if fo == e && len(args) >= 1 {
				var res tv = &tEnc{X: args[len(args)-1], By: fo}
				if _, isPtr := types.Unalias(sig.Results().At(0).Type()).Underlying().(*types.Pointer); isPtr {
					res = &tPtr{&tcell{res}}
				}
				if sig.Results().Len() == 2 {
					return &tTuple{[]tv{res, tNil{}}}
				}
				return res
			}
			if fo == d && len(args) >= 1 {
				a := args[0]
				if pp, ok := a.(*tPtr); ok {
					a = pp.C.v
				}
				if en, ok := a.(*tEnc); ok && en.By == e {
					if sig.Results().Len() == 2 {
						return &tTuple{[]tv{en.X, tNil{}}}
					}
					return en.X
				}
				if s.depth > 0 {
					s.abort("summarised decoder %s applied to %s", fo.Name(), a.ts())
				}
			}
		}
	}
	// hooks: the codec under study (its outermost call is inlined, nested calls are summarised) and further pairs
	isEnc, isDec := s.encHook != nil && fo == s.encHook && !s.hookTop, s.decHook != nil && fo == s.decHook && !s.hookTop
	var pairedEnc *types.Func = s.encHook
	for d, e := range s.pairs {
		if fo == e {
			isEnc = true
		}
		if fo == d {
			isDec, pairedEnc = true, e
		}
	}
	if isEnc {
		target := rc
		if target == nil {
			if pp, ok := recv.(*tPtr); ok {
				target = pp.C
			}
		}
		if target == nil {
			s.abort("summarised encoder called on a non-addressable receiver")
		}
		for {
			pp, ok := target.v.(*tPtr)
			if !ok {
				break
			}
			target = pp.C // a pointer-typed receiver expression: the object it points to is what gets filled in
		}
		if !isZeroTerm(target.v) {
			s.abort("the encoder %s fills in only the members of the form it writes: it is applied here to an object that may still hold members from an earlier use (%s)", fo.Name(), clipS(target.v.ts(), 120))
		}
		target.v = &tEnc{X: args[0], By: fo}
		return &tTuple{}
	}
	if isDec {
		rv := recv
		if pp, ok := rv.(*tPtr); ok {
			rv = pp.C.v
		}
		if e, ok := rv.(*tEnc); ok {
			if e.By != pairedEnc {
				s.abort("decoder %s applied to the output of %s", fo.Name(), e.By.Name())
			}
			sig := fo.Type().(*types.Signature)
			var res tv = e.X
			if st := structOf(sig.Results().At(0).Type()); st != nil && st.NumFields() == 1 {
				// the decoder returns a one-field wrapper (ast.Node) around the node
				res = &tObj{T: sig.Results().At(0).Type(), F: map[string]*tcell{st.Field(0).Name(): {e.X}}}
			}
			return &tTuple{[]tv{res, tNil{}}}
		}
		if s.pairs[fo] != nil {
			s.abort("summarised decoder %s applied to %s", fo.Name(), rv.ts())
		}
		// a nodeJSON built some other way: decode it structurally
	}
	if sigR := fo.Type().(*types.Signature).Recv(); sigR != nil && !f.MethodExpr {
		if _, isIface := types.Unalias(sigR.Type()).Underlying().(*types.Interface); isIface {
			if dyn := s.dynType(recv); dyn != nil {
				if _, dynIface := types.Unalias(dyn).Underlying().(*types.Interface); !dynIface {
					sel := types.NewMethodSet(dyn).Lookup(fo.Pkg(), fo.Name())
					if sel == nil {
						sel = types.NewMethodSet(types.NewPointer(dyn)).Lookup(fo.Pkg(), fo.Name())
					}
					if sel != nil {
						// walk to the embedded value that declares the method
						base, t := recv, dyn
						idx := sel.Index()
						for _, ix := range idx[:len(idx)-1] {
							st := structOf(t)
							fld := st.Field(ix)
							c := s.fieldCell(base, fld.Name(), fld.Type())
							base, rc, t = c.v, c, fld.Type()
						}
						recv = base
						fo = sel.Obj().(*types.Func).Origin()
					}
				}
			}
		}
	}
	if name, ok := s.eventFns[fo]; ok {
		s.events = append(s.events, sevEvent{Kind: name, Args: append([]tv{}, args...), Loop: len(s.loops)})
		sig := fo.Type().(*types.Signature)
		if sig.Results().Len() == 0 {
			return &tTuple{}
		}
		return &tCallU{Name: name, Args: args}
	}
	// text sinks: (*bytes.Buffer).Write*, (*strings.Builder).Write*
	if fo.Pkg() != nil && (fo.Pkg().Path() == "bytes" || fo.Pkg().Path() == "strings") && strings.HasPrefix(fo.Name(), "Write") && len(args) == 1 && s.sink != "" && recv != nil && recv.ts() == s.sink {
		ev := sevEvent{Kind: "dyn", Args: []tv{args[0]}, Loop: len(s.loops)}
		if c, ok := args[0].(tConst); ok {
			ev.Kind = "lit"
			switch c.V.Kind() {
			case constant.String:
				ev.Text = constant.StringVal(c.V)
			case constant.Int:
				if n, ok := constant.Int64Val(c.V); ok {
					ev.Text = string(rune(n))
				}
			}
		} else {
			ev.Text = args[0].ts()
		}
		s.events = append(s.events, ev)
		return &tTuple{[]tv{&tCallU{Name: "n"}, tNil{}}}
	}
	wasTop := s.hookTop
	s.hookTop = false
	defer func() { s.hookTop = wasTop }()
	if fo.Pkg() != nil {
		switch fo.Pkg().Path() + "." + funcObjShort(fo) {
		case "maps.Keys":
			return &tKeys{Of: args[0]}
		case "slices.Sorted":
			if k, ok := args[0].(*tKeys); ok {
				return &tKeys{Of: k.Of, Sorted: true}
			}
		case "sort.Strings", "slices.Sort", "sort.Slice", "slices.SortFunc":
			if e, ok := args[0].(*tEach); ok {
				e.Sorted = true
				return &tTuple{}
			}
			if _, ok := args[0].(tNil); ok {
				return &tTuple{}
			}
			if _, ok := args[0].(*tAcc); ok {
				s.abort("sorting a collection while it is being accumulated")
			}
		case "fmt.Errorf", "errors.New":
			return &tErr{"constructed"}
		case "encoding/json.Marshal":
			v := args[0]
			if pp, ok := v.(*tPtr); ok {
				v = pp.C.v
			}
			return &tTuple{[]tv{&tCallU{Name: "json.Marshal", Args: []tv{v}}, tNil{}}}
		case "encoding/json.Unmarshal":
			if m, ok := args[0].(*tCallU); ok && m.Name == "json.Marshal" {
				if pp, ok := args[1].(*tPtr); ok {
					src := m.Args[0]
					if ps, ok := src.(*tPtr); ok {
						src = ps.C.v
					}
					// written through one struct type, read through another: members travel by their JSON names
					if so, ok := src.(*tObj); ok {
						if cur, ok := pp.C.v.(*tObj); ok && structOf(cur.T) != nil && !types.Identical(types.Unalias(cur.T).Underlying(), types.Unalias(so.T).Underlying()) {
							pp.C.v = jsonTransit(so, cur.T)
							return tNil{}
						}
					}
					pp.C.v = cloneTV(m.Args[0])
					return tNil{}
				}
			}
			// a raw message cut out of an enclosing document: it still carries the value that was encoded there
			switch raw := args[0].(type) {
			case *tEnc, *tObj:
				if pp, ok := args[1].(*tPtr); ok {
					pp.C.v = cloneTV(raw)
					return tNil{}
				}
			}
			// json.Unmarshal into an alloc'd variable evaluated as a plain value cell
			if m, ok := args[0].(*tCallU); ok && m.Name == "json.RawMessage" && len(m.Args) == 1 {
				if pp, ok := args[1].(*tPtr); ok {
					pp.C.v = cloneTV(m.Args[0])
					return tNil{}
				}
			}
			s.abort("json.Unmarshal of %s", args[0].ts())
		}
	}
	if s.opaque != nil && s.opaque(fo) {
		// fall through to the uninterpreted treatment below
	} else if immutableArgs(recv, args) && s.depth >= 1 {
		var res tv
		aborted := ""
		func() {
			defer func() {
				if e := recover(); e != nil {
					if a, ok := e.(sevAbort); ok {
						aborted = a.Why
						return
					}
					panic(e)
				}
			}()
			res = s.callDecl(fo, recv, rc, args, packed)
		}()
		if aborted == "" && res != nil {
			return res
		}
		if aborted != "" {
			s.note("treated as an uninterpreted function of its arguments: " + fo.FullName() + " (" + clipS(aborted, 160) + ")")
		}
	} else if res := s.callDecl(fo, recv, rc, args, packed); res != nil {
		return res
	}
	// no body available: uninterpreted
	sig := fo.Type().(*types.Signature)
	name := fo.FullName()
	var all []tv
	if recv != nil {
		all = append(all, recv)
	}
	all = append(all, args...)
	u := &tCallU{Name: name, Args: all}
	if sig.Results().Len() <= 1 {
		if sig.Results().Len() == 1 && isErrT(sig.Results().At(0).Type()) {
			s.note("assumed to succeed: " + name)
			return tNil{}
		}
		return u
	}
	var vs []tv
	for i := 0; i < sig.Results().Len(); i++ {
		if isErrT(sig.Results().At(i).Type()) {
			s.note("assumed to succeed: " + name)
			vs = append(vs, tNil{})
		} else {
			vs = append(vs, &tCallU{Name: fmt.Sprintf("%s.%d", name, i), Args: all})
		}
	}
	return &tTuple{vs}
}

// ---------------------------------------------------------------------------------------------
// expressions

func (s *sev) deref(v tv) tv {
	if p, ok := v.(*tPtr); ok {
		if p.C.v == nil {
			s.abort("dereference of unset pointer")
		}
		return p.C.v
	}
	return v
}

func (s *sev) convert(T types.Type, x tv) tv {
	switch v := x.(type) {
	case tConst:
		if b, ok := T.Underlying().(*types.Basic); ok {
			switch {
			case b.Info()&types.IsString != 0 && v.V.Kind() == constant.String:
				return v
			case b.Info()&types.IsNumeric != 0 && v.V.Kind() == constant.Int:
				return v
			case b.Info()&types.IsBoolean != 0:
				return v
			}
		}
		return &tCallU{Name: "conv:" + typeShort(T), Args: []tv{x}}
	case *tSym:
		if types.Identical(types.Unalias(v.T).Underlying(), types.Unalias(T).Underlying()) {
			return &tSym{Name: v.Name, T: T}
		}
		if p1, ok := types.Unalias(v.T).Underlying().(*types.Pointer); ok {
			if p2, ok := types.Unalias(T).Underlying().(*types.Pointer); ok && types.Identical(types.Unalias(p1.Elem()).Underlying(), types.Unalias(p2.Elem()).Underlying()) {
				return &tSym{Name: v.Name, T: T}
			}
		}
		_, isI := T.Underlying().(*types.Interface)
		if isI {
			return v
		}
		return &tCallU{Name: "conv:" + typeShort(T), Args: []tv{x}}
	case *tObj:
		if types.Identical(types.Unalias(v.T).Underlying(), types.Unalias(T).Underlying()) {
			n := cloneTV(v).(*tObj)
			n.T = T
			return n
		}
	case *tPtr, tNil, *tEach, *tMapEach, *tMapLit, *tSliceLit, *tEnc:
		return x
	}
	if _, isI := T.Underlying().(*types.Interface); isI {
		return x
	}
	return &tCallU{Name: "conv:" + typeShort(T), Args: []tv{x}}
}

func (s *sev) isNil(v tv) (isNil, known bool) {
	switch x := v.(type) {
	case tNil:
		return true, true
	case *tPtr, *tObj, *tEach, *tMapEach, *tMapLit, *tEnc, *tFn, *tKeys, *tErr, *tAcc, *tMapUnion:
		return false, true
	case *tSliceLit:
		return false, true
	case tConst:
		return false, true
	case *tSym:
		c := s.choose("nil:"+x.Name, []string{"nil", "set"})
		return c == "nil", true
	case *tCallU:
		return false, false
	}
	return false, false
}

func (s *sev) lenOf(v tv) (int, bool) {
	switch x := v.(type) {
	case tNil:
		return 0, true
	case *tSliceLit:
		if x.LenOf != nil {
			return 0, false
		}
		return len(x.Elems), true
	case *tMapLit:
		return len(x.Keys), true
	case tConst:
		if x.V.Kind() == constant.String {
			return len(constant.StringVal(x.V)), true
		}
	}
	return 0, false
}

// emptinessSource: an element-wise image is empty exactly when the collection it was built from is.
func emptinessSource(v tv) tv {
	for i := 0; i < 8; i++ {
		switch x := v.(type) {
		case *tEach:
			v = x.Over
			continue
		case *tMapEach:
			v = x.Over
			continue
		}
		break
	}
	return v
}

func sameTerm(a, b tv) bool {
	if a == nil || b == nil {
		return false
	}
	return a.ts() == b.ts()
}

func (s *sev) evalBinary(fr *sevFrame, e *ast.BinaryExpr) tv {
	switch e.Op {
	case token.LAND, token.LOR:
		l := s.truth(fr, e.X)
		if e.Op == token.LAND && !l {
			return tConst{constant.MakeBool(false)}
		}
		if e.Op == token.LOR && l {
			return tConst{constant.MakeBool(true)}
		}
		return tConst{constant.MakeBool(s.truth(fr, e.Y))}
	}
	x, y := s.eval(fr, e.X), s.eval(fr, e.Y)
	mk := func(b bool) tv { return tConst{constant.MakeBool(b)} }
	switch e.Op {
	case token.EQL, token.NEQ:
		neg := e.Op == token.NEQ
		_, xn := x.(tNil)
		_, yn := y.(tNil)
		if xn || yn {
			o := x
			if xn {
				o = y
			}
			if xn && yn {
				return mk(!neg)
			}
			n, known := s.isNil(o)
			if !known {
				s.abort("nil test of %s undecidable", o.ts())
			}
			return mk(n != neg)
		}
		cx, okx := x.(tConst)
		cy, oky := y.(tConst)
		if okx && oky {
			return mk(constant.Compare(cx.V, token.EQL, cy.V) != neg)
		}
		// len(x) == 0 / != 0 on a symbolic collection: split on emptiness
		if l, ok := x.(*tLen); ok && oky {
			if n, ok := constant.Int64Val(cy.V); ok && n == 0 {
				c := s.choose("empty:"+emptinessSource(l.X).ts(), []string{"empty", "nonempty"})
				return mk((c == "empty") != neg)
			}
		}
		// symbolic == constant: split
		if sx, ok := x.(*tSym); ok && oky {
			return mk(s.symEq(sx, cy) != neg)
		}
		if sy, ok := y.(*tSym); ok && okx {
			return mk(s.symEq(sy, cx) != neg)
		}
		if sameTerm(x, y) {
			return mk(!neg)
		}
		if strings.HasPrefix(x.ts(), "prev(") != strings.HasPrefix(y.ts(), "prev(") {
			for i := len(s.loops) - 1; i >= 0; i-- {
				if s.loops[i].distinct {
					s.note("keys of the visited collection are distinct: an earlier iteration's key never equals the current one")
					return mk(neg)
				}
			}
		}
		c := s.choose("eq:"+x.ts()+"=="+y.ts(), []string{"true", "false"})
		return mk((c == "true") != neg)
	case token.LSS, token.GTR, token.LEQ, token.GEQ:
		cx, okx := x.(tConst)
		cy, oky := y.(tConst)
		if okx && oky {
			return mk(constant.Compare(cx.V, e.Op, cy.V))
		}
		// len(x) > 0 and friends on symbolic collections: split on emptiness
		if l, ok := x.(*tLen); ok && oky {
			if n, ok := constant.Int64Val(cy.V); ok && ((e.Op == token.GTR && n == 0) || (e.Op == token.GEQ && n == 1)) {
				c := s.choose("empty:"+emptinessSource(l.X).ts(), []string{"empty", "nonempty"})
				return mk(c == "nonempty")
			}
		}
		c := s.choose("cmp:"+x.ts()+e.Op.String()+y.ts(), []string{"true", "false"})
		return mk(c == "true")
	case token.ADD:
		cx, okx := x.(tConst)
		cy, oky := y.(tConst)
		if okx && oky {
			return tConst{constant.BinaryOp(cx.V, token.ADD, cy.V)}
		}
		return &tCallU{Name: "+", Args: []tv{x, y}}
	case token.SUB, token.MUL, token.QUO, token.REM:
		cx, okx := x.(tConst)
		cy, oky := y.(tConst)
		if okx && oky && cx.V.Kind() == constant.Int && cy.V.Kind() == constant.Int && (e.Op == token.SUB || e.Op == token.MUL) {
			return tConst{constant.BinaryOp(cx.V, e.Op, cy.V)}
		}
		return &tCallU{Name: e.Op.String(), Args: []tv{x, y}}
	}
	s.abort("binary operator %s", e.Op)
	return nil
}

// symEq decides sym == const by splitting; a positive decision refines the symbol.
func (s *sev) symEq(sx *tSym, c tConst) bool {
	if r, ok := s.refine[sx.Name]; ok {
		return constant.Compare(r, token.EQL, c.V)
	}
	if b, ok := types.Unalias(sx.T).Underlying().(*types.Basic); ok && b.Info()&types.IsBoolean != 0 {
		ch := s.choose("bool:"+sx.Name, []string{"true", "false"})
		s.refine[sx.Name] = constant.MakeBool(ch == "true")
		return constant.Compare(s.refine[sx.Name], token.EQL, c.V)
	}
	ch := s.choose("eq:"+sx.Name+"=="+c.ts(), []string{"true", "false"})
	if ch == "true" {
		s.refine[sx.Name] = c.V
		return true
	}
	return false
}

func (s *sev) truth(fr *sevFrame, e ast.Expr) bool {
	v := s.eval(fr, e)
	switch x := v.(type) {
	case tConst:
		if x.V.Kind() == constant.Bool {
			return constant.BoolVal(x.V)
		}
	case *tSym:
		if r, ok := s.refine[x.Name]; ok && r.Kind() == constant.Bool {
			return constant.BoolVal(r)
		}
		ch := s.choose("bool:"+x.Name, []string{"true", "false"})
		s.refine[x.Name] = constant.MakeBool(ch == "true")
		return ch == "true"
	case *tCallU:
		if x.Name == "assumed-ok" {
			return true
		}
		ch := s.choose("bool:"+x.ts(), []string{"true", "false"})
		return ch == "true"
	}
	s.abort("condition %s is not decidable (%s)", types.ExprString(e), v.ts())
	return false
}

func (s *sev) eval(fr *sevFrame, e ast.Expr) tv {
	s.steps++
	if s.steps > 200000 {
		s.abort("evaluation too long")
	}
	info := fr.pk.TypesInfo
	if tvv, ok := info.Types[e]; ok && tvv.Value != nil {
		return tConst{tvv.Value}
	}
	switch x := e.(type) {
	case *ast.ParenExpr:
		return s.eval(fr, x.X)
	case *ast.BasicLit:
		return tConst{info.Types[e].Value}
	case *ast.Ident:
		if x.Name == "_" {
			return &tUnk{"blank"}
		}
		o := info.Uses[x]
		if o == nil {
			o = info.Defs[x]
		}
		switch ob := o.(type) {
		case *types.Nil:
			return tNil{}
		case *types.Const:
			return tConst{ob.Val()}
		case *types.Var:
			if c := fr.env.lookup(ob); c != nil {
				if c.v == nil {
					s.abort("use of unset variable %s", x.Name)
				}
				return c.v
			}
			// package-level variable
			return &tSym{Name: "global:" + ob.Pkg().Name() + "." + ob.Name(), T: ob.Type()}
		case *types.Func:
			return &tFn{Obj: ob}
		}
		s.abort("identifier %s", x.Name)
	case *ast.SelectorExpr:
		if sel, ok := info.Selections[x]; ok {
			switch sel.Kind() {
			case types.FieldVal:
				base := s.eval(fr, x.X)
				return s.selectField(base, sel.Recv(), sel).v
			case types.MethodVal:
				base := s.eval(fr, x.X)
				var rc *tcell
				if s.addressable(fr, x.X) {
					rc = s.lval(fr, x.X)
				}
				// promoted method through embedded fields: walk to the embedded value
				if idx := sel.Index(); len(idx) > 1 {
					t := sel.Recv()
					for _, ix := range idx[:len(idx)-1] {
						st := structOf(t)
						f := st.Field(ix)
						c := s.fieldCell(base, f.Name(), f.Type())
						base, rc, t = c.v, c, f.Type()
					}
				}
				return &tFn{Obj: sel.Obj().(*types.Func), Recv: base, RecvCell: rc}
			case types.MethodExpr:
				return &tFn{Obj: sel.Obj().(*types.Func), MethodExpr: true}
			}
		}
		// qualified identifier
		switch ob := info.Uses[x.Sel].(type) {
		case *types.Const:
			return tConst{ob.Val()}
		case *types.Var:
			return &tSym{Name: "global:" + ob.Pkg().Name() + "." + ob.Name(), T: ob.Type()}
		case *types.Func:
			return &tFn{Obj: ob}
		}
		s.abort("selector %s", types.ExprString(x))
	case *ast.StarExpr:
		return s.deref(s.eval(fr, x.X))
	case *ast.UnaryExpr:
		switch x.Op {
		case token.AND:
			if cl, ok := ast.Unparen(x.X).(*ast.CompositeLit); ok {
				return &tPtr{&tcell{s.eval(fr, cl)}}
			}
			return &tPtr{s.lval(fr, x.X)}
		case token.NOT:
			return tConst{constant.MakeBool(!s.truth(fr, x.X))}
		case token.SUB:
			v := s.eval(fr, x.X)
			if c, ok := v.(tConst); ok {
				return tConst{constant.UnaryOp(token.SUB, c.V, 0)}
			}
			return &tCallU{Name: "neg", Args: []tv{v}}
		}
		s.abort("unary %s", x.Op)
	case *ast.BinaryExpr:
		return s.evalBinary(fr, x)
	case *ast.CompositeLit:
		return s.evalComposite(fr, x)
	case *ast.CallExpr:
		return s.evalCall(fr, x)
	case *ast.IndexExpr:
		if tvv, ok := info.Types[x.X]; ok && tvv.IsType() {
			s.abort("generic instantiation expression")
		}
		if _, isFn := info.Types[x.X].Type.Underlying().(*types.Signature); isFn {
			return s.eval(fr, x.X) // explicit instantiation f[T]
		}
		base := s.eval(fr, x.X)
		idx := s.eval(fr, x.Index)
		v, _ := s.index(fr, base, idx, info.Types[e].Type)
		return v
	case *ast.TypeAssertExpr:
		v := s.eval(fr, x.X)
		T := info.Types[x.Type].Type
		return s.assertTo(v, T)
	case *ast.FuncLit:
		return &tCallU{Name: "func-literal"} // may be passed around (comparators); applying it is not modelled
	case *ast.SliceExpr:
		base := s.deref(s.eval(fr, x.X))
		if sym, ok := base.(*tSym); ok && !x.Slice3 {
			lo, hi := "", ""
			if x.Low != nil {
				lo = s.eval(fr, x.Low).ts()
			}
			if x.High != nil {
				hi = s.eval(fr, x.High).ts()
			}
			return &tSym{Name: sym.Name + "[" + lo + ":" + hi + "]", T: info.Types[e].Type}
		}
		s.abort("slice expression on %s", base.ts())
	case *ast.KeyValueExpr:
		s.abort("key-value outside literal")
	}
	s.abort("expression %T", e)
	return nil
}

func (s *sev) assertTo(v tv, T types.Type) tv {
	switch x := v.(type) {
	case *tSym:
		return &tSym{Name: x.Name, T: T}
	}
	return v
}

// index evaluates base[idx]; the bool is the comma-ok result.
func (s *sev) index(fr *sevFrame, base, idx tv, resT types.Type) (tv, tv) {
	base = s.deref(base)
	okT := tConst{constant.MakeBool(true)}
	okF := tConst{constant.MakeBool(false)}
	switch b := base.(type) {
	case *tAcc:
		if b.IsMap && len(s.loops) > 0 && s.loops[len(s.loops)-1].distinct {
			s.note("keys of the visited collection are distinct: a key is never found among earlier iterations' entries")
			return zeroOf(resT), okF
		}
		if b.IsMap {
			c := s.choose("seen-before:"+idx.ts(), []string{"first", "repeat"})
			if c == "first" {
				return zeroOf(resT), okF
			}
			return &tSym{Name: "prev(" + b.Prev.ts() + ")", T: resT}, okT
		}
	case *tMapEach:
		if sameTerm(idx, b.Key) {
			return b.Val, okT
		}
	case *tMapLit:
		for i, k := range b.Keys {
			if sameTerm(k, idx) {
				return b.Vals[i], okT
			}
		}
		if len(b.Keys) == 0 {
			// fresh local map probed with a key of the element being visited: first occurrence (distinct keys)
			s.note("assumed: keys of the visited collection are distinct (first-occurrence path of a local index map)")
			return zeroOf(resT), okF
		}
	case *tSliceLit:
		if c, ok := idx.(tConst); ok {
			if n, ok := constant.Int64Val(c.V); ok && int(n) < len(b.Elems) && b.Elems[n] != nil {
				return b.Elems[n], okT
			}
		}
	case *tSym:
		if strings.HasPrefix(b.Name, "global:") {
			s.note("assumed present: lookup of " + idx.ts() + " in " + b.Name)
			return &tSym{Name: b.Name + "[" + idx.ts() + "]", T: resT}, &tCallU{Name: "assumed-ok"}
		}
		if c, ok := idx.(tConst); ok && !strings.HasPrefix(b.Name, "global:") {
			return &tSym{Name: b.Name + "[" + c.ts() + "]", T: resT}, okT
		}
		// loop-index access to the ranged collection
		for i := len(s.loops) - 1; i >= 0; i-- {
			lc := s.loops[i]
			if sameTerm(lc.over, b) && lc.elem != nil {
				if is, ok := idx.(*tSym); ok && lc.idxObj != nil && is.Name == "idx:"+lc.elem.Name {
					return lc.elem, okT
				}
			}
		}
	}
	s.abort("index %s[%s]", base.ts(), idx.ts())
	return nil, nil
}

func (s *sev) evalComposite(fr *sevFrame, x *ast.CompositeLit) tv {
	info := fr.pk.TypesInfo
	T := info.Types[x].Type
	switch u := types.Unalias(T).Underlying().(type) {
	case *types.Struct:
		o := &tObj{T: T, F: map[string]*tcell{}}
		for i, el := range x.Elts {
			if kv, ok := el.(*ast.KeyValueExpr); ok {
				name := kv.Key.(*ast.Ident).Name
				v := s.eval(fr, kv.Value)
				if _, isS := v.(*tObj); isS {
					v = cloneTV(v)
				}
				o.F[name] = &tcell{v}
			} else {
				v := s.eval(fr, el)
				o.F[u.Field(i).Name()] = &tcell{v}
			}
		}
		return o
	case *types.Slice, *types.Array:
		sl := &tSliceLit{T: T}
		for _, el := range x.Elts {
			if kv, ok := el.(*ast.KeyValueExpr); ok {
				el = kv.Value
			}
			if cl, ok := el.(*ast.CompositeLit); ok && cl.Type == nil {
				// elided element type
				sl.Elems = append(sl.Elems, s.evalComposite(fr, cl))
				continue
			}
			sl.Elems = append(sl.Elems, s.eval(fr, el))
		}
		return sl
	case *types.Map:
		m := &tMapLit{T: T}
		for _, el := range x.Elts {
			kv := el.(*ast.KeyValueExpr)
			m.Keys = append(m.Keys, s.eval(fr, kv.Key))
			m.Vals = append(m.Vals, s.eval(fr, kv.Value))
		}
		return m
	}
	s.abort("composite literal of %s", typeShort(T))
	return nil
}

func (s *sev) addressable(fr *sevFrame, e ast.Expr) bool {
	switch x := ast.Unparen(e).(type) {
	case *ast.Ident:
		_, ok := fr.pk.TypesInfo.Uses[x].(*types.Var)
		return ok && fr.env.lookup(fr.pk.TypesInfo.Uses[x]) != nil
	case *ast.SelectorExpr:
		if sel, ok := fr.pk.TypesInfo.Selections[x]; ok && sel.Kind() == types.FieldVal {
			if _, isPtr := types.Unalias(fr.pk.TypesInfo.Types[x.X].Type).Underlying().(*types.Pointer); isPtr {
				return true
			}
			return s.addressable(fr, x.X)
		}
	case *ast.StarExpr:
		return true
	}
	return false
}

func (s *sev) lval(fr *sevFrame, e ast.Expr) *tcell {
	info := fr.pk.TypesInfo
	switch x := ast.Unparen(e).(type) {
	case *ast.Ident:
		o := info.Uses[x]
		if o == nil {
			o = info.Defs[x]
		}
		if c := fr.env.lookup(o); c != nil {
			return c
		}
		s.abort("assignment to non-local %s", x.Name)
	case *ast.SelectorExpr:
		if sel, ok := info.Selections[x]; ok && sel.Kind() == types.FieldVal {
			var base tv
			if s.addressable(fr, x.X) {
				bc := s.lval(fr, x.X)
				if bc.v == nil {
					bc.v = zeroOf(info.Types[x.X].Type)
				}
				base = bc.v
			} else {
				base = s.eval(fr, x.X)
			}
			c := s.selectField(base, sel.Recv(), sel)
			if _, isSym := s.deref(base).(*tSym); isSym {
				// reading through an address is fine (method receivers); a store into it is not modelled
				if s.symCells == nil {
					s.symCells = map[*tcell]bool{}
				}
				s.symCells[c] = true
			}
			return c
		}
	case *ast.StarExpr:
		v := s.eval(fr, x.X)
		if p, ok := v.(*tPtr); ok {
			return p.C
		}
		s.abort("store through %s", v.ts())
	}
	s.abort("unsupported assignment target %s", types.ExprString(e))
	return nil
}

func (s *sev) evalCall(fr *sevFrame, x *ast.CallExpr) tv {
	info := fr.pk.TypesInfo
	// conversion
	if tvv, ok := info.Types[x.Fun]; ok && tvv.IsType() {
		return s.convert(tvv.Type, s.eval(fr, x.Args[0]))
	}
	// builtins
	if id, ok := ast.Unparen(x.Fun).(*ast.Ident); ok {
		if _, isB := info.Uses[id].(*types.Builtin); isB {
			return s.evalBuiltin(fr, id.Name, x)
		}
	}
	fv := s.eval(fr, x.Fun)
	f, ok := fv.(*tFn)
	if !ok {
		s.abort("call of %s", fv.ts())
	}
	var args []tv
	for _, a := range x.Args {
		v := s.eval(fr, a)
		if t, ok := v.(*tTuple); ok && len(x.Args) == 1 {
			args = append(args, t.Vs...)
		} else {
			args = append(args, v)
		}
	}
	return s.callFn(fr, f, args, x.Ellipsis.IsValid(), info.Types[x].Type)
}

func (s *sev) evalBuiltin(fr *sevFrame, name string, x *ast.CallExpr) tv {
	info := fr.pk.TypesInfo
	switch name {
	case "len":
		v := s.deref(s.eval(fr, x.Args[0]))
		if n, ok := s.lenOf(v); ok {
			return tConst{constant.MakeInt64(int64(n))}
		}
		return &tLen{v}
	case "make":
		T := info.Types[x.Args[0]].Type
		switch T.Underlying().(type) {
		case *types.Map:
			return &tMapLit{T: T}
		case *types.Slice:
			sl := &tSliceLit{T: T}
			if len(x.Args) >= 2 {
				n := s.eval(fr, x.Args[1])
				if c, ok := n.(tConst); ok {
					if k, ok := constant.Int64Val(c.V); ok && k == 0 {
						return sl
					}
				}
				if len(x.Args) == 2 {
					sl.LenOf = n
				}
			}
			return sl
		}
	case "new":
		T := info.Types[x.Args[0]].Type
		return &tPtr{&tcell{zeroOf(T)}}
	case "append":
		base := s.eval(fr, x.Args[0])
		var add []tv
		for _, a := range x.Args[1:] {
			v := s.eval(fr, a)
			if _, isS := v.(*tObj); isS {
				v = cloneTV(v)
			}
			add = append(add, v)
		}
		if x.Ellipsis.IsValid() {
			// append(a, b...): concatenation of known slices; onto an empty slice it is b itself
			if len(add) == 1 {
				_, baseNil := base.(tNil)
				bs, baseLit := base.(*tSliceLit)
				switch b := add[0].(type) {
				case *tSliceLit:
					if baseNil {
						return b
					}
					if baseLit && bs.LenOf == nil && b.LenOf == nil {
						return &tSliceLit{T: bs.T, Elems: append(append([]tv{}, bs.Elems...), b.Elems...)}
					}
				case *tEach, *tSym:
					if baseNil || (baseLit && len(bs.Elems) == 0 && bs.LenOf == nil) {
						return add[0]
					}
				case tNil:
					return base
				}
			}
			s.abort("append with ellipsis of %s onto %s", add[0].ts(), base.ts())
		}
		switch b := base.(type) {
		case *tAcc:
			return &tSliceLit{T: info.Types[x].Type, Elems: add, FromAcc: true}
		case tNil:
			return &tSliceLit{T: info.Types[x].Type, Elems: add}
		case *tSliceLit:
			if b.LenOf != nil {
				s.abort("append to a pre-sized slice")
			}
			return &tSliceLit{T: b.T, Elems: append(append([]tv{}, b.Elems...), add...)}
		}
		return &tCallU{Name: "append", Args: append([]tv{base}, add...)}
	case "panic":
		s.abort("reaches panic")
	case "delete", "copy", "clear", "cap", "min", "max":
		s.abort("builtin %s", name)
	}
	s.abort("builtin %s", name)
	return nil
}

// ---------------------------------------------------------------------------------------------
// statements

type ctl int

const (
	ctlNone ctl = iota
	ctlReturn
	ctlContinue
	ctlBreak
)

func (s *sev) execBlock(fr *sevFrame, list []ast.Stmt) ctl {
	for _, st := range list {
		if c := s.exec(fr, st); c != ctlNone {
			return c
		}
	}
	return ctlNone
}

func (s *sev) scoped(fr *sevFrame, f func() ctl) ctl {
	saved := fr.env
	fr.env = &sevEnv{vars: map[types.Object]*tcell{}, parent: saved}
	defer func() { fr.env = saved }()
	return f()
}

func (s *sev) define(fr *sevFrame, id *ast.Ident, v tv) {
	if id.Name == "_" {
		return
	}
	info := fr.pk.TypesInfo
	if o := info.Defs[id]; o != nil {
		fr.env.vars[o] = &tcell{v}
		return
	}
	o := info.Uses[id]
	if c := fr.env.lookup(o); c != nil {
		s.store(fr, c, v)
		return
	}
	s.abort("assignment to %s", id.Name)
}

// store writes v into c, routing writes to collections of an enclosing frame through the loop collector.
func (s *sev) store(fr *sevFrame, c *tcell, v tv) {
	c.v = v
}

func (s *sev) assign(fr *sevFrame, lhs ast.Expr, v tv, def bool) {
	if _, isS := v.(*tObj); isS {
		v = cloneTV(v)
	}
	switch x := ast.Unparen(lhs).(type) {
	case *ast.Ident:
		if x.Name == "_" {
			return
		}
		if def {
			s.define(fr, x, v)
			return
		}
		c := s.lval(fr, x)
		s.loopAwareStore(fr, c, v)
		return
	case *ast.IndexExpr:
		base := s.lval(fr, x.X)
		idx := s.eval(fr, x.Index)
		s.indexStore(fr, base, idx, v)
		return
	}
	c := s.lval(fr, lhs)
	s.loopAwareStore(fr, c, v)
}

// loopAwareStore: inside a symbolic loop, `outer = append(outer, e)` is recorded as the per-element image.
func (s *sev) loopAwareStore(fr *sevFrame, c *tcell, v tv) {
	if s.symCells[c] {
		s.abort("store into a field of a symbolic input")
	}
	if len(s.loops) > 0 {
		lc := s.loops[len(s.loops)-1]
		if s.isOuterCell(lc, c) {
			// lazily creating an empty collection (if m == nil { m = T{} }) changes nothing observable
			if ml, ok := v.(*tMapLit); ok && len(ml.Keys) == 0 {
				if _, wasNil := c.v.(tNil); wasNil || c.v == nil {
					c.v = v
					return
				}
			}
			// append form?
			if sl, ok := v.(*tSliceLit); ok && sl.FromAcc && len(sl.Elems) == 1 {
				if _, dup := lc.appends[c]; dup {
					s.abort("two appends to the same collection in one iteration")
				}
				lc.appends[c] = []tv{sl.Elems[0]}
				return
			}
			if a, ok := v.(*tAcc); ok && c.v == v {
				_ = a
				return // x = x (e.g. `in = f(in)` returning its argument unchanged)
			}
			if sl, ok := v.(*tSliceLit); ok {
				prev, _ := c.v.(*tSliceLit)
				np := 0
				if prev != nil {
					np = len(prev.Elems)
				}
				_, prevNil := c.v.(tNil)
				if (prev != nil || prevNil || c.v == nil) && len(sl.Elems) == np+1 {
					if _, dup := lc.appends[c]; dup {
						s.abort("two appends to the same collection in one iteration")
					}
					if np != 0 {
						s.abort("append inside a loop to a collection that already has elements")
					}
					lc.appends[c] = []tv{sl.Elems[np]}
					return
				}
			}
			if cu, ok := v.(*tCallU); ok && cu.Name == "append" && len(cu.Args) == 2 {
				if e, ok := cu.Args[0].(*tEach); ok && sameTerm(e.Over, lc.over) {
					s.abort("second pass over an already collected slice")
				}
			}
			s.abort("store to an outer variable inside a loop (%s)", v.ts())
		}
	}
	c.v = v
}

func (s *sev) isOuterCell(lc *loopCollector, c *tcell) bool {
	// a tcell is "outer" when it is reachable from the environment outside the loop
	for e := lc.outer; e != nil; e = e.parent {
		for _, vc := range e.vars {
			if vc == c || reachesCell(vc.v, c, 0) {
				return true
			}
		}
	}
	return false
}

// jsonTransit carries the members of a struct term written by encoding/json into a struct of another type read by
// encoding/json: members are matched by JSON name; a value read into a pointer-typed member becomes a pointer to it;
// members the reader has no field for are dropped, members the writer did not write stay zero.
func jsonTransit(src *tObj, targetT types.Type) tv {
	out := &tObj{T: targetT, F: map[string]*tcell{}}
	sst, tst := structOf(src.T), structOf(targetT)
	if sst == nil || tst == nil {
		return cloneTV(src)
	}
	byName := map[string]tv{}
	for i := 0; i < sst.NumFields(); i++ {
		f := sst.Field(i)
		name, _, skip := jsonTag(f, sst.Tag(i))
		if skip || !f.Exported() {
			continue
		}
		if c, ok := src.F[f.Name()]; ok && c.v != nil {
			byName[name] = c.v
		}
	}
	for i := 0; i < tst.NumFields(); i++ {
		f := tst.Field(i)
		name, _, skip := jsonTag(f, tst.Tag(i))
		if skip || !f.Exported() {
			continue
		}
		v, ok := byName[name]
		if !ok {
			continue
		}
		if _, isNil := v.(tNil); isNil {
			continue
		}
		_, wantPtr := types.Unalias(f.Type()).Underlying().(*types.Pointer)
		_, isPtr := v.(*tPtr)
		switch {
		case wantPtr && !isPtr:
			inner := v
			if so, ok := v.(*tObj); ok && structOf(derefT(f.Type())) != nil {
				inner = jsonTransit(so, derefT(f.Type()))
			}
			v = &tPtr{&tcell{inner}}
		case !wantPtr && isPtr:
			v = v.(*tPtr).C.v
		}
		if so, ok := v.(*tObj); ok && structOf(f.Type()) != nil && !wantPtr {
			v = jsonTransit(so, f.Type())
		}
		if pp, ok := v.(*tPtr); ok && wantPtr {
			if so, ok := pp.C.v.(*tObj); ok && structOf(derefT(f.Type())) != nil && !types.Identical(types.Unalias(so.T).Underlying(), types.Unalias(derefT(f.Type())).Underlying()) {
				v = &tPtr{&tcell{jsonTransit(so, derefT(f.Type()))}}
			}
		}
		out.F[f.Name()] = &tcell{v}
	}
	return out
}

// collectMapCells records the current value of every cell (reachable from c) that holds a map union.
func collectMapCells(c *tcell, out map[*tcell]tv, d int) {
	if c == nil || d > 6 {
		return
	}
	switch x := c.v.(type) {
	case *tMapUnion:
		out[c] = x
	case *tObj:
		for _, fc := range x.F {
			collectMapCells(fc, out, d+1)
		}
	case *tPtr:
		collectMapCells(x.C, out, d+1)
	}
}

func reachesCell(v tv, c *tcell, d int) bool {
	if d > 6 || v == nil {
		return false
	}
	switch x := v.(type) {
	case *tObj:
		for _, fc := range x.F {
			if fc == c || reachesCell(fc.v, c, d+1) {
				return true
			}
		}
	case *tPtr:
		return x.C == c || reachesCell(x.C.v, c, d+1)
	}
	return false
}

func (s *sev) indexStore(fr *sevFrame, base *tcell, idx, v tv) {
	if s.symCells[base] {
		s.abort("store into an element of a symbolic input")
	}
	if len(s.loops) > 0 {
		lc := s.loops[len(s.loops)-1]
		if s.isOuterCell(lc, base) {
			switch b := base.v.(type) {
			case *tAcc:
				if b.IsMap {
					if _, dup := lc.mapSets[base]; dup {
						s.abort("two stores to the same map in one iteration")
					}
					lc.mapSets[base] = [2]tv{idx, v}
					return
				}
			case *tMapEach, *tMapUnion:
				if _, dup := lc.mapSets[base]; dup {
					s.abort("two stores to the same map in one iteration")
				}
				if lc.prior == nil {
					lc.prior = map[*tcell][]*tMapEach{}
				}
				switch pv := base.v.(type) {
				case *tMapEach:
					lc.prior[base] = []*tMapEach{pv}
				case *tMapUnion:
					lc.prior[base] = pv.Parts
				}
				lc.mapSets[base] = [2]tv{idx, v}
				return
			case *tMapLit:
				if len(b.Keys) != 0 {
					// literal entries first, then one entry per element: a union
					if _, dup := lc.mapSets[base]; dup {
						s.abort("two stores to the same map in one iteration")
					}
					if lc.priorLit == nil {
						lc.priorLit = map[*tcell]*tMapLit{}
					}
					lc.priorLit[base] = b
					lc.mapSets[base] = [2]tv{idx, v}
					return
				}
				if _, dup := lc.mapSets[base]; dup {
					s.abort("two stores to the same map in one iteration")
				}
				lc.mapSets[base] = [2]tv{idx, v}
				return
			case *tSliceLit:
				if is, ok := idx.(*tSym); ok && is.Name == "idx:"+lc.elem.Name && b.LenOf != nil {
					if l, ok := b.LenOf.(*tLen); ok && (sameTerm(l.X, lc.over) || sameTerm(l.X, lc.ranged)) {
						lc.idxSets[base] = v
						return
					}
				}
				// res[i+1] = v.v style (offset copies)
				if cu, ok := idx.(*tCallU); ok && cu.Name == "+" {
					s.abort("offset index store in loop")
				}
			case *tObj:
			}
			s.abort("indexed store in loop: %s[%s]", base.v.ts(), idx.ts())
		}
	}
	switch b := base.v.(type) {
	case *tMapLit:
		for i, k := range b.Keys {
			if sameTerm(k, idx) {
				b.Vals[i] = v
				return
			}
		}
		b.Keys = append(b.Keys, idx)
		b.Vals = append(b.Vals, v)
		return
	case *tSliceLit:
		if c, ok := idx.(tConst); ok {
			if n, ok := constant.Int64Val(c.V); ok {
				nb := &tSliceLit{T: b.T, Elems: append([]tv{}, b.Elems...), LenOf: b.LenOf}
				for int(n) >= len(nb.Elems) {
					nb.Elems = append(nb.Elems, nil)
				}
				nb.Elems[n] = v
				base.v = nb
				return
			}
		}
	}
	s.abort("indexed store %s[%s]", base.v.ts(), idx.ts())
}

func (s *sev) exec(fr *sevFrame, st ast.Stmt) ctl {
	info := fr.pk.TypesInfo
	switch x := st.(type) {
	case *ast.BlockStmt:
		return s.scoped(fr, func() ctl { return s.execBlock(fr, x.List) })
	case *ast.ExprStmt:
		s.eval(fr, x.X)
		return ctlNone
	case *ast.EmptyStmt:
		return ctlNone
	case *ast.DeclStmt:
		gd := x.Decl.(*ast.GenDecl)
		for _, sp := range gd.Specs {
			vs, ok := sp.(*ast.ValueSpec)
			if !ok {
				continue
			}
			for i, nm := range vs.Names {
				if nm.Name == "_" {
					continue
				}
				o := info.Defs[nm]
				var v tv
				if i < len(vs.Values) {
					v = s.eval(fr, vs.Values[i])
					if vs.Type != nil {
						v = s.convert(info.Types[vs.Type].Type, v)
					}
				} else {
					v = zeroOf(o.Type())
				}
				fr.env.vars[o] = &tcell{v}
			}
		}
		return ctlNone
	case *ast.AssignStmt:
		def := x.Tok == token.DEFINE
		if x.Tok != token.ASSIGN && x.Tok != token.DEFINE {
			// op-assign
			if len(x.Lhs) == 1 {
				c := s.lval(fr, x.Lhs[0])
				c.v = &tCallU{Name: x.Tok.String(), Args: []tv{c.v, s.eval(fr, x.Rhs[0])}}
				return ctlNone
			}
			s.abort("assignment operator %s", x.Tok)
		}
		if len(x.Lhs) == len(x.Rhs) {
			vals := make([]tv, len(x.Rhs))
			for i, r := range x.Rhs {
				vals[i] = s.eval(fr, r)
			}
			for i, l := range x.Lhs {
				s.assign(fr, l, vals[i], def)
			}
			return ctlNone
		}
		if len(x.Rhs) == 1 {
			var vals []tv
			switch r := ast.Unparen(x.Rhs[0]).(type) {
			case *ast.IndexExpr:
				base := s.eval(fr, r.X)
				idx := s.eval(fr, r.Index)
				v, ok := s.index(fr, base, idx, info.Types[r].Type)
				vals = []tv{v, ok}
			case *ast.TypeAssertExpr:
				v := s.eval(fr, r.X)
				T := info.Types[r.Type].Type
				okv := s.typeTest(v, T)
				vals = []tv{s.assertTo(v, T), tConst{constant.MakeBool(okv)}}
			default:
				v := s.eval(fr, x.Rhs[0])
				t, ok := v.(*tTuple)
				if !ok || len(t.Vs) != len(x.Lhs) {
					s.abort("tuple assignment from %s", v.ts())
				}
				vals = t.Vs
			}
			for i, l := range x.Lhs {
				s.assign(fr, l, vals[i], def)
			}
			return ctlNone
		}
		s.abort("assignment shape")
	case *ast.IncDecStmt:
		c := s.lval(fr, x.X)
		if k, ok := c.v.(tConst); ok {
			d := int64(1)
			if x.Tok == token.DEC {
				d = -1
			}
			c.v = tConst{constant.BinaryOp(k.V, token.ADD, constant.MakeInt64(d))}
		} else {
			c.v = &tCallU{Name: x.Tok.String(), Args: []tv{c.v}}
		}
		return ctlNone
	case *ast.ReturnStmt:
		if len(x.Results) == 0 {
			for _, c := range fr.named {
				fr.results = append(fr.results, c.v)
			}
			return ctlReturn
		}
		var rs []tv
		for _, r := range x.Results {
			v := s.eval(fr, r)
			if t, ok := v.(*tTuple); ok && len(x.Results) == 1 {
				rs = append(rs, t.Vs...)
			} else {
				rs = append(rs, v)
			}
		}
		fr.results = rs
		return ctlReturn
	case *ast.IfStmt:
		return s.scoped(fr, func() ctl {
			if x.Init != nil {
				if c := s.exec(fr, x.Init); c != ctlNone {
					return c
				}
			}
			if s.truth(fr, x.Cond) {
				return s.exec(fr, x.Body)
			}
			if x.Else != nil {
				return s.exec(fr, x.Else)
			}
			return ctlNone
		})
	case *ast.SwitchStmt:
		return s.scoped(fr, func() ctl { return s.execSwitch(fr, x) })
	case *ast.TypeSwitchStmt:
		return s.scoped(fr, func() ctl { return s.execTypeSwitch(fr, x) })
	case *ast.RangeStmt:
		return s.scoped(fr, func() ctl { return s.execRange(fr, x) })
	case *ast.BranchStmt:
		switch x.Tok {
		case token.CONTINUE:
			if x.Label != nil {
				s.abort("labelled continue")
			}
			return ctlContinue
		case token.BREAK:
			if x.Label != nil {
				s.abort("labelled break")
			}
			return ctlBreak
		}
		s.abort("branch %s", x.Tok)
	case *ast.ForStmt:
		// the classic index loop over a collection is a range over it: for i := 0; i < len(X); i++ { … X[i] … }
		if rs := indexLoopAsRange(x); rs != nil {
			return s.scoped(fr, func() ctl { return s.execRange(fr, rs) })
		}
		s.abort("for loop of a shape other than `for i := 0; i < len(x); i++`")
	}
	s.abort("statement %T", st)
	return ctlNone
}

func (s *sev) execSwitch(fr *sevFrame, x *ast.SwitchStmt) ctl {
	if x.Init != nil {
		if c := s.exec(fr, x.Init); c != ctlNone {
			return c
		}
	}
	var tag tv
	if x.Tag != nil {
		tag = s.eval(fr, x.Tag)
	}
	var def *ast.CaseClause
	run := func(cc *ast.CaseClause) ctl {
		c := s.scoped(fr, func() ctl { return s.execBlock(fr, cc.Body) })
		if c == ctlBreak {
			return ctlNone
		}
		for _, st := range cc.Body {
			if b, ok := st.(*ast.BranchStmt); ok && b.Tok == token.FALLTHROUGH {
				s.abort("fallthrough")
			}
		}
		return c
	}
	// a symbolic tag compared with constants: one split over all the case constants (+ "other")
	if sym, ok := tag.(*tSym); ok {
		if _, refined := s.refine[sym.Name]; !refined {
			var choices []string
			allConst := true
			for _, st := range x.Body.List {
				cc := st.(*ast.CaseClause)
				for _, e := range cc.List {
					v := s.eval(fr, e)
					if c, ok := v.(tConst); ok {
						choices = append(choices, c.ts())
					} else {
						allConst = false
					}
				}
			}
			if allConst && len(choices) > 0 {
				choices = append(choices, "<other>")
				ch := s.choose("switch:"+sym.Name, choices)
				if ch != "<other>" {
					for _, st := range x.Body.List {
						cc := st.(*ast.CaseClause)
						for _, e := range cc.List {
							if c := s.eval(fr, e).(tConst); c.ts() == ch {
								s.refine[sym.Name] = c.V
								return run(cc)
							}
						}
					}
				}
				s.refine[sym.Name] = constant.MakeString("<other:" + strings.Join(choices, ",") + ">")
				for _, st := range x.Body.List {
					if cc := st.(*ast.CaseClause); cc.List == nil {
						return run(cc)
					}
				}
				return ctlNone
			}
		}
	}
	for _, st := range x.Body.List {
		cc := st.(*ast.CaseClause)
		if cc.List == nil {
			def = cc
			continue
		}
		for _, e := range cc.List {
			hit := false
			if x.Tag == nil {
				hit = s.truth(fr, e)
			} else {
				v := s.eval(fr, e)
				ct, ok1 := tag.(tConst)
				cv, ok2 := v.(tConst)
				switch {
				case ok1 && ok2:
					hit = constant.Compare(ct.V, token.EQL, cv.V)
				default:
					if sym, ok := tag.(*tSym); ok && ok2 {
						hit = s.symEq(sym, cv)
					} else {
						s.abort("switch tag %s vs %s", tag.ts(), v.ts())
					}
				}
			}
			if hit {
				return run(cc)
			}
		}
	}
	if def != nil {
		return run(def)
	}
	return ctlNone
}

// typeTest decides v.(T) under the hypotheses.
func (s *sev) typeTest(v tv, T types.Type) bool {
	dyn := s.dynType(v)
	if dyn == nil {
		s.abort("dynamic type of %s is not fixed by a hypothesis", v.ts())
	}
	if it, ok := T.Underlying().(*types.Interface); ok {
		return types.Implements(dyn, it)
	}
	return types.Identical(types.Unalias(dyn), types.Unalias(T))
}

func (s *sev) dynType(v tv) types.Type {
	switch x := v.(type) {
	case *tSym:
		if h, ok := s.hypType[x.Name]; ok {
			return h
		}
		if _, isI := types.Unalias(x.T).Underlying().(*types.Interface); !isI {
			return x.T
		}
		return nil
	case *tObj:
		return x.T
	case *tPtr:
		if o, ok := x.C.v.(*tObj); ok {
			return types.NewPointer(o.T)
		}
	}
	return nil
}

func (s *sev) execTypeSwitch(fr *sevFrame, x *ast.TypeSwitchStmt) ctl {
	info := fr.pk.TypesInfo
	if x.Init != nil {
		if c := s.exec(fr, x.Init); c != ctlNone {
			return c
		}
	}
	var operand ast.Expr
	var bind *ast.Ident
	switch a := x.Assign.(type) {
	case *ast.AssignStmt:
		operand = a.Rhs[0].(*ast.TypeAssertExpr).X
		bind = a.Lhs[0].(*ast.Ident)
	case *ast.ExprStmt:
		operand = a.X.(*ast.TypeAssertExpr).X
	}
	v := s.eval(fr, operand)
	var def *ast.CaseClause
	run := func(cc *ast.CaseClause, T types.Type) ctl {
		return s.scoped(fr, func() ctl {
			if bind != nil {
				if o := info.Implicits[cc]; o != nil {
					bv := v
					if T != nil {
						bv = s.assertTo(v, T)
					}
					fr.env.vars[o] = &tcell{bv}
				}
			}
			c := s.execBlock(fr, cc.Body)
			if c == ctlBreak {
				return ctlNone
			}
			return c
		})
	}
	if _, isNil := v.(tNil); isNil {
		for _, st := range x.Body.List {
			cc := st.(*ast.CaseClause)
			if cc.List == nil {
				def = cc
			}
			for _, e := range cc.List {
				if info.Types[e].IsNil() {
					return run(cc, nil)
				}
			}
		}
		if def != nil {
			return run(def, nil)
		}
		return ctlNone
	}
	for _, st := range x.Body.List {
		cc := st.(*ast.CaseClause)
		if cc.List == nil {
			def = cc
			continue
		}
		for _, e := range cc.List {
			if info.Types[e].IsNil() {
				continue
			}
			T := info.Types[e].Type
			if s.typeTest(v, T) {
				if len(cc.List) == 1 {
					return run(cc, T)
				}
				return run(cc, nil)
			}
		}
	}
	if def != nil {
		return run(def, nil)
	}
	return ctlNone
}

// indexLoopAsRange rewrites `for i := 0; i < len(X); i++ {body}` as `for i := range X {body}` (the body may only use i
// to index X, which the range evaluation checks by resolving X[i] to the representative element).
func indexLoopAsRange(f *ast.ForStmt) *ast.RangeStmt {
	init, ok := f.Init.(*ast.AssignStmt)
	if !ok || init.Tok != token.DEFINE || len(init.Lhs) != 1 || len(init.Rhs) != 1 {
		return nil
	}
	iv, ok := init.Lhs[0].(*ast.Ident)
	if !ok {
		return nil
	}
	if lit, ok := init.Rhs[0].(*ast.BasicLit); !ok || lit.Value != "0" {
		return nil
	}
	cond, ok := f.Cond.(*ast.BinaryExpr)
	if !ok || cond.Op != token.LSS {
		return nil
	}
	if ci, ok := cond.X.(*ast.Ident); !ok || ci.Name != iv.Name {
		return nil
	}
	call, ok := cond.Y.(*ast.CallExpr)
	if !ok || len(call.Args) != 1 {
		return nil
	}
	if fn, ok := call.Fun.(*ast.Ident); !ok || fn.Name != "len" {
		return nil
	}
	post, ok := f.Post.(*ast.IncDecStmt)
	if !ok || post.Tok != token.INC {
		return nil
	}
	if pi, ok := post.X.(*ast.Ident); !ok || pi.Name != iv.Name {
		return nil
	}
	return &ast.RangeStmt{Key: iv, Tok: token.DEFINE, X: call.Args[0], Body: f.Body}
}

func elemTypeOf(t types.Type) types.Type {
	switch u := types.Unalias(t).Underlying().(type) {
	case *types.Slice:
		return u.Elem()
	case *types.Array:
		return u.Elem()
	case *types.Map:
		return u.Elem()
	case *types.Pointer:
		return elemTypeOf(u.Elem())
	}
	return nil
}

func (s *sev) execRange(fr *sevFrame, x *ast.RangeStmt) ctl {
	over := s.deref(s.eval(fr, x.X))
	if u, ok := over.(*tMapUnion); ok {
		if u.Lit != nil && len(u.Lit.Keys) > 0 {
			if c := s.scoped(fr, func() ctl { return s.execRangeOn(fr, x, u.Lit) }); c != ctlNone {
				return c
			}
		}
		for _, part := range u.Parts {
			if c := s.scoped(fr, func() ctl { return s.execRangeOn(fr, x, part) }); c != ctlNone {
				return c
			}
		}
		return ctlNone
	}
	return s.execRangeOn(fr, x, over)
}

func (s *sev) execRangeOn(fr *sevFrame, x *ast.RangeStmt, over tv) ctl {
	info := fr.pk.TypesInfo
	overT := info.Types[x.X].Type
	bindKV := func(k, v tv) {
		if x.Key != nil {
			if id, ok := x.Key.(*ast.Ident); ok && id.Name != "_" {
				if x.Tok == token.DEFINE {
					fr.env.vars[info.Defs[id]] = &tcell{k}
				} else {
					s.lval(fr, id).v = k
				}
			}
		}
		if x.Value != nil {
			if id, ok := x.Value.(*ast.Ident); ok && id.Name != "_" {
				if x.Tok == token.DEFINE {
					fr.env.vars[info.Defs[id]] = &tcell{v}
				} else {
					s.lval(fr, id).v = v
				}
			}
		}
	}
	runConcrete := func(keys, vals []tv) ctl {
		for i := range vals {
			c := s.scoped(fr, func() ctl {
				var k tv = tConst{constant.MakeInt64(int64(i))}
				if keys != nil {
					k = keys[i]
				}
				if x.Tok != token.DEFINE {
					// assignment to outer variables (for k, v = range m)
					bindKV(k, vals[i])
					return s.execBlock(fr, x.Body.List)
				}
				bindKV(k, vals[i])
				return s.execBlock(fr, x.Body.List)
			})
			switch c {
			case ctlReturn:
				return c
			case ctlBreak:
				return ctlNone
			}
		}
		return ctlNone
	}
	switch o := over.(type) {
	case tNil:
		return ctlNone
	case *tSliceLit:
		if o.LenOf == nil {
			return runConcrete(nil, o.Elems)
		}
	case *tMapLit:
		if len(o.Keys) <= 1 {
			return runConcrete(o.Keys, o.Vals)
		}
		s.abort("range over a literal map with several entries (order)")
	}
	// symbolic iteration: one representative element
	lc := &loopCollector{over: over, ranged: over, appends: map[*tcell][]tv{}, idxSets: map[*tcell]tv{}, mapSets: map[*tcell][2]tv{}, outer: fr.env}
	var kTerm, vTerm tv
	switch o := over.(type) {
	case *tSym:
		et := elemTypeOf(overT)
		if et == nil {
			s.abort("range over %s", typeShort(overT))
		}
		lc.elem = s.newSym("elem("+o.Name+")", et)
		if _, isMap := types.Unalias(overT).Underlying().(*types.Map); isMap {
			kt := types.Unalias(overT).Underlying().(*types.Map).Key()
			kTerm = &tSym{Name: "key:" + lc.elem.Name, T: kt}
			lc.sorted = false
		} else {
			kTerm = &tSym{Name: "idx:" + lc.elem.Name, T: types.Typ[types.Int]}
		}
		vTerm = lc.elem
		if id, ok := x.Key.(*ast.Ident); ok && id.Name != "_" {
			lc.idxObj = info.Defs[id]
		}
	case *tEach:
		lc.elem = o.Elem
		lc.over = o.Over
		lc.sorted = o.Sorted
		lc.distinct = o.Sorted // a sorted image comes from the keys of a map
		kTerm = &tSym{Name: "idx:" + o.Elem.Name, T: types.Typ[types.Int]}
		vTerm = o.Body
	case *tMapEach:
		lc.elem = o.Elem
		lc.over = o.Over
		kTerm, vTerm = o.Key, o.Val
		lc.sorted = false
		lc.distinct = true
		s.note("range over a map built per element of " + o.Over.ts())
	case *tAcc:
		if o.IsMap {
			s.abort("range over an accumulated map")
		}
		prev := &tSym{Name: "prev(" + o.Prev.ts() + ")", T: elemTypeOf(overT)}
		lc.elem = prev
		kTerm = &tSym{Name: "idx:" + prev.Name, T: types.Typ[types.Int]}
		vTerm = prev
		if len(s.loops) > 0 {
			lc.distinct = s.loops[len(s.loops)-1].distinct
		}
	case *tKeys:
		if _, isNil := s.deref(o.Of).(tNil); isNil {
			return ctlNone
		}
		m, ok := s.deref(o.Of).(*tMapEach)
		if !ok {
			if ms, ok := s.deref(o.Of).(*tSym); ok {
				// keys of a symbolic map
				mt, _ := types.Unalias(ms.T).Underlying().(*types.Map)
				if mt == nil {
					s.abort("keys of %s", ms.ts())
				}
				lc.elem = s.newSym("elem("+ms.Name+")", mt.Elem())
				lc.over = ms
				kTerm = &tSym{Name: "idx:" + lc.elem.Name, T: types.Typ[types.Int]}
				vTerm = &tSym{Name: "key:" + lc.elem.Name, T: mt.Key()}
				lc.sorted = o.Sorted
				break
			}
			s.abort("range over keys of %s", o.Of.ts())
		}
		lc.elem = m.Elem
		lc.over = m.Over
		lc.sorted = o.Sorted
		lc.distinct = true
		kTerm = &tSym{Name: "idx:" + m.Elem.Name, T: types.Typ[types.Int]}
		vTerm = m.Key
	case *tCallU:
		// an uninterpreted collection (e.g. the iterator a method of a symbolic value returns): one representative element
		var et types.Type
		if id, ok := x.Value.(*ast.Ident); ok && id.Name != "_" && info.Defs[id] != nil {
			et = info.Defs[id].Type()
		} else if id, ok := x.Key.(*ast.Ident); ok && id.Name != "_" && info.Defs[id] != nil {
			et = info.Defs[id].Type()
		}
		if et == nil {
			s.abort("range over %s", over.ts())
		}
		lc.elem = s.newSym("elem("+o.ts()+")", et)
		if _, isFn := types.Unalias(overT).Underlying().(*types.Signature); isFn && x.Value == nil {
			kTerm = lc.elem // range-over-func with one variable: it is the yielded value
		} else {
			kTerm = &tSym{Name: "idx:" + lc.elem.Name, T: types.Typ[types.Int]}
		}
		vTerm = lc.elem
	default:
		s.abort("range over %s", over.ts())
	}
	if s.assume["empty:"+emptinessSource(over).ts()] == "empty" {
		return ctlNone
	}
	runBody := func() ctl {
		s.loops = append(s.loops, lc)
		c := s.scoped(fr, func() ctl {
			bindKV(kTerm, vTerm)
			return s.execBlock(fr, x.Body.List)
		})
		s.loops = s.loops[:len(s.loops)-1]
		if c == ctlReturn {
			if n := len(fr.results); n > 0 {
				if _, isErr := fr.results[n-1].(*tErr); isErr {
					return ctlReturn // an iteration that fails makes the function fail
				}
			}
			s.abort("loop body returns on the success path")
		}
		if c == ctlBreak {
			s.abort("loop body breaks on the success path")
		}
		return c
	}
	nsymAtLoop := s.nsym
	saved2 := map[*tcell]tv{}
	for e := fr.env; e != nil; e = e.parent {
		for _, vc := range e.vars {
			collectMapCells(vc, saved2, 0)
		}
	}
	if runBody() == ctlReturn {
		return ctlReturn
	}
	if len(lc.appends)+len(lc.mapSets) > 0 {
		// second pass: the body must behave the same when the collections already hold earlier iterations' entries
		first := map[*tcell]string{}
		saved := map[*tcell]tv{}
		for cl, vs := range lc.appends {
			first[cl] = vs[0].ts()
			saved[cl] = cl.v
			cl.v = &tAcc{Prev: vs[0]}
		}
		for cl, kv := range lc.mapSets {
			first[cl] = kv[0].ts() + ":" + kv[1].ts()
			saved[cl] = cl.v
			cl.v = &tAcc{Prev: kv[1], IsMap: true, Key: kv[0]}
		}
		lc.appends, lc.mapSets, lc.idxSets = map[*tcell][]tv{}, map[*tcell][2]tv{}, map[*tcell]tv{}
		nsymAfter := s.nsym
		s.nsym = nsymAtLoop // the second pass names nested representative elements as the first did
		runBody()
		if s.nsym < nsymAfter {
			s.nsym = nsymAfter
		}
		for cl, want := range first {
			got := ""
			if vs, ok := lc.appends[cl]; ok {
				got = vs[0].ts()
			} else if kv, ok := lc.mapSets[cl]; ok {
				got = kv[0].ts() + ":" + kv[1].ts()
			}
			if got != want && strings.Contains(got, ":len(acc(") && strings.HasSuffix(want, ":0") && strings.TrimSuffix(want, "0") == got[:strings.Index(got, ":len(acc(")+1] {
				continue // an index map recording each key's position in the accumulated slice
			}
			if got != want {
				s.abort("loop body depends on what earlier iterations accumulated (first: %s, later: %s)", want, got)
			}
		}
	}
	for cl, vs := range lc.appends {
		cl.v = &tEach{Over: lc.over, Elem: lc.elem, Body: vs[0], Sorted: lc.sorted}
	}
	for cl, v := range lc.idxSets {
		cl.v = &tEach{Over: lc.over, Elem: lc.elem, Body: v, Sorted: lc.sorted}
	}
	for cl, kv := range lc.mapSets {
		me := &tMapEach{Over: lc.over, Elem: lc.elem, Key: kv[0], Val: kv[1]}
		if pr, ok := lc.prior[cl]; ok {
			u := &tMapUnion{Parts: append(append([]*tMapEach{}, pr...), me)}
			if pu, ok := saved2[cl].(*tMapUnion); ok {
				u.Lit = pu.Lit
			}
			cl.v = u
		} else if pl, ok := lc.priorLit[cl]; ok {
			cl.v = &tMapUnion{Lit: pl, Parts: []*tMapEach{me}}
		} else {
			cl.v = me
		}
	}
	return ctlNone
}

// ---------------------------------------------------------------------------------------------
// drivers

type sevOutcome struct {
	Assume map[string]string
	Refine map[string]constant.Value
	Notes  []string
	Abort  string
	Result tv
	State  any
}

// runForks evaluates body under every combination of fork decisions it asks for (bounded).
func runForks(mk func() *sev, body func(s *sev) (tv, any)) []sevOutcome {
	return runForksWith(nil, mk, body)
}

// runForksWith starts from preset decisions (hypotheses of the row family being extracted).
func runForksWith(preset map[string]string, mk func() *sev, body func(s *sev) (tv, any)) []sevOutcome {
	var out []sevOutcome
	var rec func(assume map[string]string, order []string)
	rec = func(assume map[string]string, order []string) {
		if len(out) > 200 {
			return
		}
		s := mk()
		for k, v := range assume {
			s.assume[k] = v
		}
		var res tv
		var state any
		var fork *sevFork
		var abortWhy string
		func() {
			defer func() {
				if e := recover(); e != nil {
					switch x := e.(type) {
					case sevFork:
						fork = &x
					case sevAbort:
						abortWhy = x.Why
					default:
						panic(e)
					}
				}
			}()
			res, state = body(s)
		}()
		if fork != nil {
			for _, ch := range fork.Choices {
				na := map[string]string{}
				for k, v := range assume {
					na[k] = v
				}
				na[fork.Key] = ch
				rec(na, append(order, fork.Key))
			}
			return
		}
		out = append(out, sevOutcome{Assume: assume, Refine: s.refine, Notes: s.notes, Abort: abortWhy, Result: res, State: state})
	}
	start := map[string]string{}
	for k, v := range preset {
		start[k] = v
	}
	rec(start, nil)
	if len(out) > 200 {
		out = append(out, sevOutcome{Assume: map[string]string{}, Abort: "more than 200 rows: the extraction was cut off (split the hypotheses)"})
	}
	return out
}

func assumeString(a map[string]string) string {
	var ks []string
	for k := range a {
		ks = append(ks, k)
	}
	sort.Strings(ks)
	var parts []string
	for _, k := range ks {
		parts = append(parts, k+"="+a[k])
	}
	return strings.Join(parts, " ")
}

// identity lists the differences between term out and the symbolic input sym (same type): every field must come
// from the same field of sym.
func (s *sev) identity(out tv, sym *tSym, allowSorted func(path string) bool) []string {
	var diffs []string
	var rec func(o tv, want *tSym, path string, d int)
	rec = func(o tv, want *tSym, path string, d int) {
		if d > 12 {
			return
		}
		if p, ok := o.(*tPtr); ok {
			o = p.C.v
		}
		switch x := o.(type) {
		case *tSym:
			if x.Name == want.Name {
				_, xi := types.Unalias(x.T).Underlying().(*types.Interface)
				_, wi := types.Unalias(want.T).Underlying().(*types.Interface)
				if x.T != nil && want.T != nil && !xi && !wi && namedOf(x.T) != nil && namedOf(want.T) != nil && !sameNamed(x.T, want.T) && d == 0 {
					diffs = append(diffs, fmt.Sprintf("%s: comes back as a %s, it was a %s", path, typeShort(x.T), typeShort(want.T)))
				}
				return
			}
			diffs = append(diffs, fmt.Sprintf("%s: holds %s, expected %s", path, x.Name, want.Name))
			return
		case tConst:
			if r, ok := s.refine[want.Name]; ok && constant.Compare(r, token.EQL, x.V) {
				return
			}
			diffs = append(diffs, fmt.Sprintf("%s: holds the constant %s, expected %s", path, x.ts(), want.Name))
			return
		case *tObj:
			st := structOf(want.T)
			if st == nil || !types.Identical(types.Unalias(x.T).Underlying(), types.Unalias(derefT(want.T)).Underlying()) || (!sameNamed(x.T, derefT(want.T)) && !(s.looseNamed && d == 0)) {
				diffs = append(diffs, fmt.Sprintf("%s: is a %s, expected %s (%s)", path, typeShort(x.T), typeShort(want.T), want.Name))
				return
			}
			for i := 0; i < st.NumFields(); i++ {
				f := st.Field(i)
				fv := zeroOf(f.Type())
				if c, ok := x.F[f.Name()]; ok && c.v != nil {
					fv = c.v
				}
				rec(fv, &tSym{Name: want.Name + "." + f.Name(), T: f.Type()}, path+"."+f.Name(), d+1)
			}
			return
		case *tEach:
			if !sameTerm(x.Over, want) {
				diffs = append(diffs, fmt.Sprintf("%s: built from %s, expected from %s", path, x.Over.ts(), want.Name))
				return
			}
			if x.Sorted && (allowSorted == nil || !allowSorted(path)) {
				diffs = append(diffs, fmt.Sprintf("%s: elements are re-ordered (sorted by key)", path))
			}
			rec(x.Body, x.Elem, path+"[]", d+1)
			return
		case *tMapEach:
			if _, isMap := types.Unalias(want.T).Underlying().(*types.Map); !isMap {
				diffs = append(diffs, fmt.Sprintf("%s: is a map, expected %s", path, want.Name))
				return
			}
			if !sameTerm(x.Over, want) {
				diffs = append(diffs, fmt.Sprintf("%s: built from %s, expected from %s", path, x.Over.ts(), want.Name))
				return
			}
			if x.Key.ts() != "key:"+x.Elem.Name {
				diffs = append(diffs, fmt.Sprintf("%s: entries are keyed by %s, expected the original key", path, x.Key.ts()))
			}
			rec(x.Val, x.Elem, path+"[*]", d+1)
			return
		case *tMapUnion:
			// exactly one part may come from the wanted map; the others must be over collections assumed empty
			matched := 0
			for _, part := range x.Parts {
				if sameTerm(part.Over, want) {
					matched++
					rec(part, want, path, d+1)
				} else if s.assume["empty:"+emptinessSource(part.Over).ts()] != "empty" {
					diffs = append(diffs, fmt.Sprintf("%s: also receives entries built from %s", path, part.Over.ts()))
				}
			}
			if matched == 0 && s.assume["empty:"+want.Name] != "empty" {
				diffs = append(diffs, fmt.Sprintf("%s: no entries come from %s", path, want.Name))
			}
			return
		case *tMapLit:
			if len(x.Keys) == 0 && s.assume["empty:"+want.Name] == "empty" {
				return
			}
			diffs = append(diffs, fmt.Sprintf("%s: holds %s, expected %s", path, x.ts(), want.Name))
			return
		case tNil:
			if st := structOf(want.T); st != nil && st.NumFields() == 0 {
				return
			}
			if s.assume["empty:"+want.Name] == "empty" {
				return // the row was extracted for an empty collection; nil and empty are the same content
			}
			if s.assume["nil:"+want.Name] == "nil" {
				return // the row was extracted for an absent (nil) value
			}
			diffs = append(diffs, fmt.Sprintf("%s: is nil/zero, expected %s (lost)", path, want.Name))
			return
		}
		// a struct with no fields equals any value of its type
		diffs = append(diffs, fmt.Sprintf("%s: holds %s, expected %s", path, o.ts(), want.Name))
	}
	rec(out, sym, "$", 0)
	return diffs
}

func sameNamed(a, b types.Type) bool {
	na, nb := namedOf(a), namedOf(b)
	if na == nil || nb == nil {
		return na == nb
	}
	return na.Obj() == nb.Obj()
}
