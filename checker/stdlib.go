package main

// Frozen summaries of the standard-library entry points the repository calls (E5 trusted base).
// One line of justification per entry. An untabled callee whose parameters cannot carry a
// reference to mutable memory is treated as pure with fresh results; any other untabled callee
// is *undecided* (reported as a failure by the checks that depend on E5).

import (
	"go/types"
	"strings"

	"golang.org/x/tools/go/ssa"
)

type stdSpec struct {
	writes      []int    // parameters (receiver = 0) whose memory is written
	flows       [][2]int // dst <- src
	retAlias    []int    // result 0 may alias these parameters
	retFresh    bool     // result 0 may be freshly allocated
	retContains []int    // a fresh result may contain pointers into these parameters
	callbacks   string   // "marshal:i", "unmarshal:i": invokes the repo's (Un)MarshalJSON methods on argument i
	why         string
}

var stdTable = map[string]stdSpec{
	"(*bytes.Buffer).Write":                          {writes: []int{0}, why: "appends to the buffer"},
	"(*bytes.Buffer).WriteByte":                      {writes: []int{0}, why: "appends to the buffer"},
	"(*bytes.Buffer).WriteRune":                      {writes: []int{0}, why: "appends to the buffer"},
	"(*bytes.Buffer).WriteString":                    {writes: []int{0}, why: "appends to the buffer"},
	"(*bytes.Buffer).Reset":                          {writes: []int{0}, why: "truncates the buffer"},
	"(*bytes.Buffer).Truncate":                       {writes: []int{0}, why: "truncates the buffer"},
	"(*bytes.Buffer).Bytes":                          {retAlias: []int{0}, why: "returns the buffer's storage"},
	"(*bytes.Buffer).String":                         {why: "copies"},
	"(*bytes.Buffer).Len":                            {why: "reads"},
	"(*strings.Builder).Write":                       {writes: []int{0}, why: "appends"},
	"(*strings.Builder).WriteByte":                   {writes: []int{0}, why: "appends"},
	"(*strings.Builder).WriteRune":                   {writes: []int{0}, why: "appends"},
	"(*strings.Builder).WriteString":                 {writes: []int{0}, why: "appends"},
	"(*strings.Builder).String":                      {why: "strings are immutable"},
	"(*strings.Builder).Len":                         {why: "reads"},
	"(*strings.Builder).Grow":                        {writes: []int{0}, why: "reallocates"},
	"(*strings.Builder).Reset":                       {writes: []int{0}, why: "resets"},
	"bytes.NewBuffer":                                {retFresh: true, retContains: []int{0}, why: "wraps the slice"},
	"bytes.NewBufferString":                          {retFresh: true, why: "copies the string"},
	"bytes.NewReader":                                {retFresh: true, retContains: []int{0}, why: "wraps the slice read-only"},
	"bytes.Join":                                     {retFresh: true, why: "allocates"},
	"bytes.Equal":                                    {why: "reads"},
	"bytes.HasPrefix":                                {why: "reads"},
	"bytes.TrimSpace":                                {retAlias: []int{0}, why: "sub-slice"},
	"encoding/json.Marshal":                          {retFresh: true, callbacks: "marshal:0", why: "reads v via reflection and MarshalJSON methods"},
	"encoding/json.MarshalIndent":                    {retFresh: true, callbacks: "marshal:0", why: "as Marshal"},
	"encoding/json.Unmarshal":                        {writes: []int{1}, callbacks: "unmarshal:1", why: "fills *v"},
	"encoding/json.NewDecoder":                       {retFresh: true, retContains: []int{0}, why: "wraps the reader"},
	"encoding/json.NewEncoder":                       {retFresh: true, retContains: []int{0}, why: "wraps the writer"},
	"(*encoding/json.Decoder).Decode":                {writes: []int{0, 1}, callbacks: "unmarshal:1", why: "advances the decoder, fills *v"},
	"(*encoding/json.Decoder).DisallowUnknownFields": {writes: []int{0}, why: "sets a flag"},
	"(*encoding/json.Decoder).UseNumber":             {writes: []int{0}, why: "sets a flag"},
	"(*encoding/json.Decoder).More":                  {writes: []int{0}, why: "may read ahead"},
	"(*encoding/json.Decoder).Token":                 {writes: []int{0}, retFresh: true, why: "advances"},
	"(*encoding/json.Encoder).Encode":                {writes: []int{0}, callbacks: "marshal:1", why: "writes to the underlying writer"},
	"(encoding/json.Number).Int64":                   {why: "parses a string"},
	"(encoding/json.Number).Float64":                 {why: "parses a string"},
	"(encoding/json.Number).String":                  {why: "string"},
	"encoding/json.Valid":                            {why: "reads"},
	"encoding/binary.Write":                          {writes: []int{0}, why: "writes to w"},
	"errors.As":                                      {writes: []int{1}, flows: [][2]int{{1, 0}}, why: "stores the matching error into *target"},
	"errors.Is":                                      {why: "reads"},
	"errors.Join":                                    {retFresh: true, retContains: []int{0}, why: "wraps the errors"},
	"errors.New":                                     {retFresh: true, why: "allocates"},
	"errors.Unwrap":                                  {retAlias: []int{0}, why: "returns the wrapped error"},
	"fmt.Errorf":                                     {retFresh: true, retContains: []int{1}, why: "formats; %w keeps the operand"},
	"fmt.Sprintf":                                    {why: "formats into a new string; String/Error methods it calls are checked read-only as C19 entries"},
	"fmt.Sprint":                                     {why: "as Sprintf"},
	"fmt.Sprintln":                                   {why: "as Sprintf"},
	"fmt.Fprintf":                                    {writes: []int{0}, why: "writes to w"},
	"fmt.Fprintln":                                   {writes: []int{0}, why: "writes to w"},
	"fmt.Fprint":                                     {writes: []int{0}, why: "writes to w"},
	"hash/fnv.New64":                                 {retFresh: true, why: "allocates"},
	"hash/fnv.New64a":                                {retFresh: true, why: "allocates"},
	"maps.All":                                       {retFresh: true, retContains: []int{0}, why: "iterator over m"},
	"maps.Keys":                                      {retFresh: true, retContains: []int{0}, why: "iterator over m"},
	"maps.Values":                                    {retFresh: true, retContains: []int{0}, why: "iterator over m"},
	"maps.Clone":                                     {retFresh: true, retContains: []int{0}, why: "shallow copy"},
	"maps.Collect":                                   {retFresh: true, retContains: []int{0}, why: "new map from the sequence"},
	"maps.Copy":                                      {writes: []int{0}, flows: [][2]int{{0, 1}}, why: "dst[k] = v"},
	"maps.Equal":                                     {why: "reads"},
	"maps.EqualFunc":                                 {why: "reads"},
	"slices.Clone":                                   {retFresh: true, retContains: []int{0}, why: "shallow copy"},
	"slices.Collect":                                 {retFresh: true, retContains: []int{0}, why: "new slice from the sequence"},
	"slices.Sorted":                                  {retFresh: true, retContains: []int{0}, why: "new sorted slice from the sequence"},
	"slices.SortedFunc":                              {retFresh: true, retContains: []int{0}, why: "new sorted slice from the sequence"},
	"slices.Concat":                                  {retFresh: true, retContains: []int{0}, why: "new slice"},
	"slices.Compact":                                 {writes: []int{0}, retAlias: []int{0}, why: "in place"},
	"slices.CompactFunc":                             {writes: []int{0}, retAlias: []int{0}, why: "in place"},
	"slices.Sort":                                    {writes: []int{0}, why: "in place"},
	"slices.SortFunc":                                {writes: []int{0}, why: "in place"},
	"slices.SortStableFunc":                          {writes: []int{0}, why: "in place"},
	"slices.Reverse":                                 {writes: []int{0}, why: "in place"},
	"slices.Contains":                                {why: "reads"},
	"slices.ContainsFunc":                            {why: "reads"},
	"slices.Index":                                   {why: "reads"},
	"slices.IndexFunc":                               {why: "reads"},
	"slices.Compare":                                 {why: "reads"},
	"slices.CompareFunc":                             {why: "reads"},
	"slices.Equal":                                   {why: "reads"},
	"slices.EqualFunc":                               {why: "reads"},
	"slices.BinarySearch":                            {why: "reads"},
	"slices.Values":                                  {retFresh: true, retContains: []int{0}, why: "iterator"},
	"slices.All":                                     {retFresh: true, retContains: []int{0}, why: "iterator"},
	"slices.Grow":                                    {retAlias: []int{0}, retFresh: true, why: "may reallocate"},
	"sort.Strings":                                   {writes: []int{0}, why: "in place"},
	"sort.Slice":                                     {writes: []int{0}, why: "in place"},
	"sort.SliceStable":                               {writes: []int{0}, why: "in place"},
	"sort.Sort":                                      {writes: []int{0}, why: "in place"},
	"strings.Join":                                   {why: "reads the slice, new string"},
	"strings.NewReader":                              {retFresh: true, why: "wraps an immutable string"},
	"unicode/utf8.DecodeRune":                        {why: "reads"},
	"unicode/utf8.DecodeLastRune":                    {why: "reads"},
	"unicode/utf8.FullRune":                          {why: "reads"},
	"unicode/utf8.Valid":                             {why: "reads"},
	"unicode/utf8.RuneCount":                         {why: "reads"},
	"unicode/utf8.AppendRune":                        {writes: []int{0}, retAlias: []int{0}, retFresh: true, why: "append"},
	"unicode/utf8.EncodeRune":                        {writes: []int{0}, why: "writes p"},
	"unicode.Is":                                     {why: "reads a package table"},
	"unicode.In":                                     {why: "reads package tables"},
	"strconv.AppendInt":                              {writes: []int{0}, retAlias: []int{0}, retFresh: true, why: "append"},
	"strconv.AppendQuote":                            {writes: []int{0}, retAlias: []int{0}, retFresh: true, why: "append"},
	"(net/netip.Prefix).MarshalBinary":               {retFresh: true, why: "allocates"},
	"(net/netip.Addr).MarshalBinary":                 {retFresh: true, why: "allocates"},
	"(time.Time).UTC":                                {why: "value copy; *Location is immutable"},
	"(time.Time).Add":                                {why: "value"},
	"(time.Time).After":                              {why: "value"},
	"(time.Time).Before":                             {why: "value"},
	"(time.Time).Date":                               {why: "value"},
	"(time.Time).Format":                             {why: "value"},
	"(time.Time).UnixMilli":                          {why: "value"},
	"time.Date":                                      {why: "value; *Location only read"},
	"time.UnixMilli":                                 {why: "value"},
	"io.ReadAll":                                     {writes: []int{0}, retFresh: true, why: "drains the reader"},
	"io.WriteString":                                 {writes: []int{0}, why: "writes"},
	"context.Background":                             {retFresh: true, why: "constant"},
}

// interface / concrete stdlib methods identified by bare method name when the receiver type is
// not in the table (e.g. the unexported hash state behind hash.Hash64).
var stdMethodByName = map[string]stdSpec{
	"Write":       {writes: []int{0}, why: "io.Writer / hash.Hash: mutates the receiver"},
	"WriteString": {writes: []int{0}, why: "io.StringWriter"},
	"WriteByte":   {writes: []int{0}, why: "io.ByteWriter"},
	"WriteRune":   {writes: []int{0}, why: "writer"},
	"Read":        {writes: []int{0, 1}, why: "io.Reader: advances the reader, fills p"},
	"Sum64":       {why: "hash.Hash64: reads"},
	"Sum32":       {why: "reads"},
	"Sum":         {retFresh: true, retAlias: []int{1}, why: "appends to b"},
	"Reset":       {writes: []int{0}, why: "resets"},
	"Error":       {why: "error: reads"},
	"String":      {why: "Stringer: reads"},
	"Err":         {retAlias: []int{0}, why: "context.Context: reads"},
	"Done":        {retAlias: []int{0}, why: "context.Context: reads"},
	"Unwrap":      {retAlias: []int{0}, why: "returns wrapped errors"},
	"Is":          {why: "reads"},
	"Len":         {why: "reads"},
}

func stdName(g *ssa.Function) string {
	if o := g.Origin(); o != nil {
		g = o
	}
	return g.String()
}

func (u *unit) stdlib(in ssa.Instruction, g *ssa.Function, cc *ssa.CallCommon, args []ssa.Value, res ssa.Value) {
	name := stdName(g)
	if strings.HasSuffix(name, ".init") {
		return
	}
	spec, ok := stdTable[name]
	if !ok && g.Signature.Recv() != nil {
		// wrappers / promoted methods: try by method name
		spec, ok = stdMethodByName[g.Name()]
		if ok {
			// pure value receivers with no pointer-like fields are harmless regardless
		}
	}
	if !ok {
		// default by signature
		pointy := false
		for i, a := range args {
			_ = i
			if mayPoint(a.Type()) {
				if _, isFn := a.Type().Underlying().(*types.Signature); isFn {
					continue
				}
				if immutableStd(a.Type()) {
					continue
				}
				pointy = true
			}
		}
		if pointy {
			u.undecided(in, "standard-library callee "+name+" takes pointer-like arguments and has no frozen summary")
			// conservative: everything reachable may be written
			for _, a := range args {
				u.recordWrite(in, u.val(a).flat(), "unknown-stdlib", name, in.Pos())
			}
		}
		if res != nil && mayPoint(res.Type()) {
			u.add(res, -1, u.siteObj(res, "stdlib:"+name))
			if nres := g.Signature.Results().Len(); nres > 1 {
				for i := 0; i < nres; i++ {
					if mayPoint(g.Signature.Results().At(i).Type()) {
						u.add(res, i, u.siteObj(res, "stdlib:"+name))
					}
				}
			}
		}
		return
	}
	s := newSummary()
	for _, w := range spec.writes {
		s.writes[rootKey{Kind: okParam, Idx: w}] = &effect{Kind: "stdlib", Pos: in.Pos(), Via: name}
	}
	for _, f := range spec.flows {
		s.flows[[2]rootKey{{Kind: okParam, Idx: f[0]}, {Kind: okParam, Idx: f[1]}}] = true
	}
	ra := map[rootKey]bool{}
	for _, a := range spec.retAlias {
		ra[rootKey{Kind: okParam, Idx: a}] = true
	}
	if spec.retFresh || (len(spec.retAlias) == 0) {
		ra[freshKey] = true
	}
	rc := map[rootKey]bool{}
	for _, a := range spec.retContains {
		rc[rootKey{Kind: okParam, Idx: a}] = true
	}
	nres := g.Signature.Results().Len()
	for i := 0; i < nres; i++ {
		if isErrorType(g.Signature.Results().At(i).Type()) && nres > 1 {
			s.retAlias[i] = map[rootKey]bool{freshKey: true}
			continue
		}
		s.retAlias[i] = ra
		s.retContains[i] = rc
	}
	u.applySummary(in, g, s, args, res)
	if spec.callbacks != "" {
		parts := strings.SplitN(spec.callbacks, ":", 2)
		idx := int(parts[1][0] - '0')
		if idx < len(args) {
			meth := "MarshalJSON"
			if parts[0] == "unmarshal" {
				meth = "UnmarshalJSON"
			}
			target := u.deep(u.val(args[idx]).flat())
			for _, m := range u.m.byName[meth] {
				ms := u.m.sums[m]
				if ms == nil {
					continue
				}
				// receiver <- everything reachable from the argument
				for r, e := range ms.writes {
					if r.Kind == okParam && r.Idx == 0 && r.Deep {
						// a MarshalJSON method writing beyond its receiver's own object
						for l := range target {
							if l.o.key.Kind != okSite {
								k := l.key()
								k.Deep = true
								if _, ok := u.sum.writes[k]; !ok {
									u.sum.writes[k] = &effect{Kind: "call", Pos: in.Pos(), Via: name + " -> " + fnQual(m), Origin: e.Origin}
									u.changed = true
								}
							}
						}
					} else if r.Kind == okParam && r.Idx == 0 {
						for l := range target {
							if l.o.key.Kind != okSite {
								if _, ok := u.sum.writes[l.key()]; !ok {
									u.sum.writes[l.key()] = &effect{Kind: "call", Pos: in.Pos(), Via: name + " -> " + fnQual(m) + " [" + e.Kind + " at " + u.m.p.pos(e.Pos) + "]", Origin: e.Origin}
									u.changed = true
								}
								u.writeSites = append(u.writeSites, writeSite{in, l.key(), "call:" + e.Kind, name + " -> " + fnQual(m)})
							}
						}
					} else if r.Kind == okGlobal || r.Kind == okExternal {
						if _, ok := u.sum.writes[r]; !ok {
							u.sum.writes[r] = &effect{Kind: "call", Pos: in.Pos(), Via: name + " -> " + fnQual(m) + " [" + e.Kind + " at " + u.m.p.pos(e.Pos) + "]", Origin: e.Origin}
							u.changed = true
						}
					}
				}
			}
		}
	}
}

// immutableStd: standard-library value types whose internal pointers are never written through
// by their own methods (interned zone strings, *time.Location tables).
func immutableStd(t types.Type) bool {
	n := namedOf(t)
	if n == nil || n.Obj().Pkg() == nil {
		return false
	}
	switch n.Obj().Pkg().Path() + "." + n.Obj().Name() {
	case "net/netip.Addr", "net/netip.Prefix", "net/netip.AddrPort", "time.Time", "time.Location", "time.Month", "time.Weekday", "time.Duration":
		return true
	}
	return false
}
