package main

// C03 — entity membership `in` is reflexive-transitive reachability.

import (
	"go/token"
	"go/types"
	"sort"
	"strings"

	"golang.org/x/tools/go/ssa"
)

func init() {
	register(&propCheck{
		ID: "C03",
		Explanation: "Structural rules for the two ancestor searches and their dispatcher: R3.1 visited discipline (every push onto the work list is dominated by a negative membership test in " +
			"the visited set and paired with the insertion; the work list only shrinks otherwise; the search returns false exactly when it is empty) => each entity is expanded at most once, so the " +
			"search terminates on every graph; R3.2 the reflexive test is the first thing the search does and the direct-parent test dominates the expansion; every return is a constant with " +
			"`true` only under those tests; R3.3 the conditions that prune a parent are exactly the known vocabulary (absent from the store, no parents, equal to the start, already visited) — any " +
			"other pruning condition is undecided and fails; R3.4 the two searches have the same normalised shape, and `in` / `is..in` reach them through one dispatcher that sends an entity to the " +
			"single search and a set — every member converted with the type error returned — to the set search; scope forms lower to the same operators (shared with C02's R2.5). " +
			"Not decided: that pruning parents without parents is sound as a graph fact (prose argument in DESIGN.md).",
		Run: runC03,
	})
}

type searchShape struct {
	guards    []string
	reflexive string
	direct    string
}

func runC03(p *Prog, r *Report) {
	var searches []*ssa.Function
	for _, fn := range p.Funcs {
		if fnPkgPath(fn) != pEval || fn.Parent() != nil || fn.Signature.Recv() != nil {
			continue
		}
		sig := fn.Signature
		if sig.Params().Len() != 3 || sig.Results().Len() != 1 {
			continue
		}
		if b, ok := sig.Results().At(0).Type().Underlying().(*types.Basic); !ok || b.Kind() != types.Bool {
			continue
		}
		if !typeIs(sig.Params().At(0).Type(), pEval, "Env") || !typeIs(sig.Params().At(1).Type(), pTypes, "EntityUID") {
			continue
		}
		searches = append(searches, fn)
	}
	sort.Slice(searches, func(i, j int) bool { return searches[i].Name() < searches[j].Name() })
	if len(searches) != 2 {
		r.Anchor("R3.anchor", "the two ancestor searches func(Env, EntityUID, target) bool in internal/eval: found "+itoa(len(searches)))
		return
	}
	var shapes []searchShape
	for _, fn := range searches {
		shapes = append(shapes, checkSearch(p, r, fn))
	}
	same := strings.Join(shapes[0].guards, ",") == strings.Join(shapes[1].guards, ",")
	r.Check(same, "R3.4-siblings", "eval."+searches[0].Name()+"~"+searches[1].Name(), p.pos(searches[0].Pos()),
		"both searches prune with ["+strings.Join(shapes[0].guards, ",")+"]", "the two ancestor searches prune differently: ["+strings.Join(shapes[0].guards, ",")+"] vs ["+strings.Join(shapes[1].guards, ",")+"]")
	checkInDispatcher(p, r, searches)
	r.Floor("R3.1-visited", 6)
	r.Floor("R3.2-reflexive-direct", 6)
	r.Floor("R3.3-pruning", 6)
	r.Floor("R3.4-siblings", 5)
}

func loadOfFreeVarOrParam(v ssa.Value) ssa.Value {
	// *freevar / *alloc(spill of param) / param
	if ld, ok := v.(*ssa.UnOp); ok && ld.Op == token.MUL {
		return ld.X
	}
	return v
}

// originParam resolves a value to the declared function's parameter it stands for, looking through
// the heap spill go/ssa makes for captured parameters and through closure free variables.
func originParam(v ssa.Value) *ssa.Parameter {
	for i := 0; i < 6; i++ {
		switch x := v.(type) {
		case *ssa.Parameter:
			return x
		case *ssa.UnOp:
			if x.Op != token.MUL {
				return nil
			}
			v = x.X
		case *ssa.FreeVar:
			mc := makeClosureOf(x.Parent())
			if mc == nil {
				return nil
			}
			found := false
			for j, fv := range x.Parent().FreeVars {
				if fv == x && j < len(mc.Bindings) {
					v = mc.Bindings[j]
					found = true
				}
			}
			if !found {
				return nil
			}
		case *ssa.Alloc:
			var st *ssa.Store
			n := 0
			for _, ref := range *x.Referrers() {
				if s, ok := ref.(*ssa.Store); ok && s.Addr == x {
					st = s
					n++
				}
			}
			if n != 1 {
				return nil
			}
			v = st.Val
		default:
			return nil
		}
	}
	return nil
}

// originCell resolves a pointer value to the local variable cell (Alloc) in the declared function.
func originCell(v ssa.Value) *ssa.Alloc {
	for i := 0; i < 6; i++ {
		switch x := v.(type) {
		case *ssa.Alloc:
			return x
		case *ssa.UnOp:
			if x.Op != token.MUL {
				return nil
			}
			v = x.X
		case *ssa.FreeVar:
			mc := makeClosureOf(x.Parent())
			if mc == nil {
				return nil
			}
			ok := false
			for j, fv := range x.Parent().FreeVars {
				if fv == x && j < len(mc.Bindings) {
					v = mc.Bindings[j]
					ok = true
				}
			}
			if !ok {
				return nil
			}
		default:
			return nil
		}
	}
	return nil
}

func checkSearch(p *Prog, r *Report, fn *ssa.Function) searchShape {
	var shape searchShape
	q := fnQual(fn)
	start, target := fn.Params[1], fn.Params[2]
	// ---- R3.2 reflexive test: the entry block's branch
	{
		good := false
		desc := "none"
		if iff, ok := lastInstr(fn.Blocks[0]).(*ssa.If); ok {
			switch c := iff.Cond.(type) {
			case *ssa.BinOp:
				if c.Op == token.EQL && ((originParam(c.X) == start && originParam(c.Y) == target) || (originParam(c.Y) == start && originParam(c.X) == target)) {
					desc = "start == target"
					good = returnsConst(fn.Blocks[0].Succs[0], true)
				}
			case *ssa.Call:
				if c.Call.IsInvoke() && c.Call.Method.Name() == "Contains" && originParam(c.Call.Value) == target && len(c.Call.Args) == 1 && originParam(c.Call.Args[0]) == start {
					desc = "targets.Contains(start)"
					good = returnsConst(fn.Blocks[0].Succs[0], true)
				}
			}
		}
		shape.reflexive = desc
		r.Check(good, "R3.2-reflexive-direct", q+":reflexive", p.pos(fn.Pos()), "first test: "+desc+" => true", "the search must begin by returning true when the start entity equals (is a member of) the target")
	}
	// ---- the expansion closure (range over the candidate's parents) and its push
	var closure *ssa.Function
	for _, a := range fn.AnonFuncs {
		if isRangeFuncYield(a) {
			closure = a
		}
	}
	if closure == nil {
		r.Undec("R3.1-visited", q, p.pos(fn.Pos()), "no range-over-parents body found (search restructured)")
		return shape
	}
	var push *ssa.Call
	forEachInstr(closure, func(in ssa.Instruction) {
		if c, ok := in.(*ssa.Call); ok && isBuiltin(&c.Call, "append") {
			push = c
		}
	})
	if push == nil {
		r.Undec("R3.1-visited", q, p.pos(closure.Pos()), "no push onto a work list found")
		return shape
	}
	k := closure.Params[0]
	todoCell := originCell(push.Call.Args[0])
	pushedOK := appendedSingle(push) != nil && stripConv(appendedSingle(push)) == k
	r.Check(todoCell != nil && pushedOK, "R3.1-visited", q+":push", p.pos(push.Pos()), "the parent being visited is pushed onto the local work list", "the push does not add the current parent to the function's own work list")
	// guards
	var visitedCell *ssa.Alloc
	seenVisited := false
	var kinds []string
	classify := func(g Guard, needPol bool) string {
		g = flattenGuard(g)
		switch c := g.Cond.(type) {
		case *ssa.Extract:
			if call, ok := c.Tuple.(*ssa.Call); ok && call.Call.IsInvoke() && call.Call.Method.Name() == "Get" && c.Index == 1 && len(call.Call.Args) == 1 && call.Call.Args[0] == k && (g.Pol || !needPol) {
				return "present-in-store"
			}
		case *ssa.BinOp:
			if c.Op == token.EQL || c.Op == token.NEQ {
				eqPol := g.Pol
				if c.Op == token.NEQ {
					eqPol = !eqPol
				}
				if (c.X == k && originParam(c.Y) == start) || (c.Y == k && originParam(c.X) == start) {
					if !eqPol || !needPol {
						return "not-start"
					}
				} else if call, ok := c.X.(*ssa.Call); ok && call.Call.StaticCallee() != nil && fnBase(call.Call.StaticCallee()) == "Len" {
					if z, isK := constInt(c.Y); isK && z == 0 && (!eqPol || !needPol) && lenOfParentsOf(call, k) {
						return "has-parents"
					}
				}
			} else if c.Op == token.GTR {
				if call, ok := c.X.(*ssa.Call); ok && call.Call.StaticCallee() != nil && fnBase(call.Call.StaticCallee()) == "Len" {
					if z, isK := constInt(c.Y); isK && z == 0 && (g.Pol || !needPol) && lenOfParentsOf(call, k) {
						return "has-parents"
					}
				}
			}
		case *ssa.Call:
			if f := c.Call.StaticCallee(); f != nil && fnBase(f) == "Contains" && fnPkgPath(f) == pMapset && len(c.Call.Args) == 2 && c.Call.Args[1] == k && (!g.Pol || !needPol) {
				if cell := originCell(c.Call.Args[0]); cell != nil && cell.Parent() == fn {
					if needPol {
						visitedCell = cell
						seenVisited = true
					}
					return "not-visited"
				}
			}
		}
		return ""
	}
	// every branch in the loop body decides "skip or push": each must be a known pruning condition
	for _, b := range closure.Blocks {
		iff, ok := lastInstr(b).(*ssa.If)
		if !ok || b == closure.Blocks[0] {
			continue
		}
		kind := classify(Guard{Cond: iff.Cond, Pol: true, If: iff}, false)
		if kind == "" {
			r.Undec("R3.3-pruning", q+":unknown-guard", p.pos(iff.Pos()), "a parent is skipped under a condition outside the known pruning vocabulary (absent, no parents, equals start, already visited); a static rule cannot judge a new graph-theoretic shortcut")
			kinds = append(kinds, "?")
			continue
		}
		kinds = append(kinds, kind)
		r.OK("R3.3-pruning", q+":"+kind, p.pos(iff.Pos()), "recognised pruning condition")
	}
	// the facts that hold at the push
	for _, g := range guardsAt(push.Block()) {
		if g.If.Block() == closure.Blocks[0] {
			continue
		}
		classify(g, true)
	}
	sort.Strings(kinds)
	shape.guards = kinds
	r.Check(seenVisited, "R3.1-visited", q+":visited-test", p.pos(push.Pos()), "push is dominated by !visited.Contains(parent)", "a parent is pushed onto the work list without first testing that it has not been visited: the search does not terminate on cyclic hierarchies")
	// paired insertion into the same visited set, same block
	paired := false
	for _, in := range push.Block().Instrs {
		if c, ok := in.(*ssa.Call); ok {
			if f := c.Call.StaticCallee(); f != nil && fnBase(f) == "Add" && fnPkgPath(f) == pMapset && len(c.Call.Args) == 2 && c.Call.Args[1] == k {
				if cell := originCell(c.Call.Args[0]); cell != nil && cell == visitedCell {
					paired = true
				}
			}
		}
	}
	r.Check(paired, "R3.1-visited", q+":visited-insert", p.pos(push.Pos()), "the pushed parent is inserted into the visited set in the same step", "the pushed parent is not recorded in the visited set that the push tests: it can be pushed again (non-termination on cycles)")
	// visited set and work list are fresh per call
	r.Check(visitedCell != nil && visitedCell.Parent() == fn && todoCell != nil && todoCell.Parent() == fn, "R3.1-visited", q+":fresh-state", p.pos(fn.Pos()), "visited set and work list are locals of this call", "visited set / work list are not fresh locals of the search")
	// ---- closure has no early exit (every parent is considered)
	noExit := true
	for _, b := range closure.Blocks {
		if ret, ok := lastInstr(b).(*ssa.Return); ok {
			if cb, isC := constBool(ret.Results[0]); !isC || !cb {
				noExit = false
			}
		}
	}
	r.Check(noExit, "R3.1-visited", q+":all-parents", p.pos(closure.Pos()), "every parent of the candidate is considered", "the loop over the candidate's parents can stop early, skipping parents")

	// ---- parent function: returns, direct test, pop
	var mc *ssa.MakeClosure
	forEachInstr(fn, func(in ssa.Instruction) {
		if m, ok := in.(*ssa.MakeClosure); ok && m.Fn == closure {
			mc = m
		}
	})
	directOK := false
	directDesc := ""
	emptyExit := false
	retsOK := true
	for _, b := range fn.Blocks {
		ret, ok := lastInstr(b).(*ssa.Return)
		if !ok {
			continue
		}
		cb, isC := constBool(ret.Results[0])
		if !isC {
			retsOK = false
			r.Viol("R3.2-reflexive-direct", q+":return", p.pos(ret.Pos()), "the search returns a non-constant")
			continue
		}
		gs := guardsAt(b)
		if cb {
			// must be under reflexive test or the direct-parent test
			okTrue := false
			for _, g := range gs {
				g = flattenGuard(g)
				if g.If.Block() == fn.Blocks[0] && g.Pol {
					okTrue = true
				}
				if c, isCall := g.Cond.(*ssa.Call); isCall && g.Pol {
					if f := c.Call.StaticCallee(); f != nil && (fnBase(f) == "Contains" || fnBase(f) == "Intersects") && len(c.Call.Args) == 2 && originParam(c.Call.Args[1]) == target && isParentsOfLookedUp(c.Call.Args[0]) {
						okTrue = true
						directDesc = "candidate.Parents." + fnBase(f) + "(target)"
						if mc != nil && c.Block().Dominates(mc.Block()) {
							directOK = true
						}
					}
				}
			}
			if !okTrue {
				retsOK = false
				r.Viol("R3.2-reflexive-direct", q+":return-true", p.pos(ret.Pos()), "`true` is returned on a path that established neither the reflexive case nor that the target is a direct parent of the candidate")
			}
		} else {
			okFalse := false
			for _, g := range gs {
				if s, ne, isNE := nonEmptyFact(g); isNE && !ne && originCell(s) == todoCell && todoCell != nil {
					okFalse = true
					emptyExit = true
				}
			}
			if !okFalse {
				retsOK = false
				r.Viol("R3.2-reflexive-direct", q+":return-false", p.pos(ret.Pos()), "`false` is returned while the work list may still hold unexplored ancestors")
			}
		}
	}
	shape.direct = directDesc
	if retsOK {
		r.OK("R3.2-reflexive-direct", q+":returns", p.pos(fn.Pos()), "true only under the reflexive/direct tests, false only when the work list is empty")
	}
	r.Check(directOK, "R3.2-reflexive-direct", q+":direct-before-expand", p.pos(fn.Pos()), directDesc+" dominates the expansion of the candidate's parents", "the direct-parent test does not dominate the expansion of the candidate's parents (pruning parents-without-parents is only sound after it)")
	r.Check(emptyExit, "R3.1-visited", q+":empty-exit", p.pos(fn.Pos()), "the search ends when the work list is empty", "no exit on an empty work list")
	// pop: every store to the work list in the parent function is a shrinking re-slice todo[:len-1]
	popOK, nStores := true, 0
	forEachInstr(fn, func(in ssa.Instruction) {
		st, ok := in.(*ssa.Store)
		if !ok || st.Addr != ssa.Value(todoCell) {
			return
		}
		nStores++
		sl, ok := st.Val.(*ssa.Slice)
		if !ok || sl.Low != nil || sl.High == nil {
			popOK = false
			return
		}
		b, ok := sl.High.(*ssa.BinOp)
		if !ok || b.Op != token.SUB {
			popOK = false
			return
		}
		if one, isK := constInt(b.Y); !isK || one != 1 {
			popOK = false
		}
	})
	r.Check(todoCell != nil && popOK && nStores >= 1, "R3.1-visited", q+":pop", p.pos(fn.Pos()), "outside the guarded push the work list only shrinks (pop of the last element)", "the work list is modified in the search loop other than by popping its last element")
	return shape
}

func returnsConst(b *ssa.BasicBlock, want bool) bool {
	ret, ok := lastInstr(b).(*ssa.Return)
	if !ok || len(ret.Results) != 1 {
		return false
	}
	cb, isC := constBool(ret.Results[0])
	return isC && cb == want
}

// lenOfParentsOf: call is X.Parents.Len() where X is the Entity looked up for key k.
func lenOfParentsOf(call *ssa.Call, k ssa.Value) bool {
	if len(call.Call.Args) != 1 {
		return false
	}
	return isParentsOfLookedUp(call.Call.Args[0])
}

// isParentsOfLookedUp: v is (a load of) the Parents field of an Entity obtained from Entities.Get.
func isParentsOfLookedUp(v ssa.Value) bool {
	ld, ok := v.(*ssa.UnOp)
	if !ok || ld.Op != token.MUL {
		return false
	}
	fa, ok := ld.X.(*ssa.FieldAddr)
	if !ok {
		return false
	}
	st, ok := fa.X.Type().Underlying().(*types.Pointer).Elem().Underlying().(*types.Struct)
	if !ok || st.Field(fa.Field).Name() != "Parents" {
		return false
	}
	a, ok := fa.X.(*ssa.Alloc)
	if !ok {
		return false
	}
	for _, ref := range *a.Referrers() {
		if s, ok := ref.(*ssa.Store); ok && s.Addr == a {
			if ex, ok := s.Val.(*ssa.Extract); ok {
				if c, ok := ex.Tuple.(*ssa.Call); ok && c.Call.IsInvoke() && c.Call.Method.Name() == "Get" {
					return true
				}
			}
		}
	}
	return false
}

func checkInDispatcher(p *Prog, r *Report, searches []*ssa.Function) {
	const rule = "R3.4-siblings"
	// the dispatcher: the function in eval that calls both searches
	var disp *ssa.Function
	for _, fn := range p.Funcs {
		if fnPkgPath(fn) != pEval {
			continue
		}
		hits := 0
		for _, c := range callsIn(fn) {
			for _, s := range searches {
				if c.Common().StaticCallee() == s {
					hits++
				}
			}
		}
		if hits == 2 {
			disp = fn
		}
	}
	if disp == nil {
		r.Anchor(rule, "dispatcher calling both ancestor searches")
		return
	}
	q := fnQual(disp)
	var single, multi *ssa.Function
	for _, s := range searches {
		if typeIs(s.Signature.Params().At(2).Type(), pTypes, "EntityUID") {
			single = s
		} else {
			multi = s
		}
	}
	if single == nil || multi == nil {
		r.Anchor(rule, "single-target and set-target searches")
		return
	}
	rhs := disp.Params[len(disp.Params)-1]
	lhs := disp.Params[len(disp.Params)-2]
	for _, c := range callsIn(disp) {
		call, ok := c.(*ssa.Call)
		if !ok {
			continue
		}
		switch call.Call.StaticCallee() {
		case single:
			// guarded by rhs.(EntityUID) ok, target = that asserted value, start = lhs
			good := originParam(call.Call.Args[1]) == lhs || call.Call.Args[1] == ssa.Value(lhs)
			tgt := call.Call.Args[2]
			if ex, ok := tgt.(*ssa.Extract); ok {
				if ta, ok := ex.Tuple.(*ssa.TypeAssert); !ok || ta.X != ssa.Value(rhs) || !typeIs(ta.AssertedType, pTypes, "EntityUID") {
					good = false
				}
			} else {
				good = false
			}
			r.Check(good, rule, q+":entity-rhs", p.pos(call.Pos()), "an entity right-hand side goes to the single-target search with (lhs, rhs)", "the single-target search is not called with the left entity and the asserted entity right-hand side")
		case multi:
			good := originParam(call.Call.Args[1]) == lhs || call.Call.Args[1] == ssa.Value(lhs)
			r.Check(good, rule, q+":set-rhs", p.pos(call.Pos()), "a set right-hand side goes to the set search", "the set search is not started from the left entity")
		}
	}
	// every member of the set is converted with ValueToEntity and a failure is returned
	conv := false
	for _, f := range withAnon(disp) {
		for _, c := range callsIn(f) {
			if !isCallTo(c, pEval, "ValueToEntity") {
				continue
			}
			call := c.(*ssa.Call)
			if f != disp && isRangeFuncYield(f) && call.Call.Args[0] == ssa.Value(f.Params[0]) {
				// error non-nil => the body stops the iteration (return false) having stored the error
				errv := extractOf(call, 1)
				if errv != nil {
					for _, b := range f.Blocks {
						if ret, ok := lastInstr(b).(*ssa.Return); ok {
							if cb, isC := constBool(ret.Results[0]); isC && !cb {
								for _, g := range guardsAt(b) {
									if nn, k := nilTest(g, errv); k && nn {
										conv = true
									}
								}
							}
						}
					}
				}
			}
		}
	}
	r.Check(conv, rule, q+":members-converted", p.pos(disp.Pos()), "every member of a set right-hand side is converted to an entity, a non-entity aborts with the type error", "members of a set right-hand side are not all converted with ValueToEntity with the error returned")
	// default: type error
	defErr := false
	errType := p.SSAPkg[pEval].Var("ErrType")
	for _, b := range disp.Blocks {
		if ret, ok := lastInstr(b).(*ssa.Return); ok {
			last := retLast(ret)
			if isErrorType(last.Type()) && !isNilConst(last) && derivesFromGlobal(last, errType) {
				defErr = true
			}
		}
	}
	r.Check(defErr, rule, q+":other-rhs", p.pos(disp.Pos()), "any other right-hand side is a type error", "a right-hand side that is neither entity nor set must yield a type error")
	// both operators go through the dispatcher
	nUsers := 0
	for _, fn := range p.Funcs {
		if fnPkgPath(fn) != pEval || fn.Name() != "Eval" || fn.Signature.Recv() == nil {
			continue
		}
		rn := namedOf(fn.Signature.Recv().Type())
		if rn == nil || (rn.Obj().Name() != "inEval" && rn.Obj().Name() != "isInEval") {
			continue
		}
		uses := false
		for _, c := range callsIn(fn) {
			if c.Common().StaticCallee() == disp {
				uses = true
			}
		}
		nUsers++
		r.Check(uses, rule, fnQual(fn)+":uses-dispatcher", p.pos(fn.Pos()), "evaluates membership through the shared dispatcher", rn.Obj().Name()+" does not use the shared membership dispatcher (the two operators may diverge)")
		if rn.Obj().Name() == "isInEval" {
			// the type test precedes: a False return guarded by a comparison of lhs.Type with the node's type
			typeTest := false
			for _, b := range fn.Blocks {
				if ret, ok := lastInstr(b).(*ssa.Return); ok {
					if v := retVal(ret, 0); v != nil {
						if isFalseValue(v) {
							for _, g := range guardsAt(b) {
								g = flattenGuard(g)
								if bo, ok := g.Cond.(*ssa.BinOp); ok && (bo.Op == token.NEQ || bo.Op == token.EQL) && typeIs(bo.X.Type(), pTypes, "EntityType") {
									mismatch := g.Pol
									if bo.Op == token.EQL {
										mismatch = !mismatch
									}
									if mismatch {
										typeTest = true
									}
								}
							}
						}
					}
				}
			}
			r.Check(typeTest, rule, fnQual(fn)+":type-test", p.pos(fn.Pos()), "`is T in e` is false when the entity's type differs from T", "`is T in e` must yield false when the left entity's type is not T")
		}
	}
	if nUsers != 2 {
		r.Anchor(rule, "inEval.Eval and isInEval.Eval")
	}
}

func isFalseValue(v ssa.Value) bool {
	v = stripConv(v)
	if cb, ok := constBool(v); ok {
		return !cb
	}
	if ld, ok := v.(*ssa.UnOp); ok && ld.Op == token.MUL {
		if g, ok := ld.X.(*ssa.Global); ok && g.Name() == "False" {
			return true
		}
	}
	return false
}
