package main

// C15: validated policies cannot fail with type errors.
//
// Two implementations of one typing discipline must agree: the evaluator's run-time checks and the validator's static
// expectations. Decided (necessary conditions visible in the code):
//   R15.1  the validator's expression dispatch covers every node kind;
//   R15.2  relational obligations: where the evaluator demands that two operands have the *same* kind (ordering
//          comparisons: Long, datetime or duration on both sides), the typing rule must contain a test that depends on
//          both operands' inferred types jointly — independent per-operand predicates accept `1 < datetime(...)`;
//   R15.3  extension signatures: the validator's table has exactly the registered functions, with the language's argument
//          kinds, result kind and constructor/method style;
//   R15.4  capability discipline: capabilities are produced only by the `has`/`hasTag` rules; the optional-attribute and
//          tag access rules raise their error unless the capability is present; set intersection (used where control
//          flow joins) builds a fresh set from elements tested to be in both operands;
//   R15.5  least upper bound of records: an attribute present in both records is required only if both say so (the value
//          stored depends on both operands);
//   R15.6  hierarchy closure: descendant tests over action/entity parents are transitive (recursive or work-list), so a
//          policy is checked in the environments of indirect descendants too.
// Not decided: soundness of LUB/strict-mode rules in general, request-environment enumeration, entity conformance.

import (
	"go/ast"
	"go/constant"
	"go/token"
	"go/types"
	"sort"
	"strings"

	"golang.org/x/tools/go/ssa"
)

func init() {
	register(&propCheck{
		ID: "C15",
		Explanation: "Structural necessary conditions of validator soundness (validator and evaluator are two implementations of one typing discipline): R15.1 validator dispatch exhaustive; R15.2 for operators whose evaluator demands same-kind operands " +
			"(ordering comparisons) the typing rule contains a test depending on both operands' inferred types jointly; R15.3 the validator's extension signature table equals the registry and the language's argument/result kinds; R15.4 capabilities are produced " +
			"only by has/hasTag rules, optional-attribute and tag access raise their error unless the capability is present, and capability intersection builds a fresh set of elements tested in both operands; R15.5 record LUB: `required` of a shared attribute depends " +
			"on both operands; R15.6 descendant tests over action/entity hierarchies are transitive. Not decided: LUB/strict-mode soundness in general, environment enumeration, conformance checks.",
		Run: runC15,
	})
}

// result kinds of the extension functions (Cedar language reference); argument kinds are in langExt (c01.go)
var langExtResult = map[string]string{
	"ip": "IPAddr", "decimal": "Decimal", "datetime": "Datetime", "duration": "Duration",
	"lessThan": "Bool", "lessThanOrEqual": "Bool", "greaterThan": "Bool", "greaterThanOrEqual": "Bool",
	"isIpv4": "Bool", "isIpv6": "Bool", "isLoopback": "Bool", "isMulticast": "Bool", "isInRange": "Bool",
	"toDate": "Datetime", "toTime": "Duration", "offset": "Datetime", "durationSince": "Duration",
	"toDays": "Long", "toHours": "Long", "toMinutes": "Long", "toSeconds": "Long", "toMilliseconds": "Long",
}

type c15ctx struct {
	p        *Prog
	r        *Report
	dispatch *ssa.Function
	handlers map[string]*ssa.Function // node kind -> function the dispatch hands it to
	cedarT   *types.Named
}

func runC15(p *Prog, r *Report) {
	c := &c15ctx{p: p, r: r, handlers: map[string]*ssa.Function{}}
	if !c.anchors() {
		return
	}
	c.operandKinds()
	c.relational()
	c.extSignatures()
	c.capabilities()
	c.clausesStartEmpty()
	c.lubBoth()
	c.closure()
	c.conformanceVisitsAll()
	c.singletonDecisions()
	visitedScopeRule(p, r, "R15.6-visited-scope", 2, pValidate)
}

func (c *c15ctx) anchors() bool {
	p, r := c.p, c.r
	const rule = "R15.1-dispatch"
	isNode := p.namedType(pXAst, "IsNode")
	c.cedarT = p.namedType(pValidate, "cedarType")
	pk := p.Pkgs[pValidate]
	if isNode == nil || c.cedarT == nil || pk == nil {
		r.Anchor(rule, "validate package / ast.IsNode / validate.cedarType")
		return false
	}
	// the dispatcher: the function with a type switch over ast.IsNode whose first result is a cedarType
	var disp *typeSwitchInfo
	for _, ti := range p.typeSwitches(pValidate) {
		if ti.Sealed.Named.Obj() != isNode.Obj() || ti.Func == nil {
			continue
		}
		if fo, ok := pk.TypesInfo.Defs[ti.Func.Name].(*types.Func); ok {
			sig := fo.Type().(*types.Signature)
			if sig.Results().Len() >= 1 && types.Identical(sig.Results().At(0).Type(), c.cedarT) {
				if disp == nil || len(ti.Cases) > len(disp.Cases) {
					disp = ti
					c.dispatch = p.SSA.FuncValue(fo)
				}
			}
		}
	}
	if disp == nil || c.dispatch == nil {
		r.Anchor(rule, "the validator's expression dispatch (type switch over ast.IsNode returning a cedarType)")
		return false
	}
	p.requireExhaustive(r, rule, disp)
	// handlers per kind
	for _, st := range disp.Stmt.Body.List {
		cc := st.(*ast.CaseClause)
		for _, e := range cc.List {
			tvv := pk.TypesInfo.Types[e]
			n := namedOf(tvv.Type)
			if n == nil {
				continue
			}
			ast.Inspect(cc, func(nd ast.Node) bool {
				if call, ok := nd.(*ast.CallExpr); ok {
					if fo := calleeObj(pk.TypesInfo, call); fo != nil && fo.Pkg() == pk.Types {
						if f := p.SSA.FuncValue(fo); f != nil && f != c.dispatch {
							if _, dup := c.handlers[n.Obj().Name()]; !dup {
								c.handlers[n.Obj().Name()] = f
							}
						}
					}
				}
				return true
			})
		}
	}
	if len(c.handlers) < 20 {
		r.Anchor(rule, "per-kind typing functions reached from the dispatch (found "+itoa(len(c.handlers))+")")
		return false
	}
	return true
}

// typeDerived: values derived from v by operations that only look at the type value (assertions, field reads of the
// asserted struct, comparisons of those with constants, phis).
func typeDerived(fn *ssa.Function, roots ...ssa.Value) map[ssa.Value]bool {
	set := map[ssa.Value]bool{}
	for _, v := range roots {
		set[v] = true
	}
	for changed := true; changed; {
		changed = false
		for _, g := range withAnon(fn) {
			forEachInstr(g, func(in ssa.Instruction) {
				v, ok := in.(ssa.Value)
				if !ok || set[v] {
					return
				}
				derived := false
				switch x := in.(type) {
				case *ssa.TypeAssert:
					derived = set[x.X]
				case *ssa.Extract:
					derived = set[x.Tuple]
				case *ssa.Field:
					derived = set[x.X]
				case *ssa.FieldAddr:
					derived = set[x.X]
				case *ssa.UnOp:
					derived = set[x.X]
				case *ssa.Phi:
					for _, e := range x.Edges {
						if set[e] {
							derived = true
						}
					}
				case *ssa.MakeInterface:
					derived = set[x.X]
				case *ssa.ChangeInterface:
					derived = set[x.X]
				case *ssa.ChangeType:
					derived = set[x.X]
				case *ssa.BinOp:
					_, cx := x.X.(*ssa.Const)
					_, cy := x.Y.(*ssa.Const)
					derived = (set[x.X] && cy) || (set[x.Y] && cx)
				case *ssa.Alloc:
					// a spilled local: stores of derived values make its loads derived
					if refs := x.Referrers(); refs != nil {
						for _, rf := range *refs {
							if st, ok := rf.(*ssa.Store); ok && st.Addr == x && set[st.Val] {
								derived = true
							}
						}
					}
				}
				if derived {
					set[v] = true
					changed = true
				}
			})
		}
	}
	return set
}

func (c *c15ctx) relational() {
	p, r := c.p, c.r
	const rule = "R15.2-relational"
	kinds := []string{"NodeTypeLessThan", "NodeTypeLessThanOrEqual", "NodeTypeGreaterThan", "NodeTypeGreaterThanOrEqual"}
	done := map[*ssa.Function]bool{}
	for _, k := range kinds {
		h := c.handlers[k]
		if h == nil {
			r.Anchor(rule, "typing function for "+k)
			continue
		}
		if done[h] {
			r.OK(rule, "validate."+fnShort(h)+"~"+k, p.pos(h.Pos()), k+" is typed by "+fnShort(h))
			continue
		}
		done[h] = true
		// the inferred types of the two operands: first results of the two calls to the dispatcher
		var typesOf []ssa.Value
		for _, cl := range callsIn(h) {
			if call, ok := cl.(*ssa.Call); ok && call.Call.StaticCallee() == c.dispatch {
				if ex := extractOf(call, 0); ex != nil {
					typesOf = append(typesOf, ex)
				}
			}
		}
		construct := "validate." + fnShort(h) + ":joint-test"
		if len(typesOf) != 2 {
			r.Undec(rule, construct, p.pos(h.Pos()), "expected two operand typings in "+fnShort(h)+", found "+itoa(len(typesOf)))
			continue
		}
		dl, dr := typeDerived(h, typesOf[0]), typeDerived(h, typesOf[1])
		joint := ""
		for _, g := range withAnon(h) {
			forEachInstr(g, func(in ssa.Instruction) {
				if joint != "" {
					return
				}
				switch x := in.(type) {
				case ssa.CallInstruction:
					hasL, hasR := false, false
					for _, a := range x.Common().Args {
						if dl[a] {
							hasL = true
						}
						if dr[a] {
							hasR = true
						}
					}
					if hasL && hasR {
						joint = "call " + calleeName(x) + " takes both operand types"
						if f := x.Common().StaticCallee(); f != nil && fnPkgPath(f) == pValidate && len(f.Blocks) > 0 {
							c.sameKindHelper(f)
						}
					}
				case *ssa.BinOp:
					if (dl[x.X] && dr[x.Y]) || (dr[x.X] && dl[x.Y]) {
						joint = "comparison of the two operand types"
					}
				case *ssa.If:
					// a test on one operand's type nested under a test on the other's
					inL, inR := dl[x.Cond], dr[x.Cond]
					if !inL && !inR {
						return
					}
					for _, gd := range guardsAt(x.Block()) {
						fg := flattenGuard(gd)
						if (inL && dr[fg.Cond]) || (inR && dl[fg.Cond]) {
							joint = "a test of one operand's type nested under a test of the other's"
						}
					}
				}
			})
		}
		r.Check(joint != "", rule, construct, p.pos(h.Pos()), "the rule relates the two operand types: "+joint,
			fnShort(h)+" checks each operand of an ordering comparison on its own and never relates the two inferred types; the evaluator requires both sides to be of the same kind (Long, datetime or duration), so `1 < datetime(\"2020-01-01\")` validates and fails at run time with a type error")
	}
}

// sameKindHelper: the validator's "are these two comparable types of the same kind" predicate has to tell every two
// comparable kinds apart. Long is a type of its own; datetime and duration are both the extension type and differ only in
// its name, so the predicate must compare the two names and let the result decide.
func (c *c15ctx) sameKindHelper(f *ssa.Function) {
	p, r := c.p, c.r
	const rule = "R15.2-relational"
	construct := "validate." + fnShort(f) + ":names-compared"
	if len(f.Params) != 2 {
		r.Undec(rule, construct, p.pos(f.Pos()), "the joint predicate does not take exactly the two operand types")
		return
	}
	nameOf := func(v ssa.Value) int {
		var owner ssa.Value
		switch x := v.(type) {
		case *ssa.Field:
			if st := structOf(x.X.Type()); st != nil && st.Field(x.Field).Name() == "name" && typeIs(x.X.Type(), pValidate, "typeExtension") {
				owner = x.X
			}
		case *ssa.UnOp:
			// the asserted value was spilled into a local: *(&local.name)
			if fa, ok := x.X.(*ssa.FieldAddr); ok && x.Op == token.MUL {
				if _, fname := fieldAddrName(fa); fname == "name" {
					if pt, ok := fa.X.Type().Underlying().(*types.Pointer); ok && typeIs(pt.Elem(), pValidate, "typeExtension") {
						owner = fa.X
					}
				}
			}
		}
		if owner == nil {
			return -1
		}
		for _, l := range leavesOf(owner) {
			for i, pr := range f.Params {
				if l == ssa.Value(pr) {
					return i
				}
			}
		}
		return -1
	}
	var cmp *ssa.BinOp
	forEachInstr(f, func(in ssa.Instruction) {
		bo, ok := in.(*ssa.BinOp)
		if !ok || (bo.Op != token.EQL && bo.Op != token.NEQ) {
			return
		}
		a, b := nameOf(bo.X), nameOf(bo.Y)
		if a >= 0 && b >= 0 && a != b {
			cmp = bo
		}
	})
	decides := false
	if cmp != nil {
		for _, b := range f.Blocks {
			ret, ok := lastInstr(b).(*ssa.Return)
			if !ok || len(ret.Results) != 1 {
				continue
			}
			for _, l := range leavesOf(ret.Results[0]) {
				if l == ssa.Value(cmp) {
					decides = true
				}
			}
			for _, g := range guardsAt(b) {
				if dependsOnValue(g.Cond, cmp) {
					decides = true
				}
			}
		}
	}
	r.Check(cmp != nil && decides, rule, construct, p.pos(f.Pos()), "two extension types are of the same kind only if their names agree",
		fnShort(f)+" does not compare the names of two extension types (or does not let the comparison decide): datetime and duration are then the same kind to the validator, `context.issued < context.ttl` validates, and evaluation fails with a type error")
}

func (c *c15ctx) extSignatures() {
	p, r := c.p, c.r
	const rule = "R15.3-ext-signatures"
	pk := p.Pkgs[pValidate]
	reg := extRegistry(p)
	kindOf := func(e ast.Expr) string {
		cl, ok := ast.Unparen(e).(*ast.CompositeLit)
		if !ok {
			return "?"
		}
		n := namedOf(pk.TypesInfo.Types[cl].Type)
		if n == nil {
			return "?"
		}
		switch n.Obj().Name() {
		case "typeString":
			return "String"
		case "typeLong":
			return "Long"
		case "typeBool":
			return "Bool"
		case "typeExtension":
			if len(cl.Elts) == 1 {
				el := cl.Elts[0]
				if kv, ok := el.(*ast.KeyValueExpr); ok {
					el = kv.Value
				}
				if v := pk.TypesInfo.Types[el].Value; v != nil && v.Kind() == constant.String {
					switch constant.StringVal(v) {
					case "ipaddr":
						return "IPAddr"
					case "decimal":
						return "Decimal"
					case "datetime":
						return "Datetime"
					case "duration":
						return "Duration"
					}
					return "ext:" + constant.StringVal(v)
				}
			}
		}
		return n.Obj().Name()
	}
	found := map[string]bool{}
	for _, f := range pk.Syntax {
		ast.Inspect(f, func(n ast.Node) bool {
			vs, ok := n.(*ast.ValueSpec)
			if !ok || len(vs.Values) != 1 {
				return true
			}
			cl, ok := vs.Values[0].(*ast.CompositeLit)
			if !ok {
				return true
			}
			mt, ok := pk.TypesInfo.Types[cl].Type.Underlying().(*types.Map)
			if !ok {
				return true
			}
			st := structOf(mt.Elem())
			if st == nil || st.NumFields() < 2 {
				return true
			}
			hasCedar := false
			for i := 0; i < st.NumFields(); i++ {
				if types.Identical(st.Field(i).Type(), c.cedarT) {
					hasCedar = true
				}
			}
			if !hasCedar {
				return true
			}
			for _, el := range cl.Elts {
				kv, ok := el.(*ast.KeyValueExpr)
				if !ok || pk.TypesInfo.Types[kv.Key].Value == nil {
					continue
				}
				name := constant.StringVal(pk.TypesInfo.Types[kv.Key].Value)
				found[name] = true
				var args []string
				ret, isCtor := "?", false
				if v, ok := kv.Value.(*ast.CompositeLit); ok {
					for _, fe := range v.Elts {
						fkv, ok := fe.(*ast.KeyValueExpr)
						if !ok {
							continue
						}
						fname := fkv.Key.(*ast.Ident).Name
						ft := pk.TypesInfo.Types[fkv.Value].Type
						switch {
						case types.Identical(ft, c.cedarT) || (namedOf(ft) != nil && types.Implements(ft, c.cedarT.Underlying().(*types.Interface))):
							ret = kindOf(fkv.Value)
						case ft != nil && ft.Underlying().String() == "bool":
							if v := pk.TypesInfo.Types[fkv.Value].Value; v != nil && constant.BoolVal(v) {
								isCtor = true
							}
						default:
							if acl, ok := fkv.Value.(*ast.CompositeLit); ok {
								for _, a := range acl.Elts {
									args = append(args, kindOf(a))
								}
							}
						}
						_ = fname
					}
				}
				construct := "validate.extFuncTypes:" + name
				want, known := langExt[name]
				if !known {
					r.Viol(rule, construct, p.pos(kv.Pos()), "`"+name+"` has a validator signature but is not an extension function of the language")
					continue
				}
				okArgs := strings.Join(args, ",") == strings.Join(want, ",")
				okRet := ret == langExtResult[name]
				e, inReg := reg[name]
				okStyle := inReg && (e[1] == 0) == isCtor && e[0] == len(args)
				r.Check(okArgs && okRet && okStyle, rule, construct, p.pos(kv.Pos()), name+"("+strings.Join(args, ",")+") "+ret,
					"validator signature of `"+name+"` is ("+strings.Join(args, ",")+") → "+ret+", constructor="+yesNo(isCtor)+"; the language and the evaluator have ("+strings.Join(want, ",")+") → "+langExtResult[name]+
						", registered arity "+itoa(e[0])+", method="+itoa(e[1])+": an accepted call can fail with a type or arity error, or a well-typed one is rejected")
			}
			return true
		})
	}
	var missing []string
	for name := range langExt {
		if !found[name] {
			missing = append(missing, name)
		}
	}
	sort.Strings(missing)
	r.Check(len(missing) == 0, rule, "validate.extFuncTypes:coverage", "-", "every extension function has a validator signature", "no validator signature for: "+strings.Join(missing, ", "))
	r.Floor(rule, 20)
}

func (c *c15ctx) capabilities() {
	p, r := c.p, c.r
	const rule = "R15.4-capabilities"
	capT := p.namedType(pValidate, "capabilitySet")
	if capT == nil {
		r.Anchor(rule, "validate.capabilitySet")
		return
	}
	method := func(name string) *ssa.Function { return p.fn(pValidate, "capabilitySet."+name) }
	add, has, inter := method("add"), method("has"), method("intersect")
	if add == nil || has == nil || inter == nil {
		r.Anchor(rule, "capabilitySet.add / has / intersect")
		return
	}
	// (a) producers
	allowed := map[*ssa.Function]string{}
	for _, k := range []string{"NodeTypeHas", "NodeTypeHasTag"} {
		if h := c.handlers[k]; h != nil {
			allowed[h] = k
		}
	}
	nProd := 0
	for _, fn := range p.Funcs {
		if fnPkgPath(fn) != pValidate || fn.Synthetic != "" {
			continue
		}
		for _, cl := range callsIn(fn) {
			if cl.Common().StaticCallee() != add {
				continue
			}
			nProd++
			root := fn
			for root.Parent() != nil {
				root = root.Parent()
			}
			_, ok := allowed[root]
			r.Check(ok, rule, "validate."+fnShort(fn)+":produces-capability", p.pos(cl.Pos()), "a capability is produced by a has/hasTag rule",
				fnShort(fn)+" adds a capability but is not the typing rule of `has` or `hasTag`: an optional attribute or tag becomes accessible without the test that guarantees its presence")
		}
	}
	if nProd < 2 {
		r.Undec(rule, "validate:capability-producers", "-", "expected the has and hasTag rules to produce capabilities, found "+itoa(nProd)+" producer(s)")
	}
	// (b) consumers: optional attribute access and getTag raise their error unless the capability is present
	for _, k := range []string{"NodeTypeAccess", "NodeTypeGetTag"} {
		h := c.handlers[k]
		if h == nil {
			r.Anchor(rule, "typing function for "+k)
			continue
		}
		guardedErr := false
		var hasCalls []ssa.Value
		for _, cl := range callsIn(h) {
			if call, ok := cl.(*ssa.Call); ok && call.Call.StaticCallee() == has {
				hasCalls = append(hasCalls, call)
			}
		}
		derived := typeDerived(h, hasCalls...)
		makesErr := func(top *ssa.BasicBlock) bool {
			// anywhere in the region the absent edge dominates: an error value is made (call returning error, or a
			// concrete error converted to the error interface)
			for _, b := range h.Blocks {
				if !top.Dominates(b) {
					continue
				}
				for _, in := range b.Instrs {
					switch x := in.(type) {
					case *ssa.Call:
						sig := x.Call.Signature()
						if f := x.Call.StaticCallee(); f != nil && fnPkgPath(f) == "errors" {
							continue
						}
						if sig.Results().Len() == 1 && isErrorType(sig.Results().At(0).Type()) {
							return true
						}
					case *ssa.MakeInterface:
						if isErrorType(x.Type()) {
							return true
						}
					}
				}
			}
			return false
		}
		for _, b := range h.Blocks {
			iff, ok := lastInstr(b).(*ssa.If)
			if !ok {
				continue
			}
			fg := flattenGuard(Guard{Cond: iff.Cond, Pol: true})
			if !derived[fg.Cond] {
				continue
			}
			present, absent := b.Succs[0], b.Succs[1]
			if !fg.Pol {
				present, absent = absent, present
			}
			if makesErr(absent) && !reachable(present, absent) {
				guardedErr = true
			}
		}
		r.Check(len(hasCalls) > 0 && guardedErr, rule, "validate."+fnShort(h)+":requires-capability", p.pos(h.Pos()), "the access rule raises its error exactly when the capability is absent",
			fnShort(h)+" must raise an error when the capability for the accessed optional attribute / tag is absent (capability test present: "+yesNo(len(hasCalls) > 0)+"; error raised on its negative edge: "+yesNo(guardedErr)+")")
	}
	// (d) computed capability names: where the attribute part of a capability comes from a function that returns "" as a
	// sentinel ("not a literal"), the add/has is guarded by a non-emptiness test of that result; otherwise all non-literal
	// keys share one capability
	for _, fn := range p.Funcs {
		if fnPkgPath(fn) != pValidate || fn.Synthetic != "" {
			continue
		}
		for _, cl := range callsIn(fn) {
			callee := cl.Common().StaticCallee()
			if callee != add && callee != has {
				continue
			}
			// string-typed call results that flow into the capability argument
			var computed []ssa.Value
			seen := map[ssa.Value]bool{}
			var rec func(v ssa.Value, d int)
			rec = func(v ssa.Value, d int) {
				if v == nil || seen[v] || d > 8 {
					return
				}
				seen[v] = true
				switch x := v.(type) {
				case *ssa.Call:
					if g := x.Call.StaticCallee(); g != nil && fnPkgPath(g) == pValidate && basicKind(x.Type()) == types.String && returnsEmptySentinel(g) {
						computed = append(computed, x)
					}
				case *ssa.BinOp:
					rec(x.X, d+1)
					rec(x.Y, d+1)
				case *ssa.Convert:
					rec(x.X, d+1)
				case *ssa.ChangeType:
					rec(x.X, d+1)
				case *ssa.UnOp:
					if al, ok := x.X.(*ssa.Alloc); ok {
						for _, rf := range *al.Referrers() {
							switch y := rf.(type) {
							case *ssa.Store:
								rec(y.Val, d+1)
							case *ssa.FieldAddr:
								for _, r2 := range *y.Referrers() {
									if st, ok := r2.(*ssa.Store); ok {
										rec(st.Val, d+1)
									}
								}
							}
						}
					}
				case *ssa.Phi:
					for _, e := range x.Edges {
						rec(e, d+1)
					}
				}
			}
			for _, a := range cl.Common().Args[1:] {
				rec(a, 0)
			}
			for _, cv := range computed {
				guarded := false
				for _, gd := range guardsAt(cl.Block()) {
					fg := flattenGuard(gd)
					if bo, ok := fg.Cond.(*ssa.BinOp); ok {
						s, isC := constString(bo.Y)
						if isC && s == "" && stripConv(bo.X) == stripConv(cv) && ((bo.Op == token.NEQ && fg.Pol) || (bo.Op == token.EQL && !fg.Pol)) {
							guarded = true
						}
					}
				}
				what := "produced"
				if callee == has {
					what = "looked up"
				}
				r.Check(guarded, rule, "validate."+fnShort(fn)+":computed-capability-name:"+callee.Name(), p.pos(cl.Pos()), "a capability with a computed name is "+what+" only when the name is not the empty sentinel",
					"in "+fnShort(fn)+" a capability whose name comes from "+calleeName(cv.(*ssa.Call))+" (which returns \"\" for anything that is not a literal) is "+what+" without testing that result for \"\": every non-literal key shares the capability \"\" — `e.hasTag(context.a) && e.getTag(context.b)` validates and fails at run time when tag b is absent")
			}
		}
	}
	// (c) intersection: fresh result, elements of one operand tested in the other
	{
		construct := "validate.capabilitySet.intersect"
		fresh, guarded := true, true
		why := ""
		for _, b := range inter.Blocks {
			if ret, ok := lastInstr(b).(*ssa.Return); ok && len(ret.Results) == 1 {
				if _, isMake := ret.Results[0].(*ssa.MakeMap); !isMake {
					fresh = false
					why = "returns " + ret.Results[0].Name() + " (" + typeShort(ret.Results[0].Type()) + "), which is not the freshly made set"
					if _, isParam := ret.Results[0].(*ssa.Parameter); isParam {
						why = "returns one of its operands unchanged on some path"
					}
				}
			}
		}
		nUpd := 0
		forEachInstr(inter, func(in ssa.Instruction) {
			mu, ok := in.(*ssa.MapUpdate)
			if !ok {
				return
			}
			nUpd++
			okG := false
			for _, gd := range guardsAt(mu.Block()) {
				fg := flattenGuard(gd)
				if !fg.Pol {
					continue
				}
				v := fg.Cond
				if ex, ok := v.(*ssa.Extract); ok {
					v = ex.Tuple
				}
				if lk, ok := v.(*ssa.Lookup); ok {
					if _, isParam := lk.X.(*ssa.Parameter); isParam && lk.Index == mu.Key {
						okG = true
					}
				}
			}
			if !okG {
				guarded = false
			}
		})
		r.Check(fresh && guarded && nUpd > 0, rule, construct, p.pos(inter.Pos()), "builds a fresh set from elements looked up in the other operand",
			"capabilitySet.intersect must return a fresh set holding only elements found in both operands ("+why+"; every insertion guarded by a lookup in the other operand: "+yesNo(guarded)+"): where control flow joins, a capability from one branch only would survive and an optional attribute be accessed unguarded")
	}
}

func (c *c15ctx) lubBoth() {
	p, r := c.p, c.r
	const rule = "R15.5-record-lub"
	// functions taking two records (same named struct type implementing cedarType) and returning (cedarType, error)
	n := 0
	for _, fn := range p.Funcs {
		if fnPkgPath(fn) != pValidate || fn.Parent() != nil {
			continue
		}
		sig := fn.Signature
		if sig.Params().Len() != 2 || sig.Results().Len() != 2 || !types.Identical(sig.Params().At(0).Type(), sig.Params().At(1).Type()) {
			continue
		}
		pt := namedOf(sig.Params().At(0).Type())
		if pt == nil || structOf(pt) == nil || !types.Implements(pt, c.cedarT.Underlying().(*types.Interface)) || !types.Identical(sig.Results().At(0).Type(), c.cedarT) {
			continue
		}
		// stores of a bool field named like "required" into a struct built while a key is known to be in both maps
		forEachInstr(fn, func(in ssa.Instruction) {
			st, ok := in.(*ssa.Store)
			if !ok {
				return
			}
			fa, ok := st.Addr.(*ssa.FieldAddr)
			if !ok {
				return
			}
			stt := structOf(fa.X.Type())
			if stt == nil || stt.Field(fa.Field).Type().Underlying().String() != "bool" {
				return
			}
			// both-present: guarded by a successful comma-ok lookup
			both := false
			for _, gd := range guardsAt(st.Block()) {
				fg := flattenGuard(gd)
				if ex, ok := fg.Cond.(*ssa.Extract); ok && fg.Pol {
					if _, isLk := ex.Tuple.(*ssa.Lookup); isLk {
						both = true
					}
				}
			}
			if !both {
				return
			}
			n++
			bases := map[ssa.Value]bool{}
			seen := map[ssa.Value]bool{}
			var rec func(v ssa.Value)
			rec = func(v ssa.Value) {
				if v == nil || seen[v] {
					return
				}
				seen[v] = true
				switch x := v.(type) {
				case *ssa.Phi:
					for i, e := range x.Edges {
						rec(e)
						if iff, ok := lastInstr(x.Block().Preds[i]).(*ssa.If); ok {
							rec(iff.Cond)
						}
					}
				case *ssa.Field:
					if stt2 := structOf(x.X.Type()); stt2 != nil && stt2.Field(x.Field).Type().Underlying().String() == "bool" {
						bases[x.X] = true
					}
				case *ssa.UnOp:
					if fa2, ok := x.X.(*ssa.FieldAddr); ok {
						bases[fa2.X] = true
					} else {
						rec(x.X)
					}
				case *ssa.BinOp:
					rec(x.X)
					rec(x.Y)
				}
			}
			rec(st.Val)
			construct := "validate." + fnShort(fn) + ":" + stt.Field(fa.Field).Name()
			r.Check(len(bases) >= 2, rule, construct, p.pos(st.Pos()), "`"+stt.Field(fa.Field).Name()+"` of an attribute present in both records depends on both operands",
				"in "+fnShort(fn)+" the `"+stt.Field(fa.Field).Name()+"` flag of an attribute present in both records is taken from "+itoa(len(bases))+" operand(s): the least upper bound must require the attribute only if both records do, otherwise `(if c then a else b).x` validates although x may be absent")
		})
	}
	if n == 0 {
		r.Undec(rule, "validate:record-lub", "-", "no record least-upper-bound function with a per-attribute flag was recognised")
	}
}

func (c *c15ctx) closure() {
	p, r := c.p, c.r
	const rule = "R15.6-hierarchy-closure"
	n := 0
	for _, fn := range p.Funcs {
		if fnPkgPath(fn) != pValidate || fn.Parent() != nil {
			continue
		}
		sig := fn.Signature
		if sig.Results().Len() != 1 || sig.Results().At(0).Type().Underlying().String() != "bool" || sig.Params().Len() < 2 {
			continue
		}
		t0 := sig.Params().At(0).Type()
		if !types.Identical(t0, sig.Params().At(1).Type()) || namedOf(t0) == nil || namedOf(t0).Obj().Pkg() == nil || namedOf(t0).Obj().Pkg().Path() != pTypes {
			continue
		}
		readsParents := false
		forEachInstr(fn, func(in ssa.Instruction) {
			var fieldName string
			switch x := in.(type) {
			case *ssa.Field:
				if st := structOf(x.X.Type()); st != nil {
					fieldName = st.Field(x.Field).Name()
				}
			case *ssa.FieldAddr:
				if st := structOf(x.X.Type()); st != nil {
					fieldName = st.Field(x.Field).Name()
				}
			}
			if strings.Contains(fieldName, "Parent") {
				readsParents = true
			}
		})
		if !readsParents {
			continue
		}
		n++
		recursive := false
		for _, g := range withAnon(fn) {
			for _, cl := range callsIn(g) {
				if cl.Common().StaticCallee() == fn {
					recursive = true
				}
			}
		}
		// or a work-list: a loop that appends to the slice it consumes
		worklist := false
		forEachInstr(fn, func(in ssa.Instruction) {
			if call, ok := in.(*ssa.Call); ok && isBuiltin(call.Common(), "append") {
				if _, isPhi := call.Call.Args[0].(*ssa.Phi); isPhi {
					worklist = true
				}
			}
		})
		r.Check(recursive || worklist, rule, "validate."+fnShort(fn), p.pos(fn.Pos()), "the descendant test follows parents of parents",
			fnShort(fn)+" reads the parents of its first argument but neither calls itself on them nor keeps a work list: only direct parents are considered, so policies are not checked for (and `in` is folded to false on) indirect members of a group")
	}
	if n < 2 {
		r.Undec(rule, "validate:descendant-tests", "-", "expected descendant tests for the action and the entity hierarchy, found "+itoa(n))
	}
	_ = token.ADD
}

// ---------------------------------------------------------------------------------------------
// R15.1k operand-kind agreement: for each operator, the kinds of operand types the validator lets through must be kinds
// the evaluator accepts for that operand (language table, checked against the evaluator by C01 R1.3). Extracted from
// the typing functions on the AST: an operand's inferred type is the first result of a call to the dispatcher; a
// *requirement* on it is an `if` whose condition contains the negation of a type test of that value (`!ok` of
// `v.(T)`, `!pred(v)`, or a non-nil result of an expectation function applied to it) and whose body produces an error.

var cedarKindOf = map[string][]string{
	"typeLong": {"Long"}, "typeBool": {"Boolean"}, "typeTrue": {"Boolean"}, "typeFalse": {"Boolean"}, "typeString": {"String"},
	"typeSet": {"Set"}, "typeEntity": {"EntityUID"}, "typeRecord": {"Record"}, "typeNever": {},
}

func evalKindsOf(spec string) map[string]bool {
	out := map[string]bool{}
	for _, k := range strings.Split(spec, "|") {
		if k == "Comparable" {
			out["Long"], out["Datetime"], out["Duration"] = true, true, true
			continue
		}
		out[k] = true
	}
	return out
}

type c15kinds struct {
	set map[string]bool // evaluator-side kind names; "Extension:*" for an unconstrained extension type
	any bool
}

func (c *c15ctx) operandKinds() {
	p, r := c.p, c.r
	const rule = "R15.1k-operand-kinds"
	pk := p.Pkgs[pValidate]
	info := pk.TypesInfo
	dispObj := c.dispatch.Object()
	predMemo := map[*types.Func]map[string]bool{}

	extName := func(s string) string {
		switch s {
		case "datetime":
			return "Datetime"
		case "duration":
			return "Duration"
		case "decimal":
			return "Decimal"
		case "ipaddr":
			return "IPAddr"
		}
		return "Extension:" + s
	}
	kindsOfType := func(t types.Type, body ast.Node) []string {
		n := namedOf(t)
		if n == nil {
			return nil
		}
		if n.Obj().Name() == "typeExtension" {
			// narrowed by comparisons of .name with constants inside the guarded body
			var names []string
			if body != nil {
				ast.Inspect(body, func(nd ast.Node) bool {
					if be, ok := nd.(*ast.BinaryExpr); ok && be.Op == token.EQL {
						for _, side := range []ast.Expr{be.X, be.Y} {
							if v := info.Types[side].Value; v != nil && v.Kind() == constant.String {
								names = append(names, extName(constant.StringVal(v)))
							}
						}
					}
					return true
				})
			}
			if len(names) == 0 {
				return []string{"Extension:*"}
			}
			return names
		}
		if ks, ok := cedarKindOf[n.Obj().Name()]; ok {
			return ks
		}
		return []string{n.Obj().Name()}
	}
	// mayAccept: the statements contain a return whose last/only relevant result is not the literal rejection
	mayAccept := func(body ast.Node, errResult bool) bool {
		acc := false
		ast.Inspect(body, func(nd ast.Node) bool {
			ret, ok := nd.(*ast.ReturnStmt)
			if !ok || len(ret.Results) == 0 {
				return true
			}
			last := ret.Results[len(ret.Results)-1]
			if errResult {
				if id, ok := last.(*ast.Ident); ok && id.Name == "nil" {
					acc = true
				}
			} else {
				if id, ok := last.(*ast.Ident); !ok || id.Name != "false" {
					acc = true
				}
			}
			return true
		})
		return acc
	}
	var acceptedBy func(body *ast.BlockStmt, param types.Object, errResult bool, depth int) map[string]bool
	acceptedByFunc := func(fo *types.Func, depth int) map[string]bool {
		if m, ok := predMemo[fo]; ok {
			return m
		}
		predMemo[fo] = map[string]bool{}
		dr := declIndex(p)[fo]
		if dr == nil || dr.fd.Type.Params.NumFields() != 1 || len(dr.fd.Type.Params.List[0].Names) != 1 {
			return nil
		}
		sig := fo.Type().(*types.Signature)
		errRes := sig.Results().Len() == 1 && isErrorType(sig.Results().At(0).Type())
		m := acceptedBy(dr.fd.Body, dr.pk.TypesInfo.Defs[dr.fd.Type.Params.List[0].Names[0]], errRes, depth+1)
		predMemo[fo] = m
		return m
	}
	acceptedBy = func(body *ast.BlockStmt, param types.Object, errResult bool, depth int) map[string]bool {
		out := map[string]bool{}
		if depth > 4 || body == nil {
			return out
		}
		isParam := func(e ast.Expr) bool {
			id, ok := ast.Unparen(e).(*ast.Ident)
			return ok && (info.Uses[id] == param)
		}
		ast.Inspect(body, func(nd ast.Node) bool {
			switch x := nd.(type) {
			case *ast.TypeSwitchStmt:
				if op := typeSwitchOperand(x); op != nil && isParam(op) {
					for _, st := range x.Body.List {
						cc := st.(*ast.CaseClause)
						if !mayAccept(cc, errResult) {
							continue
						}
						for _, e := range cc.List {
							for _, k := range kindsOfType(info.Types[e].Type, cc) {
								out[k] = true
							}
						}
					}
					return false
				}
			case *ast.IfStmt:
				// if x, ok := param.(T); ok { … accept … }
				if as, ok := x.Init.(*ast.AssignStmt); ok && len(as.Rhs) == 1 {
					if ta, ok := as.Rhs[0].(*ast.TypeAssertExpr); ok && isParam(ta.X) && ta.Type != nil && mayAccept(x.Body, errResult) {
						for _, k := range kindsOfType(info.Types[ta.Type].Type, x.Body) {
							out[k] = true
						}
					}
				}
				// if pred(param) { accept }
				if call, ok := ast.Unparen(x.Cond).(*ast.CallExpr); ok && len(call.Args) == 1 && isParam(call.Args[0]) && mayAccept(x.Body, errResult) {
					if fo := calleeObj(info, call); fo != nil && fo.Pkg() == pk.Types {
						for k := range acceptedByFunc(fo, depth) {
							out[k] = true
						}
					}
				}
			}
			return true
		})
		return out
	}

	// language table per node kind
	var kinds []string
	for k := range langOperands {
		kinds = append(kinds, k)
	}
	sort.Strings(kinds)
	done := map[string]bool{}
	n := 0
	for _, kind := range kinds {
		h := c.handlers[kind]
		if h == nil {
			r.Anchor(rule, "typing function for "+kind)
			continue
		}
		fd := funcDecl(h)
		if fd == nil {
			continue
		}
		// how the dispatch calls the handler (to resolve function-typed parameters)
		paramArgs := map[types.Object]ast.Expr{}
		if dd := funcDecl(c.dispatch); dd != nil {
			ast.Inspect(dd, func(nd ast.Node) bool {
				cc, ok := nd.(*ast.CaseClause)
				if !ok {
					return true
				}
				match := false
				for _, e := range cc.List {
					if nn := namedOf(info.Types[e].Type); nn != nil && nn.Obj().Name() == kind {
						match = true
					}
				}
				if !match {
					return true
				}
				ast.Inspect(cc, func(n2 ast.Node) bool {
					if call, ok := n2.(*ast.CallExpr); ok {
						if fo := calleeObj(info, call); fo != nil && p.SSA.FuncValue(fo) == h {
							i := 0
							for _, fl := range fd.Type.Params.List {
								for _, nm := range fl.Names {
									if i < len(call.Args) {
										paramArgs[info.Defs[nm]] = call.Args[i]
									}
									i++
								}
							}
						}
					}
					return true
				})
				return false
			})
		}
		// operand variables in order of their typing calls
		// operand i = the i-th distinct expression handed to the dispatcher; it may be typed at several places (error
		// recovery paths) into several variables
		var operandExprs []string
		operandVars := map[string][]types.Object{}
		ast.Inspect(fd.Body, func(nd ast.Node) bool {
			as, ok := nd.(*ast.AssignStmt)
			if !ok || len(as.Rhs) != 1 || len(as.Lhs) < 1 {
				return true
			}
			call, ok := as.Rhs[0].(*ast.CallExpr)
			if !ok || len(call.Args) < 2 {
				return true
			}
			if fo := calleeObj(info, call); fo == nil || types.Object(fo) != dispObj {
				return true
			}
			key := types.ExprString(call.Args[1])
			if _, seen := operandVars[key]; !seen {
				operandExprs = append(operandExprs, key)
				operandVars[key] = nil
			}
			if id, ok := as.Lhs[0].(*ast.Ident); ok && id.Name != "_" {
				o := info.Defs[id]
				if o == nil {
					o = info.Uses[id]
				}
				if o != nil {
					operandVars[key] = append(operandVars[key], o)
				}
			}
			return true
		})
		want := langOperands[kind]
		// requirements per operand
		okVars := map[types.Object]struct {
			v types.Object
			t types.Type
		}{}
		ast.Inspect(fd.Body, func(nd ast.Node) bool {
			as, ok := nd.(*ast.AssignStmt)
			if !ok || len(as.Lhs) != 2 || len(as.Rhs) != 1 {
				return true
			}
			ta, ok := as.Rhs[0].(*ast.TypeAssertExpr)
			if !ok || ta.Type == nil {
				return true
			}
			vid, ok := ast.Unparen(ta.X).(*ast.Ident)
			okid, ok2 := as.Lhs[1].(*ast.Ident)
			if !ok || !ok2 {
				return true
			}
			oo := info.Defs[okid]
			if oo == nil {
				oo = info.Uses[okid]
			}
			okVars[oo] = struct {
				v types.Object
				t types.Type
			}{info.Uses[vid], info.Types[ta.Type].Type}
			return true
		})
		makesErr := func(body ast.Node) bool {
			found := false
			ast.Inspect(body, func(nd ast.Node) bool {
				switch x := nd.(type) {
				case *ast.CallExpr:
					if t := info.Types[x].Type; t != nil && isErrorType(t) {
						found = true
					}
				case *ast.UnaryExpr:
					if cl, ok := x.X.(*ast.CompositeLit); ok && x.Op == token.AND {
						if t := info.Types[cl].Type; t != nil && types.Implements(types.NewPointer(t), types.Universe.Lookup("error").Type().Underlying().(*types.Interface)) {
							found = true
						}
					}
				}
				return true
			})
			return found
		}
		req := map[types.Object]map[string]bool{}
		addReq := func(v types.Object, ks map[string]bool) {
			if cur, ok := req[v]; ok {
				for k := range cur {
					if !ks[k] {
						delete(cur, k)
					}
				}
				return
			}
			cp := map[string]bool{}
			for k := range ks {
				cp[k] = true
			}
			req[v] = cp
		}
		var conjuncts func(e ast.Expr) []ast.Expr
		conjuncts = func(e ast.Expr) []ast.Expr {
			e = ast.Unparen(e)
			if be, ok := e.(*ast.BinaryExpr); ok && be.Op == token.LAND {
				return append(conjuncts(be.X), conjuncts(be.Y)...)
			}
			return []ast.Expr{e}
		}
		ast.Inspect(fd.Body, func(nd ast.Node) bool {
			ifs, ok := nd.(*ast.IfStmt)
			if !ok || !makesErr(ifs.Body) {
				return true
			}
			for _, cj := range conjuncts(ifs.Cond) {
				ue, ok := cj.(*ast.UnaryExpr)
				if !ok || ue.Op != token.NOT {
					// expectation function result tested against nil: err := expect(v); if err != nil {…}
					continue
				}
				switch x := ast.Unparen(ue.X).(type) {
				case *ast.Ident:
					if ov, ok := okVars[info.Uses[x]]; ok && ov.v != nil {
						ks := map[string]bool{}
						for _, k := range kindsOfType(ov.t, nil) {
							ks[k] = true
						}
						addReq(ov.v, ks)
					}
				case *ast.CallExpr:
					if len(x.Args) == 1 {
						if vid, ok := ast.Unparen(x.Args[0]).(*ast.Ident); ok {
							if fo := calleeObj(info, x); fo != nil && fo.Pkg() == pk.Types {
								addReq(info.Uses[vid], acceptedByFunc(fo, 0))
							}
						}
					}
				}
			}
			return true
		})
		// expectation functions passed as parameters: f(v) where f is a func-typed parameter
		ast.Inspect(fd.Body, func(nd ast.Node) bool {
			call, ok := nd.(*ast.CallExpr)
			if !ok || len(call.Args) != 1 {
				return true
			}
			fid, ok := ast.Unparen(call.Fun).(*ast.Ident)
			vid, ok2 := ast.Unparen(call.Args[0]).(*ast.Ident)
			if !ok || !ok2 {
				return true
			}
			arg, isParam := paramArgs[info.Uses[fid]]
			if !isParam {
				return true
			}
			// the argument names a package-level func value: use its literal
			if aid, ok := ast.Unparen(arg).(*ast.Ident); ok {
				if gv, ok := info.Uses[aid].(*types.Var); ok {
					for _, f := range pk.Syntax {
						ast.Inspect(f, func(n3 ast.Node) bool {
							vs, ok := n3.(*ast.ValueSpec)
							if !ok {
								return true
							}
							for i, nm := range vs.Names {
								if info.Defs[nm] == types.Object(gv) && i < len(vs.Values) {
									if fl, ok := vs.Values[i].(*ast.FuncLit); ok && fl.Type.Params.NumFields() == 1 && len(fl.Type.Params.List[0].Names) == 1 {
										errRes := fl.Type.Results != nil && fl.Type.Results.NumFields() == 1
										addReq(info.Uses[vid], acceptedBy(fl.Body, info.Defs[fl.Type.Params.List[0].Names[0]], errRes, 0))
									}
								}
							}
							return true
						})
					}
				}
			}
			return true
		})
		for i, spec := range want {
			construct := "validate." + fnShort(h) + ":" + kind + ":operand" + itoa(i)
			if done[construct] {
				continue
			}
			done[construct] = true
			if spec == "any" {
				continue
			}
			n++
			if i >= len(operandExprs) {
				r.Undec(rule, construct, p.pos(h.Pos()), "operand "+itoa(i)+" of "+kind+" is not typed by a call to the dispatcher in "+fnShort(h))
				continue
			}
			ev := evalKindsOf(spec)
			var got map[string]bool
			has := false
			for _, ov := range operandVars[operandExprs[i]] {
				if g, ok := req[ov]; ok {
					has = true
					if got == nil {
						got = map[string]bool{}
					}
					for k := range g {
						got[k] = true
					}
				}
			}
			if !has || len(got) == 0 {
				r.Viol(rule, construct, p.pos(h.Pos()), fnShort(h)+" puts no requirement on the type of operand "+itoa(i)+" of "+kind+"; the evaluator demands "+spec+": a policy with any other operand type validates and fails at run time with a type error")
				continue
			}
			var extra, gotL []string
			for k := range got {
				gotL = append(gotL, k)
				if !ev[k] {
					extra = append(extra, k)
				}
			}
			sort.Strings(extra)
			sort.Strings(gotL)
			r.Check(len(extra) == 0, rule, construct, p.pos(h.Pos()), "validator lets through {"+strings.Join(gotL, ",")+"} ⊆ evaluator "+spec,
				fnShort(h)+" lets operand "+itoa(i)+" of "+kind+" through with type kind(s) {"+strings.Join(extra, ",")+"}, which the evaluator rejects (it demands "+spec+"): the policy validates and fails at run time with a type error")
		}
	}
	if n < 25 {
		r.Undec(rule, "validate:operand-table", "-", "only "+itoa(n)+" operand positions were compared (expected ≥ 25)")
	}
}

// R15.7: conformance checks look at every member that is present. In a loop over the *schema's* members that looks each
// one up in the value (comma-ok) and hands present ones to the recursive checker, the only way to move on to the next
// member without calling the checker is the "absent" edge of that lookup. A `continue` for optional members (whether
// present or not) lets a present attribute of the wrong type conform — and a `has`-guarded access then fails at run time.
func (c *c15ctx) conformanceVisitsAll() {
	p, r := c.p, c.r
	const rule = "R15.7-conformance-visits-present"
	n := 0
	for _, fn := range p.Funcs {
		if fnPkgPath(fn) != pValidate || fn.Parent() != nil {
			continue
		}
		// value conformance functions: take a types.Value (or Record) and a resolved schema type, return error
		sig := fn.Signature
		if sig.Results().Len() != 1 || !isErrorType(sig.Results().At(0).Type()) || sig.Params().Len() != 2 {
			continue
		}
		p0 := namedOf(sig.Params().At(0).Type())
		p1 := namedOf(sig.Params().At(1).Type())
		if p0 == nil || p1 == nil || p0.Obj().Pkg() == nil || p1.Obj().Pkg() == nil || p0.Obj().Pkg().Path() != pTypes || p1.Obj().Pkg().Path() != pResolved {
			continue
		}
		loops := loopsOf(fn)
		for _, l := range loops {
			// a comma-ok lookup on the value inside the loop, and a call to a conformance function
			var okIf *ssa.If
			var check ssa.CallInstruction
			for b := range l.Body {
				if innermostLoop(loops, b) != l {
					continue
				}
				for _, in := range b.Instrs {
					if cl, ok := in.(ssa.CallInstruction); ok {
						g := cl.Common().StaticCallee()
						if g != nil && fnPkgPath(g) == pValidate && g.Signature.Results().Len() == 1 && isErrorType(g.Signature.Results().At(0).Type()) && g.Signature.Params().Len() == 2 {
							check = cl
						}
						if g != nil && fnPkgPath(g) == pTypes && g.Name() == "Get" {
							if call, ok := cl.(*ssa.Call); ok {
								if ex := extractOf(call, 1); ex != nil {
									for _, rf := range *ex.Referrers() {
										if iff, ok := rf.(*ssa.If); ok {
											okIf = iff
										}
									}
								}
							}
						}
					}
				}
			}
			if okIf == nil || check == nil {
				continue
			}
			n++
			absent := okIf.Block().Succs[1]
			bad := false
			for _, pred := range l.Header.Preds {
				if !l.Body[pred] {
					continue
				}
				if check.Block().Dominates(pred) || absent.Dominates(pred) || pred == absent {
					continue
				}
				bad = true
			}
			r.Check(!bad, rule, fnQual(fn)+":member-loop", p.pos(check.Pos()), "a member is skipped only when it is absent from the value",
				"in "+fnShort(fn)+" the loop over the schema's members can go on to the next member without checking the current one although it is present in the value (a path to the next iteration avoids both the check and the lookup's \"absent\" edge): a present member of the wrong type conforms, and a guarded access to it fails at run time with a type error")
		}
	}
	if n == 0 {
		r.Undec(rule, "validate:member-loops", "-", "no member-wise conformance loop was recognised (anchors vanished)")
	}
}

// returnsEmptySentinel: a function with a string result that returns the constant "" on some path.
func returnsEmptySentinel(g *ssa.Function) bool {
	if g.Blocks == nil {
		return false
	}
	for _, b := range g.Blocks {
		if ret, ok := lastInstr(b).(*ssa.Return); ok && len(ret.Results) == 1 {
			if s, ok := constString(ret.Results[0]); ok && s == "" {
				return true
			}
		}
	}
	return false
}

// R15.8: a decision about an entity-type *union* taken from one of its members holds for the union only when the union
// is a singleton. Wherever a constant-index element of a union's member list feeds a branch condition, a dominating
// `len(members) == 1` must hold — otherwise `e is T` is typed as always true as soon as T happens to be the first member,
// and the branch that would be type-checked for the other members is skipped.
func (c *c15ctx) singletonDecisions() {
	p, r := c.p, c.r
	const rule = "R15.8-singleton-decision"
	n := 0
	for _, fn := range p.Funcs {
		if fnPkgPath(fn) != pValidate {
			continue
		}
		forEachInstr(fn, func(in ssa.Instruction) {
			ia, ok := in.(*ssa.IndexAddr)
			if !ok {
				return
			}
			if _, isConst := constInt(ia.Index); !isConst {
				return
			}
			fld, _, ok := fieldOfLoad(ia.X)
			if !ok {
				// slice obtained through a Field of a struct value
				if f, ok := ia.X.(*ssa.Field); ok {
					fld = f.Field
				} else {
					return
				}
			}
			sl, isSlice := ia.X.Type().Underlying().(*types.Slice)
			if !isSlice || namedOf(sl.Elem()) == nil || namedOf(sl.Elem()).Obj().Name() != "EntityType" {
				return
			}
			// does the element feed a branch condition?
			decides := false
			if refs := ia.Referrers(); refs != nil {
				for _, rf := range *refs {
					if ld, ok := rf.(*ssa.UnOp); ok {
						if r2 := ld.Referrers(); r2 != nil {
							for _, u := range *r2 {
								if bo, ok := u.(*ssa.BinOp); ok && (bo.Op == token.EQL || bo.Op == token.NEQ) {
									if ifUsing(bo) != nil {
										decides = true
									}
									// or through a && / || phi
									if r3 := bo.Referrers(); r3 != nil {
										for _, u3 := range *r3 {
											if _, isPhi := u3.(*ssa.Phi); isPhi {
												decides = true
											}
										}
									}
								}
							}
						}
					}
				}
			}
			if !decides {
				return
			}
			n++
			singleton := false
			for _, gd := range guardsAt(ia.Block()) {
				fg := flattenGuard(gd)
				bo, ok := fg.Cond.(*ssa.BinOp)
				if !ok || bo.Op != token.EQL || !fg.Pol {
					continue
				}
				k, isC := constInt(bo.Y)
				call, isCall := bo.X.(*ssa.Call)
				if !isC || k != 1 || !isCall || !isBuiltin(call.Common(), "len") {
					continue
				}
				if f2, _, ok := fieldOfLoad(call.Call.Args[0]); ok && f2 == fld {
					singleton = true
				}
				if f2, ok := call.Call.Args[0].(*ssa.Field); ok && f2.Field == fld {
					singleton = true
				}
			}
			r.Check(singleton, rule, fnQual(fn)+":member@"+itoa(instrIndex(ia))+"b"+itoa(ia.Block().Index), p.pos(ia.Pos()), "a single member decides only for a singleton union",
				"in "+fnShort(fn)+" a branch is decided by one member of an entity-type union (a constant index into its member list) without a dominating `len(members) == 1`: the conclusion is drawn for the whole union from its first member, so an expression is typed as a constant and the other branch escapes type checking")
		})
	}
	if n == 0 {
		r.Undec(rule, "validate:union-decisions", "-", "no decision taken from a single union member found (anchor vanished)")
	}
}

// R15.4 (clauses start empty): what a `has` test establishes holds for the rest of the clause it appears in — and, at most,
// for later clauses if it appeared in a `when` clause. An `unless { principal has nick }` lets the policy through exactly
// when the attribute is ABSENT. The clause loop must therefore hand the typing function a fresh capability set, or carry a
// set forward only under a test of the clause's kind.
func (c *c15ctx) clausesStartEmpty() {
	p, r := c.p, c.r
	const rule = "R15.4-capabilities"
	fresh := p.fn(pValidate, "newCapabilitySet")
	if fresh == nil || c.dispatch == nil {
		r.Anchor(rule, "validate.newCapabilitySet / the typing dispatcher")
		return
	}
	n := 0
	for _, fn := range p.Funcs {
		if fnPkgPath(fn) != pValidate || len(fn.Blocks) == 0 {
			continue
		}
		// functions that type the body of a clause: a dispatcher call whose node argument is a clause's Body
		for _, cl := range callsIn(fn) {
			call, ok := cl.(*ssa.Call)
			if !ok || call.Call.StaticCallee() != c.dispatch {
				continue
			}
			isBody := false
			var caps ssa.Value
			for _, a := range call.Call.Args {
				if typeIs(a.Type(), pValidate, "capabilitySet") {
					caps = a
				}
				for _, l := range leavesOf(a) {
					if fa, ok := l.(*ssa.FieldAddr); ok {
						if _, f := fieldAddrName(fa); f == "Body" {
							isBody = true
						}
					}
					if fl, ok := l.(*ssa.Field); ok {
						if st := structOf(fl.X.Type()); st != nil && st.Field(fl.Field).Name() == "Body" && typeIs(fl.X.Type(), pXAst, "ConditionType") {
							isBody = true
						}
					}
				}
			}
			if !isBody {
				// leavesOf stops at loads: look one step further for *(&clause.Body)
				for _, a := range call.Call.Args {
					if ld, ok := a.(*ssa.UnOp); ok && ld.Op == token.MUL {
						if fa, ok := ld.X.(*ssa.FieldAddr); ok {
							if _, f := fieldAddrName(fa); f == "Body" {
								if pt, ok := fa.X.Type().Underlying().(*types.Pointer); ok && typeIs(pt.Elem(), pXAst, "ConditionType") {
									isBody = true
								}
							}
						}
					}
				}
			}
			if !isBody || caps == nil {
				continue
			}
			n++
			construct := "validate." + fnShort(fn) + ":clause-capabilities"
			if cc, ok := caps.(*ssa.Call); ok && cc.Call.StaticCallee() == fresh {
				r.OK(rule, construct, p.pos(call.Pos()), "every clause is typed from a fresh, empty capability set")
				continue
			}
			// carried: every store that feeds the carried set must be under a test of the clause kind
			guarded := true
			found := false
			forEachInstr(fn, func(in ssa.Instruction) {
				st, ok := in.(*ssa.Store)
				if !ok || !typeIs(st.Val.Type(), pValidate, "capabilitySet") {
					return
				}
				if cc, ok := st.Val.(*ssa.Call); ok && cc.Call.StaticCallee() == fresh {
					return
				}
				found = true
				kindTested := false
				for _, g := range guardsAt(st.Block()) {
					for _, l := range leavesOf(flattenGuard(g).Cond) {
						if fa, ok := l.(*ssa.FieldAddr); ok {
							if _, f := fieldAddrName(fa); f == "Condition" {
								kindTested = true
							}
						}
					}
					if bo, ok := flattenGuard(g).Cond.(*ssa.BinOp); ok {
						for _, side := range []ssa.Value{bo.X, bo.Y} {
							if ld, ok := side.(*ssa.UnOp); ok && ld.Op == token.MUL {
								if fa, ok := ld.X.(*ssa.FieldAddr); ok {
									if _, f := fieldAddrName(fa); f == "Condition" {
										kindTested = true
									}
								}
							}
						}
					}
				}
				if !kindTested {
					guarded = false
				}
			})
			r.Check(found && guarded, rule, construct, p.pos(call.Pos()), "capabilities are carried between clauses only under a test of the clause kind",
				fnShort(fn)+" types a clause starting from capabilities carried over from earlier clauses, and the carry-over is not conditional on the earlier clause being a `when`: what an `unless { x has a }` established (a is absent when the policy goes on) is then taken as `x has a` in the next clause, and `x.a` validates although it fails at run time")
		}
	}
	r.Check(n >= 1, rule, "clause-typing-sites", "-", itoa(n)+" place(s) type a clause body", "no place was found where a clause body is handed to the typing dispatcher (anchor lost)")
}
