package main

import (
	"fmt"
	"go/ast"
	"go/types"
	"golang.org/x/tools/go/ssa"
	"os"
	"sort"
)

// Development aid (not a registered check): prints facts the rules are built from.
func init() {
	if len(os.Args) > 1 && os.Args[1] == "survey" {
		what := "typeswitch"
		if len(os.Args) > 2 {
			what = os.Args[2]
		}
		p, err := loadProg(envOr("CEDAR_REPO", "/repo"), "amd64")
		if err != nil {
			fmt.Println(err)
			os.Exit(2)
		}
		var paths []string
		for _, pk := range p.All {
			paths = append(paths, pk.PkgPath)
		}
		switch what {
		case "typeswitch":
			for _, ti := range p.typeSwitches(paths...) {
				fmt.Printf("%s %s over %s impls=%d missing=[%s] default=%d nil=%v\n", p.pos(ti.Stmt.Pos()), fnQualAst(ti.Pkg, ti.FuncName), ti.Sealed.name(), len(ti.Sealed.Impls), typeNames(ti.Missing), p.classifyDefault(ti.Pkg, ti.Default), ti.HasNil)
			}
		case "sealed":
			seen := map[string]bool{}
			for _, pk := range p.All {
				sc := pk.Types.Scope()
				for _, n := range sc.Names() {
					if tn, ok := sc.Lookup(n).(*types.TypeName); ok && !tn.IsAlias() {
						if nt, ok := tn.Type().(*types.Named); ok {
							if s := p.sealedOf(nt); s != nil && !seen[s.name()] {
								seen[s.name()] = true
								fmt.Printf("%s.%s: %d: %s\n", pk.PkgPath, n, len(s.Impls), typeNames(s.Impls))
							}
						}
					}
				}
			}
		case "asserts":
			for _, pk := range p.All {
				for _, f := range pk.Syntax {
					var cur *ast.FuncDecl
					par := map[ast.Node]ast.Node{}
					ast.Inspect(f, func(n ast.Node) bool {
						if fd, ok := n.(*ast.FuncDecl); ok {
							cur = fd
						}
						return true
					})
					_ = par
					cur = nil
					var stack []ast.Node
					ast.Inspect(f, func(n ast.Node) bool {
						if n == nil {
							stack = stack[:len(stack)-1]
							return true
						}
						if fd, ok := n.(*ast.FuncDecl); ok {
							cur = fd
						}
						if ta, ok := n.(*ast.TypeAssertExpr); ok && ta.Type != nil {
							parent := stack[len(stack)-1]
							commaOK := false
							switch pa := parent.(type) {
							case *ast.AssignStmt:
								commaOK = len(pa.Lhs) == 2 && len(pa.Rhs) == 1
							case *ast.ValueSpec:
								commaOK = len(pa.Names) == 2 && len(pa.Values) == 1
							}
							if !commaOK {
								fmt.Printf("%s %s.%s unchecked assert to %s\n", p.pos(ta.Pos()), pk.Types.Name(), declName(cur), types.ExprString(ta.Type))
							}
						}
						stack = append(stack, n)
						return true
					})
				}
			}
		case "panics":
			for _, pk := range p.All {
				for _, f := range pk.Syntax {
					var cur *ast.FuncDecl
					ast.Inspect(f, func(n ast.Node) bool {
						if fd, ok := n.(*ast.FuncDecl); ok {
							cur = fd
						}
						if c, ok := n.(*ast.CallExpr); ok && isBuiltinCall(pk.TypesInfo, c, "panic") {
							fmt.Printf("%s %s.%s panic\n", p.pos(c.Pos()), pk.Types.Name(), declName(cur))
						}
						return true
					})
				}
			}
		case "funcs":
			var names []string
			for _, fn := range p.Funcs {
				names = append(names, fnQual(fn)+"  "+fn.String())
			}
			sort.Strings(names)
			for _, n := range names {
				fmt.Println(n)
			}
		}
		os.Exit(0)
	}
}

func init() {
	if len(os.Args) > 2 && os.Args[1] == "survey2" {
		p, err := loadProg(envOr("CEDAR_REPO", "/repo"), "amd64")
		if err != nil {
			fmt.Println(err)
			os.Exit(2)
		}
		switch os.Args[2] {
		case "extcalls":
			cnt := map[string]int{}
			for _, fn := range p.Funcs {
				if testSupportPkgs[fnPkgPath(fn)] {
					continue
				}
				for _, c := range callsIn(fn) {
					cc := c.Common()
					if f := cc.StaticCallee(); f != nil {
						if !p.inRepo(f) {
							n := f.String()
							if o := f.Origin(); o != nil {
								n = o.String() + "[generic]"
							}
							cnt[n]++
						}
					} else if cc.IsInvoke() {
						if n := namedOf(cc.Value.Type()); n == nil || n.Obj().Pkg() == nil || !(n.Obj().Pkg().Path() == modPath || len(n.Obj().Pkg().Path()) > len(modPath) && n.Obj().Pkg().Path()[:len(modPath)] == modPath) {
							cnt["invoke "+cc.Value.Type().String()+"."+cc.Method.Name()]++
						}
					} else if _, isB := cc.Value.(*ssa.Builtin); isB {
						cnt["builtin "+cc.Value.Name()]++
					} else {
						cnt["dynamic "+cc.Value.Type().String()]++
					}
				}
			}
			var ks []string
			for k := range cnt {
				ks = append(ks, k)
			}
			sort.Strings(ks)
			for _, k := range ks {
				fmt.Printf("%4d %s\n", cnt[k], k)
			}
		}
		os.Exit(0)
	}
}

func init() {
	if len(os.Args) > 2 && os.Args[1] == "survey3" {
		p, err := loadProg(envOr("CEDAR_REPO", "/repo"), "amd64")
		if err != nil {
			fmt.Println(err)
			os.Exit(2)
		}
		m := p.modref()
		fmt.Println("rounds", m.rounds, "units", len(m.units))
		switch os.Args[2] {
		case "writes":
			for _, u := range m.units {
				if testSupportPkgs[fnPkgPath(u)] {
					continue
				}
				s := m.sums[u]
				if len(s.writes) == 0 && len(s.undecided) == 0 {
					continue
				}
				if len(os.Args) > 3 && os.Args[3] == "exported" {
					if u.Object() == nil || !u.Object().Exported() {
						continue
					}
				}
				fmt.Printf("%s: %s\n", fnQual(u), m.describe(u))
			}
		case "fn":
			for _, u := range m.units {
				if fnQual(u) == os.Args[3] {
					fmt.Printf("%s: %s\n", fnQual(u), m.describe(u))
				}
			}
		case "undec":
			for k, v := range m.undec {
				fmt.Println(p.pos(v), k)
			}
		}
		os.Exit(0)
	}
}

func init() {
	if len(os.Args) > 1 && os.Args[1] == "survey4" {
		p, err := loadProg(envOr("CEDAR_REPO", "/repo"), "amd64")
		if err != nil {
			fmt.Println(err)
			os.Exit(2)
		}
		oa := p.order()
		for _, l := range oa.loops {
			effs, early := oa.effects(l)
			worst := 0
			var parts []string
			for _, e := range effs {
				s := e.Sens
				if early && s == 0 {
					s = 2
				}
				if s > worst {
					worst = s
				}
				parts = append(parts, fmt.Sprintf("%s[%s]@%s/%d", e.Kind, e.Detail, p.pos(e.Pos), e.Sens))
			}
			fmt.Printf("%d early=%v %s\n     %v\n", worst, early, oa.describeLoop(l), parts)
		}
		var its []string
		for f := range oa.unorderedIter {
			its = append(its, fnQual(f))
		}
		sort.Strings(its)
		fmt.Println("unordered iterators:", its)
		its = nil
		for f := range oa.retUnordered {
			its = append(its, fnQual(f))
		}
		sort.Strings(its)
		fmt.Println("returns unordered:", its)
		os.Exit(0)
	}
}
