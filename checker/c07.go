package main

// C07: the Cedar text parser builds exactly the tree the grammar prescribes.
//
// Decided (necessary conditions visible in the code), on the SSA form of the recursive-descent parser:
//   R7.1  the grammar ladder: level functions are ordered by *delegation* (a call to the next level that no token-consuming
//         call dominates); the chain must be a single path starting at the expression entry; its positions are the ranks;
//   R7.2  the production table: every constructor application in a level function (directly, through an operator-valued
//         variable, or as a bound method handed to a helper) is recorded with the node kind it builds, the tokens that
//         guard it and the level it sits on; each must match the grammar's row for that kind (rank, token);
//   R7.3  associativity: for each operand of a production, the lowest-ranked source it can come from (the level function
//         called, or a node built at this level and carried round a loop) must equal what the grammar accepts in that
//         position (left-associative: same level on the left, next level on the right; non-associative: next level on
//         both sides; prefix: same level; postfix: same level for the receiver, any expression for arguments);
//   R7.4  rejection guards: a duplicate-key test checks the very value that is then recorded and used as the key, and its
//         positive edge returns an error; function-style calls are guarded by "registered and not a method", method-style
//         calls by "registered and a method";
//   R7.6  literal rank agreement with the printer: where the parser builds a literal below primary rank (the negative
//         integer shortcut in the unary level) the printer must be able to rank that literal at or below that level.
// Not decided: token text → value conversions, escapes, whitespace and comments (tokenizer), the scope and annotation
// grammar beyond R7.4.

import (
	"go/token"
	"go/types"
	"sort"
	"strings"

	"golang.org/x/tools/go/ssa"
)

func init() {
	register(&propCheck{
		ID: "C07",
		Explanation: "Structural necessary conditions of 'the parser builds the tree the grammar prescribes', read off the SSA form of the recursive-descent parser: R7.1 the level functions form one delegation chain from the expression entry " +
			"(delegation = a call to another level that no token-consuming call dominates), whose positions are the grammar ranks; R7.2 every constructor application (direct, through an operator-valued variable, or a bound method handed to a helper) " +
			"builds the node kind the grammar assigns to its guarding token, at the grammar's rank; R7.3 each operand's lowest-ranked source (level function called, or a node built at this level and carried round a loop) equals what the grammar accepts there " +
			"(associativity); R7.4 duplicate-key tests check the value that is recorded and return an error, function/method call styles are guarded by the registry; R7.6 a literal built below primary rank is one the printer can rank accordingly. " +
			"Not decided: literal conversion, escapes, whitespace/comments, scope grammar. R7.12 literal accumulation: every integer multiplication/shift in the tokenizers and the escape reader is proven in range by the interval analysis (bounded digit accumulators recognised), so a hand-rolled number conversion cannot wrap.",
		Run: runC07,
	})
}

type c7prod struct {
	fn      *ssa.Function // function containing the application
	level   *ssa.Function // level function whose rank applies
	ctor    *ssa.Function
	kind    string
	tokens  map[string]bool
	guards  []Guard
	pos     token.Pos
	operand []c7operand
}

type c7operand struct {
	minRank int
	desc    string
	unknown bool
}

type c7ctx struct {
	p        *Prog
	r        *Report
	parserT  *types.Named
	nodeT    *types.Named
	methods  []*ssa.Function
	levels   map[*ssa.Function]bool
	helpers  map[*ssa.Function]bool
	listFns  map[*ssa.Function]bool // methods returning []ast.Node
	consumes map[*ssa.Function]bool
	rank     map[*ssa.Function]int
	chain    []*ssa.Function
	callers  map[*ssa.Function][]ssa.CallInstruction
	helperLv map[*ssa.Function]*ssa.Function
}

func runC07(p *Prog, r *Report) {
	c := &c7ctx{p: p, r: r}
	if !c.anchors() {
		return
	}
	c.ladder()
	if len(c.chain) == 0 {
		return
	}
	prods := c.productions()
	c.checkProductions(prods)
	c.rejectionGuards(prods)
	c.literalRank(prods)
	c.scopeGrammarClosed()
	c7EntryConsumesAll(c.p, c.r)
	c7CharacterNarrowing(c.p, c.r)
	c7LiteralAccumulation(c.p, c.r)
	c7BalancedCounters(c.p, c.r)
	c7CommentTerminator(p, r)
	c7ReservedUnconditional(p, r)
}

func (c *c7ctx) isNodeT(t types.Type) bool { return types.Identical(t, c.nodeT) }

func (c *c7ctx) anchors() bool {
	p, r := c.p, c.r
	const rule = "R7.1-ladder"
	c.nodeT = p.namedType(pXAst, "Node")
	pk := p.Pkgs[pParser]
	if c.nodeT == nil || pk == nil {
		r.Anchor(rule, "internal/parser / ast.Node")
		return false
	}
	count := map[*types.Named][]*ssa.Function{}
	for _, fn := range p.Funcs {
		if fnPkgPath(fn) != pParser || fn.Parent() != nil || fn.Signature.Recv() == nil {
			continue
		}
		n := namedOf(fn.Signature.Recv().Type())
		if n == nil {
			continue
		}
		if _, isStruct := n.Underlying().(*types.Struct); !isStruct {
			continue
		}
		count[n] = append(count[n], fn)
	}
	best := 0
	for n, fs := range count {
		k := 0
		for _, f := range fs {
			s := f.Signature
			if s.Params().Len() == 0 && s.Results().Len() == 2 && c.isNodeT(s.Results().At(0).Type()) && isErrorType(s.Results().At(1).Type()) {
				k++
			}
		}
		if k > best {
			best, c.parserT, c.methods = k, n, fs
		}
	}
	if best < 8 {
		r.Anchor(rule, "the recursive-descent parser type (a struct with at least 8 methods of type func() (ast.Node, error))")
		return false
	}
	sort.Slice(c.methods, func(i, j int) bool { return c.methods[i].Name() < c.methods[j].Name() })
	c.levels, c.helpers, c.listFns = map[*ssa.Function]bool{}, map[*ssa.Function]bool{}, map[*ssa.Function]bool{}
	for _, f := range c.methods {
		s := f.Signature
		if s.Results().Len() >= 1 && c.isNodeT(s.Results().At(0).Type()) {
			hasNodeParam := false
			for i := 0; i < s.Params().Len(); i++ {
				if c.isNodeT(s.Params().At(i).Type()) {
					hasNodeParam = true
				}
			}
			if s.Params().Len() == 0 && s.Results().Len() == 2 {
				c.levels[f] = true
			} else if hasNodeParam {
				c.helpers[f] = true
			} else {
				c.levels[f] = true // e.g. entityOrExtFun(prefix string): a continuation of primary
			}
		}
		if s.Results().Len() >= 1 {
			if sl, ok := s.Results().At(0).Type().Underlying().(*types.Slice); ok && c.isNodeT(sl.Elem()) {
				c.listFns[f] = true
			}
		}
	}
	// token-consuming methods: store to a field of the parser, or call one that does
	c.consumes = map[*ssa.Function]bool{}
	isMethod := map[*ssa.Function]bool{}
	for _, f := range c.methods {
		isMethod[f] = true
	}
	for _, f := range c.methods {
		forEachInstr(f, func(in ssa.Instruction) {
			if st, ok := in.(*ssa.Store); ok {
				if fa, ok := st.Addr.(*ssa.FieldAddr); ok && namedOf(fa.X.Type()) == c.parserT {
					c.consumes[f] = true
				}
			}
		})
	}
	for changed := true; changed; {
		changed = false
		for _, f := range c.methods {
			if c.consumes[f] {
				continue
			}
			for _, cl := range callsIn(f) {
				if g := cl.Common().StaticCallee(); g != nil && isMethod[g] && c.consumes[g] {
					c.consumes[f] = true
					changed = true
				}
			}
		}
	}
	c.callers = map[*ssa.Function][]ssa.CallInstruction{}
	for _, f := range c.methods {
		for _, g := range withAnon(f) {
			for _, cl := range callsIn(g) {
				if callee := cl.Common().StaticCallee(); callee != nil && isMethod[callee] {
					c.callers[callee] = append(c.callers[callee], cl)
				}
			}
		}
	}
	return true
}

// delegations: level functions g called from f at a site no consuming call dominates.
func (c *c7ctx) delegations(f *ssa.Function) []*ssa.Function {
	var consuming []ssa.Instruction
	for _, cl := range callsIn(f) {
		if g := cl.Common().StaticCallee(); g != nil && c.consumes[g] {
			consuming = append(consuming, cl)
		}
	}
	seen := map[*ssa.Function]bool{}
	var out []*ssa.Function
	for _, cl := range callsIn(f) {
		g := cl.Common().StaticCallee()
		if g == nil || !c.levels[g] || g.Signature.Params().Len() != 0 {
			continue
		}
		dominated := false
		for _, k := range consuming {
			if k != cl.(ssa.Instruction) && instrDominates(k, cl) {
				dominated = true
			}
		}
		if !dominated && !seen[g] {
			seen[g] = true
			out = append(out, g)
		}
	}
	return out
}

func (c *c7ctx) ladder() {
	p, r := c.p, c.r
	const rule = "R7.1-ladder"
	deleg := map[*ssa.Function][]*ssa.Function{}
	incoming := map[*ssa.Function]int{}
	for f := range c.levels {
		if f.Signature.Params().Len() != 0 {
			continue
		}
		d := c.delegations(f)
		deleg[f] = d
		for _, g := range d {
			if g != f {
				incoming[g]++
			}
		}
	}
	// entry: a level function nobody delegates to, with the longest chain
	var bestChain []*ssa.Function
	var roots []*ssa.Function
	for f := range deleg {
		if incoming[f] == 0 {
			roots = append(roots, f)
		}
	}
	sort.Slice(roots, func(i, j int) bool { return roots[i].Name() < roots[j].Name() })
	for _, root := range roots {
		var chain []*ssa.Function
		seen := map[*ssa.Function]bool{}
		f := root
		for f != nil && !seen[f] {
			seen[f] = true
			chain = append(chain, f)
			d := deleg[f]
			if len(d) == 0 {
				break
			}
			if len(d) > 1 {
				r.Viol(rule, "parser."+fnShort(f)+":delegation", p.pos(f.Pos()), fnShort(f)+" hands over to more than one level without consuming a token ("+fnNames(d)+"): the precedence ladder is not a single chain")
				return
			}
			f = d[0]
		}
		if len(chain) > len(bestChain) {
			bestChain = chain
		}
	}
	if len(bestChain) != 9 {
		r.Viol(rule, "parser:ladder-length", "-", "the expression ladder has "+itoa(len(bestChain))+" levels ("+fnNames(bestChain)+"); the Cedar grammar has 9 (if, ||, &&, relation, additive, multiplicative, unary, member, primary)")
		if len(bestChain) < 3 {
			return
		}
	}
	c.chain = bestChain
	c.rank = map[*ssa.Function]int{}
	for i, f := range bestChain {
		c.rank[f] = i
		r.OK(rule, "parser."+fnShort(f), p.pos(f.Pos()), "rank "+itoa(i)+" of the ladder")
	}
	// helpers and continuation levels inherit the rank of the level that calls them
	c.helperLv = map[*ssa.Function]*ssa.Function{}
	for changed := true; changed; {
		changed = false
		for _, f := range c.methods {
			if _, ok := c.rank[f]; ok {
				continue
			}
			if !c.helpers[f] && !c.levels[f] {
				continue
			}
			best := -1
			var lv *ssa.Function
			for _, cl := range c.callers[f] {
				caller := cl.Parent()
				for caller.Parent() != nil {
					caller = caller.Parent()
				}
				if rk, ok := c.rank[caller]; ok && (best == -1 || rk < best) {
					best = rk
					lv = caller
					if l2, ok := c.helperLv[caller]; ok {
						lv = l2
					}
				}
			}
			if best >= 0 {
				c.rank[f] = best
				c.helperLv[f] = lv
				changed = true
			}
		}
	}
	r.Floor(rule, 8)
}

func fnNames(fs []*ssa.Function) string {
	var s []string
	for _, f := range fs {
		s = append(s, fnShort(f))
	}
	return strings.Join(s, " → ")
}

// realCtor unwraps thunks and bound-method wrappers to the declared ast constructor.
func (c *c7ctx) realCtor(f *ssa.Function) *ssa.Function {
	for i := 0; i < 3 && f != nil && f.Synthetic != "" && !strings.HasPrefix(f.Synthetic, "instance"); i++ {
		var inner *ssa.Function
		for _, cl := range callsIn(f) {
			if g := cl.Common().StaticCallee(); g != nil {
				inner = g
			}
		}
		f = inner
	}
	if f == nil || fnPkgPath(f) != pXAst || f.Signature.Results().Len() != 1 || !c.isNodeT(f.Signature.Results().At(0).Type()) {
		return nil
	}
	return f
}

// ctorKind: the node kind a constructor builds (the concrete IsNode it wraps), following ast-internal calls.
func (c *c7ctx) ctorKind(f *ssa.Function, depth int) string {
	isNode := c.p.namedType(pXAst, "IsNode")
	if f == nil || isNode == nil || depth > 4 {
		return ""
	}
	it := isNode.Underlying().(*types.Interface)
	kind := ""
	forEachInstr(f, func(in ssa.Instruction) {
		if mi, ok := in.(*ssa.MakeInterface); ok && types.Identical(mi.Type(), isNode) {
			if n := namedOf(mi.X.Type()); n != nil && types.Implements(mi.X.Type(), it) {
				kind = n.Obj().Name()
			}
		}
	})
	if kind != "" {
		return kind
	}
	for _, cl := range callsIn(f) {
		if g := cl.Common().StaticCallee(); g != nil && fnPkgPath(g) == pXAst && g != f {
			if k := c.ctorKind(g, depth+1); k != "" {
				return k
			}
		}
	}
	return ""
}

// guardTokens: string constants an == comparison with which holds on entry to block b.
func guardTokens(b *ssa.BasicBlock) (map[string]bool, []Guard) {
	out := map[string]bool{}
	gs := guardsAt(b)
	for _, g := range gs {
		fg := flattenGuard(g)
		// a flag remembered in a slice: ops = append(ops, tok.Text == "-") ... if ops[i] {…}
		if ld, ok := fg.Cond.(*ssa.UnOp); ok && ld.Op == token.MUL {
			if ia, ok := ld.X.(*ssa.IndexAddr); ok {
				for _, c := range sliceFlagTokens(ia.X) {
					if fg.Pol {
						out[c] = true
					} else {
						out["¬"+c] = true
					}
				}
			}
			continue
		}
		bo, ok := fg.Cond.(*ssa.BinOp)
		if !ok || !((bo.Op == token.EQL && fg.Pol) || (bo.Op == token.NEQ && !fg.Pol)) {
			continue
		}
		if s, ok := constString(bo.Y); ok {
			out[s] = true
		} else if s, ok := constString(bo.X); ok {
			out[s] = true
		}
	}
	return out, gs
}

// sliceFlagTokens: for a []bool built only by appending `x == "tok"` comparisons, the tokens compared.
func sliceFlagTokens(sl ssa.Value) []string {
	var out []string
	seen := map[ssa.Value]bool{}
	var rec func(v ssa.Value)
	rec = func(v ssa.Value) {
		if v == nil || seen[v] {
			return
		}
		seen[v] = true
		switch x := v.(type) {
		case *ssa.Phi:
			for _, e := range x.Edges {
				rec(e)
			}
		case *ssa.Slice:
			rec(x.X)
		case *ssa.Call:
			if isBuiltin(x.Common(), "append") && len(x.Call.Args) == 2 {
				rec(x.Call.Args[0])
				// the appended one-element slice: find the stored value
				if s2, ok := x.Call.Args[1].(*ssa.Slice); ok {
					if a, ok := s2.X.(*ssa.Alloc); ok {
						for _, rf := range *a.Referrers() {
							if ia, ok := rf.(*ssa.IndexAddr); ok {
								for _, r2 := range *ia.Referrers() {
									if st, ok := r2.(*ssa.Store); ok {
										if bo, ok := st.Val.(*ssa.BinOp); ok && bo.Op == token.EQL {
											if s, ok := constString(bo.Y); ok {
												out = append(out, s)
											}
										}
									}
								}
							}
						}
					}
				}
			}
		}
	}
	rec(sl)
	return out
}

type c7origin struct {
	v    ssa.Value
	desc string
	rank int
	ok   bool
}

// operandRank: the lowest rank among the sources an ast.Node-typed value can come from inside fn.
func (c *c7ctx) operandRank(fn *ssa.Function, v ssa.Value, depth int) c7operand {
	best := c7operand{minRank: 99}
	seen := map[ssa.Value]bool{}
	var descs []string
	lower := func(rk int, d string) {
		descs = append(descs, d+"@"+itoa(rk))
		if rk < best.minRank {
			best.minRank = rk
		}
	}
	var rec func(v ssa.Value)
	rec = func(v ssa.Value) {
		if v == nil || seen[v] {
			return
		}
		seen[v] = true
		switch x := v.(type) {
		case *ssa.Phi:
			for _, e := range x.Edges {
				rec(e)
			}
		case *ssa.Extract:
			rec(x.Tuple)
		case *ssa.Call:
			g := x.Call.StaticCallee()
			switch {
			case g != nil && c.levels[g] && g.Signature.Params().Len() == 0:
				if rk, ok := c.rank[g]; ok {
					lower(rk, fnShort(g)+"()")
				} else {
					best.unknown = true
				}
			case g != nil && (c.helpers[g] || c.levels[g]):
				// a node built by a helper/continuation at this level
				if rk, ok := c.rank[g]; ok {
					lower(rk, "built by "+fnShort(g))
				} else {
					best.unknown = true
				}
			case g != nil && c.listFns[g]:
				lower(c.listRank(g), "element of "+fnShort(g)+"()")
			case g != nil && c.realCtor(g) != nil:
				lv := fn
				for lv.Parent() != nil {
					lv = lv.Parent()
				}
				if rk, ok := c.rank[lv]; ok {
					lower(rk, "built here by "+g.Name())
				} else {
					best.unknown = true
				}
			case g == nil && !x.Call.IsInvoke():
				// dynamic application of an operator value: a node built at this level
				lv := fn
				for lv.Parent() != nil {
					lv = lv.Parent()
				}
				if rk, ok := c.rank[lv]; ok {
					lower(rk, "built here")
				} else {
					best.unknown = true
				}
			default:
				best.unknown = true
				descs = append(descs, "call "+calleeName(x))
			}
		case *ssa.Parameter:
			// helper parameter: look at the callers' arguments
			if depth > 3 {
				best.unknown = true
				return
			}
			idx := -1
			for i, pr := range fn.Params {
				if pr == x {
					idx = i
				}
			}
			sites := c.callers[fn]
			if idx < 0 || len(sites) == 0 {
				best.unknown = true
				return
			}
			for _, cl := range sites {
				args := cl.Common().Args
				if idx < len(args) {
					o := c.operandRank(cl.Parent(), args[idx], depth+1)
					if o.unknown {
						best.unknown = true
					}
					if o.minRank < 99 {
						lower(o.minRank, "arg of "+fnShort(cl.Parent())+" ("+o.desc+")")
					}
				}
			}
		case *ssa.UnOp:
			if x.Op == token.MUL {
				switch a := x.X.(type) {
				case *ssa.Alloc:
					if refs := a.Referrers(); refs != nil {
						for _, rf := range *refs {
							if st, ok := rf.(*ssa.Store); ok && st.Addr == a {
								rec(st.Val)
							}
						}
					}
					return
				case *ssa.IndexAddr:
					rec(a.X)
					return
				}
			}
			best.unknown = true
		case *ssa.Const:
			// zero ast.Node on error paths
		case *ssa.Slice:
			rec(x.X)
		default:
			best.unknown = true
			descs = append(descs, "value "+v.Name())
		}
	}
	rec(v)
	best.desc = strings.Join(descs, ", ")
	return best
}

// listRank: the lowest rank of the level functions a list-returning method takes its elements from.
func (c *c7ctx) listRank(g *ssa.Function) int {
	best := 99
	for _, cl := range callsIn(g) {
		if h := cl.Common().StaticCallee(); h != nil && c.levels[h] {
			if rk, ok := c.rank[h]; ok && rk < best {
				best = rk
			}
		}
	}
	return best
}

func (c *c7ctx) levelOf(fn *ssa.Function) *ssa.Function {
	for fn.Parent() != nil {
		fn = fn.Parent()
	}
	if l, ok := c.helperLv[fn]; ok && l != nil {
		return l
	}
	return fn
}

func (c *c7ctx) productions() []*c7prod {
	var out []*c7prod
	for _, m := range c.methods {
		if !c.levels[m] && !c.helpers[m] {
			continue
		}
		for _, fn := range withAnon(m) {
			for _, b := range fn.Blocks {
				for _, in := range b.Instrs {
					switch x := in.(type) {
					case *ssa.Call:
						cc := x.Common()
						if cc.IsInvoke() {
							continue
						}
						if g := cc.StaticCallee(); g != nil {
							ct := c.realCtor(g)
							if ct == nil {
								continue
							}
							toks, gs := guardTokens(b)
							pr := &c7prod{fn: fn, level: c.levelOf(fn), ctor: ct, kind: c.ctorKind(ct, 0), tokens: toks, guards: gs, pos: x.Pos()}
							for i, a := range cc.Args {
								var pt types.Type
								if cc.Signature().Recv() != nil {
									if i == 0 {
										pt = cc.Signature().Recv().Type()
									} else if i-1 < cc.Signature().Params().Len() {
										pt = cc.Signature().Params().At(i - 1).Type()
									}
								} else if i < cc.Signature().Params().Len() {
									pt = cc.Signature().Params().At(i).Type()
								}
								if pt == nil {
									pt = a.Type()
								}
								if c.isNodeT(pt) {
									pr.operand = append(pr.operand, c.operandRank(fn, a, 0))
								} else if sl, ok := pt.Underlying().(*types.Slice); ok && c.isNodeT(sl.Elem()) {
									pr.operand = append(pr.operand, c.operandRank(fn, a, 0))
								}
							}
							out = append(out, pr)
							continue
						}
						// operator-valued variable applied
						for _, fv := range c.funcValues(cc.Value, nil) {
							ct := c.realCtor(fv.fn)
							if ct == nil {
								continue
							}
							toks, gs := map[string]bool{}, []Guard(nil)
							if fv.edgeBlock != nil {
								toks, gs = guardTokens(fv.edgeBlock)
							}
							t2, g2 := guardTokens(b)
							for k := range t2 {
								toks[k] = true
							}
							gs = append(gs, g2...)
							pr := &c7prod{fn: fn, level: c.levelOf(fn), ctor: ct, kind: c.ctorKind(ct, 0), tokens: toks, guards: gs, pos: x.Pos()}
							for _, a := range cc.Args {
								if c.isNodeT(a.Type()) {
									pr.operand = append(pr.operand, c.operandRank(fn, a, 0))
								}
							}
							out = append(out, pr)
						}
					case *ssa.MakeClosure:
						// a bound constructor handed to a helper: lhs.Contains
						f, _ := x.Fn.(*ssa.Function)
						ct := c.realCtor(f)
						if ct == nil || len(x.Bindings) != 1 {
							continue
						}
						toks, gs := guardTokens(b)
						pr := &c7prod{fn: fn, level: c.levelOf(fn), ctor: ct, kind: c.ctorKind(ct, 0), tokens: toks, guards: gs, pos: x.Pos()}
						pr.operand = append(pr.operand, c.operandRank(fn, x.Bindings[0], 0))
						// the remaining operands come from the list handed to the same helper call
						if refs := x.Referrers(); refs != nil {
							for _, rf := range *refs {
								var call ssa.CallInstruction
								switch y := rf.(type) {
								case ssa.CallInstruction:
									call = y
								}
								if call == nil {
									continue
								}
								for _, a := range call.Common().Args {
									if sl, ok := a.Type().Underlying().(*types.Slice); ok && c.isNodeT(sl.Elem()) {
										for i := 0; i < ct.Signature.Params().Len(); i++ {
											pr.operand = append(pr.operand, c.operandRank(fn, a, 0))
										}
									}
								}
							}
						}
						out = append(out, pr)
					}
				}
			}
		}
	}
	return out
}

type c7fv struct {
	fn        *ssa.Function
	edgeBlock *ssa.BasicBlock
}

// funcValues lists the functions a function-typed value may hold, with the block whose guards select each.
func (c *c7ctx) funcValues(v ssa.Value, edge *ssa.BasicBlock) []c7fv {
	var out []c7fv
	seen := map[ssa.Value]bool{}
	var rec func(v ssa.Value, edge *ssa.BasicBlock)
	rec = func(v ssa.Value, edge *ssa.BasicBlock) {
		if v == nil || seen[v] {
			return
		}
		seen[v] = true
		switch x := v.(type) {
		case *ssa.Function:
			out = append(out, c7fv{x, edge})
		case *ssa.MakeClosure:
			if f, ok := x.Fn.(*ssa.Function); ok {
				out = append(out, c7fv{f, edge})
			}
		case *ssa.Phi:
			for i, e := range x.Edges {
				rec(e, x.Block().Preds[i])
			}
		case *ssa.ChangeType:
			rec(x.X, edge)
		case *ssa.UnOp:
			if a, ok := x.X.(*ssa.Alloc); ok && x.Op == token.MUL {
				if refs := a.Referrers(); refs != nil {
					for _, rf := range *refs {
						if st, ok := rf.(*ssa.Store); ok && st.Addr == a {
							rec(st.Val, st.Block())
						}
					}
				}
			}
		}
	}
	rec(v, edge)
	return out
}

// inheritedTokens: a helper or continuation level is entered from call sites that are themselves token-guarded
// (`case "has": p.advance(); return p.has(lhs)`): those tokens guard everything the helper builds.
func (c *c7ctx) inheritedTokens(fn *ssa.Function, depth int) map[string]bool {
	out := map[string]bool{}
	for fn.Parent() != nil {
		fn = fn.Parent()
	}
	if depth > 2 {
		return out
	}
	if _, onChain := c.rankOnChain(fn); onChain {
		return out
	}
	for _, cl := range c.callers[fn] {
		t, _ := guardTokens(cl.Block())
		for k := range t {
			out[k] = true
		}
		for k := range c.inheritedTokens(cl.Parent(), depth+1) {
			out[k] = true
		}
	}
	return out
}

func (c *c7ctx) rankOnChain(fn *ssa.Function) (int, bool) {
	for i, f := range c.chain {
		if f == fn {
			return i, true
		}
	}
	return 0, false
}

func (c *c7ctx) checkProductions(prods []*c7prod) {
	p, r := c.p, c.r
	const rule = "R7.2-production-table"
	const ruleA = "R7.3-associativity"
	kindsSeen := map[string]bool{}
	for _, pr := range prods {
		for k := range c.inheritedTokens(pr.fn, 0) {
			pr.tokens[k] = true
		}
		construct := "parser." + fnShort(pr.fn) + ":" + pr.ctor.Name()
		pos := p.pos(pr.pos)
		if pr.kind == "" {
			r.Undec(rule, construct, pos, "cannot tell which node kind "+pr.ctor.Name()+" builds")
			continue
		}
		lang, known := langSyntax[pr.kind]
		if !known {
			r.Undec(rule, construct, pos, "node kind "+pr.kind+" has no row in the checker's grammar table")
			continue
		}
		kindsSeen[pr.kind] = true
		rk, okRank := c.rank[pr.level]
		if !okRank {
			rk, okRank = c.rank[pr.fn]
		}
		if !okRank {
			r.Undec(rule, construct, pos, "the level of "+fnShort(pr.fn)+" is not on the ladder")
			continue
		}
		var toks []string
		for t := range pr.tokens {
			toks = append(toks, t)
		}
		sort.Strings(toks)
		tokStr := strings.Join(toks, " ")
		// documented desugaring: `a has b.c` builds the conjunction of nested has-tests at relation level
		if pr.tokens["has"] && (pr.kind == "NodeTypeAnd" || pr.kind == "NodeTypeAccess" || (pr.kind == "NodeTypeHas" && pr.tokens["."])) {
			r.OK(rule, construct, pos, "extended `has` desugaring (conjunction of nested has-tests) at the relation level")
			continue
		}
		wantRank := lang.rank
		okR := rk == wantRank
		switch lang.form {
		case "primary":
			// literals built by the negative-integer shortcut sit on the unary level: judged by R7.6 against the printer
			if pr.kind == "NodeValue" && rk < wantRank {
				continue
			}
		case "call":
			okR = rk == 7 || rk == 8
		}
		r.Check(okR, rule, construct+":rank", pos, pr.kind+" is built at rank "+itoa(rk)+" (level "+fnShort(pr.level)+")",
			pr.kind+" is built in "+fnShort(pr.fn)+", which sits at rank "+itoa(rk)+" of the ladder; the grammar places it at rank "+itoa(wantRank)+": it binds tighter or looser than prescribed")
		// token
		switch lang.form {
		case "prefix":
			// two prefix operators told apart by one remembered flag: `-` when set, `!` when not
			okTok := pr.tokens[lang.tok]
			if !okTok {
				for t := range pr.tokens {
					if strings.HasPrefix(t, "¬") && t != "¬"+lang.tok && c.mentions(pr.fn, lang.tok) {
						okTok = true
					}
				}
			}
			r.Check(okTok, rule, construct+":token", pos, "selected by the `"+lang.tok+"` flag", pr.kind+" is built under the tokens ["+tokStr+"]; the grammar writes it `"+lang.tok+"`")
		case "infixL", "infixN", "relL":
			r.Check(pr.tokens[lang.tok], rule, construct+":token", pos, "guarded by `"+lang.tok+"`",
				pr.kind+" is built under the tokens ["+tokStr+"]; the grammar writes it `"+lang.tok+"`")
		case "isin":
			r.Check(pr.tokens["is"] || pr.tokens["in"], rule, construct+":token", pos, "guarded by is/in", pr.kind+" is built under ["+tokStr+"], expected `is` … `in`")
		case "method", "method0":
			name := strings.TrimSuffix(strings.TrimPrefix(lang.tok, "."), "()")
			r.Check(pr.tokens[name], rule, construct+":token", pos, "guarded by method name `"+name+"`", pr.kind+" is built under ["+tokStr+"]; the grammar's method name is `"+name+"`")
		case "if":
			r.Check(pr.tokens["if"], rule, construct+":token", pos, "guarded by `if`", pr.kind+" is built under ["+tokStr+"], expected `if`")
		}
		// operands
		switch lang.form {
		case "primary", "call":
			continue
		}
		for i, op := range pr.operand {
			cs := construct + ":operand" + itoa(i)
			if op.unknown || op.minRank == 99 {
				r.Undec(ruleA, cs, pos, "cannot trace where operand "+itoa(i)+" of "+pr.ctor.Name()+" comes from ("+op.desc+")")
				continue
			}
			acc := lang.accepted(i)
			r.Check(op.minRank == acc, ruleA, cs, pos, "operand "+itoa(i)+" accepts rank ≥ "+itoa(op.minRank)+" ("+op.desc+")",
				"operand "+itoa(i)+" of "+pr.kind+" can come from rank "+itoa(op.minRank)+" ("+op.desc+"); the grammar accepts rank ≥ "+itoa(acc)+" in that position: associativity or nesting differs from the grammar")
		}
	}
	// every grammar row is produced somewhere
	var missing []string
	for k := range langSyntax {
		if !kindsSeen[k] {
			missing = append(missing, k)
		}
	}
	sort.Strings(missing)
	r.Check(len(missing) == 0, rule, "parser:coverage", "-", "every node kind of the grammar is built by some production", "no production of the text parser builds: "+strings.Join(missing, ", "))
	r.Floor(rule, 40)
	r.Floor(ruleA, 30)
}

// mentions: the function compares some string with the constant tok.
func (c *c7ctx) mentions(fn *ssa.Function, tok string) bool {
	found := false
	forEachInstr(fn, func(in ssa.Instruction) {
		if bo, ok := in.(*ssa.BinOp); ok && (bo.Op == token.EQL || bo.Op == token.NEQ) {
			if s, ok := constString(bo.Y); ok && s == tok {
				found = true
			}
			if s, ok := constString(bo.X); ok && s == tok {
				found = true
			}
		}
	})
	return found
}

// rejectionGuards: duplicate tests and call-style guards.
func (c *c7ctx) rejectionGuards(prods []*c7prod) {
	p, r := c.p, c.r
	const rule = "R7.4-rejection-guards"
	// (a) duplicate tests: a membership test on a local set/map whose positive edge returns an error, whose tested value
	// is the value then inserted and used as the key of what is built
	n := 0
	for _, m := range c.methods {
		for _, cl := range callsIn(m) {
			call, ok := cl.(*ssa.Call)
			if !ok {
				continue
			}
			g := call.Call.StaticCallee()
			if g == nil || fnPkgPath(g) != pMapset || fnBase(g) != "Contains" || len(call.Call.Args) != 2 {
				continue
			}
			n++
			construct := "parser." + fnShort(m) + ":duplicate-test"
			key := stripConv(call.Call.Args[1])
			// positive edge returns a non-nil error
			okErr := false
			if iff := ifUsing(call); iff != nil {
				if ret, ok := lastInstrDeep(iff.Block().Succs[0]).(*ssa.Return); ok && !isNilConst(retLast(ret)) {
					okErr = true
				}
			}
			// the same value is added to the same set
			added, usedAsKey := false, false
			for _, c2 := range callsIn(m) {
				g2 := c2.Common().StaticCallee()
				if g2 != nil && fnPkgPath(g2) == pMapset && fnBase(g2) == "Add" && len(c2.Common().Args) == 2 && stripConv(c2.Common().Args[1]) == key && sameCell(c2.Common().Args[0], call.Call.Args[0]) {
					added = true
				}
			}
			if refs := key.Referrers(); refs != nil {
				for _, rf := range *refs {
					switch y := rf.(type) {
					case *ssa.Convert, *ssa.ChangeType, *ssa.MakeInterface:
						usedAsKey = true
						_ = y
					case *ssa.Store:
						usedAsKey = true
					case ssa.CallInstruction:
						if g3 := y.Common().StaticCallee(); g3 != nil && fnPkgPath(g3) != pMapset {
							usedAsKey = true
						}
					}
				}
			}
			r.Check(okErr && added && usedAsKey, rule, construct, p.pos(call.Pos()), "the tested key is the recorded key; a duplicate returns an error",
				"the duplicate test in "+fnShort(m)+" must test the very value that is then recorded and used as the key, and return an error when it is present (error on positive edge: "+yesNo(okErr)+", same value added: "+yesNo(added)+", value used as the key of what is built: "+yesNo(usedAsKey)+")")
		}
	}
	if n < 2 {
		r.Undec(rule, "parser:duplicate-tests", "-", "expected duplicate tests for annotations and record keys, found "+itoa(n))
	}
	// (b) call styles: ExtensionCall productions guarded by the registry
	for _, pr := range prods {
		if pr.kind != "NodeTypeExtensionCall" {
			continue
		}
		construct := "parser." + fnShort(pr.fn) + ":" + pr.ctor.Name() + ":style-guard"
		var isMethodPol *bool
		okSeen := false
		for _, g := range pr.guards {
			fg := flattenGuard(g)
			switch x := fg.Cond.(type) {
			case *ssa.Field:
				if b, ok := x.Type().Underlying().(*types.Basic); ok && b.Kind() == types.Bool {
					pol := fg.Pol
					isMethodPol = &pol
				}
			case *ssa.Extract:
				if _, isLookup := x.Tuple.(*ssa.Lookup); isLookup && x.Index == 1 && fg.Pol {
					okSeen = true
				}
			case *ssa.UnOp:
				if fa, ok := x.X.(*ssa.FieldAddr); ok && x.Op == token.MUL {
					if b, ok := x.Type().Underlying().(*types.Basic); ok && b.Kind() == types.Bool {
						_ = fa
						pol := fg.Pol
						isMethodPol = &pol
					}
				}
			}
		}
		rk := c.rank[pr.level]
		wantMethod := rk == 7
		good := okSeen && isMethodPol != nil && *isMethodPol == wantMethod
		style := "function"
		if wantMethod {
			style = "method"
		}
		r.Check(good, rule, construct, p.pos(pr.pos), style+"-style call is built only for a registered "+style,
			"the "+style+"-style extension call in "+fnShort(pr.fn)+" must be guarded by `registered` and `IsMethod == "+yesNo(wantMethod)+"` (registered test seen: "+yesNo(okSeen)+"; IsMethod test seen: "+yesNo(isMethodPol != nil)+")")
	}
}

// literalRank: a literal node built below primary rank (the negative-integer shortcut) must be rankable by the printer
// at or below that level; otherwise `(-1).f` prints as `-1.f`, which the unary level reads as a literal followed by
// garbage.
func (c *c7ctx) literalRank(prods []*c7prod) {
	p, r := c.p, c.r
	const rule = "R7.6-literal-rank"
	n := 0
	for _, pr := range prods {
		if pr.kind != "NodeValue" {
			continue
		}
		rk, ok := c.rank[pr.level]
		if !ok || rk >= langSyntax["NodeValue"].rank {
			continue
		}
		n++
		// printer: every receiver position goes through a wrapper that parenthesises a negative integer literal
		c8 := &c8ctx{p: p, r: newReport("C08", "quick")}
		construct := "parser." + fnShort(pr.fn) + ":" + pr.ctor.Name() + "~printer"
		if !c8.anchors() {
			r.Undec(rule, construct, p.pos(pr.pos), "the printer could not be anchored")
			continue
		}
		sub := newReport("C08", "quick")
		c8.r = sub
		c8.table()
		c8.parenDecision()
		bad := ""
		nRecv := 0
		for _, o := range sub.Obligs {
			if o.Rule == "R8.2-receiver-literal" {
				nRecv++
				if o.Verdict != Discharged {
					bad = o.Construct + ": " + o.Msg
				}
			}
			if o.Rule == "R8.2-paren-decision" && strings.Contains(o.Construct, "~NodeValue") && o.Verdict != Discharged {
				bad = o.Construct + ": " + o.Msg
			}
		}
		if len(c8.receiverFns) == 0 {
			bad = "the printer has no receiver wrapper: a negative integer literal under a postfix operator — `(-1).f`, `(-1).isEmpty()` — is printed as `-1.f`, which does not parse back"
		}
		r.Check(bad == "" && nRecv >= 8, rule, construct, p.pos(pr.pos), "the printer parenthesises a negative integer literal in all "+itoa(nRecv)+" receiver positions",
			fnShort(pr.fn)+" (rank "+itoa(rk)+") builds an integer literal from a sign and digits, so a negative literal is a unary-level form; the printer must parenthesise it wherever it is the receiver of an attribute access or method call: "+bad)
	}
	if n == 0 {
		r.OK(rule, "parser:no-low-literal", "-", "no literal is built below primary rank")
	}
	// the shortcut must look past the digits: postfix operators bind tighter than the sign, so a literal may be
	// built from `-` and digits only when no member access follows; otherwise `-1.f` — which is how the printer
	// renders Negate(Access(1, f)) — is read as the literal -1 followed by garbage
	for _, pr := range prods {
		if pr.kind != "NodeValue" {
			continue
		}
		rk, ok := c.rank[pr.level]
		if !ok || rk >= langSyntax["NodeValue"].rank {
			continue
		}
		construct := "parser." + fnShort(pr.fn) + ":" + pr.ctor.Name() + "~lookahead"
		looks := false
		for _, g := range pr.guards {
			if c.dependsOnLookahead(g.Cond, 0, map[ssa.Value]bool{}) {
				looks = true
			}
		}
		// or: a branch on a look-ahead value decides whether the production is reached at all
		var prodBlock *ssa.BasicBlock
		forEachInstr(pr.fn, func(in ssa.Instruction) {
			if in.Pos() == pr.pos && prodBlock == nil {
				prodBlock = in.Block()
			}
		})
		if prodBlock != nil && !looks {
			reaches := func(from *ssa.BasicBlock) bool {
				seen := map[*ssa.BasicBlock]bool{}
				st := []*ssa.BasicBlock{from}
				for len(st) > 0 {
					b := st[len(st)-1]
					st = st[:len(st)-1]
					if seen[b] {
						continue
					}
					seen[b] = true
					if b == prodBlock {
						return true
					}
					st = append(st, b.Succs...)
				}
				return false
			}
			for _, b := range pr.fn.Blocks {
				iff, ok := lastInstr(b).(*ssa.If)
				if !ok || !c.dependsOnLookahead(iff.Cond, 0, map[ssa.Value]bool{}) {
					continue
				}
				if reaches(b.Succs[0]) != reaches(b.Succs[1]) {
					looks = true
				}
			}
		}
		r.Check(looks, rule, construct, p.pos(pr.pos), "the sign-and-digits shortcut is taken only after looking at the token behind the digits",
			fnShort(pr.fn)+" (rank "+itoa(rk)+") turns a sign and digits into a literal without passing through the member level and without looking at the token that follows: `-1.f` and `-1[\"f\"]` — the printer's rendering of Negate(Access(1, f)) — are read as the literal -1 followed by an unexpected token, so such a policy does not parse back")
	}
}

// dependsOnLookahead: the condition is computed from a token beyond the current one — an element of the token list
// at (position + k), k >= 1, read here or in a parser method the condition calls.
func (c *c7ctx) dependsOnLookahead(v ssa.Value, depth int, seen map[ssa.Value]bool) bool {
	if v == nil || depth > 6 || seen[v] {
		return false
	}
	seen[v] = true
	readsAhead := func(fn *ssa.Function) bool {
		found := false
		if fn == nil || fn.Blocks == nil {
			return false
		}
		forEachInstr(fn, func(in ssa.Instruction) {
			ia, ok := in.(*ssa.IndexAddr)
			if !ok {
				return
			}
			bo, ok := ia.Index.(*ssa.BinOp)
			if !ok || bo.Op != token.ADD {
				return
			}
			if k, ok := constInt(bo.Y); ok && k >= 1 {
				if _, _, isField := fieldOfLoad(bo.X); isField {
					found = true
				}
			}
		})
		return found
	}
	switch x := v.(type) {
	case *ssa.Call:
		if cal := x.Call.StaticCallee(); cal != nil && cal.Signature.Recv() != nil && namedOf(cal.Signature.Recv().Type()) == c.parserT && readsAhead(cal) {
			return true
		}
		for _, a := range x.Call.Args {
			if c.dependsOnLookahead(a, depth+1, seen) {
				return true
			}
		}
	case *ssa.UnOp:
		if x.Op == token.MUL {
			if fa, ok := x.X.(*ssa.FieldAddr); ok {
				if ia, ok := fa.X.(*ssa.IndexAddr); ok {
					if bo, ok := ia.Index.(*ssa.BinOp); ok && bo.Op == token.ADD {
						if k, ok := constInt(bo.Y); ok && k >= 1 {
							return true
						}
					}
				}
			}
			if ia, ok := x.X.(*ssa.IndexAddr); ok {
				if bo, ok := ia.Index.(*ssa.BinOp); ok && bo.Op == token.ADD {
					if k, ok := constInt(bo.Y); ok && k >= 1 {
						return true
					}
				}
			}
		}
		return c.dependsOnLookahead(x.X, depth+1, seen)
	case *ssa.BinOp:
		return c.dependsOnLookahead(x.X, depth+1, seen) || c.dependsOnLookahead(x.Y, depth+1, seen)
	case *ssa.Phi:
		for _, e := range x.Edges {
			if c.dependsOnLookahead(e, depth+1, seen) {
				return true
			}
		}
	case *ssa.Field:
		return c.dependsOnLookahead(x.X, depth+1, seen)
	case *ssa.Extract:
		return c.dependsOnLookahead(x.Tuple, depth+1, seen)
	}
	return false
}

// sameCell: two receiver expressions denote the same local variable (its address, or a load of it).
func sameCell(a, b ssa.Value) bool {
	cellOf := func(v ssa.Value) ssa.Value {
		if u, ok := v.(*ssa.UnOp); ok && u.Op == token.MUL {
			return u.X
		}
		return v
	}
	return cellOf(a) == cellOf(b)
}

// R7.7: a scanner that looks for the two-character terminator `*/` must treat *every* character it reads as a possible
// first character of the terminator. In SSA terms: inside the search loop, every value returned by the character
// reader reaches (through the loop-carried phis) a comparison with '*'. A loop that, after a '*', reads one character,
// tests it only against '/', and then reads the next one loses the terminator in `**/`.
func c7CommentTerminator(p *Prog, r *Report) {
	const rule = "R7.7-comment-terminator"
	n := 0
	for _, fn := range p.Funcs {
		pp := fnPkgPath(fn)
		if (pp != pParser && pp != pSchemaPar) || fn.Signature.Recv() == nil || fn.Parent() != nil {
			continue
		}
		star, slash := false, false
		forEachInstr(fn, func(in ssa.Instruction) {
			if bo, ok := in.(*ssa.BinOp); ok && (bo.Op == token.EQL || bo.Op == token.NEQ) {
				for _, o := range []ssa.Value{bo.X, bo.Y} {
					if k, ok := constInt(o); ok {
						if k == '*' {
							star = true
						}
						if k == '/' {
							slash = true
						}
					}
				}
			}
		})
		if !star || !slash {
			continue
		}
		loops := loopsOf(fn)
		if len(loops) == 0 {
			continue
		}
		recvT := namedOf(fn.Signature.Recv().Type())
		for _, cl := range callsIn(fn) {
			call, ok := cl.(*ssa.Call)
			if !ok {
				continue
			}
			g := call.Call.StaticCallee()
			if g == nil || g.Signature.Recv() == nil || namedOf(g.Signature.Recv().Type()) != recvT || g.Signature.Results().Len() != 1 || basicKind(g.Signature.Results().At(0).Type()) != types.Int32 || g.Signature.Params().Len() != 0 {
				continue
			}
			l := innermostLoop(loops, call.Block())
			if l == nil {
				continue
			}
			// a pure advance (result unused) carries no character
			if refs := call.Referrers(); refs == nil || len(*refs) == 0 {
				continue
			}
			// only loops that test for the terminator: a comparison with '/' made under a successful comparison with '*'
			loopHasStar := false
			for b := range l.Body {
				if innermostLoop(loops, b) != l {
					continue // the test belongs to a nested loop
				}
				for _, in := range b.Instrs {
					bo, ok := in.(*ssa.BinOp)
					if !ok || bo.Op != token.EQL {
						continue
					}
					isSlash := false
					for _, o := range []ssa.Value{bo.X, bo.Y} {
						if k, ok := constInt(o); ok && k == '/' {
							isSlash = true
						}
					}
					if !isSlash {
						continue
					}
					for _, gd := range guardsAt(b) {
						fg := flattenGuard(gd)
						if gb, ok := fg.Cond.(*ssa.BinOp); ok && gb.Op == token.EQL && fg.Pol {
							for _, o := range []ssa.Value{gb.X, gb.Y} {
								if k, ok := constInt(o); ok && k == '*' {
									loopHasStar = true
								}
							}
						}
					}
				}
			}
			if !loopHasStar {
				continue
			}
			n++
			reaches := false
			seen := map[ssa.Value]bool{}
			var rec func(v ssa.Value)
			rec = func(v ssa.Value) {
				if seen[v] || reaches {
					return
				}
				seen[v] = true
				if refs := v.Referrers(); refs != nil {
					for _, rf := range *refs {
						switch x := rf.(type) {
						case *ssa.BinOp:
							for _, o := range []ssa.Value{x.X, x.Y} {
								if k, ok := constInt(o); ok && k == '*' {
									reaches = true
								}
							}
						case *ssa.Phi:
							rec(x)
						case *ssa.ChangeType:
							rec(x)
						case *ssa.Convert:
							rec(x)
						}
					}
				}
			}
			rec(call)
			r.Check(reaches, rule, fnQual(fn)+":read@"+itoa(instrIndex(call))+"b"+itoa(call.Block().Index), p.pos(call.Pos()), "the character read here is tested as a possible start of the terminator",
				"in "+fnShort(fn)+" a character read inside the loop that looks for `*/` is never compared with '*' (it is only tested as the second character, or not at all) before the next one is read: in `**/` the second '*' is consumed as \"the character after a star\" and the comment is not terminated there")
		}
	}
	if n == 0 {
		r.Undec(rule, "comment-scanners", "-", "no loop searching for the `*/` terminator was recognised (anchors vanished)")
	}
}

// R7.8: an identifier is reserved exactly when the reserved-word table says so. In the tokenizer the table lookup may be
// guarded by "this token is an identifier" and by nothing else: any further condition (a length shortcut, say) lets some
// reserved word through as an ordinary identifier.
func c7ReservedUnconditional(p *Prog, r *Report) {
	const rule = "R7.8-reserved-words"
	n := 0
	for _, fn := range p.Funcs {
		if fnPkgPath(fn) != pParser || fn.Signature.Recv() == nil || fn.Parent() != nil {
			continue
		}
		if rn := namedOf(fn.Signature.Recv().Type()); rn == nil || !strings.Contains(strings.ToLower(rn.Obj().Name()), "scanner") {
			continue
		}
		for _, cl := range callsIn(fn) {
			g := cl.Common().StaticCallee()
			if g == nil || fnPkgPath(g) != pParser || g.Signature.Recv() != nil || g.Signature.Params().Len() != 1 || basicKind(g.Signature.Params().At(0).Type()) != types.String ||
				g.Signature.Results().Len() != 1 || basicKind(g.Signature.Results().At(0).Type()) != types.Bool {
				continue
			}
			readsGlobal := false
			forEachInstr(g, func(in ssa.Instruction) {
				for _, op := range in.Operands(nil) {
					if _, ok := (*op).(*ssa.Global); ok {
						readsGlobal = true
					}
				}
			})
			if !readsGlobal {
				continue
			}
			n++
			extra := ""
			// only conditions evaluated once the token text exists count (earlier ones select the token, not the lookup)
			var textDef *ssa.BasicBlock
			if in, ok := cl.Common().Args[0].(ssa.Instruction); ok {
				textDef = in.Block()
			}
			for _, gd := range guardsAt(cl.Block()) {
				if textDef == nil || gd.If == nil || !textDef.Dominates(gd.If.Block()) {
					continue
				}
				fg := flattenGuard(gd)
				bo, ok := fg.Cond.(*ssa.BinOp)
				okGuard := false
				if ok && (bo.Op == token.EQL || bo.Op == token.NEQ) {
					// a comparison of the token type (a named integer type) with a constant
					_, cx := bo.X.(*ssa.Const)
					_, cy := bo.Y.(*ssa.Const)
					if (cx || cy) && namedOf(bo.X.Type()) != nil && basicKind(bo.X.Type()) != types.String {
						okGuard = true
					}
				}
				if !okGuard {
					extra = "an additional condition guards the lookup"
				}
			}
			r.Check(extra == "", rule, fnQual(fn)+":"+g.Name(), p.pos(cl.Pos()), "every identifier token is looked up in the reserved-word table",
				"in "+fnShort(fn)+" the reserved-word lookup is skipped under a further condition ("+extra+"): some reserved word is then tokenised as an ordinary identifier and accepted where the grammar forbids it")
		}
	}
	if n == 0 {
		r.Undec(rule, "parser.scanner:reserved-lookup", "-", "the tokenizer's reserved-word lookup was not found (anchor vanished)")
	}
}
