package main

// C09: the JSON policy codec round-trips and agrees with the text codec.
//
// Decided (necessary conditions visible in the code), with the field-provenance engine E10 (symev.go):
//   R9.1  for every AST node kind K (and, for literals, every value kind), the decoder applied to what the encoder writes
//         for a K whose children round-trip gives back a K with every field taken from the same field of the original
//         (operand order, attribute/pattern/entity-type members, element order of sets and call arguments); the encoder
//         sets exactly one member of the node object, so the decoder's dispatch cannot pick another;
//   R9.2  the same for the six scope forms against the principal/resource decoder and the action decoder;
//   R9.3  the value kinds the encoder writes as extension calls use a registered one-argument constructor whose
//         evaluator parses back to that kind, with String() as the argument;
//   R9.4  the policy envelope (effect, annotations, scope, conditions in order and with their kind) and the policy-set
//         envelope (ids) come back unchanged from decode(encode(p));
//   R9.5  the encoder's dispatch covers every node and scope kind; JSON member names equal the JSON policy format's
//         vocabulary; no extension function name collides with a member name (the decoder would read it as an operator).
// Not decided: the value codecs inside literals (C13), pattern component codec values, agreement with the text parser
// beyond sharing the same constructors (C07/C08).

import (
	"go/ast"
	"go/constant"
	"go/types"
	"sort"
	"strings"

	"golang.org/x/tools/go/ssa"
)

func init() {
	register(&propCheck{
		ID: "C09",
		Explanation: "Structural necessary conditions of the JSON policy codec round trip, decided by field-provenance extraction (no execution): R9.1 per node kind, decode(encode(n)) rebuilds the same kind with every " +
			"field taken from the same field (operand order, members, element order), and the encoder sets exactly one member; R9.2 the same per scope form and decoder; R9.3 literal kinds written as extension calls use a " +
			"registered unary constructor that parses String() back to that kind; R9.4 policy envelope (effect, annotations, scopes, ordered conditions with kind) and policy-set ids are preserved; R9.5 dispatch exhaustiveness, " +
			"member names = JSON policy format vocabulary, no extension name collides with a member name. Not decided: literal value codecs (C13), pattern component values.",
		Assumptions: []string{
			"encoding/json moves a tagged struct to bytes and back unchanged when the same struct type is used in both directions (the conditions under which the hand-written node (un)marshaller picks the right form are checked: exactly one member set; no name collision)",
			"children round-trip (structural induction on node depth); keys of a decoded JSON object are distinct",
		},
		Run: runC09,
	})
}

// the JSON policy format's member vocabulary (Cedar documentation, "JSON policy format"); not derived from /repo
var jsonExprKeys = map[string]string{
	"NodeValue": "Value", "NodeTypeVariable": "Var", "NodeTypeNot": "!", "NodeTypeNegate": "neg", "NodeTypeIsEmpty": "isEmpty",
	"NodeTypeEquals": "==", "NodeTypeNotEquals": "!=", "NodeTypeIn": "in", "NodeTypeLessThan": "<", "NodeTypeLessThanOrEqual": "<=",
	"NodeTypeGreaterThan": ">", "NodeTypeGreaterThanOrEqual": ">=", "NodeTypeAnd": "&&", "NodeTypeOr": "||", "NodeTypeAdd": "+",
	"NodeTypeSub": "-", "NodeTypeMult": "*", "NodeTypeContains": "contains", "NodeTypeContainsAll": "containsAll",
	"NodeTypeContainsAny": "containsAny", "NodeTypeGetTag": "getTag", "NodeTypeHasTag": "hasTag", "NodeTypeAccess": ".",
	"NodeTypeHas": "has", "NodeTypeIs": "is", "NodeTypeIsIn": "is", "NodeTypeLike": "like", "NodeTypeIfThenElse": "if-then-else",
	"NodeTypeSet": "Set", "NodeTypeRecord": "Record",
}

// member names inside each expression object, per the format document
var jsonExprMembers = map[string][]string{
	"!": {"arg"}, "neg": {"arg"}, "isEmpty": {"arg"},
	"==": {"left", "right"}, "!=": {"left", "right"}, "in": {"left", "right"}, "<": {"left", "right"}, "<=": {"left", "right"}, ">": {"left", "right"}, ">=": {"left", "right"},
	"&&": {"left", "right"}, "||": {"left", "right"}, "+": {"left", "right"}, "-": {"left", "right"}, "*": {"left", "right"},
	"contains": {"left", "right"}, "containsAll": {"left", "right"}, "containsAny": {"left", "right"}, "getTag": {"left", "right"}, "hasTag": {"left", "right"},
	".": {"attr", "left"}, "has": {"attr", "left"}, "is": {"entity_type", "in", "left"}, "like": {"left", "pattern"}, "if-then-else": {"else", "if", "then"},
}

type c9ctx struct {
	p        *Prog
	r        *Report
	nodeT    *types.Named // nodeJSON
	enc, dec *types.Func
	scopeT   *types.Named
	scEnc    *types.Func
	scDecs   []*types.Func
	isNode   *types.Named
}

func runC09(p *Prog, r *Report) {
	c := &c9ctx{p: p, r: r}
	if !c.anchors() {
		return
	}
	c.nodes()
	c.scopes()
	c.envelope()
	c.vocabulary()
	exactNumberSites(p, r, "R9.6-untyped-decode-sites")
	jsonEmittersQuoteAsJSON(p, r, "R9.7-json-quoting", 15)
}

func (c *c9ctx) anchors() bool {
	p, r := c.p, c.r
	pk := p.Pkgs[pJSON]
	c.isNode = p.namedType(pXAst, "IsNode")
	isScope := p.namedType(pXAst, "IsScopeNode")
	nodeWrap := p.namedType(pXAst, "Node")
	if pk == nil || c.isNode == nil || isScope == nil || nodeWrap == nil {
		r.Anchor("R9.1-node-round-trip", "internal/json package / ast.IsNode / ast.IsScopeNode / ast.Node")
		return false
	}
	scope := pk.Types.Scope()
	for _, name := range scope.Names() {
		tn, ok := scope.Lookup(name).(*types.TypeName)
		if !ok {
			continue
		}
		nt, ok := tn.Type().(*types.Named)
		if !ok {
			continue
		}
		if _, isStruct := nt.Underlying().(*types.Struct); !isStruct {
			continue
		}
		for _, recv := range []types.Type{nt, types.NewPointer(nt)} {
			ms := types.NewMethodSet(recv)
			for i := 0; i < ms.Len(); i++ {
				fo, ok := ms.At(i).Obj().(*types.Func)
				if !ok || fo.Pkg() != pk.Types {
					continue
				}
				sig := fo.Type().(*types.Signature)
				if sig.Params().Len() == 1 && sig.Results().Len() == 0 {
					if types.Identical(sig.Params().At(0).Type(), c.isNode) {
						c.nodeT, c.enc = nt, fo
					}
					if types.Identical(sig.Params().At(0).Type(), isScope) {
						c.scopeT, c.scEnc = nt, fo
					}
				}
			}
		}
	}
	if c.nodeT != nil {
		for _, recv := range []types.Type{c.nodeT, types.NewPointer(c.nodeT)} {
			ms := types.NewMethodSet(recv)
			for i := 0; i < ms.Len(); i++ {
				fo := ms.At(i).Obj().(*types.Func)
				sig := fo.Type().(*types.Signature)
				if sig.Params().Len() == 0 && sig.Results().Len() == 2 && types.Identical(sig.Results().At(0).Type(), nodeWrap) && isErrorType(sig.Results().At(1).Type()) {
					c.dec = fo
				}
			}
		}
	}
	if c.scopeT != nil {
		seen := map[*types.Func]bool{}
		for _, recv := range []types.Type{c.scopeT, types.NewPointer(c.scopeT)} {
			ms := types.NewMethodSet(recv)
			for i := 0; i < ms.Len(); i++ {
				fo := ms.At(i).Obj().(*types.Func)
				sig := fo.Type().(*types.Signature)
				if sig.Params().Len() == 0 && sig.Results().Len() == 2 && isErrorType(sig.Results().At(1).Type()) && !seen[fo] {
					if it, ok := sig.Results().At(0).Type().Underlying().(*types.Interface); ok && types.Implements(sig.Results().At(0).Type(), isScope.Underlying().(*types.Interface)) && it.NumMethods() > 0 {
						c.scDecs = append(c.scDecs, fo)
						seen[fo] = true
					}
				}
			}
		}
		sort.Slice(c.scDecs, func(i, j int) bool { return c.scDecs[i].Name() < c.scDecs[j].Name() })
	}
	ok := true
	if c.nodeT == nil || c.enc == nil || c.dec == nil {
		r.Anchor("R9.1-node-round-trip", "the expression object type in internal/json with an encoder func(ast.IsNode) and a decoder func() (ast.Node, error)")
		ok = false
	}
	if c.scopeT == nil || c.scEnc == nil || len(c.scDecs) < 2 {
		r.Anchor("R9.2-scope-round-trip", "the scope object type in internal/json with an encoder func(ast.IsScopeNode) and two decoders")
		ok = false
	}
	return ok
}

func (c *c9ctx) mkSev(hyp map[string]types.Type) func() *sev {
	return func() *sev {
		s := newSev(c.p)
		s.opaque = valueCodecOpaque
		s.encHook, s.decHook = c.enc, c.dec
		for k, v := range hyp {
			s.hypType[k] = v
		}
		return s
	}
}

// setMembers lists the members of a struct term that hold something other than their zero value.
func setMembers(o *tObj) []string {
	var out []string
	for k, fc := range o.F {
		if fc.v == nil {
			continue
		}
		switch v := fc.v.(type) {
		case tNil:
			continue
		case tConst:
			if (v.V.Kind() == constant.String && constant.StringVal(v.V) == "") || (v.V.Kind() == constant.Bool && !constant.BoolVal(v.V)) {
				continue
			}
		case *tObj:
			if len(setMembers(v)) == 0 {
				continue
			}
		}
		out = append(out, k)
	}
	sort.Strings(out)
	return out
}

func jsonNameOfField(t types.Type, field string) string {
	st := structOf(t)
	if st == nil {
		return field
	}
	for i := 0; i < st.NumFields(); i++ {
		if st.Field(i).Name() == field {
			n, _, skip := jsonTag(st.Field(i), st.Tag(i))
			if skip {
				return "-"
			}
			return n
		}
	}
	return field
}

func (c *c9ctx) nodes() {
	p, r := c.p, c.r
	const rule = "R9.1-node-round-trip"
	sealed := p.sealedOf(c.isNode)
	if sealed == nil {
		r.Anchor(rule, "ast.IsNode implementers")
		return
	}
	valueImpls := valueImpls(p)
	reg := extRegistry(p)
	parse := extParseFuncs(p)
	for _, K := range sealed.Impls {
		kname := namedOf(K).Obj().Name()
		type variant struct {
			label string
			hyp   map[string]types.Type
			V     types.Type
		}
		variants := []variant{{kname, map[string]types.Type{"t": K}, nil}}
		if st := structOf(K); st != nil && st.NumFields() == 1 {
			if ft := st.Field(0).Type(); types.Identical(ft, p.namedType(pTypes, "Value")) {
				variants = nil
				for _, V := range valueImpls {
					variants = append(variants, variant{kname + "(" + typeShort(V) + ")", map[string]types.Type{"t": K, "t." + st.Field(0).Name(): V}, V})
				}
			}
		}
		for _, vr := range variants {
			construct := "json." + vr.label
			outs := runForks(c.mkSev(vr.hyp), func(s *sev) (tv, any) {
				ncell := &tcell{zeroOf(c.nodeT)}
				src := &tSym{Name: "t", T: c.isNode}
				s.hookTop = true
				s.callFn(nil, &tFn{Obj: c.enc, Recv: &tPtr{ncell}, RecvCell: ncell}, []tv{src}, false, nil)
				enc := cloneTV(ncell.v)
				s.hookTop = true
				res := s.callFn(nil, &tFn{Obj: c.dec, Recv: ncell.v, RecvCell: ncell}, nil, false, nil)
				return res, enc
			})
			if len(outs) == 0 {
				r.Undec(rule, construct, "-", "no outcome extracted")
				continue
			}
			for _, o := range outs {
				cs := construct
				if a := assumeString(o.Assume); a != "" {
					cs += "[" + a + "]"
				}
				if o.Abort != "" {
					r.Undec(rule, cs, p.pos(c.enc.Pos()), "the encoder/decoder pair for "+vr.label+" is outside the converter idioms the extraction understands: "+o.Abort)
					continue
				}
				enc, _ := o.State.(*tObj)
				set := setMembers(enc)
				if len(set) != 1 {
					r.Viol("R9.1-one-member", cs, p.pos(c.enc.Pos()), "the encoder sets "+itoa(len(set))+" members of the expression object for a "+vr.label+" ("+strings.Join(set, ", ")+
						"): exactly one must be set, or the hand-written (un)marshaller and the decoder's dispatch pick a different form")
					continue
				}
				member := jsonNameOfField(c.nodeT, set[0])
				r.OK("R9.1-one-member", cs, p.pos(c.enc.Pos()), "encoded as member "+set[0]+" (`"+member+"`)")
				// vocabulary
				if want, ok := jsonExprKeys[kname]; ok && vr.V == nil {
					r.Check(member == want, "R9.5-json-keys", cs, p.pos(c.enc.Pos()), "member name `"+member+"` is the format's", "a "+kname+" is written under `"+member+"`, the JSON policy format names it `"+want+"`")
					if mem, ok := jsonExprMembers[want]; ok {
						if sub, ok := enc.F[set[0]].v.(*tPtr); ok {
							if so, ok := sub.C.v.(*tObj); ok {
								var got []string
								for _, m := range setMembers(so) {
									got = append(got, jsonNameOfField(so.T, m))
								}
								sort.Strings(got)
								wantSet := map[string]bool{}
								for _, m := range mem {
									wantSet[m] = true
								}
								okAll := true
								for _, g := range got {
									if !wantSet[g] {
										okAll = false
									}
								}
								r.Check(okAll, "R9.5-json-keys", cs+":members", p.pos(c.enc.Pos()), "inner members "+strings.Join(got, ",")+" are the format's",
									"inner members written for `"+want+"` are ["+strings.Join(got, ",")+"], the format has ["+strings.Join(mem, ",")+"]")
							}
						}
					}
				}
				t, ok := o.Result.(*tTuple)
				if !ok || len(t.Vs) != 2 {
					r.Undec(rule, cs, p.pos(c.dec.Pos()), "decoder result not understood: "+o.Result.ts())
					continue
				}
				if _, isNil := t.Vs[1].(tNil); !isNil {
					if outsideVocabulary(o.Assume) {
						r.OK(rule, cs, p.pos(c.dec.Pos()), "a "+vr.label+" whose constant-valued field is outside the vocabulary the decoder switches on is rejected by the decoder (not expressible in either policy format)")
						continue
					}
					r.Viol(rule, cs, p.pos(c.dec.Pos()), "decoding what the encoder writes for a "+vr.label+" ends in an error return ("+t.Vs[1].ts()+"): the encoding does not decode")
					continue
				}
				out := t.Vs[0]
				if w, ok := out.(*tObj); ok && namedOf(w.T) != nil && namedOf(w.T).Obj().Name() == "Node" && len(w.F) == 1 {
					for _, fc := range w.F {
						out = fc.v
					}
				}
				s := newSev(p)
				s.refine = o.Refine
				want := &tSym{Name: "t", T: K}
				diffs := s.identity(out, want, func(path string) bool { return kname == "NodeTypeRecord" })
				if len(diffs) == 0 {
					r.OK(rule, cs, p.pos(c.dec.Pos()), "decode(encode("+vr.label+")) = the same node, field by field"+noteSuffix(o.Notes))
					continue
				}
				// the literal path: value kinds written as extension calls
				if vr.V != nil {
					if msg, ok := c.literalPath(out, vr.V, reg, parse); ok {
						r.OK("R9.3-literal-path", cs, p.pos(c.enc.Pos()), msg)
						continue
					} else if msg != "" {
						r.Viol("R9.3-literal-path", cs, p.pos(c.enc.Pos()), msg)
						continue
					}
				}
				r.Viol(rule, cs, p.pos(c.dec.Pos()), "decode(encode("+vr.label+")) is not the original node: "+strings.Join(diffs, "; ")+" [decoded: "+clip(out.ts(), 300)+"]")
			}
		}
	}
	r.Floor(rule, 30)
	// R9.5 exhaustiveness of the encoder's dispatch
	found := false
	for _, ti := range p.typeSwitches(pJSON) {
		if ti.Sealed.Named.Obj() == c.isNode.Obj() {
			found = true
			p.requireExhaustive(r, "R9.5-exhaustive", ti)
		}
	}
	if !found {
		r.Anchor("R9.5-exhaustive", "type switch over ast.IsNode in internal/json")
	}
}

func noteSuffix(notes []string) string {
	if len(notes) == 0 {
		return ""
	}
	return " (" + strings.Join(notes, "; ") + ")"
}

// literalPath accepts NodeTypeExtensionCall{Name: c, Args: [NodeValue{String(v.String())}]} for a value kind V when c is
// a registered unary constructor whose evaluator parses to V.
func (c *c9ctx) literalPath(out tv, V types.Type, reg map[string][2]int, parse map[string]*ssa.Function) (string, bool) {
	o, ok := out.(*tObj)
	if !ok || namedOf(o.T) == nil || namedOf(o.T).Obj().Name() != "NodeTypeExtensionCall" {
		return "", false
	}
	nameC, ok := fieldOf(o, "Name").(tConst)
	if !ok || nameC.V.Kind() != constant.String {
		return "a literal of kind " + typeShort(V) + " is written as an extension call whose name is not a constant", false
	}
	name := constant.StringVal(nameC.V)
	var args []tv
	switch a := fieldOf(o, "Args").(type) {
	case *tSliceLit:
		args = a.Elems
	case *tEach:
		// stripNodes over a literal slice
		if sl, ok := a.Over.(*tSliceLit); ok {
			args = sl.Elems
		}
	}
	e, isReg := reg[name]
	if !isReg {
		return "a literal of kind " + typeShort(V) + " is written as a call of `" + name + "`, which is not a registered extension function: the decoder rejects it", false
	}
	if e[0] != 1 || e[1] != 0 {
		return "a literal of kind " + typeShort(V) + " is written as a call of `" + name + "`, registered with arity " + itoa(e[0]) + " / method=" + itoa(e[1]) + "; a unary constructor is required", false
	}
	pf := parse[name]
	var pfRes types.Type
	if pf != nil && pf.Signature.Results().Len() > 0 {
		pfRes = pf.Signature.Results().At(0).Type()
	}
	if pfRes == nil || !types.Identical(pfRes, V) {
		got := "nothing"
		if pfRes != nil {
			got = typeShort(pfRes)
		}
		return "a literal of kind " + typeShort(V) + " is written as a call of `" + name + "`, whose evaluator parses to " + got, false
	}
	if len(args) != 1 || !strings.Contains(args[0].ts(), ".String(t.Value)") {
		return "a literal of kind " + typeShort(V) + " is written as `" + name + "(...)` but the argument is not the value's String() form: " + clip(out.ts(), 200), false
	}
	return "literal " + typeShort(V) + " is written as " + name + "(String()) — a registered unary constructor parsing to " + typeShort(V) + " (decodes to the call, as the text parser produces)", true
}

func fieldOf(o *tObj, name string) tv {
	if c, ok := o.F[name]; ok {
		return c.v
	}
	return tNil{}
}

// extRegistry reads extensions.ExtMap: name -> (arity, isMethod).
func extRegistry(p *Prog) map[string][2]int {
	reg := map[string][2]int{}
	pk := p.Pkgs[pExt]
	if pk == nil {
		return reg
	}
	for _, f := range pk.Syntax {
		ast.Inspect(f, func(n ast.Node) bool {
			vs, ok := n.(*ast.ValueSpec)
			if !ok || len(vs.Names) != 1 || len(vs.Values) != 1 {
				return true
			}
			cl, ok := vs.Values[0].(*ast.CompositeLit)
			if !ok {
				return true
			}
			mt, ok := pk.TypesInfo.Types[cl].Type.Underlying().(*types.Map)
			if !ok || structOf(mt.Elem()) == nil {
				return true
			}
			for _, el := range cl.Elts {
				kv, ok := el.(*ast.KeyValueExpr)
				if !ok || pk.TypesInfo.Types[kv.Key].Value == nil {
					continue
				}
				name := constant.StringVal(pk.TypesInfo.Types[kv.Key].Value)
				args, meth := -1, 0
				if v, ok := kv.Value.(*ast.CompositeLit); ok {
					for _, fe := range v.Elts {
						fkv, ok := fe.(*ast.KeyValueExpr)
						if !ok {
							continue
						}
						tvv := pk.TypesInfo.Types[fkv.Value]
						if tvv.Value == nil {
							continue
						}
						switch fkv.Key.(*ast.Ident).Name {
						case "Args":
							if i, ok := constant.Int64Val(tvv.Value); ok {
								args = int(i)
							}
						case "IsMethod":
							if constant.BoolVal(tvv.Value) {
								meth = 1
							}
						}
					}
				}
				reg[name] = [2]int{args, meth}
			}
			return true
		})
	}
	return reg
}

// ---------------------------------------------------------------------------------------------
// R9.2 scopes

func (c *c9ctx) scopes() {
	p, r := c.p, c.r
	const rule = "R9.2-scope-round-trip"
	isScope := p.namedType(pXAst, "IsScopeNode")
	sealed := p.sealedOf(isScope)
	if sealed == nil {
		r.Anchor(rule, "ast.IsScopeNode implementers")
		return
	}
	for _, dec := range c.scDecs {
		resIface := dec.Type().(*types.Signature).Results().At(0).Type()
		it := resIface.Underlying().(*types.Interface)
		for _, K := range sealed.Impls {
			if !types.Implements(K, it) {
				continue
			}
			kname := namedOf(K).Obj().Name()
			construct := "json." + kname + "~" + dec.Name()
			outs := runForks(c.mkSev(map[string]types.Type{"t": K}), func(s *sev) (tv, any) {
				ncell := &tcell{zeroOf(c.scopeT)}
				src := &tSym{Name: "t", T: isScope}
				s.callFn(nil, &tFn{Obj: c.scEnc, Recv: &tPtr{ncell}, RecvCell: ncell}, []tv{src}, false, nil)
				enc := cloneTV(ncell.v)
				res := s.callFn(nil, &tFn{Obj: dec, Recv: &tPtr{ncell}, RecvCell: ncell}, nil, false, nil)
				return res, enc
			})
			for _, o := range outs {
				cs := construct
				if a := assumeString(o.Assume); a != "" {
					cs += "[" + a + "]"
				}
				if o.Abort != "" {
					r.Undec(rule, cs, p.pos(dec.Pos()), "the scope encoder/decoder pair for "+kname+" is outside the converter idioms the extraction understands: "+o.Abort)
					continue
				}
				t, ok := o.Result.(*tTuple)
				if !ok || len(t.Vs) != 2 {
					r.Undec(rule, cs, p.pos(dec.Pos()), "decoder result not understood")
					continue
				}
				if _, isNil := t.Vs[1].(tNil); !isNil {
					r.Viol(rule, cs, p.pos(dec.Pos()), "decoding what the encoder writes for a "+kname+" scope ends in an error return: the encoding does not decode with "+dec.Name())
					continue
				}
				s := newSev(p)
				s.refine = o.Refine
				diffs := s.identity(t.Vs[0], &tSym{Name: "t", T: K}, nil)
				enc, _ := o.State.(*tObj)
				r.Check(len(diffs) == 0, rule, cs, p.pos(dec.Pos()), dec.Name()+"(encode("+kname+")) = the same scope [written: "+clip(enc.ts(), 160)+"]",
					dec.Name()+"(encode("+kname+")) is not the original scope: "+strings.Join(diffs, "; ")+" [written: "+clip(enc.ts(), 200)+"; decoded: "+clip(t.Vs[0].ts(), 200)+"]")
			}
		}
	}
	r.Floor(rule, 8)
	found := false
	for _, ti := range p.typeSwitches(pJSON) {
		if ti.Sealed.Named.Obj() == isScope.Obj() {
			found = true
			p.requireExhaustive(r, "R9.5-exhaustive", ti)
		}
	}
	if !found {
		r.Anchor("R9.5-exhaustive", "type switch over ast.IsScopeNode in internal/json")
	}
}

// ---------------------------------------------------------------------------------------------
// R9.5 vocabulary: extension names vs member names

func (c *c9ctx) vocabulary() {
	p, r := c.p, c.r
	const rule = "R9.5-no-name-collision"
	st := structOf(c.nodeT)
	keys := map[string]bool{}
	for i := 0; i < st.NumFields(); i++ {
		n, _, skip := jsonTag(st.Field(i), st.Tag(i))
		if !skip && st.Field(i).Exported() {
			keys[n] = true
		}
	}
	reg := extRegistry(p)
	if len(reg) == 0 {
		r.Anchor(rule, "extensions.ExtMap literal")
		return
	}
	var names []string
	for n := range reg {
		names = append(names, n)
	}
	sort.Strings(names)
	for _, n := range names {
		r.Check(!keys[n], rule, "extensions.ExtMap:"+n, "-", "`"+n+"` is not an operator member name",
			"extension function `"+n+"` has the same name as a member of the expression object: its JSON form would be decoded as that operator")
	}
	r.Floor(rule, 15)
}

// ---------------------------------------------------------------------------------------------
// R9.4 envelopes

func (c *c9ctx) envelope() {
	p, r := c.p, c.r
	const rule = "R9.4-envelope"
	pk := p.Pkgs[pJSON]
	astPol := p.namedType(pXAst, "Policy")
	if astPol == nil {
		r.Anchor(rule, "x/exp/ast.Policy")
		return
	}
	var polT *types.Named
	for _, name := range pk.Types.Scope().Names() {
		if tn, ok := pk.Types.Scope().Lookup(name).(*types.TypeName); ok {
			if nt, ok := tn.Type().(*types.Named); ok && types.Identical(nt.Underlying(), astPol.Underlying()) {
				polT = nt
			}
		}
	}
	if polT == nil {
		r.Anchor(rule, "the JSON wrapper type of ast.Policy in internal/json")
		return
	}
	var enc, dec *types.Func
	ms := types.NewMethodSet(types.NewPointer(polT))
	for i := 0; i < ms.Len(); i++ {
		fo := ms.At(i).Obj().(*types.Func)
		switch fo.Name() {
		case "MarshalJSON":
			enc = fo
		case "UnmarshalJSON":
			dec = fo
		}
	}
	if enc == nil || dec == nil {
		r.Anchor(rule, "Policy.MarshalJSON / UnmarshalJSON in internal/json")
		return
	}
	mk := func() *sev {
		s := newSev(p)
		s.opaque = valueCodecOpaque
		s.pairs = map[*types.Func]*types.Func{c.dec: c.enc}
		for _, d := range c.scDecs {
			s.pairs[d] = c.scEnc
		}
		return s
	}
	outs := runForks(mk, func(s *sev) (tv, any) {
		src := &tSym{Name: "pol", T: types.NewPointer(polT)}
		res := s.callFn(nil, &tFn{Obj: enc, Recv: src}, nil, false, nil)
		t, ok := res.(*tTuple)
		if !ok || len(t.Vs) != 2 {
			s.abort("encoder result %s", res.ts())
		}
		if _, isNil := t.Vs[1].(tNil); !isNil {
			s.abort("encoder returns an error on this path")
		}
		dcell := &tcell{staleObject(polT)}
		derr := s.callFn(nil, &tFn{Obj: dec, Recv: &tPtr{dcell}, RecvCell: dcell}, []tv{t.Vs[0]}, false, nil)
		return &tTuple{[]tv{dcell.v, derr}}, t.Vs[0]
	})
	for _, o := range outs {
		cs := "json.Policy"
		if a := assumeString(o.Assume); a != "" {
			cs += "[" + a + "]"
		}
		if o.Abort != "" {
			r.Undec(rule, cs, p.pos(dec.Pos()), "the policy envelope codec is outside the converter idioms the extraction understands: "+o.Abort)
			continue
		}
		t := o.Result.(*tTuple)
		if _, isNil := t.Vs[1].(tNil); !isNil {
			r.Viol(rule, cs, p.pos(dec.Pos()), "decoding the encoder's own output ends in an error return")
			continue
		}
		s := newSev(p)
		s.refine = o.Refine
		s.looseNamed = true // json.Policy is a conversion wrapper of ast.Policy
		s.assume = o.Assume
		diffs := s.identity(t.Vs[0], &tSym{Name: "pol", T: polT}, func(path string) bool { return strings.HasPrefix(path, "$.Annotations") })
		// the source position is not part of the JSON form
		var kept []string
		for _, d := range diffs {
			if strings.HasPrefix(d, "$.Position") {
				continue
			}
			kept = append(kept, d)
		}
		if strings.Contains(t.Vs[0].ts(), "stale.") {
			kept = append(kept, "the decoded policy still holds what the receiver held before decoding (decoding must replace, not merge)")
		}
		r.Check(len(kept) == 0, rule, cs, p.pos(dec.Pos()), "decode(encode(policy)) = the same effect, annotations (by key), scopes and ordered conditions"+noteSuffix(o.Notes),
			"decode(encode(policy)) differs from the original: "+strings.Join(kept, "; ")+" [decoded: "+clip(t.Vs[0].ts(), 400)+"]")
	}
	r.Floor(rule, 4)
	c.policySet()
}

// policySet: ids and ASTs of a policy set come back from decode(encode(set)).
func (c *c9ctx) policySet() {
	p, r := c.p, c.r
	const rule = "R9.4-policy-set"
	psT := p.namedType(pRoot, "PolicySet")
	if psT == nil {
		r.Anchor(rule, "cedar.PolicySet")
		return
	}
	var enc, dec *types.Func
	ms := types.NewMethodSet(types.NewPointer(psT))
	for i := 0; i < ms.Len(); i++ {
		fo := ms.At(i).Obj().(*types.Func)
		switch fo.Name() {
		case "MarshalJSON":
			enc = fo
		case "UnmarshalJSON":
			dec = fo
		}
	}
	if enc == nil || dec == nil {
		r.Anchor(rule, "PolicySet.MarshalJSON / UnmarshalJSON")
		return
	}
	outs := runForks(func() *sev { return newSev(p) }, func(s *sev) (tv, any) {
		src := &tSym{Name: "ps", T: types.NewPointer(psT)}
		res := s.callFn(nil, &tFn{Obj: enc, Recv: src}, nil, false, nil)
		t, ok := res.(*tTuple)
		if !ok || len(t.Vs) != 2 {
			s.abort("encoder result %s", res.ts())
		}
		dcell := &tcell{staleObject(psT)}
		derr := s.callFn(nil, &tFn{Obj: dec, Recv: &tPtr{dcell}, RecvCell: dcell}, []tv{t.Vs[0]}, false, nil)
		return &tTuple{[]tv{dcell.v, derr}}, t.Vs[0]
	})
	n := 0
	for _, o := range outs {
		cs := "cedar.PolicySet"
		if a := assumeString(o.Assume); a != "" {
			cs += "[" + a + "]"
		}
		if o.Abort != "" {
			r.Undec(rule, cs, p.pos(dec.Pos()), "the policy-set envelope codec is outside the converter idioms the extraction understands: "+o.Abort)
			continue
		}
		t := o.Result.(*tTuple)
		if _, isNil := t.Vs[1].(tNil); !isNil {
			nilPolicy := false
			for k, v := range o.Assume {
				if strings.HasPrefix(k, "nil:") && v == "nil" {
					nilPolicy = true
				}
			}
			if nilPolicy {
				r.OK(rule, cs, p.pos(dec.Pos()), "a set holding a policy without an AST cannot be built through the API; its encoding (null) is rejected")
				continue
			}
			r.Viol(rule, cs, p.pos(dec.Pos()), "decoding the encoder's own output ends in an error return")
			continue
		}
		// expected: PolicySet{policies: one entry per entry of ps.policies, same key, a policy with the same AST}
		okShape := false
		msg := "decoded: " + clip(t.Vs[0].ts(), 300)
		if o2, ok := t.Vs[0].(*tObj); ok {
			for _, fc := range o2.F {
				if me, ok := fc.v.(*tMapEach); ok && me.Over.ts() == "ps.policies" {
					keyOK := me.Key.ts() == "key:"+me.Elem.Name
					astOK := false
					val := me.Val
					if pp, ok := val.(*tPtr); ok {
						val = pp.C.v
					}
					if vo, ok := val.(*tObj); ok {
						for fname, vc := range vo.F {
							if vc.v != nil && vc.v.ts() == me.Elem.Name+"."+fname && strings.Contains(strings.ToLower(fname), "ast") {
								astOK = true
							}
						}
					}
					okShape = keyOK && astOK
					if !keyOK {
						msg = "the decoded set is keyed by " + me.Key.ts() + ", not by the original policy id; " + msg
					} else if !astOK {
						msg = "the decoded policies do not carry the original policy's AST; " + msg
					}
				}
			}
		}
		if strings.Contains(t.Vs[0].ts(), "stale.") {
			okShape = false
			msg = "the decoded set still holds what the receiver held before decoding (decoding must replace the contents, not merge into them); " + msg
		}
		n++
		r.Check(okShape, rule, cs, p.pos(dec.Pos()), "decode(encode(set)) has one policy per original policy, under the same id, with the same AST"+noteSuffix(o.Notes),
			"decode(encode(set)) is not the original set: "+msg)
	}
	if n == 0 {
		r.Undec(rule, "cedar.PolicySet", "-", "no successful row extracted")
	}
}

// outsideVocabulary: the row was extracted under the hypothesis that an input field holds none of the constants a
// switch compares it with.
func outsideVocabulary(assume map[string]string) bool {
	for k, v := range assume {
		if strings.HasPrefix(k, "switch:t.") && v == "<other>" {
			return true
		}
	}
	return false
}

// staleObject: a value of struct type T whose every field holds an unrelated symbolic value ("what the receiver held
// before decoding"); a decoder must not let any of it survive.
func staleObject(T types.Type) tv {
	o := &tObj{T: T, F: map[string]*tcell{}}
	st := structOf(T)
	for i := 0; i < st.NumFields(); i++ {
		f := st.Field(i)
		o.F[f.Name()] = &tcell{&tSym{Name: "stale." + f.Name(), T: f.Type()}}
	}
	return o
}
