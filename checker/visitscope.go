package main

// Visited-set scope (shared by C03, C15, C16): a graph walk that carries its visited set as a
// parameter answers "cannot reach the target" for every node already in the set. That answer is
// only right for the target the set was filled for. Every outside call of such a walk must
// therefore hand it a set made for that call, or share one only between calls that agree on
// everything the walk passes along unchanged (the target).

import (
	"go/token"
	"go/types"
	"sort"
	"strings"

	"golang.org/x/tools/go/ssa"
)

type visitWalker struct {
	fn      *ssa.Function
	seenIdx int   // index into fn.Params of the visited set
	fixed   []int // indexes of parameters every self-call passes along unchanged (seen excluded)
}

// findVisitWalkers: functions with a map parameter that they test (guarding a return), mark, and pass
// unchanged to a call of themselves.
func findVisitWalkers(p *Prog, pkgPaths ...string) []*visitWalker {
	var out []*visitWalker
	for _, pp := range pkgPaths {
		sp := p.SSAPkg[pp]
		if sp == nil {
			continue
		}
		var fns []*ssa.Function
		for _, m := range sp.Members {
			switch x := m.(type) {
			case *ssa.Function:
				fns = append(fns, x)
			case *ssa.Type:
				for _, t := range []types.Type{x.Type(), types.NewPointer(x.Type())} {
					ms := p.SSA.MethodSets.MethodSet(t)
					for i := 0; i < ms.Len(); i++ {
						if f := p.SSA.MethodValue(ms.At(i)); f != nil && f.Synthetic == "" {
							fns = append(fns, f)
						}
					}
				}
			}
		}
		sort.Slice(fns, func(i, j int) bool { return fns[i].String() < fns[j].String() })
		seenFn := map[*ssa.Function]bool{}
		for _, f := range fns {
			if f.Blocks == nil || seenFn[f] {
				continue
			}
			seenFn[f] = true
			for i, prm := range f.Params {
				if _, ok := prm.Type().Underlying().(*types.Map); !ok {
					continue
				}
				marks, tests := false, false
				forEachInstr(f, func(in ssa.Instruction) {
					switch x := in.(type) {
					case *ssa.MapUpdate:
						if sameThroughClosure(x.Map, prm) {
							marks = true
						}
					case *ssa.Lookup:
						if sameThroughClosure(x.X, prm) {
							for _, b := range f.Blocks {
								if _, isRet := lastInstr(b).(*ssa.Return); !isRet {
									continue
								}
								for _, g := range guardsAt(b) {
									if dependsOnValue(g.Cond, x) {
										tests = true
									}
								}
							}
						}
					}
				})
				if !marks || !tests {
					continue
				}
				// self calls (also from closures nested in f) that pass the set along
				var fixed map[int]bool
				nself := 0
				for _, g := range withAnon(f) {
					for _, c := range callsIn(g) {
						if c.Common().StaticCallee() != f {
							continue
						}
						args := c.Common().Args
						if i >= len(args) || !sameThroughClosure(args[i], prm) {
							continue
						}
						nself++
						cur := map[int]bool{}
						for j, a := range args {
							if j != i && j < len(f.Params) && sameThroughClosure(a, f.Params[j]) {
								cur[j] = true
							}
						}
						if fixed == nil {
							fixed = cur
						} else {
							for j := range fixed {
								if !cur[j] {
									delete(fixed, j)
								}
							}
						}
					}
				}
				if nself == 0 {
					continue
				}
				w := &visitWalker{fn: f, seenIdx: i}
				for j := range fixed {
					w.fixed = append(w.fixed, j)
				}
				sort.Ints(w.fixed)
				out = append(out, w)
			}
		}
	}
	return out
}

// sameThroughClosure: v is prm, or the captured copy of prm inside a nested closure.
func sameThroughClosure(v ssa.Value, prm *ssa.Parameter) bool {
	v = stripConv(v)
	if v == prm {
		return true
	}
	switch x := v.(type) {
	case *ssa.FreeVar:
		if mc := makeClosureOf(x.Parent()); mc != nil {
			for j, fv := range x.Parent().FreeVars {
				if fv == x && j < len(mc.Bindings) {
					return sameThroughClosure(mc.Bindings[j], prm)
				}
			}
		}
	case *ssa.UnOp:
		if x.Op == token.MUL {
			// load of a cell that holds the parameter
			if al, ok := cellOf(x.X).(*ssa.Alloc); ok {
				only := true
				found := false
				for _, ref := range *al.Referrers() {
					if st, ok := ref.(*ssa.Store); ok && st.Addr == al {
						if st.Val == prm {
							found = true
						} else {
							only = false
						}
					}
				}
				return found && only
			}
		}
	}
	return false
}

// cellOf resolves a captured variable's address to the Alloc in the enclosing function.
func cellOf(v ssa.Value) ssa.Value {
	for depth := 0; depth < 6; depth++ {
		fv, ok := v.(*ssa.FreeVar)
		if !ok {
			return v
		}
		mc := makeClosureOf(fv.Parent())
		if mc == nil {
			return v
		}
		hit := false
		for j, f := range fv.Parent().FreeVars {
			if f == fv && j < len(mc.Bindings) {
				v = mc.Bindings[j]
				hit = true
			}
		}
		if !hit {
			return v
		}
	}
	return v
}

// visitedScopeRule reports, for every outside call of a visited-set walk in the given packages, where
// its set comes from.
func visitedScopeRule(p *Prog, r *Report, rule string, minWalkers int, pkgPaths ...string) {
	ws := findVisitWalkers(p, pkgPaths...)
	if len(ws) < minWalkers {
		r.Anchor(rule, "graph walks that carry a visited set as a parameter (expected at least "+itoa(minWalkers)+", found "+itoa(len(ws))+")")
		return
	}
	byFn := map[*ssa.Function]*visitWalker{}
	for _, w := range ws {
		byFn[w.fn] = w
	}
	// all functions of the packages, with nested closures
	var all []*ssa.Function
	for f := range allFunctionsOf(p, pkgPaths...) {
		all = append(all, f)
	}
	sort.Slice(all, func(i, j int) bool { return all[i].String() < all[j].String() })
	type use struct {
		call ssa.CallInstruction
		w    *visitWalker
	}
	groups := map[ssa.Value][]use{} // allocation (or other origin) -> calls fed from it
	var order []ssa.Value
	for _, f := range all {
		for _, c := range callsIn(f) {
			w := byFn[c.Common().StaticCallee()]
			if w == nil {
				continue
			}
			inside := false
			for g := f; g != nil; g = g.Parent() {
				if g == w.fn {
					inside = true
				}
			}
			if inside {
				continue
			}
			arg := c.Common().Args[w.seenIdx]
			org := setOrigin(arg)
			if _, seen := groups[org]; !seen {
				order = append(order, org)
			}
			groups[org] = append(groups[org], use{c, w})
		}
	}
	for _, org := range order {
		us := groups[org]
		first := us[0]
		q := fnQual(first.call.Parent()) + "→" + fnQual(first.w.fn)
		pos := p.pos(first.call.Pos())
		switch o := org.(type) {
		case *ssa.Parameter:
			r.OK(rule, q, pos, "passes its own caller's set along")
			continue
		case *ssa.MakeMap:
			if len(us) == 1 && o.Parent() == first.call.Parent() && sameLoopNest(o.Block(), first.call.Block()) {
				r.OK(rule, q, pos, "the set is made for this one call")
				continue
			}
			// shared: every parameter the walk passes along unchanged must get one value, fixed outside the sharing region
			bad := ""
			for _, u := range us {
				for _, j := range u.w.fixed {
					a := u.call.Common().Args[j]
					b := first.call.Common().Args[j]
					name := u.w.fn.Params[j].Name()
					if u.call.Parent() != o.Parent() {
						if !definedOutsideClosure(a) {
							bad = "argument `" + name + "` is computed inside the closure at " + p.pos(u.call.Pos()) + " while the set lives outside it"
						}
					} else if v, isInstr := a.(ssa.Instruction); isInstr && !blockEnclosedSame(o.Block(), v.Block()) {
						bad = "argument `" + name + "` changes inside the loop around " + p.pos(u.call.Pos()) + " while the set is made once outside it"
					} else if _, isPhi := a.(*ssa.Phi); isPhi && !blockEnclosedSame(o.Block(), a.(*ssa.Phi).Block()) {
						bad = "argument `" + name + "` changes inside the loop around " + p.pos(u.call.Pos())
					}
					if stripConv(a) != stripConv(b) && bad == "" {
						bad = "the calls at " + p.pos(first.call.Pos()) + " and " + p.pos(u.call.Pos()) + " share one set but differ in argument `" + name + "`"
					}
				}
			}
			if bad == "" {
				// nodes on a *successful* path are marked too: once a walk has answered yes, the set is spent
				for _, u := range us {
					cv, ok := u.call.(*ssa.Call)
					if !ok || !positiveAnswerLeaves(cv) {
						bad = "a positive answer of the call at " + p.pos(u.call.Pos()) + " does not end the search, yet the nodes on that successful path stay marked and are dead ends for the next walk"
					}
				}
			}
			if bad != "" {
				r.Viol(rule, q, pos, "one visited set serves several walks of "+fnQual(first.w.fn)+" that do not agree on what the walk passes along unchanged: "+bad+"; a node marked while looking for one target is reported unreachable for the next")
			} else {
				r.OK(rule, q, pos, "the shared set serves walks with the same unchanged arguments ("+strings.Join(paramNames(first.w), ",")+")")
			}
		default:
			r.Undec(rule, q, pos, "cannot tell where the visited set handed to "+fnQual(first.w.fn)+" comes from")
		}
	}
}

func paramNames(w *visitWalker) []string {
	var out []string
	for _, j := range w.fixed {
		out = append(out, w.fn.Params[j].Name())
	}
	return out
}

// setOrigin: the allocation (MakeMap) or parameter a map value comes from, looking through a closure cell.
func setOrigin(v ssa.Value) ssa.Value {
	v = stripConv(v)
	switch x := v.(type) {
	case *ssa.FreeVar:
		return setOrigin(cellOf(x))
	case *ssa.UnOp:
		if x.Op == token.MUL {
			if al, ok := cellOf(x.X).(*ssa.Alloc); ok {
				var val ssa.Value
				n := 0
				for _, ref := range *al.Referrers() {
					if st, ok := ref.(*ssa.Store); ok && st.Addr == al {
						val = st.Val
						n++
					}
				}
				if n == 1 {
					return setOrigin(val)
				}
			}
		}
	}
	return v
}

// sameLoopNest: every loop that contains b also contains a (a is not hoisted out of a loop around b).
func sameLoopNest(a, b *ssa.BasicBlock) bool { return blockEnclosedSame(a, b) }

func blockEnclosedSame(a, b *ssa.BasicBlock) bool {
	if a.Parent() != b.Parent() {
		return false
	}
	for _, l := range loopsOf(a.Parent()) {
		if l.Body[b] && !l.Body[a] {
			return false
		}
	}
	return true
}

func definedOutsideClosure(v ssa.Value) bool {
	switch x := stripConv(v).(type) {
	case *ssa.Const, *ssa.Global, *ssa.FreeVar:
		return true
	case *ssa.UnOp:
		if x.Op == token.MUL {
			_, ok := x.X.(*ssa.FreeVar)
			return ok
		}
	}
	return false
}

func allFunctionsOf(p *Prog, pkgPaths ...string) map[*ssa.Function]bool {
	out := map[*ssa.Function]bool{}
	var add func(f *ssa.Function)
	add = func(f *ssa.Function) {
		if f == nil || f.Blocks == nil || out[f] {
			return
		}
		out[f] = true
		for _, a := range f.AnonFuncs {
			add(a)
		}
	}
	for _, pp := range pkgPaths {
		sp := p.SSAPkg[pp]
		if sp == nil {
			continue
		}
		for _, m := range sp.Members {
			switch x := m.(type) {
			case *ssa.Function:
				add(x)
			case *ssa.Type:
				for _, t := range []types.Type{x.Type(), types.NewPointer(x.Type())} {
					ms := p.SSA.MethodSets.MethodSet(t)
					for i := 0; i < ms.Len(); i++ {
						if f := p.SSA.MethodValue(ms.At(i)); f != nil && f.Synthetic == "" {
							add(f)
						}
					}
				}
			}
		}
	}
	return out
}

// positiveAnswerLeaves: the boolean result of the call is used only as a branch condition whose true
// edge returns from the function.
func positiveAnswerLeaves(c *ssa.Call) bool {
	refs := c.Referrers()
	if refs == nil || len(*refs) == 0 {
		return false
	}
	for _, ref := range *refs {
		iff, ok := ref.(*ssa.If)
		if !ok {
			return false
		}
		t := iff.Block().Succs[0]
		for hops := 0; hops < 3; hops++ {
			if _, isRet := lastInstr(t).(*ssa.Return); isRet {
				break
			}
			if j, isJump := lastInstr(t).(*ssa.Jump); isJump && len(t.Succs) == 1 {
				_ = j
				t = t.Succs[0]
				continue
			}
			return false
		}
		if _, isRet := lastInstr(t).(*ssa.Return); !isRet {
			return false
		}
	}
	return true
}
