package main

// C17: schema codecs round-trip and preserve the resolved schema.
//
// Decided (necessary conditions visible in the code):
//   R17.1  JSON type codec: for each of the schema type kinds, decode(encode(t)) rebuilds the same kind with every field
//          taken from the same field (field-provenance evaluation, E10) — in particular an explicit entity reference and
//          an ambiguous entity-or-common reference stay distinct;
//   R17.2  text vocabulary: every keyword the schema printer writes is a keyword the schema parser tests for;
//   R17.3  the printer's "may be written bare" test for action and attribute names is built from the lexer's own
//          identifier predicates and reserved-word test, so a name printed bare lexes as one identifier token;
//   R17.5  every switch over the schema type sum (printer, JSON encoder, resolver, reference collector) is exhaustive.
//   R17.1n JSON namespace codec: decode(encode(namespace)) gives back every declaration map keyed as before, with
//          annotations, shapes, tags, enum values, action parents, applies-to lists and contexts from the same fields;
// Not decided: that both formats resolve to the same resolved schema; declaration-level text grammar (which printed
// forms the parser accepts beyond the vocabulary); byte-identical second rendering.

import (
	"go/constant"
	"go/token"
	"go/types"
	"sort"
	"strings"

	"golang.org/x/tools/go/ssa"
)

func init() {
	register(&propCheck{
		ID: "C17",
		Explanation: "Structural necessary conditions of the schema codecs' round trip: R17.1 per schema type kind, JSON decode(encode(t)) rebuilds the same kind with every field from the same field (field-provenance evaluation); " +
			"R17.2 every keyword the schema text printer writes is one the schema parser tests for; R17.3 the printer's bare-name test is built from the lexer's " +
			"identifier predicates and reserved-word test; R17.5 every switch over the schema type sum is exhaustive. Not decided: equality of resolved schemas across formats, the declaration-level text grammar, byte-identical re-rendering.",
		Assumptions: []string{"encoding/json moves the tagged schema structs to bytes and back unchanged (one struct type is used in both directions)", "map keys are distinct; children round-trip (structural induction)"},
		Run:         runC17,
	})
}

func runC17(p *Prog, r *Report) {
	c17TypeCodec(p, r)
	c17TextVocabulary(p, r)
	c17BareNames(p, r)
	c17Exhaustive(p, r)
	c17SiblingDecoders(p, r)
	c17ListOrSingle(p, r)
	c17ReservedComponent(p, r)
}

func c17TypeCodec(p *Prog, r *Report) {
	const rule = "R17.1-json-type-codec"
	isType := p.namedType(pSchemaAst, "IsType")
	pk := p.Pkgs[pSchemaJS]
	if isType == nil || pk == nil {
		r.Anchor(rule, "schema ast.IsType / schema internal json package")
		return
	}
	// by role: enc func(ast.IsType) (*J, error); dec func(*J) (ast.IsType, error)
	var enc, dec *types.Func
	var nsEnc, nsDec *types.Func
	nsT := p.namedType(pSchemaAst, "Namespace")
	scope := pk.Types.Scope()
	for _, name := range scope.Names() {
		fo, ok := scope.Lookup(name).(*types.Func)
		if !ok {
			continue
		}
		sig := fo.Type().(*types.Signature)
		if sig.Results().Len() != 2 || !isErrorType(sig.Results().At(1).Type()) {
			continue
		}
		if sig.Params().Len() == 1 && types.Identical(sig.Params().At(0).Type(), isType) {
			enc = fo
		}
		if sig.Params().Len() == 1 && types.Identical(sig.Results().At(0).Type(), isType) {
			dec = fo
		}
		if nsT != nil {
			if sig.Params().Len() >= 1 && types.Identical(sig.Params().At(sig.Params().Len()-1).Type(), nsT) {
				nsEnc = fo
			}
			if sig.Params().Len() == 1 && types.Identical(sig.Results().At(0).Type(), nsT) {
				nsDec = fo
			}
		}
	}
	if enc == nil || dec == nil {
		r.Anchor(rule, "schema JSON type encoder func(ast.IsType) (*T, error) and decoder func(*T) (ast.IsType, error)")
		return
	}
	sealed := p.sealedOf(isType)
	if sealed == nil {
		r.Anchor(rule, "schema ast.IsType implementers")
		return
	}
	mk := func(hyp map[string]types.Type) func() *sev {
		return func() *sev {
			s := newSev(p)
			s.fnPairs = map[*types.Func]*types.Func{dec: enc}
			for k, v := range hyp {
				s.hypType[k] = v
			}
			return s
		}
	}
	for _, K := range sealed.Impls {
		kname := namedOf(K).Obj().Name()
		outs := runForks(mk(map[string]types.Type{"t": K}), func(s *sev) (tv, any) {
			s.hookTop = true
			res := s.callFn(nil, &tFn{Obj: enc}, []tv{&tSym{Name: "t", T: isType}}, false, nil)
			t, ok := res.(*tTuple)
			if !ok || len(t.Vs) != 2 {
				s.abort("encoder result %s", res.ts())
			}
			if _, isNil := t.Vs[1].(tNil); !isNil {
				s.abort("the encoder returns an error for this kind")
			}
			s.hookTop = true
			out := s.callFn(nil, &tFn{Obj: dec}, []tv{t.Vs[0]}, false, nil)
			return out, t.Vs[0]
		})
		for _, o := range outs {
			cs := "schemajson." + kname
			if a := assumeString(o.Assume); a != "" {
				cs += "[" + a + "]"
			}
			if o.Abort != "" {
				r.Undec(rule, cs, p.pos(enc.Pos()), "the schema JSON type codec for "+kname+" is outside the converter idioms the extraction understands: "+o.Abort+noteSuffix(o.Notes))
				continue
			}
			t, ok := o.Result.(*tTuple)
			if !ok || len(t.Vs) != 2 {
				r.Undec(rule, cs, p.pos(dec.Pos()), "decoder result not understood")
				continue
			}
			if _, isNil := t.Vs[1].(tNil); !isNil {
				r.Viol(rule, cs, p.pos(dec.Pos()), "decoding what the encoder writes for a "+kname+" ends in an error return")
				continue
			}
			s := newSev(p)
			s.refine, s.assume = o.Refine, o.Assume
			diffs := s.identity(t.Vs[0], &tSym{Name: "t", T: K}, nil)
			written := ""
			if o.State != nil {
				written = clip(o.State.(tv).ts(), 160)
			}
			r.Check(len(diffs) == 0, rule, cs, p.pos(dec.Pos()), "decode(encode("+kname+")) = the same type [written: "+written+"]"+noteSuffix(o.Notes),
				"decode(encode("+kname+")) is not the original type: "+strings.Join(diffs, "; ")+" [written: "+written+"; decoded: "+clip(t.Vs[0].ts(), 200)+"]")
		}
	}
	r.Floor(rule, 8)

	c17Namespace(p, r, mk, nsEnc, nsDec, nsT)
	c17SchemaEnvelope(p, r, enc, dec, nsEnc, nsDec)
}

// c17SchemaEnvelope: decode(encode(schema)) keeps the bare declarations and every namespace under its name (type and
// namespace codecs summarised; they are decided by R17.1 / R17.1n).
func c17SchemaEnvelope(p *Prog, r *Report, tEncF, tDecF, nsEnc, nsDec *types.Func) {
	const rule = "R17.1s-json-schema-envelope"
	pk := p.Pkgs[pSchemaJS]
	astSchema := p.namedType(pSchemaAst, "Schema")
	if pk == nil || astSchema == nil || nsEnc == nil || nsDec == nil {
		r.Anchor(rule, "schema JSON envelope")
		return
	}
	var schT *types.Named
	for _, name := range pk.Types.Scope().Names() {
		if tn, ok := pk.Types.Scope().Lookup(name).(*types.TypeName); ok {
			if nt, ok := tn.Type().(*types.Named); ok && types.Identical(nt.Underlying(), astSchema.Underlying()) {
				schT = nt
			}
		}
	}
	if schT == nil {
		r.Anchor(rule, "the JSON wrapper type of ast.Schema")
		return
	}
	var enc, dec *types.Func
	ms := types.NewMethodSet(types.NewPointer(schT))
	for i := 0; i < ms.Len(); i++ {
		fo := ms.At(i).Obj().(*types.Func)
		switch fo.Name() {
		case "MarshalJSON":
			enc = fo
		case "UnmarshalJSON":
			dec = fo
		}
	}
	if enc == nil || dec == nil {
		r.Anchor(rule, "Schema.MarshalJSON / UnmarshalJSON in the schema JSON package")
		return
	}
	outs := runForks(func() *sev {
		s := newSev(p)
		s.fnPairs = map[*types.Func]*types.Func{tDecF: tEncF, nsDec: nsEnc}
		return s
	}, func(s *sev) (tv, any) {
		res := s.callFn(nil, &tFn{Obj: enc, Recv: &tSym{Name: "sch", T: types.NewPointer(schT)}}, nil, false, nil)
		t, ok := res.(*tTuple)
		if !ok || len(t.Vs) != 2 {
			s.abort("encoder result %s", res.ts())
		}
		if _, isNil := t.Vs[1].(tNil); !isNil {
			s.abort("the encoder returns an error")
		}
		dcell := &tcell{staleObject(schT)}
		derr := s.callFn(nil, &tFn{Obj: dec, Recv: &tPtr{dcell}, RecvCell: dcell}, []tv{t.Vs[0]}, false, nil)
		return &tTuple{[]tv{dcell.v, derr}}, nil
	})
	nOK := 0
	for _, o := range outs {
		cs := "schemajson.Schema"
		// a namespace cannot be named "" (that key holds the bare declarations): rows that assume so are outside the format
		outside := false
		for k, v := range o.Assume {
			if strings.HasPrefix(k, "eq:key:") && strings.HasSuffix(k, `==""`) && v == "true" {
				outside = true
			}
		}
		if outside {
			continue
		}
		if o.Abort != "" {
			r.Undec(rule, cs, p.pos(dec.Pos()), "the schema envelope codec is outside the converter idioms the extraction understands: "+clip(o.Abort, 240))
			continue
		}
		t := o.Result.(*tTuple)
		if _, isNil := t.Vs[1].(tNil); !isNil {
			r.Viol(rule, cs+"["+clip(assumeString(o.Assume), 120)+"]", p.pos(dec.Pos()), "decoding the encoder's own output ends in an error return")
			continue
		}
		s := newSev(p)
		s.refine, s.assume, s.looseNamed = o.Refine, o.Assume, true
		diffs := s.identity(t.Vs[0], &tSym{Name: "sch", T: schT}, nil)
		if strings.Contains(t.Vs[0].ts(), "stale.") {
			diffs = append(diffs, "the decoded schema still holds what the receiver held before decoding")
		}
		if len(diffs) == 0 {
			nOK++
			continue
		}
		r.Viol(rule, cs+"["+clip(assumeString(o.Assume), 120)+"]", p.pos(dec.Pos()), "decode(encode(schema)) differs from the original: "+strings.Join(diffs, "; ")+" [decoded: "+clip(t.Vs[0].ts(), 300)+"]")
	}
	if nOK > 0 {
		r.OK(rule, "schemajson.Schema", p.pos(dec.Pos()), "decode(encode(schema)) keeps the bare declarations and every namespace under its name on "+itoa(nOK)+" rows")
	} else {
		r.Undec(rule, "schemajson.Schema:rows", "-", "no successful row extracted")
	}
}

// c17Namespace: decode(encode(namespace)) gives back every declaration map keyed as before, with annotations, shapes,
// tags, enum values, action parents, applies-to lists and contexts taken from the same fields.
func c17Namespace(p *Prog, r *Report, mk func(map[string]types.Type) func() *sev, nsEnc, nsDec *types.Func, nsT *types.Named) {
	const ruleN = "R17.1n-json-namespace-codec"
	if nsEnc == nil || nsDec == nil || nsT == nil {
		r.Anchor(ruleN, "schema JSON namespace encoder/decoder")
		return
	}
	// one family of rows per declaration map (the others assumed empty): the maps are independent of each other
	nst := structOf(nsT)
	var declMaps []string
	for i := 0; i < nst.NumFields(); i++ {
		if _, isMap := nst.Field(i).Type().Underlying().(*types.Map); isMap {
			declMaps = append(declMaps, nst.Field(i).Name())
		}
	}
	var outs []sevOutcome
	for _, focus := range append([]string{""}, declMaps...) {
		preset := map[string]string{}
		for _, dm := range declMaps {
			if dm != focus {
				preset["empty:ns."+dm] = "empty"
			}
		}
		outs = append(outs, c17NamespaceRows(preset, mk, nsEnc, nsDec, nsT)...)
	}
	c17NamespaceJudge(p, r, ruleN, outs, nsDec, nsT)
}

func c17NamespaceRows(preset map[string]string, mk func(map[string]types.Type) func() *sev, nsEnc, nsDec *types.Func, nsT *types.Named) []sevOutcome {
	return runForksWith(preset, mk(nil), func(s *sev) (tv, any) {
		sig := nsEnc.Type().(*types.Signature)
		var args []tv
		for i := 0; i < sig.Params().Len()-1; i++ {
			args = append(args, &tSym{Name: "name" + itoa(i), T: sig.Params().At(i).Type()})
		}
		args = append(args, &tSym{Name: "ns", T: nsT})
		res := s.callFn(nil, &tFn{Obj: nsEnc}, args, false, nil)
		t, ok := res.(*tTuple)
		if !ok || len(t.Vs) != 2 {
			s.abort("encoder result %s", res.ts())
		}
		if _, isNil := t.Vs[1].(tNil); !isNil {
			s.abort("the encoder returns an error")
		}
		out := s.callFn(nil, &tFn{Obj: nsDec}, []tv{cloneTV(t.Vs[0])}, false, nil)
		return out, nil
	})
}

func c17NamespaceJudge(p *Prog, r *Report, ruleN string, outs []sevOutcome, nsDec *types.Func, nsT *types.Named) {
	nOK, nDomain := 0, 0
	und := map[string]bool{}
	vio := map[string]string{}
	for _, o := range outs {
		if o.Abort != "" {
			und[clip(o.Abort, 220)] = true
			continue
		}
		t, ok := o.Result.(*tTuple)
		if !ok || len(t.Vs) != 2 {
			und["decoder result not understood"] = true
			continue
		}
		// an enum declared without values is not expressible in either schema format (the grammar and the JSON format require at least one)
		emptyEnum := false
		for k, v := range o.Assume {
			if strings.HasPrefix(k, "empty:") && strings.Contains(k, "Enums") && strings.HasSuffix(k, ".Values") && v == "empty" {
				emptyEnum = true
			}
		}
		if emptyEnum {
			nDomain++
			continue
		}
		if _, isNil := t.Vs[1].(tNil); !isNil {
			vio["$"] = "decoding the encoder's own output ends in an error return [" + clip(assumeString(o.Assume), 200) + "]"
			continue
		}
		s := newSev(p)
		s.refine, s.assume = o.Refine, o.Assume
		diffs := s.identity(t.Vs[0], &tSym{Name: "ns", T: nsT}, func(path string) bool { return true })
		if len(diffs) == 0 {
			nOK++
			continue
		}
		for _, d := range diffs {
			field := d
			if i := strings.Index(d, ":"); i > 0 {
				field = d[:i]
			}
			if _, dup := vio[field]; !dup {
				vio[field] = d + " [row: " + clip(assumeString(o.Assume), 160) + "]"
			}
		}
	}
	var fields []string
	for f := range vio {
		fields = append(fields, f)
	}
	sort.Strings(fields)
	for _, f := range fields {
		r.Viol(ruleN, "schemajson.namespace:"+f, p.pos(nsDec.Pos()), "decode(encode(namespace)) differs from the original: "+vio[f])
	}
	var us []string
	for u := range und {
		us = append(us, u)
	}
	sort.Strings(us)
	for _, u := range us {
		r.Undec(ruleN, "schemajson.namespace", p.pos(nsDec.Pos()), "a row of the namespace codec is outside the converter idioms the extraction understands: "+u)
	}
	if len(fields) == 0 && len(us) == 0 {
		r.Check(nOK >= 8, ruleN, "schemajson.namespace", p.pos(nsDec.Pos()), "decode(encode(namespace)) = the same namespace on all "+itoa(nOK)+" extracted rows (presence/absence of annotations, shapes, tags, parents, applies-to, contexts); "+itoa(nDomain)+" rows with a value-less enum are outside both formats",
			"only "+itoa(nOK)+" rows of the namespace codec were extracted")
	}
}

// stringsWritten: string constants passed to Write*/Fprintf-style sinks in the functions.
func identLikeConstants(fns []*ssa.Function, onlyWrites bool) map[string]token.Pos {
	out := map[string]token.Pos{}
	isWord := func(s string) bool {
		if s == "" {
			return false
		}
		for _, ch := range s {
			if !(ch >= 'a' && ch <= 'z' || ch >= 'A' && ch <= 'Z' || ch == '_') {
				return false
			}
		}
		return true
	}
	for _, fn := range fns {
		for _, g := range withAnon(fn) {
			forEachInstr(g, func(in ssa.Instruction) {
				if onlyWrites {
					cl, ok := in.(ssa.CallInstruction)
					if !ok {
						return
					}
					f := cl.Common().StaticCallee()
					if f == nil || !(strings.HasPrefix(f.Name(), "Write") || strings.HasPrefix(f.Name(), "Fprint")) {
						return
					}
					for _, a := range cl.Common().Args {
						if s, ok := constString(a); ok {
							for _, w := range strings.FieldsFunc(s, func(r rune) bool { return !(r >= 'a' && r <= 'z' || r >= 'A' && r <= 'Z' || r == '_') }) {
								if isWord(w) && len(w) > 1 {
									out[w] = in.Pos()
								}
							}
						}
					}
					return
				}
				if bo, ok := in.(*ssa.BinOp); ok && (bo.Op == token.EQL || bo.Op == token.NEQ) {
					for _, o := range []ssa.Value{bo.X, bo.Y} {
						if s, ok := constString(o); ok && isWord(s) {
							out[s] = in.Pos()
						}
					}
				}
			})
		}
	}
	return out
}

func c17TextVocabulary(p *Prog, r *Report) {
	const rule = "R17.2-text-vocabulary"
	var printer, parser []*ssa.Function
	for _, fn := range p.Funcs {
		if fnPkgPath(fn) != pSchemaPar || fn.Parent() != nil || fn.Signature.Recv() == nil {
			continue
		}
		n := namedOf(fn.Signature.Recv().Type())
		if n == nil {
			continue
		}
		switch {
		case strings.Contains(strings.ToLower(n.Obj().Name()), "marshal"):
			printer = append(printer, fn)
		case strings.Contains(strings.ToLower(n.Obj().Name()), "parser"):
			parser = append(parser, fn)
		}
	}
	if len(printer) < 5 || len(parser) < 10 {
		r.Anchor(rule, "schema text printer methods ("+itoa(len(printer))+") / parser methods ("+itoa(len(parser))+")")
		return
	}
	written := identLikeConstants(printer, true)
	tested := identLikeConstants(parser, false)
	// built-in type names are ordinary paths to the parser; the resolver gives them their meaning
	var resolver []*ssa.Function
	for _, fn := range p.Funcs {
		if fnPkgPath(fn) == pResolved && fn.Parent() == nil {
			resolver = append(resolver, fn)
		}
	}
	for w, pos := range identLikeConstants(resolver, false) {
		if _, ok := tested[w]; !ok {
			tested[w] = pos
		}
	}
	// type names the parser resolves through a table rather than a comparison are read from switch/case too (EQL covers them)
	var ws []string
	for w := range written {
		ws = append(ws, w)
	}
	sort.Strings(ws)
	for _, w := range ws {
		_, ok := tested[w]
		r.Check(ok, rule, "schemaparser:keyword:"+w, p.pos(written[w]), "`"+w+"` is written by the printer and tested by the parser",
			"the schema printer writes the keyword `"+w+"`, which the schema parser never compares a token with: the printed text cannot be parsed back")
	}
	r.Floor(rule, 8)
}

func c17BareNames(p *Prog, r *Report) {
	const rule = "R17.3-bare-name-predicate"
	lexNext := p.fn(pSchemaPar, "lexer.next")
	if lexNext == nil {
		r.Anchor(rule, "schema lexer.next")
		return
	}
	// the lexer's predicates: func(rune) bool called (transitively, within the package) from next, and the func(string) bool it calls
	runePreds := map[*ssa.Function]bool{}
	var reserved *ssa.Function
	seen := map[*ssa.Function]bool{}
	var walk func(f *ssa.Function, d int)
	walk = func(f *ssa.Function, d int) {
		if seen[f] || d > 3 {
			return
		}
		seen[f] = true
		for _, cl := range callsIn(f) {
			g := cl.Common().StaticCallee()
			if g == nil {
				continue
			}
			sig := g.Signature
			if sig.Recv() == nil && sig.Params().Len() == 1 && sig.Results().Len() == 1 && sig.Results().At(0).Type().Underlying().String() == "bool" {
				switch {
				case basicKind(sig.Params().At(0).Type()) == types.Int32:
					runePreds[g] = true
				case basicKind(sig.Params().At(0).Type()) == types.String:
					reserved = g
				}
			}
			if fnPkgPath(g) == pSchemaPar {
				walk(g, d+1)
			}
		}
	}
	walk(lexNext, 0)
	if len(runePreds) == 0 || reserved == nil {
		r.Anchor(rule, "the lexer's identifier-rune predicates and reserved-word test")
		return
	}
	// the printer's bare-name tests: func(string) bool in the package called from marshaler methods
	n := 0
	for _, fn := range p.Funcs {
		if fnPkgPath(fn) != pSchemaPar || fn.Signature.Recv() == nil {
			continue
		}
		if rn := namedOf(fn.Signature.Recv().Type()); rn == nil || !strings.Contains(strings.ToLower(rn.Obj().Name()), "marshal") {
			continue
		}
		for _, cl := range callsIn(fn) {
			f := cl.Common().StaticCallee()
			if f == nil || fnPkgPath(f) != pSchemaPar || f.Signature.Recv() != nil || f.Signature.Params().Len() != 1 || f.Signature.Results().Len() != 1 {
				continue
			}
			if f.Signature.Params().At(0).Type().Underlying().String() != "string" || f.Signature.Results().At(0).Type().Underlying().String() != "bool" {
				continue
			}
			n++
			usesRune, usesReserved := 0, false
			foreign := ""
			for _, c2 := range callsIn(f) {
				g := c2.Common().StaticCallee()
				switch {
				case runePreds[g]:
					usesRune++
				case g == reserved:
					usesReserved = true
				case g != nil && g.Signature.Params().Len() == 1 && g.Signature.Results().Len() == 1 && g.Signature.Results().At(0).Type().Underlying().String() == "bool" &&
					(basicKind(g.Signature.Params().At(0).Type()) == types.String || basicKind(g.Signature.Params().At(0).Type()) == types.Int32):
					foreign = g.String()
				case g != nil && (fnPkgPath(g) == "slices" || fnPkgPath(g) == "unicode" || fnPkgPath(g) == "regexp"):
					foreign = g.String()
				}
			}
			construct := fnQual(f)
			r.Check(usesRune > 0 && usesReserved && foreign == "", rule, construct, p.pos(f.Pos()), "bare names are what the lexer reads as one non-reserved identifier (same predicate functions)",
				construct+" decides whether an action or attribute name is printed without quotes but is not built from the lexer's own identifier predicates and its reserved-word test "+fnQual(reserved)+
					" (lexer rune predicates used: "+itoa(usesRune)+", lexer reserved-word test used: "+yesNo(usesReserved)+", other tests: "+foreign+"): a name printed bare may lex as a keyword or not as one identifier")
		}
	}
	if n == 0 {
		r.Anchor(rule, "the printer's bare-name test (func(string) bool called from the marshaler)")
	}
}

func basicKind(t types.Type) types.BasicKind {
	if b, ok := types.Unalias(t).Underlying().(*types.Basic); ok {
		return b.Kind()
	}
	return types.Invalid
}

func c17Exhaustive(p *Prog, r *Report) {
	const rule = "R17.5-exhaustive"
	isType := p.namedType(pSchemaAst, "IsType")
	if isType == nil {
		r.Anchor(rule, "schema ast.IsType")
		return
	}
	n := 0
	for _, ti := range p.typeSwitches(pSchemaPar, pSchemaJS, pResolved, pSchema) {
		if ti.Sealed.Named.Obj() == isType.Obj() {
			n++
			p.requireExhaustive(r, rule, ti)
		}
	}
	if n < 3 {
		r.Undec(rule, "schema:type-switches", "-", "expected switches over the schema type sum in the printer, the JSON encoder and the resolver; found "+itoa(n))
	}
	_ = constant.MakeBool
}

// R17.6: the two decoders of a schema are siblings: what one resets, the other must reset. Each Unmarshal* method of
// schema.Schema must write the same set of receiver fields, and no method other than the decoders and the explicit
// setters writes a receiver field at all (a lazily filled cache of the resolved schema survives a reload through the
// sibling that forgot to clear it).
func c17SiblingDecoders(p *Prog, r *Report) {
	const rule = "R17.6-sibling-decoders"
	st := p.namedType(pSchema, "Schema")
	if st == nil {
		r.Anchor(rule, "schema.Schema")
		return
	}
	sst := structOf(st)
	writes := map[string]map[string]bool{}
	var names []string
	for _, fn := range p.Funcs {
		if fnPkgPath(fn) != pSchema || fn.Parent() != nil || fn.Signature.Recv() == nil || namedOf(fn.Signature.Recv().Type()) != st || fn.Synthetic != "" {
			continue
		}
		set := map[string]bool{}
		recv := fn.Params[0]
		forEachInstr(fn, func(in ssa.Instruction) {
			if stI, ok := in.(*ssa.Store); ok {
				if fa, ok := stI.Addr.(*ssa.FieldAddr); ok && fa.X == ssa.Value(recv) {
					set[sst.Field(fa.Field).Name()] = true
				}
				if stI.Addr == ssa.Value(recv) {
					set["*"] = true
				}
			}
		})
		writes[fn.Name()] = set
		names = append(names, fn.Name())
	}
	sort.Strings(names)
	var decoders []string
	for _, n := range names {
		if strings.HasPrefix(n, "Unmarshal") {
			decoders = append(decoders, n)
		}
	}
	if len(decoders) < 2 {
		r.Anchor(rule, "the Unmarshal* methods of schema.Schema (found "+itoa(len(decoders))+")")
		return
	}
	key := func(m map[string]bool) string {
		var ks []string
		for k := range m {
			ks = append(ks, k)
		}
		sort.Strings(ks)
		return strings.Join(ks, ",")
	}
	ref := key(writes[decoders[0]])
	for _, d := range decoders[1:] {
		r.Check(key(writes[d]) == ref, rule, "schema.Schema."+d+"~"+decoders[0], "-", "both decoders replace the same receiver fields {"+ref+"}",
			"Schema."+d+" writes the receiver fields {"+key(writes[d])+"} while Schema."+decoders[0]+" writes {"+ref+"}: state reset by one decoder survives a reload through the other (e.g. a cached resolution of the previous schema)")
	}
	for _, n := range names {
		if strings.HasPrefix(n, "Unmarshal") || strings.HasPrefix(n, "Set") {
			continue
		}
		r.Check(len(writes[n]) == 0, rule, "schema.Schema."+n+":read-only", "-", n+" does not write the receiver",
			"Schema."+n+" writes the receiver field(s) {"+key(writes[n])+"}: a value remembered by a read-only method must be invalidated by every decoder, and concurrent calls race on it")
	}
}

// R17.7: a production of the form `X | '[' X {',' X} ']'` parses its elements with one element parser. In every schema
// parser method that returns a slice and branches on the opening bracket, the value-producing parser methods called in
// the bracketed alternative are the ones called in the single alternative — otherwise a form the printer emits in only
// one of the two shapes (a quoted single action parent) is accepted in one shape and rejected in the other.
func c17ListOrSingle(p *Prog, r *Report) {
	const rule = "R17.7-list-or-single"
	n := 0
	for _, fn := range p.Funcs {
		if fnPkgPath(fn) != pSchemaPar || fn.Parent() != nil || fn.Signature.Recv() == nil || fn.Signature.Results().Len() != 2 {
			continue
		}
		if _, isSlice := fn.Signature.Results().At(0).Type().Underlying().(*types.Slice); !isSlice {
			continue
		}
		recvT := namedOf(fn.Signature.Recv().Type())
		if len(fn.Blocks) == 0 {
			continue
		}
		iff, ok := lastInstr(fn.Blocks[0]).(*ssa.If)
		if !ok {
			continue
		}
		loops := loopsOf(fn)
		if len(loops) == 0 {
			continue
		}
		bracket := fn.Blocks[0].Succs[0]
		hasLoopIn := false
		for _, l := range loops {
			if bracket.Dominates(l.Header) {
				hasLoopIn = true
			}
		}
		if !hasLoopIn {
			continue
		}
		_ = iff
		inA, inB := map[string]bool{}, map[string]bool{}
		for _, b := range fn.Blocks {
			for _, in := range b.Instrs {
				cl, ok := in.(ssa.CallInstruction)
				if !ok {
					continue
				}
				g := cl.Common().StaticCallee()
				if g == nil || g.Signature.Recv() == nil || namedOf(g.Signature.Recv().Type()) != recvT || g.Signature.Results().Len() < 2 {
					continue
				}
				if bracket.Dominates(b) {
					inA[g.Name()] = true
				} else if b != fn.Blocks[0] {
					inB[g.Name()] = true
				}
			}
		}
		if len(inA) == 0 {
			continue
		}
		n++
		key := func(m map[string]bool) string {
			var ks []string
			for k := range m {
				ks = append(ks, k)
			}
			sort.Strings(ks)
			return strings.Join(ks, ",")
		}
		r.Check(key(inA) == key(inB), rule, fnQual(fn), p.pos(fn.Pos()), "both alternatives parse their elements with {"+key(inA)+"}",
			fnShort(fn)+" parses the elements of the bracketed list with {"+key(inA)+"} but the single element with {"+key(inB)+"}: what is accepted inside brackets is not what is accepted without them, and the printer chooses between the two shapes by the number of elements")
	}
	if n < 2 {
		r.Undec(rule, "schemaparser:list-or-single", "-", "expected at least two list-or-single productions, found "+itoa(n))
	}
}

// R17.8 — a reserved name is matched as a whole path component. The schema grammar reserves the
// *component* `__cedar`; `my__cedar_v1` is an ordinary identifier that the printer, the JSON codec
// and the resolver all handle. A parser that rejects input because a name *contains* (or starts or
// ends with) a reserved word rejects its own printer's output for such names. Any rejection in the
// schema and policy text parsers that is decided by a substring / prefix / suffix test against a
// bare identifier constant is reported; tests against a delimited constant (`__cedar::`) and
// comparisons of whole components are what the grammar means.
func c17ReservedComponent(p *Prog, r *Report) {
	const rule = "R17.8-reserved-name-is-a-component"
	pkgs := map[string]bool{pSchemaPar: true, pParser: true, pResolved: true}
	identLike := func(s string) bool {
		if s == "" {
			return false
		}
		for i, ch := range s {
			if !(ch == '_' || (ch >= 'a' && ch <= 'z') || (ch >= 'A' && ch <= 'Z') || (i > 0 && ch >= '0' && ch <= '9')) {
				return false
			}
		}
		return len(s) >= 3
	}
	n, whole := 0, 0
	var fns []*ssa.Function
	for _, fn := range p.Funcs {
		if pkgs[fnPkgPath(fn)] && len(fn.Blocks) > 0 {
			fns = append(fns, fn)
		}
	}
	sort.Slice(fns, func(i, j int) bool { return fns[i].String() < fns[j].String() })
	for _, fn := range fns {
		for _, cl := range callsIn(fn) {
			c, ok := cl.(*ssa.Call)
			if !ok {
				continue
			}
			cal := c.Call.StaticCallee()
			if cal == nil {
				continue
			}
			name := fnPkgPath(cal) + "." + cal.Name()
			switch name {
			case "strings.Contains", "strings.HasPrefix", "strings.HasSuffix", "strings.Index", "strings.LastIndex", "strings.Count":
				if len(c.Call.Args) != 2 {
					continue
				}
				k, ok := constString(c.Call.Args[1])
				if !ok || !identLike(k) {
					continue
				}
				// does the answer decide a rejection?
				rejects := false
				for _, b := range fn.Blocks {
					ret, ok := lastInstr(b).(*ssa.Return)
					if !ok || len(ret.Results) == 0 {
						continue
					}
					ev := ret.Results[len(ret.Results)-1]
					if !isErrorType(ev.Type()) || !freshError(ev, 0) {
						continue
					}
					for _, g := range guardsAt(b) {
						if dependsOnValue(g.Cond, c) {
							rejects = true
						}
					}
				}
				if !rejects {
					continue
				}
				n++
				r.Viol(rule, fnQual(fn)+":"+k, p.pos(c.Pos()), fnShort(fn)+" rejects input after a strings."+strings.TrimPrefix(name, "strings.")+" test against the reserved word `"+k+"`, i.e. on a substring match: only the whole path component is reserved, so identifiers such as `my"+k+"_v1` — which the printer and the JSON codec emit unchanged — no longer parse back")
			default:
				if fnPkgPath(cal) == "slices" && strings.HasPrefix(cal.Name(), "Contains") && len(c.Call.Args) == 2 {
					if k, ok := constString(c.Call.Args[1]); ok && identLike(k) {
						n++
						whole++
						r.OK(rule, fnQual(fn)+":"+k, p.pos(c.Pos()), "the reserved word `"+k+"` is looked for among whole path components")
					}
				}
			}
		}
	}
	if n == 0 {
		r.OK(rule, "text-parsers:no-substring-rejection", "-", "no rejection in the text parsers is decided by a substring test against a bare reserved word")
	}
	_ = whole
}
