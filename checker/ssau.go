package main

// SSA helpers shared by the rules: guards known at a block, post-dominance, control dependence,
// def-use walks, callee resolution.

import (
	"go/constant"
	"go/token"
	"go/types"
	"strings"

	"golang.org/x/tools/go/ssa"
)

// Guard is a branch condition known to hold on entry to a block: the If instruction's condition
// had truth value Pol.
type Guard struct {
	Cond ssa.Value
	Pol  bool
	If   *ssa.If
}

// guardsAt returns the branch conditions that hold whenever control reaches b: for every
// dominator d of b (b included) that has a single predecessor ending in an If, the polarity of the
// edge taken. This is a sound under-approximation of the facts available at b.
func guardsAt(b *ssa.BasicBlock) []Guard {
	var gs []Guard
	for d := b; d != nil; d = d.Idom() {
		if len(d.Preds) == 1 {
			p := d.Preds[0]
			if iff, ok := p.Instrs[len(p.Instrs)-1].(*ssa.If); ok && p.Succs[0] != p.Succs[1] {
				gs = append(gs, expandGuard(Guard{Cond: iff.Cond, Pol: p.Succs[0] == d, If: iff}, 0)...)
			}
		}
	}
	return gs
}

// expandGuard: go/ssa materialises `a && b` / `a || b` used as a value (e.g. a tagless switch
// case) as a phi of constants and the last operand. (a && b) == true gives a and b; (a || b) ==
// false gives !a and !b.
func expandGuard(g Guard, depth int) []Guard {
	out := []Guard{g}
	fg := flattenGuard(g)
	ph, ok := fg.Cond.(*ssa.Phi)
	if !ok || depth > 4 {
		return out
	}
	isAnd := ph.Comment == "&&" && fg.Pol
	isOr := ph.Comment == "||" && !fg.Pol
	if !isAnd && !isOr {
		return out
	}
	for i, e := range ph.Edges {
		pred := ph.Block().Preds[i]
		if cb, isC := constBool(e); isC {
			// short-circuit edge: taken when an earlier operand already decided the result
			if (isAnd && cb) || (isOr && !cb) {
				continue
			}
			if iff, ok := lastInstr(pred).(*ssa.If); ok && pred.Succs[0] != pred.Succs[1] {
				// the operand's value on the edge that does NOT go to the phi block
				pol := pred.Succs[0] != ph.Block()
				out = append(out, expandGuard(Guard{Cond: iff.Cond, Pol: pol, If: g.If}, depth+1)...)
			}
			continue
		}
		out = append(out, expandGuard(Guard{Cond: e, Pol: isAnd, If: g.If}, depth+1)...)
	}
	return out
}

// flattenCond expands a guard into atomic facts: !x -> x with flipped polarity. (&& and || are
// already lowered to control flow by go/ssa.)
func flattenGuard(g Guard) Guard {
	for {
		u, ok := g.Cond.(*ssa.UnOp)
		if ok && u.Op == token.NOT {
			g = Guard{Cond: u.X, Pol: !g.Pol, If: g.If}
			continue
		}
		return g
	}
}

func lastInstr(b *ssa.BasicBlock) ssa.Instruction { return b.Instrs[len(b.Instrs)-1] }

// postdom computes, for a function, the immediate post-dominator relation over a virtual exit
// that joins every Return (and optionally Panic) block.
type postDom struct {
	fn    *ssa.Function
	n     int
	ipdom []int // index = block index; n = virtual exit; -1 = none (cannot reach exit)
}

func newPostDom(fn *ssa.Function, panicsAreExits bool) *postDom {
	n := len(fn.Blocks)
	pd := &postDom{fn: fn, n: n, ipdom: make([]int, n+1)}
	// reverse graph: preds of exit-side
	succ := make([][]int, n+1) // forward succs incl. virtual exit
	for _, b := range fn.Blocks {
		for _, s := range b.Succs {
			succ[b.Index] = append(succ[b.Index], s.Index)
		}
		switch lastInstr(b).(type) {
		case *ssa.Return:
			succ[b.Index] = append(succ[b.Index], n)
		case *ssa.Panic:
			if panicsAreExits {
				succ[b.Index] = append(succ[b.Index], n)
			}
		}
	}
	// reverse post-order on the reversed graph starting from exit
	rpred := make([][]int, n+1) // reversed edges: rpred[x] = nodes y with edge x<-y in reversed graph = succ in forward
	rsucc := make([][]int, n+1)
	for x := 0; x <= n; x++ {
		for _, y := range succ[x] {
			rsucc[y] = append(rsucc[y], x) // reversed edge y->x
			rpred[x] = append(rpred[x], y)
		}
	}
	order := []int{}
	seen := make([]bool, n+1)
	var dfs func(int)
	dfs = func(x int) {
		seen[x] = true
		for _, y := range rsucc[x] {
			if !seen[y] {
				dfs(y)
			}
		}
		order = append(order, x)
	}
	dfs(n)
	rpo := make([]int, n+1)
	for i := range rpo {
		rpo[i] = -1
	}
	for i, j := 0, len(order)-1; j >= 0; i, j = i+1, j-1 {
		rpo[order[j]] = i
	}
	for i := range pd.ipdom {
		pd.ipdom[i] = -1
	}
	pd.ipdom[n] = n
	intersect := func(a, b int) int {
		for a != b {
			for rpo[a] > rpo[b] {
				a = pd.ipdom[a]
			}
			for rpo[b] > rpo[a] {
				b = pd.ipdom[b]
			}
		}
		return a
	}
	changed := true
	for changed {
		changed = false
		for j := len(order) - 2; j >= 0; j-- {
			x := order[j]
			newI := -1
			for _, y := range rpred[x] { // forward successors of x
				if rpo[y] < 0 || pd.ipdom[y] == -1 {
					continue
				}
				if newI == -1 {
					newI = y
				} else {
					newI = intersect(newI, y)
				}
			}
			if newI != -1 && pd.ipdom[x] != newI {
				pd.ipdom[x] = newI
				changed = true
			}
		}
	}
	return pd
}

// postDominates reports whether a post-dominates b (a == b counts).
func (pd *postDom) postDominates(a, b *ssa.BasicBlock) bool {
	x := b.Index
	for {
		if x == a.Index {
			return true
		}
		nx := pd.ipdom[x]
		if nx == -1 || nx == x || nx == pd.n {
			return false
		}
		x = nx
	}
}

// ctrlDeps returns the If edges the block is (transitively) control dependent on.
func (pd *postDom) ctrlDeps(b *ssa.BasicBlock) []Guard {
	var out []Guard
	seen := map[*ssa.BasicBlock]bool{}
	var rec func(x *ssa.BasicBlock)
	rec = func(x *ssa.BasicBlock) {
		if seen[x] {
			return
		}
		seen[x] = true
		for _, a := range pd.fn.Blocks {
			iff, ok := lastInstr(a).(*ssa.If)
			if !ok {
				continue
			}
			for i, s := range a.Succs {
				if pd.postDominates(x, s) && !(x != a && pd.postDominates(x, a)) {
					out = append(out, Guard{Cond: iff.Cond, Pol: i == 0, If: iff})
					rec(a)
				}
			}
		}
	}
	rec(b)
	return out
}

// reachable reports whether block `to` is reachable from block `from` (from == to counts).
func reachable(from, to *ssa.BasicBlock) bool {
	seen := map[*ssa.BasicBlock]bool{}
	var st []*ssa.BasicBlock
	st = append(st, from)
	for len(st) > 0 {
		b := st[len(st)-1]
		st = st[:len(st)-1]
		if b == to {
			return true
		}
		if seen[b] {
			continue
		}
		seen[b] = true
		st = append(st, b.Succs...)
	}
	return false
}

// reachableAvoiding: is `to` reachable from `from` without passing through any block in avoid
// (from itself may be in avoid only if from==to is not the question).
func reachableAvoiding(from, to *ssa.BasicBlock, avoid map[*ssa.BasicBlock]bool) bool {
	seen := map[*ssa.BasicBlock]bool{}
	st := []*ssa.BasicBlock{from}
	for len(st) > 0 {
		b := st[len(st)-1]
		st = st[:len(st)-1]
		if seen[b] || avoid[b] {
			continue
		}
		if b == to {
			return true
		}
		seen[b] = true
		st = append(st, b.Succs...)
	}
	return false
}

// instrIndex returns the index of an instruction within its block.
func instrIndex(in ssa.Instruction) int {
	for i, x := range in.Block().Instrs {
		if x == in {
			return i
		}
	}
	return -1
}

// instrDominates: a executes before b on every path reaching b.
func instrDominates(a, b ssa.Instruction) bool {
	if a.Block() == b.Block() {
		return instrIndex(a) < instrIndex(b)
	}
	return a.Block().Dominates(b.Block())
}

// staticCallee resolves a call's callee when static (function, method, or closure literal).
func staticCallee(c ssa.CallInstruction) *ssa.Function {
	return c.Common().StaticCallee()
}

// calleeName gives a printable name for the callee of a call (static or interface method).
func calleeName(c ssa.CallInstruction) string {
	cc := c.Common()
	if f := cc.StaticCallee(); f != nil {
		return f.String()
	}
	if cc.IsInvoke() {
		return "(" + cc.Value.Type().String() + ")." + cc.Method.Name()
	}
	return "dynamic:" + cc.Value.Name()
}

// isCallTo reports whether the call statically targets pkgPath.name (name may be "T.m").
func isCallTo(c ssa.CallInstruction, pkgPath, name string) bool {
	f := c.Common().StaticCallee()
	if f == nil {
		return false
	}
	return fnIs(f, pkgPath, name)
}

func fnIs(f *ssa.Function, pkgPath, name string) bool {
	if f == nil {
		return false
	}
	if o := f.Origin(); o != nil {
		f = o
	}
	if fnPkgPath(f) != pkgPath {
		return false
	}
	return fnShort(f) == name
}

// fnShort gives "Name" for functions and "T.Name" for methods (pointer-ness dropped), closures as
// "Outer$1".
func fnShort(f *ssa.Function) string {
	if f == nil {
		return "<nil>"
	}
	if o := f.Origin(); o != nil {
		f = o
	}
	if f.Parent() != nil {
		return fnShort(f.Parent()) + strings.TrimPrefix(f.Name(), f.Parent().Name())
	}
	if f.Signature != nil && f.Signature.Recv() != nil {
		t := f.Signature.Recv().Type()
		if pt, ok := t.(*types.Pointer); ok {
			t = pt.Elem()
		}
		t = types.Unalias(t)
		if n, ok := t.(*types.Named); ok {
			return n.Obj().Name() + "." + f.Name()
		}
	}
	return f.Name()
}

// fnQual gives "pkgLastElem.Short".
func fnQual(f *ssa.Function) string {
	pp := fnPkgPath(f)
	if i := strings.LastIndex(pp, "/"); i >= 0 {
		pp = pp[i+1:]
	}
	return pp + "." + fnShort(f)
}

// constInt returns the integer value of a constant SSA value.
func constInt(v ssa.Value) (int64, bool) {
	c, ok := v.(*ssa.Const)
	if !ok || c.Value == nil {
		return 0, false
	}
	if c.Value.Kind() != constant.Int {
		return 0, false
	}
	i, ok := constant.Int64Val(c.Value)
	return i, ok
}

func constString(v ssa.Value) (string, bool) {
	c, ok := v.(*ssa.Const)
	if !ok || c.Value == nil || c.Value.Kind() != constant.String {
		return "", false
	}
	return constant.StringVal(c.Value), true
}

func constBool(v ssa.Value) (bool, bool) {
	c, ok := v.(*ssa.Const)
	if !ok || c.Value == nil || c.Value.Kind() != constant.Bool {
		return false, false
	}
	return constant.BoolVal(c.Value), true
}

func isNilConst(v ssa.Value) bool {
	c, ok := v.(*ssa.Const)
	return ok && c.Value == nil
}

// stripConv removes value-preserving wrappers: ChangeType, Convert between same-underlying
// named types, MakeInterface, ChangeInterface.
func stripConv(v ssa.Value) ssa.Value {
	for {
		switch x := v.(type) {
		case *ssa.ChangeType:
			v = x.X
		case *ssa.MakeInterface:
			v = x.X
		case *ssa.ChangeInterface:
			v = x.X
		case *ssa.Convert:
			if types.Identical(x.X.Type().Underlying(), x.Type().Underlying()) {
				v = x.X
			} else {
				return v
			}
		default:
			return v
		}
	}
}

// forEachInstr visits every instruction of a function.
func forEachInstr(fn *ssa.Function, f func(ssa.Instruction)) {
	for _, b := range fn.Blocks {
		for _, in := range b.Instrs {
			f(in)
		}
	}
}

// callsIn lists the call instructions of a function (Call, Go, Defer).
func callsIn(fn *ssa.Function) []ssa.CallInstruction {
	var out []ssa.CallInstruction
	forEachInstr(fn, func(in ssa.Instruction) {
		if c, ok := in.(ssa.CallInstruction); ok {
			out = append(out, c)
		}
	})
	return out
}

// withAnon returns fn and all functions nested in it.
func withAnon(fn *ssa.Function) []*ssa.Function {
	out := []*ssa.Function{fn}
	for _, a := range fn.AnonFuncs {
		out = append(out, withAnon(a)...)
	}
	return out
}

// extractOf returns, for a tuple-valued call, the Extract of index i (or nil).
func extractOf(call ssa.Value, i int) *ssa.Extract {
	refs := call.Referrers()
	if refs == nil {
		return nil
	}
	for _, r := range *refs {
		if e, ok := r.(*ssa.Extract); ok && e.Index == i && e.Tuple == call {
			return e
		}
	}
	return nil
}

// isErrorType reports whether t is the predeclared error interface.
func isErrorType(t types.Type) bool {
	return types.Identical(t, types.Universe.Lookup("error").Type())
}

// valueFlowsTo reports whether v (through phis, conversions, extracts) can reach `target` value.
func usesTransitively(v ssa.Value, visit func(ssa.Instruction) bool) {
	seen := map[ssa.Value]bool{}
	var rec func(ssa.Value)
	rec = func(x ssa.Value) {
		if seen[x] {
			return
		}
		seen[x] = true
		refs := x.Referrers()
		if refs == nil {
			return
		}
		for _, r := range *refs {
			if !visit(r) {
				continue
			}
			switch y := r.(type) {
			case *ssa.Phi:
				rec(y)
			case *ssa.ChangeType:
				rec(y)
			case *ssa.Convert:
				rec(y)
			case *ssa.MakeInterface:
				rec(y)
			case *ssa.ChangeInterface:
				rec(y)
			case *ssa.Extract:
				rec(y)
			case *ssa.TypeAssert:
				rec(y)
			case *ssa.UnOp:
				rec(y)
			}
		}
	}
	rec(v)
}

// namedOf returns the named type behind t, looking through pointers and aliases.
func namedOf(t types.Type) *types.Named {
	t = types.Unalias(t)
	if p, ok := t.(*types.Pointer); ok {
		t = types.Unalias(p.Elem())
	}
	n, _ := t.(*types.Named)
	return n
}

func typeIs(t types.Type, pkgPath, name string) bool {
	n := namedOf(t)
	if n == nil || n.Obj().Pkg() == nil {
		return false
	}
	if o := n.Origin(); o != nil {
		n = o
	}
	return n.Obj().Pkg().Path() == pkgPath && n.Obj().Name() == name
}

// typeShort renders a type with package-name qualifiers.
func typeShort(t types.Type) string {
	return types.TypeString(t, func(p *types.Package) string { return p.Name() })
}

// retVal resolves result i of a Return: when the function's results are spilled to cells (named
// results, or a function containing a range-over-func body or defer) go/ssa returns a load of the
// cell; the value meant is the last store to that cell earlier in the same block.
func retVal(ret *ssa.Return, i int) ssa.Value {
	v := ret.Results[i]
	ld, ok := v.(*ssa.UnOp)
	if !ok || ld.Op != token.MUL {
		return v
	}
	a, ok := ld.X.(*ssa.Alloc)
	if !ok {
		return v
	}
	b := ret.Block()
	idx := -1
	for j, in := range b.Instrs {
		if in == ssa.Instruction(ld) {
			idx = j
		}
	}
	for j := idx - 1; j >= 0; j-- {
		if st, ok := b.Instrs[j].(*ssa.Store); ok && st.Addr == a {
			return st.Val
		}
	}
	return v
}

func retLast(ret *ssa.Return) ssa.Value { return retVal(ret, len(ret.Results)-1) }

// fnBase: the function's declared name without type arguments.
func fnBase(f *ssa.Function) string {
	if f == nil {
		return ""
	}
	if o := f.Origin(); o != nil {
		return o.Name()
	}
	return f.Name()
}
