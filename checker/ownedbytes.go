package main

// Emitted bytes belong to the caller (shared by C08, C12, C13). A Marshal* method whose result is
// the backing array of a buffer that outlives the call — one taken from a sync.Pool, a package
// variable, a member of the receiver — hands out bytes that the next rendering overwrites: the
// first text, read back later, is another value's text (or no text at all). The result of every
// byte-returning emitter must be traced to storage made by this call.

import (
	"go/token"
	"go/types"
	"sort"
	"strings"

	"golang.org/x/tools/go/ssa"
)

func ownedBytesRule(p *Prog, r *Report, rule string, floor int, pkgPaths ...string) {
	pkgs := map[string]bool{}
	for _, pp := range pkgPaths {
		pkgs[pp] = true
	}
	var fns []*ssa.Function
	for _, fn := range p.Funcs {
		if !pkgs[fnPkgPath(fn)] || len(fn.Blocks) == 0 || fn.Parent() != nil || fn.Synthetic != "" {
			continue
		}
		if !strings.HasPrefix(fn.Name(), "Marshal") && !strings.HasPrefix(fn.Name(), "marshal") {
			continue
		}
		res := fn.Signature.Results()
		if res.Len() == 0 {
			continue
		}
		if sl, ok := res.At(0).Type().Underlying().(*types.Slice); !ok || basicKind(sl.Elem()) != types.Uint8 {
			continue
		}
		fns = append(fns, fn)
	}
	sort.Slice(fns, func(i, j int) bool { return fns[i].String() < fns[j].String() })
	for _, fn := range fns {
		bad := ""
		seen := map[ssa.Value]bool{}
		var origin func(v ssa.Value, depth int)
		origin = func(v ssa.Value, depth int) {
			if v == nil || seen[v] || depth > 12 {
				return
			}
			seen[v] = true
			switch x := v.(type) {
			case *ssa.Phi:
				for _, e := range x.Edges {
					origin(e, depth+1)
				}
			case *ssa.Slice:
				origin(x.X, depth+1)
			case *ssa.ChangeType:
				origin(x.X, depth+1)
			case *ssa.Extract:
				origin(x.Tuple, depth+1)
			case *ssa.TypeAssert:
				origin(x.X, depth+1)
			case *ssa.Global:
				bad = "package variable " + x.Name()
			case *ssa.Parameter:
				if _, isPtr := x.Type().Underlying().(*types.Pointer); isPtr {
					// storage reached through the receiver / an argument
					bad = "storage reached through " + x.Name()
				}
			case *ssa.FieldAddr:
				origin(x.X, depth+1)
			case *ssa.IndexAddr:
				origin(x.X, depth+1)
			case *ssa.UnOp:
				if x.Op == token.MUL {
					// a loaded pointer: where was it stored from? (locals only)
					if al, ok := x.X.(*ssa.Alloc); ok {
						for _, ref := range *al.Referrers() {
							if st, ok := ref.(*ssa.Store); ok && st.Addr == al {
								origin(st.Val, depth+1)
							}
						}
						return
					}
					origin(x.X, depth+1)
				}
			case *ssa.Call:
				cal := x.Call.StaticCallee()
				if cal == nil {
					return
				}
				name := cal.Name()
				recvT := ""
				if cal.Signature.Recv() != nil {
					if n := namedOf(cal.Signature.Recv().Type()); n != nil && n.Obj().Pkg() != nil {
						recvT = n.Obj().Pkg().Path() + "." + n.Obj().Name()
					}
				}
				switch {
				case recvT == "sync.Pool" && name == "Get":
					bad = "a sync.Pool (" + p.pos(x.Pos()) + ")"
				case recvT == "bytes.Buffer" && (name == "Bytes" || name == "AvailableBuffer" || name == "Next"):
					// the buffer's own array: whose buffer is it?
					if len(x.Call.Args) > 0 {
						origin(x.Call.Args[0], depth+1)
					}
				}
			}
		}
		for _, b := range fn.Blocks {
			if ret, ok := lastInstr(b).(*ssa.Return); ok && len(ret.Results) > 0 {
				origin(ret.Results[0], 0)
			}
		}
		q := fnQual(fn)
		r.Check(bad == "", rule, q, p.pos(fn.Pos()), "the returned bytes are storage of this call",
			fnShort(fn)+" returns bytes that live in "+bad+": the storage outlasts the call, so the next rendering overwrites what this caller still holds — a text read back later is another value's text")
	}
	r.Floor(rule, floor)
}
