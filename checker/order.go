package main

// E6: iteration-order analysis. Finds every loop whose iteration order is not determined by its
// input (range over a map, over an iterator derived from one, or over a slice collected from one
// and not yet sorted) and classifies what the loop body does with that order.

import (
	"fmt"
	"go/token"
	"go/types"
	"sort"
	"strings"

	"golang.org/x/tools/go/ssa"
)

type ordLoop struct {
	fn     *ssa.Function // function containing the loop (for yield closures: the closure)
	outer  *ssa.Function // declared function (top)
	blocks map[*ssa.BasicBlock]bool
	header *ssa.BasicBlock // nil for yield closures
	yield  bool
	src    string // description of the unordered source
	pos    token.Pos
	key    ssa.Value // loop key / element values
	val    ssa.Value
	srcVal ssa.Value // the map / iterator / slice ranged over
}

type ordEffect struct {
	Kind   string // see classify
	Detail string
	Pos    token.Pos
	Sens   int // 0 order-free, 1 uniform-constant (order-free even with early exit), 2 order-sensitive, 3 unknown
}

type orderAnalysis struct {
	p             *Prog
	unorderedIter map[*ssa.Function]bool
	retUnordered  map[*ssa.Function]bool
	loops         []*ordLoop
	sortFns       map[string]bool
}

var sortFnNames = map[string]bool{
	"slices.Sort": true, "slices.SortFunc": true, "slices.SortStableFunc": true,
	"sort.Strings": true, "sort.Slice": true, "sort.SliceStable": true, "sort.Sort": true, "sort.Ints": true,
}

// stdlib functions whose result is an unordered sequence when their argument is a map / unordered
var stdUnorderedFromMap = map[string]bool{"maps.Keys": true, "maps.Values": true, "maps.All": true}
var stdPropagates = map[string]bool{"slices.Collect": true, "slices.Values": true, "slices.All": true, "slices.Clone": true}
var stdOrders = map[string]bool{"slices.Sorted": true, "slices.SortedFunc": true, "slices.SortedStableFunc": true}

func (p *Prog) order() *orderAnalysis {
	if p.ord != nil {
		return p.ord
	}
	oa := &orderAnalysis{p: p, unorderedIter: map[*ssa.Function]bool{}, retUnordered: map[*ssa.Function]bool{}}
	// fixed point over iterator / return summaries
	for round := 0; round < 10; round++ {
		changed := false
		oa.loops = nil
		for _, fn := range p.Funcs {
			if testSupportPkgs[fnPkgPath(fn)] {
				continue
			}
			ls := oa.loopsIn(fn)
			oa.loops = append(oa.loops, ls...)
			// is fn an unordered iterator: calls one of its func-typed parameters (or a captured one) inside an unordered loop
			for _, l := range ls {
				for b := range l.blocks {
					for _, in := range b.Instrs {
						c, ok := in.(ssa.CallInstruction)
						if !ok {
							continue
						}
						cv := c.Common().Value
						if c.Common().IsInvoke() {
							continue
						}
						target := oa.funcParamOwner(cv)
						if target != nil && !oa.unorderedIter[target] {
							oa.unorderedIter[target] = true
							changed = true
						}
					}
				}
			}
			// returns unordered?
			if fn.Parent() == nil || true {
				for _, b := range fn.Blocks {
					if ret, ok := lastInstr(b).(*ssa.Return); ok && len(ret.Results) > 0 {
						if oa.isUnordered(ret.Results[0], ret) && !oa.retUnordered[fn] {
							oa.retUnordered[fn] = true
							changed = true
						}
					}
				}
			}
		}
		if !changed {
			break
		}
	}
	sort.Slice(oa.loops, func(i, j int) bool { return oa.loops[i].pos < oa.loops[j].pos })
	p.ord = oa
	return oa
}

// funcParamOwner: if v is a func-typed parameter of a function (or a free variable bound to one),
// return the function whose parameter it is.
func (oa *orderAnalysis) funcParamOwner(v ssa.Value) *ssa.Function {
	switch x := v.(type) {
	case *ssa.Parameter:
		if _, ok := x.Type().Underlying().(*types.Signature); ok {
			return x.Parent()
		}
	case *ssa.FreeVar:
		// find binding
		fn := x.Parent()
		mc := makeClosureOf(fn)
		if mc == nil {
			return nil
		}
		for i, fv := range fn.FreeVars {
			if fv == x && i < len(mc.Bindings) {
				return oa.funcParamOwner(mc.Bindings[i])
			}
		}
	case *ssa.UnOp:
		if x.Op == token.MUL {
			return oa.funcParamOwner(x.X)
		}
	case *ssa.Alloc:
		// a parameter spilled to a heap cell: the single store's value
		for _, r := range *x.Referrers() {
			if st, ok := r.(*ssa.Store); ok && st.Addr == x {
				return oa.funcParamOwner(st.Val)
			}
		}
	}
	return nil
}

// isUnordered: does value v (a map, iterator or slice) enumerate its elements in an order not
// determined by the program's input, at instruction `at`?
func (oa *orderAnalysis) isUnordered(v ssa.Value, at ssa.Instruction) bool {
	return oa.unorderedRec(v, at, map[ssa.Value]bool{})
}

func (oa *orderAnalysis) unorderedRec(v ssa.Value, at ssa.Instruction, seen map[ssa.Value]bool) bool {
	if seen[v] {
		return false
	}
	seen[v] = true
	if _, isMap := v.Type().Underlying().(*types.Map); isMap {
		return true
	}
	_, isSlice := v.Type().Underlying().(*types.Slice)
	if isSlice && at != nil && oa.sortedBefore(v, at) {
		return false
	}
	switch x := v.(type) {
	case *ssa.Call:
		cc := &x.Call
		if f := cc.StaticCallee(); f != nil {
			n := stdName(f)
			if stdOrders[n] {
				return false
			}
			if stdUnorderedFromMap[n] {
				return true
			}
			if stdPropagates[n] {
				return oa.unorderedRec(cc.Args[0], x, seen)
			}
			if isBuiltin(cc, "append") {
				return oa.unorderedRec(cc.Args[0], x, seen)
			}
			return oa.retUnordered[f]
		}
		if isBuiltin(cc, "append") {
			if oa.unorderedRec(cc.Args[0], x, seen) {
				return true
			}
			// appended inside an unordered loop?
			for _, l := range oa.loops {
				if l.fn == x.Parent() && l.blocks[x.Block()] {
					return true
				}
			}
			return false
		}
		// dynamic / interface call: any callee returning unordered
		if n := oa.p.CG().Nodes[x.Parent()]; n != nil {
			for _, e := range n.Out {
				if e.Site == x && e.Callee != nil && oa.retUnordered[e.Callee.Func] {
					return true
				}
			}
		}
		return false
	case *ssa.MakeClosure:
		return oa.unorderedIter[x.Fn.(*ssa.Function)]
	case *ssa.Phi:
		for _, e := range x.Edges {
			if oa.unorderedRec(e, at, seen) {
				return true
			}
		}
	case *ssa.ChangeType:
		return oa.unorderedRec(x.X, at, seen)
	case *ssa.Convert:
		return oa.unorderedRec(x.X, at, seen)
	case *ssa.Slice:
		return oa.unorderedRec(x.X, at, seen)
	case *ssa.UnOp:
		if x.Op == token.MUL {
			// load of a local variable: any store of an unordered value
			if a, ok := x.X.(*ssa.Alloc); ok {
				for _, r := range *a.Referrers() {
					if st, ok := r.(*ssa.Store); ok && st.Addr == a && oa.unorderedRec(st.Val, at, seen) {
						return true
					}
				}
			}
			if fv, ok := x.X.(*ssa.FreeVar); ok {
				_ = fv
			}
		}
	case *ssa.Extract:
		return oa.unorderedRec(x.Tuple, at, seen)
	}
	return false
}

// sortedBefore: a sort call on (the web of) v dominates `at`.
func (oa *orderAnalysis) sortedBefore(v ssa.Value, at ssa.Instruction) bool {
	fn := at.Parent()
	if fn == nil {
		return false
	}
	w := oa.websOf(fn)
	for _, c := range callsIn(fn) {
		f := c.Common().StaticCallee()
		if f == nil || !sortFnNames[stdName(f)] {
			continue
		}
		if len(c.Common().Args) > 0 && w.same(c.Common().Args[0], v) && instrDominates(c, at) {
			return true
		}
	}
	return false
}

var websCache = map[*ssa.Function]*webs{}

func (oa *orderAnalysis) websOf(fn *ssa.Function) *webs {
	if w, ok := websCache[fn]; ok {
		return w
	}
	w := buildWebs(withAnon(topOf(fn))...)
	for _, f := range withAnon(topOf(fn)) {
		websCache[f] = w
	}
	return w
}

// loopsIn enumerates the unordered loops of fn.
func (oa *orderAnalysis) loopsIn(fn *ssa.Function) []*ordLoop {
	var out []*ordLoop
	top := topOf(fn)
	// yield closure of a range-over-func
	if isRangeFuncYield(fn) {
		if mc := makeClosureOf(fn); mc != nil {
			for _, r := range *mc.Referrers() {
				c, ok := r.(*ssa.Call)
				if !ok || len(c.Call.Args) != 1 || c.Call.Args[0] != mc {
					continue
				}
				un := oa.isUnordered(c.Call.Value, c)
				if !un {
					if n := oa.p.CG().Nodes[c.Parent()]; n != nil {
						for _, e := range n.Out {
							if e.Site == c && e.Callee != nil && oa.unorderedIter[e.Callee.Func] {
								un = true
							}
						}
					}
				}
				if un {
					l := &ordLoop{fn: fn, outer: top, blocks: map[*ssa.BasicBlock]bool{}, yield: true, src: "range over iterator " + describeVal(c.Call.Value), pos: fn.Pos(), srcVal: c.Call.Value}
					for _, b := range fn.Blocks {
						l.blocks[b] = true
					}
					if len(fn.Params) > 0 {
						l.key = fn.Params[0]
					}
					if len(fn.Params) > 1 {
						l.val = fn.Params[1]
					}
					out = append(out, l)
				}
			}
		}
	}
	for _, li := range loopsOf(fn) {
		// map range
		var nx *ssa.Next
		for _, in := range li.Header.Instrs {
			if n, ok := in.(*ssa.Next); ok && !n.IsString {
				nx = n
			}
		}
		if nx != nil {
			rg, _ := nx.Iter.(*ssa.Range)
			l := &ordLoop{fn: fn, outer: top, blocks: li.Body, header: li.Header, src: "range over map", pos: nx.Pos()}
			if rg != nil {
				l.src = "range over map " + describeVal(rg.X)
				l.pos = rg.Pos()
				l.srcVal = rg.X
			}
			l.key = extractOf(nx, 1)
			l.val = extractOf(nx, 2)
			out = append(out, l)
			continue
		}
		// index loop over an unordered slice: header compares idx < len(S)
		if iff, ok := lastInstr(li.Header).(*ssa.If); ok {
			if cmp, ok := iff.Cond.(*ssa.BinOp); ok && cmp.Op == token.LSS {
				if ln, ok := cmp.Y.(*ssa.Call); ok && isBuiltin(&ln.Call, "len") {
					s := ln.Call.Args[0]
					if _, isSl := s.Type().Underlying().(*types.Slice); isSl && oa.isUnordered(s, iff) {
						l := &ordLoop{fn: fn, outer: top, blocks: li.Body, header: li.Header, src: "range over unsorted slice " + describeVal(s), pos: iff.Pos(), srcVal: s}
						// element: load of IndexAddr(s, idx)
						for b := range li.Body {
							for _, in := range b.Instrs {
								if ia, ok := in.(*ssa.IndexAddr); ok && ia.X == s {
									for _, r := range *ia.Referrers() {
										if ld, ok := r.(*ssa.UnOp); ok && ld.Op == token.MUL {
											l.val = ld
										}
									}
								}
							}
						}
						out = append(out, l)
					}
				}
			}
		}
	}
	return out
}

func describeVal(v ssa.Value) string {
	switch x := v.(type) {
	case *ssa.Call:
		return calleeName(x) + "()"
	case *ssa.UnOp:
		if x.Op == token.MUL {
			return describeVal(x.X)
		}
	case *ssa.FieldAddr:
		if pt, ok := x.X.Type().Underlying().(*types.Pointer); ok {
			if st, ok := pt.Elem().Underlying().(*types.Struct); ok {
				return describeVal(x.X) + "." + st.Field(x.Field).Name()
			}
		}
	case *ssa.Parameter:
		return x.Name()
	case *ssa.FreeVar:
		return x.Name()
	case *ssa.Alloc:
		return x.Comment
	case *ssa.Field:
		if st, ok := x.X.Type().Underlying().(*types.Struct); ok {
			return describeVal(x.X) + "." + st.Field(x.Field).Name()
		}
	case *ssa.Extract:
		return describeVal(x.Tuple)
	case *ssa.ChangeType:
		return describeVal(x.X)
	case *ssa.Phi:
		return x.Comment
	}
	return v.Name()
}

// ---------------------------------------------------------------------------------------------
// effects of a loop body

// bodyFuncs: the closures created inside the loop body (their code runs per iteration).
func (l *ordLoop) nestedClosures() []*ssa.Function {
	var out []*ssa.Function
	for b := range l.blocks {
		for _, in := range b.Instrs {
			if mc, ok := in.(*ssa.MakeClosure); ok {
				out = append(out, withAnon(mc.Fn.(*ssa.Function))...)
			}
		}
	}
	return out
}

// baseOf walks an address back to its base pointer value.
func baseOf(addr ssa.Value) ssa.Value {
	for {
		switch x := addr.(type) {
		case *ssa.FieldAddr:
			addr = x.X
		case *ssa.IndexAddr:
			addr = x.X
		case *ssa.Slice:
			addr = x.X
		case *ssa.ChangeType:
			addr = x.X
		case *ssa.MakeInterface:
			addr = x.X
		case *ssa.ChangeInterface:
			addr = x.X
		default:
			return addr
		}
	}
}

// definedInLoop: is value v produced by an instruction inside the loop body (or its nested closures)?
func (l *ordLoop) definedInLoop(v ssa.Value) bool {
	in, ok := v.(ssa.Instruction)
	if !ok {
		// parameters of the yield closure itself are per-iteration values
		if p, ok := v.(*ssa.Parameter); ok && l.yield && p.Parent() == l.fn {
			return true
		}
		return false
	}
	if in.Block() == nil {
		return false
	}
	if l.blocks[in.Block()] {
		return true
	}
	for _, c := range l.nestedClosures() {
		if in.Parent() == c {
			return true
		}
	}
	return false
}

// localObject: the memory addressed by base was allocated inside this iteration.
func (l *ordLoop) localObject(base ssa.Value) bool {
	switch x := base.(type) {
	case *ssa.Alloc, *ssa.MakeMap, *ssa.MakeSlice:
		return l.definedInLoop(x.(ssa.Value))
	case *ssa.UnOp:
		if x.Op == token.MUL {
			// load from memory allocated in this iteration (a local variable or a field of one)
			if a, ok := baseOf(x.X).(*ssa.Alloc); ok && l.definedInLoop(a) {
				return true
			}
		}
	case *ssa.Call:
		// result of a call made inside the loop: freshly returned objects (e.g. &bytes.Buffer{}) — treat
		// as local only when the callee is a known allocator
		if l.definedInLoop(x) {
			if f := x.Call.StaticCallee(); f != nil {
				n := stdName(f)
				if n == "bytes.NewBuffer" || n == "hash/fnv.New64" || n == "hash/fnv.New64a" || strings.HasSuffix(n, ".Make") {
					return true
				}
			}
			if isBuiltin(&x.Call, "append") {
				return l.localObject(baseOf(x.Call.Args[0])) || isNilConst(x.Call.Args[0])
			}
		}
	case *ssa.Phi:
		all := len(x.Edges) > 0
		for _, e := range x.Edges {
			if !l.localObject(baseOf(e)) {
				all = false
			}
		}
		return all && l.definedInLoop(x)
	}
	return false
}

// dependsOnElem: v is derived from the loop's key/element (or anything else computed in the loop).
func (l *ordLoop) dependsOnIteration(v ssa.Value) bool {
	seen := map[ssa.Value]bool{}
	var rec func(ssa.Value) bool
	rec = func(x ssa.Value) bool {
		if seen[x] {
			return false
		}
		seen[x] = true
		if x == l.key || x == l.val {
			return true
		}
		if _, isC := x.(*ssa.Const); isC {
			return false
		}
		if !l.definedInLoop(x) {
			return false
		}
		if in, ok := x.(ssa.Instruction); ok {
			if ph, isPhi := x.(*ssa.Phi); isPhi && l.header != nil && ph.Block() == l.header {
				return true // loop-carried
			}
			for _, op := range in.Operands(nil) {
				if *op != nil && rec(*op) {
					return true
				}
			}
			if _, isCall := x.(*ssa.Call); isCall {
				return true // result of a call made in this iteration
			}
			if _, isNext := x.(*ssa.Next); isNext {
				return true
			}
		}
		if p, ok := x.(*ssa.Parameter); ok && l.yield && p.Parent() == l.fn {
			return true
		}
		return false
	}
	return rec(v)
}

func (oa *orderAnalysis) effects(l *ordLoop) (effs []ordEffect, earlyExit bool) {
	p := oa.p
	add := func(kind, detail string, pos token.Pos, sens int) {
		effs = append(effs, ordEffect{kind, detail, pos, sens})
	}
	m := p.modref()
	fns := []*ssa.Function{}
	blocksOf := func(f *ssa.Function) []*ssa.BasicBlock {
		if f == l.fn {
			var bs []*ssa.BasicBlock
			for _, b := range f.Blocks {
				if l.blocks[b] {
					bs = append(bs, b)
				}
			}
			return bs
		}
		return f.Blocks
	}
	fns = append(fns, l.fn)
	fns = append(fns, l.nestedClosures()...)
	// loop-carried registers (in-function loops)
	if l.header != nil {
		for _, in := range l.header.Instrs {
			ph, ok := in.(*ssa.Phi)
			if !ok {
				break
			}
			if ph.Comment == "rangeindex" || strings.HasPrefix(ph.Comment, "rangeindex") {
				continue
			}
			// used after the loop or in later iterations?
			for i, e := range ph.Edges {
				if !l.blocks[ph.Block().Preds[i]] || e == ph {
					continue
				}
				kind, sens := classifyUpdate(ph, e, l)
				add("carried:"+kind, "variable "+ph.Comment, e.Pos(), sens)
			}
		}
	}
	for _, f := range fns {
		for _, b := range blocksOf(f) {
			for _, in := range b.Instrs {
				switch x := in.(type) {
				case *ssa.Store:
					base := baseOf(x.Addr)
					if fv, ok := base.(*ssa.FreeVar); ok && strings.HasPrefix(fv.Name(), "jump$") {
						continue
					}
					if l.localObject(base) {
						continue
					}
					if a, ok := base.(*ssa.Alloc); ok && l.definedInLoop(a) {
						continue
					}
					// classify the stored value relative to the cell
					kind, sens := classifyCellUpdate(x, l)
					add("store:"+kind, describeVal(x.Addr), x.Pos(), sens)
				case *ssa.MapUpdate:
					if l.localObject(baseOf(x.Map)) {
						continue
					}
					if l.dependsOnIteration(x.Key) && keyIsElem(x.Key, l) {
						add("map-insert:elem-key", describeVal(x.Map), x.Pos(), 0)
					} else {
						add("map-insert:other-key", describeVal(x.Map), x.Pos(), 3)
					}
				case ssa.CallInstruction:
					cc := x.Common()
					if b, ok := cc.Value.(*ssa.Builtin); ok {
						switch b.Name() {
						case "delete":
							if !l.localObject(baseOf(cc.Args[0])) {
								add("map-delete", describeVal(cc.Args[0]), x.Pos(), 0)
							}
						case "copy", "clear":
							if !l.localObject(baseOf(cc.Args[0])) {
								add("builtin:"+b.Name(), describeVal(cc.Args[0]), x.Pos(), 2)
							}
						}
						continue
					}
					if owner := oa.funcParamOwner(cc.Value); owner != nil && !cc.IsInvoke() {
						add("yield", "passes elements on to the consumer", x.Pos(), 1)
						continue
					}
					oa.callEffects(l, f, x, m, add)
				}
			}
		}
	}
	// a branch inside the body that is decided by what earlier iterations accumulated: which elements get the full
	// treatment then depends on the order they come in
	if l.header != nil {
		carried := map[ssa.Value]bool{}
		for _, in := range l.header.Instrs {
			ph, ok := in.(*ssa.Phi)
			if !ok {
				break
			}
			if strings.HasPrefix(ph.Comment, "rangeindex") || strings.HasPrefix(ph.Comment, "rangeiter") {
				continue
			}
			for i, e := range ph.Edges {
				if l.blocks[ph.Block().Preds[i]] && e != ssa.Value(ph) {
					carried[ph] = true
				}
			}
		}
		var dep func(v ssa.Value, d int) *ssa.Phi
		dep = func(v ssa.Value, d int) *ssa.Phi {
			if d > 6 {
				return nil
			}
			if ph, ok := v.(*ssa.Phi); ok && carried[ph] {
				return ph
			}
			switch x := v.(type) {
			case *ssa.BinOp:
				if r := dep(x.X, d+1); r != nil {
					return r
				}
				return dep(x.Y, d+1)
			case *ssa.UnOp:
				if x.Op == token.NOT || x.Op == token.SUB {
					return dep(x.X, d+1)
				}
			case *ssa.Convert:
				return dep(x.X, d+1)
			case *ssa.ChangeType:
				return dep(x.X, d+1)
			case *ssa.Call:
				if b, ok := x.Call.Value.(*ssa.Builtin); ok && (b.Name() == "len" || b.Name() == "cap") {
					return dep(x.Call.Args[0], d+1)
				}
			case *ssa.Phi:
				for _, e := range x.Edges {
					if r := dep(e, d+1); r != nil {
						return r
					}
				}
			}
			return nil
		}
		if len(carried) > 0 {
			for b := range l.blocks {
				iff, ok := lastInstr(b).(*ssa.If)
				if !ok || b == l.header {
					continue
				}
				if ph := dep(iff.Cond, 0); ph != nil {
					// leaving the loop on accumulated state is the early-exit case below
					if !l.blocks[b.Succs[0]] || !l.blocks[b.Succs[1]] {
						continue
					}
					add("branch:carried-state", "a branch in the body tests "+ph.Comment+", which earlier iterations changed", iff.Cond.Pos(), 2)
				}
			}
		}
	}
	// early exits
	if l.yield {
		for _, b := range l.fn.Blocks {
			if ret, ok := lastInstr(b).(*ssa.Return); ok {
				if cb, isC := constBool(ret.Results[0]); !isC || !cb {
					// a `false` return caused only by the consumer's yield returning false is pass-through
					if !oa.exitIsYieldDriven(b, l) {
						earlyExit = true
					}
				}
			}
		}
	} else {
		for b := range l.blocks {
			for _, s := range b.Succs {
				if !l.blocks[s] && b != l.header {
					if oa.exitIsYieldDriven(b, l) {
						continue
					}
					earlyExit = true
					// classify what the exit hands out
					if ret, ok := lastInstr(s).(*ssa.Return); ok {
						uniform := true
						for ri := range ret.Results {
							rv := retVal(ret, ri)
							if l.dependsOnIteration(rv) {
								uniform = false
							}
						}
						if uniform {
							add("exit:return-uniform", retDesc(ret), ret.Pos(), 1)
						} else {
							add("exit:return-elem", retDesc(ret), ret.Pos(), 2)
						}
					} else {
						add("exit:break", "", lastInstr(b).Pos(), 1)
					}
				}
			}
		}
	}
	// several early exits with different outcomes: which one is taken first depends on the order, even when each of
	// them alone hands out a constant (an exit that reports an error and another that reports success, say)
	type outcome struct {
		sig   string
		isErr bool
		pos   token.Pos
	}
	var outs []outcome
	addOut := func(o outcome) {
		for _, x := range outs {
			if x.sig == o.sig {
				return
			}
		}
		outs = append(outs, o)
	}
	if l.yield {
		for _, b := range l.fn.Blocks {
			ret, ok := lastInstr(b).(*ssa.Return)
			if !ok {
				continue
			}
			if cb, isC := constBool(ret.Results[0]); isC && cb {
				continue
			}
			if oa.exitIsYieldDriven(b, l) {
				continue
			}
			var parts []string
			isErr := false
			for blk := b; blk != nil; {
				for _, in := range blk.Instrs {
					st, ok := in.(*ssa.Store)
					if !ok {
						continue
					}
					base := baseOf(st.Addr)
					fv, isFV := base.(*ssa.FreeVar)
					if !isFV || strings.HasPrefix(fv.Name(), "jump$") {
						continue
					}
					val := "computed"
					if c, ok := st.Val.(*ssa.Const); ok {
						val = c.String()
					} else if isErrorType(st.Val.Type()) {
						isErr = true
					}
					parts = append(parts, describeVal(st.Addr)+"="+val)
				}
				if len(blk.Preds) == 1 && len(blk.Preds[0].Succs) == 1 {
					blk = blk.Preds[0]
				} else {
					blk = nil
				}
			}
			sort.Strings(parts)
			addOut(outcome{strings.Join(parts, ","), isErr, ret.Pos()})
		}
	} else {
		for b := range l.blocks {
			for _, sc := range b.Succs {
				if l.blocks[sc] || b == l.header || oa.exitIsYieldDriven(b, l) {
					continue
				}
				if ret, ok := lastInstr(sc).(*ssa.Return); ok {
					isErr := len(ret.Results) > 0 && isErrorType(ret.Results[len(ret.Results)-1].Type()) && !isNilConst(ret.Results[len(ret.Results)-1])
					addOut(outcome{retDesc(ret), isErr, ret.Pos()})
				}
			}
		}
	}
	if len(outs) >= 2 {
		nonErr := 0
		var sigs []string
		for _, o := range outs {
			if !o.isErr {
				nonErr++
			}
			sigs = append(sigs, "{"+o.sig+"}")
		}
		sort.Strings(sigs)
		if nonErr >= 1 {
			add("exit:competing-outcomes", "the loop can end early in "+itoa(len(outs))+" different ways ("+strings.Join(sigs, " / ")+")", outs[0].pos, 2)
		}
	}
	return effs, earlyExit
}

func retDesc(ret *ssa.Return) string {
	var parts []string
	for _, r := range ret.Results {
		if c, ok := r.(*ssa.Const); ok {
			parts = append(parts, c.String())
		} else {
			parts = append(parts, typeShort(r.Type()))
		}
	}
	return "return " + strings.Join(parts, ", ")
}

// exitIsYieldDriven: the branch leaving the loop at block b tests the result of a yield call.
func (oa *orderAnalysis) exitIsYieldDriven(b *ssa.BasicBlock, l *ordLoop) bool {
	check := func(blk *ssa.BasicBlock) bool {
		iff, ok := lastInstr(blk).(*ssa.If)
		if !ok {
			return false
		}
		g := flattenGuard(Guard{Cond: iff.Cond, Pol: true, If: iff})
		if c, ok := g.Cond.(*ssa.Call); ok && !c.Call.IsInvoke() && oa.funcParamOwner(c.Call.Value) != nil {
			return true
		}
		return false
	}
	if check(b) {
		return true
	}
	// return block reached directly from a block that tests yield
	if len(b.Preds) == 1 && check(b.Preds[0]) {
		return true
	}
	return false
}

func keyIsElem(k ssa.Value, l *ordLoop) bool {
	k = stripConv(k)
	if k == l.key || k == l.val {
		return true
	}
	// field of the element, conversion of the key
	switch x := k.(type) {
	case *ssa.Field:
		return keyIsElem(x.X, l)
	case *ssa.UnOp:
		if x.Op == token.MUL {
			return keyIsElem(baseOf(x.X), l)
		}
	case *ssa.Convert:
		return keyIsElem(x.X, l)
	case *ssa.Call:
		// key computed from the element by a pure function (e.g. qualify(ns, name))
		for _, a := range x.Call.Args {
			if keyIsElem(a, l) {
				return true
			}
		}
	case *ssa.Alloc:
		for _, r := range *x.Referrers() {
			if st, ok := r.(*ssa.Store); ok && st.Addr == x && keyIsElem(st.Val, l) {
				return true
			}
		}
	}
	return false
}

func isIntOrBool(t types.Type) bool {
	b, ok := t.Underlying().(*types.Basic)
	return ok && (b.Info()&types.IsInteger != 0 || b.Info()&types.IsBoolean != 0)
}

// classifyUpdate: how a loop-carried register is updated (phi <- e).
func classifyUpdate(ph *ssa.Phi, e ssa.Value, l *ordLoop) (string, int) {
	return classifyUpdateRec(ph, e, l, map[ssa.Value]bool{})
}

func classifyUpdateRec(ph *ssa.Phi, e ssa.Value, l *ordLoop, seen map[ssa.Value]bool) (string, int) {
	if seen[e] {
		return "", 0
	}
	seen[e] = true
	if _, ok := e.(*ssa.Const); ok {
		return "flag-const", 1
	}
	switch x := e.(type) {
	case *ssa.Call:
		if isBuiltin(&x.Call, "append") && reachesPhi(x.Call.Args[0], ph) {
			return "append", 2
		}
		if (isBuiltin(&x.Call, "max") || isBuiltin(&x.Call, "min")) && isIntOrBool(x.Type()) {
			return "minmax", 0
		}
	case *ssa.BinOp:
		if isIntOrBool(x.Type()) && (x.Op == token.ADD || x.Op == token.OR || x.Op == token.AND || x.Op == token.XOR || x.Op == token.MUL) && (reachesPhi(x.X, ph) || reachesPhi(x.Y, ph)) {
			return "accumulate", 0
		}
	case *ssa.Phi:
		// merge of several updates inside the body
		worst, kinds := 0, []string{}
		for _, ee := range x.Edges {
			if ee == ph {
				continue
			}
			k, s := classifyUpdateRec(ph, ee, l, seen)
			if k != "" {
				kinds = append(kinds, k)
			}
			if s > worst {
				worst = s
			}
		}
		return strings.Join(uniqSorted(kinds), "+"), worst
	}
	if !l.dependsOnIteration(e) {
		return "invariant", 1
	}
	return "assign-elem", 2
}

func reachesPhi(v ssa.Value, ph *ssa.Phi) bool {
	seen := map[ssa.Value]bool{}
	var rec func(ssa.Value) bool
	rec = func(x ssa.Value) bool {
		if x == ph {
			return true
		}
		if seen[x] {
			return false
		}
		seen[x] = true
		if p2, ok := x.(*ssa.Phi); ok {
			for _, e := range p2.Edges {
				if rec(e) {
					return true
				}
			}
		}
		return false
	}
	return rec(v)
}

// classifyCellUpdate: a store into memory that outlives the iteration.
func classifyCellUpdate(st *ssa.Store, l *ordLoop) (string, int) {
	if _, ok := st.Val.(*ssa.Const); ok {
		return "flag-const", 1
	}
	sameCell := func(v ssa.Value) bool {
		ld, ok := v.(*ssa.UnOp)
		if !ok || ld.Op != token.MUL {
			return false
		}
		if ld.X == st.Addr {
			return true
		}
		a, ok1 := ld.X.(*ssa.FieldAddr)
		b, ok2 := st.Addr.(*ssa.FieldAddr)
		return ok1 && ok2 && a.X == b.X && a.Field == b.Field
	}
	switch x := st.Val.(type) {
	case *ssa.Call:
		if isBuiltin(&x.Call, "append") && sameCell(x.Call.Args[0]) {
			return "append", 2
		}
	case *ssa.BinOp:
		if isIntOrBool(x.Type()) && (x.Op == token.ADD || x.Op == token.OR || x.Op == token.AND || x.Op == token.XOR) && (sameCell(x.X) || sameCell(x.Y)) {
			return "accumulate", 0
		}
	}
	// element slot keyed by the iteration itself (vals[i] = v with i the range index) is order-free
	// only for ordered sources; here the source is unordered
	if !l.dependsOnIteration(st.Val) {
		return "invariant", 1
	}
	return "assign-elem", 2
}

// known effect classes of callees that write memory outliving the iteration
var commutativeCallees = map[string]string{
	"mapset.MapSet.Add":    "set insertion",
	"mapset.MapSet.Remove": "set removal",
}

func (oa *orderAnalysis) callEffects(l *ordLoop, f *ssa.Function, call ssa.CallInstruction, m *modref, add func(kind, detail string, pos token.Pos, sens int)) {
	u := m.unitInfo[topOf(f)]
	if u == nil {
		return
	}
	cc := call.Common()
	var args []ssa.Value
	if cc.IsInvoke() {
		args = append(args, cc.Value)
	}
	args = append(args, cc.Args...)
	callees := u.callees(f, call)
	for _, g := range callees {
		var writes map[int]string // param -> kind
		name := ""
		if s := m.sums[topOf(g)]; s != nil && g.Parent() == nil {
			name = fnQual(g)
			writes = map[int]string{}
			for k, e := range s.writes {
				if k.Kind == okParam {
					writes[k.Idx] = e.Kind
				}
			}
		} else if g.Parent() == nil {
			name = stdName(g)
			spec, ok := stdTable[name]
			if !ok && g.Signature.Recv() != nil {
				spec, ok = stdMethodByName[g.Name()]
			}
			if ok {
				writes = map[int]string{}
				for _, w := range spec.writes {
					writes[w] = "stdlib"
				}
			}
		}
		for idx := range writes {
			if idx >= len(args) {
				continue
			}
			base := baseOf(args[idx])
			if l.localObject(base) {
				continue
			}
			if a, ok := base.(*ssa.Alloc); ok && l.definedInLoop(a) {
				continue
			}
			if why, ok := commutativeCallees[name]; ok {
				add("call:commutative", name+" ("+why+") on "+describeVal(args[idx]), call.Pos(), 0)
				continue
			}
			if topOf(g) == l.outer {
				add("call:recursive", name+" on "+describeVal(args[idx]), call.Pos(), 0)
				continue
			}
			if strings.Contains(name, "bytes.Buffer") || strings.Contains(name, "strings.Builder") || strings.HasPrefix(name, "fmt.Fprint") || name == "encoding/binary.Write" {
				add("call:ordered-output", name+" on "+describeVal(args[idx]), call.Pos(), 2)
				continue
			}
			if kinds := m.writeKinds(g, idx); len(kinds) > 0 {
				ordered := false
				for k := range kinds {
					if k != "mapupdate" && k != "mapdelete" {
						ordered = true
					}
				}
				if ordered {
					add("call:writes-ordered", name+" writes "+describeVal(args[idx])+" ("+strings.Join(sortedKeys(kinds), ",")+")", call.Pos(), 2)
				} else {
					add("call:writes-map", name+" updates a map reachable from "+describeVal(args[idx]), call.Pos(), 3)
				}
				continue
			}
			add("call:writes", name+" writes "+describeVal(args[idx]), call.Pos(), 3)
		}
	}
}

func (oa *orderAnalysis) describeLoop(l *ordLoop) string {
	return fmt.Sprintf("%s %s: %s", oa.p.pos(l.pos), fnQual(l.fn), l.src)
}

func sortedKeys(m map[string]bool) []string {
	var out []string
	for k := range m {
		out = append(out, k)
	}
	sort.Strings(out)
	return out
}
