package main

// R7.9 — an entry point that tokenizes a whole text and keeps the parser to itself must have seen
// the end-of-input token by the time it reports success. The productions stop where the grammar
// stops; what follows is either the next statement (for the list entry points, which loop until the
// end) or text outside the grammar, which must be rejected, not ignored.

import (
	"go/token"
	"go/types"
	"math/big"
	"os"
	"sort"
	"strings"

	"golang.org/x/tools/go/ssa"
)

func c7EntryConsumesAll(p *Prog, r *Report) {
	const rule = "R7.9-entry-consumes-input"
	sp := p.SSAPkg[pParser]
	if sp == nil {
		r.Anchor(rule, "package internal/parser")
		return
	}
	// the end-of-input test: a boolean method of the token type that compares a member with the EOF token kind
	eofKind, ok := sp.Members["TokenEOF"].(*ssa.NamedConst)
	if !ok {
		r.Anchor(rule, "parser.TokenEOF")
		return
	}
	isEOFTest := func(f *ssa.Function) bool {
		if f == nil || f.Blocks == nil || f.Signature.Results().Len() != 1 || !isBoolType(f.Signature.Results().At(0).Type()) {
			return false
		}
		found := false
		forEachInstr(f, func(in ssa.Instruction) {
			if b, ok := in.(*ssa.BinOp); ok && b.Op == token.EQL {
				for _, o := range []ssa.Value{b.X, b.Y} {
					if c, ok := o.(*ssa.Const); ok && c.Value != nil && eofKind.Value.Value != nil && c.Value.ExactString() == eofKind.Value.Value.ExactString() && types.Identical(c.Type(), eofKind.Type()) {
						found = true
					}
				}
			}
		})
		return found
	}
	var fns []*ssa.Function
	for _, f := range p.Funcs {
		if fnPkgPath(f) == pParser && f.Blocks != nil && f.Parent() == nil {
			fns = append(fns, f)
		}
	}
	sort.Slice(fns, func(i, j int) bool { return fns[i].String() < fns[j].String() })
	n := 0
	for _, f := range fns {
		res := f.Signature.Results()
		if res.Len() == 0 || !isErrorType(res.At(res.Len()-1).Type()) {
			continue
		}
		// a parser made here from a token list
		var mk *ssa.Call
		forEachInstr(f, func(in ssa.Instruction) {
			c, ok := in.(*ssa.Call)
			if !ok {
				return
			}
			cal := c.Call.StaticCallee()
			if cal == nil || fnPkgPath(cal) != pParser || len(c.Call.Args) != 1 {
				return
			}
			if sl, ok := c.Call.Args[0].Type().Underlying().(*types.Slice); ok && typeIs(sl.Elem(), pParser, "Token") {
				if n := namedOf(c.Type()); n != nil && n.Obj().Name() == "parser" {
					mk = c
				}
			}
		})
		if mk == nil {
			continue
		}
		// kept beyond the call? (stored, directly or as an address, into a member of something else)
		kept := false
		var cells []ssa.Value
		for _, ref := range *mk.Referrers() {
			if st, ok := ref.(*ssa.Store); ok && st.Val == mk {
				cells = append(cells, st.Addr)
			}
		}
		for _, cell := range cells {
			if cell.Referrers() == nil {
				continue
			}
			for _, ref := range *cell.Referrers() {
				if st, ok := ref.(*ssa.Store); ok && st.Val == cell {
					if _, isField := st.Addr.(*ssa.FieldAddr); isField {
						kept = true
					}
				}
			}
		}
		n++
		q := fnQual(f)
		if kept {
			r.OK(rule, q, p.pos(f.Pos()), "the parser is kept for the next call (statement-at-a-time decoding): the end of input is the next call's business")
			continue
		}
		bad := ""
		for _, b := range f.Blocks {
			ret, ok := lastInstr(b).(*ssa.Return)
			if !ok || !mk.Block().Dominates(b) {
				continue
			}
			ev := ret.Results[len(ret.Results)-1]
			// a return that can only carry an error is not a success
			onlyErr := false
			for _, g := range guardsAt(b) {
				if nn, isT := nilTest(g, ev); isT && nn {
					onlyErr = true
				}
			}
			if c, isC := ev.(*ssa.Const); isC && !c.IsNil() {
				onlyErr = true
			}
			if freshError(ev, 0) {
				onlyErr = true
			}
			if onlyErr {
				continue
			}
			sawEOF := false
			for _, g := range guardsAt(b) {
				g = flattenGuard(g)
				var call *ssa.Call
				switch x := g.Cond.(type) {
				case *ssa.Call:
					call = x
				}
				if call != nil && g.Pol && isEOFTest(call.Call.StaticCallee()) {
					sawEOF = true
				}
				if b, ok := g.Cond.(*ssa.BinOp); ok && ((b.Op == token.EQL && g.Pol) || (b.Op == token.NEQ && !g.Pol)) {
					for _, o := range []ssa.Value{b.X, b.Y} {
						if c, ok := o.(*ssa.Const); ok && c.Value != nil && c.Value.ExactString() == eofKind.Value.Value.ExactString() && types.Identical(c.Type(), eofKind.Type()) {
							sawEOF = true
						}
					}
				}
			}
			if !sawEOF {
				bad = p.pos(ret.Pos())
			}
		}
		r.Check(bad == "", rule, q, p.pos(f.Pos()), "every success return is reached only after the end-of-input token was seen",
			fnShort(f)+" tokenizes the whole text, runs the grammar once and can report success (return at "+bad+") without having looked for the end of input: anything after the first statement — a second policy, stray tokens — is silently ignored instead of rejected")
	}
	if n < 3 {
		r.Anchor(rule, "entry points that build a parser from a token list (found "+itoa(n)+")")
	}
}

// freshError: the value is an error made on the spot (fmt.Errorf, errors.New, or a function of the
// repository all of whose returns are such) — never nil.
func freshError(v ssa.Value, depth int) bool {
	if depth > 3 {
		return false
	}
	switch x := v.(type) {
	case *ssa.MakeInterface:
		return true
	case *ssa.Call:
		cal := x.Call.StaticCallee()
		if cal == nil {
			return false
		}
		switch fnPkgPath(cal) + "." + cal.Name() {
		case "fmt.Errorf", "errors.New":
			return true
		}
		if cal.Blocks == nil {
			return false
		}
		all := true
		for _, b := range cal.Blocks {
			if ret, ok := lastInstr(b).(*ssa.Return); ok {
				if len(ret.Results) == 0 || !freshError(ret.Results[len(ret.Results)-1], depth+1) {
					all = false
				}
			}
		}
		return all
	}
	return false
}

// R7.10 — characters are classified at full width. A scanner that converts a character (rune) to a
// narrower integer — to index a 256-entry table, say — sees only its low bits: U+2020 becomes a
// space. Every conversion of a rune-typed value to a narrower integer type in the tokenizers and
// the escape reader must be proven in range by the interval analysis (a dominating `c < 0x80`-style
// test, a constant, a masked value).
func c7CharacterNarrowing(p *Prog, r *Report) {
	const rule = "R7.10-character-narrowing"
	pkgs := map[string]bool{pParser: true, pSchemaPar: true, pRust: true}
	scope := func(f *ssa.Function) bool { return pkgs[fnPkgPath(f)] && len(f.Blocks) > 0 }
	e := newIvEngine(p, scope)
	var fns []*ssa.Function
	for _, fn := range p.Funcs {
		if scope(fn) && fn.Synthetic == "" {
			fns = append(fns, fn)
		}
	}
	sort.Slice(fns, func(i, j int) bool { return fns[i].String() < fns[j].String() })
	n := 0
	for _, fn := range fns {
		var convs []*ssa.Convert
		forEachInstr(fn, func(in ssa.Instruction) {
			c, ok := in.(*ssa.Convert)
			if !ok {
				return
			}
			from, to := kindOfType(c.X.Type()), kindOfType(c.Type())
			if !from.ok || !to.ok || from.float || to.float {
				return
			}
			fb, ok1 := c.X.Type().Underlying().(*types.Basic)
			if !ok1 || fb.Kind() != types.Int32 {
				return // only characters: rune is int32
			}
			if to.bits >= from.bits {
				return // same width or wider: no bits are lost
			}
			if _, isC := c.X.(*ssa.Const); isC {
				return
			}
			convs = append(convs, c)
		})
		if len(convs) == 0 {
			continue
		}
		a := e.analyze(fn, nil)
		for _, c := range convs {
			n++
			iv := a.get(c.X, c.Block())
			to := kindOfType(c.Type())
			q := fnQual(fn) + ":" + types.TypeString(c.Type(), nil)
			if to.contains(iv) {
				r.OK(rule, q, p.pos(c.Pos()), "the character is in "+iv.String()+" where it is narrowed")
			} else {
				r.Viol(rule, q, p.pos(c.Pos()), fnShort(fn)+" narrows a character to "+types.TypeString(c.Type(), nil)+" although it can be anything in "+iv.String()+" there: characters that differ only above the low bits are classified alike (U+2020 as a space, U+0141 as 'A'), so text outside the grammar is accepted or read as something else")
			}
		}
	}
	if n == 0 {
		r.OK(rule, "tokenizers:no-narrowing", "-", "no character is converted to a narrower integer type in the tokenizers and the escape reader")
	}
}

// R7.11 — a nesting counter is balanced. A parser that counts how deep it is (to bound recursion)
// increments a member on entry and decrements it on exit; if some path that reports success leaves
// the function without the decrement, the counter creeps up with every such construct and the depth
// limit starts rejecting perfectly flat input. For every integer member that a function of the
// parsers both increments and decrements (here or in a deferred closure): every return that can
// report success and is reachable from the increment passes a decrement first.
func c7BalancedCounters(p *Prog, r *Report) {
	const rule = "R7.11-balanced-depth"
	pkgs := map[string]bool{pParser: true, pSchemaPar: true}
	var fns []*ssa.Function
	for _, fn := range p.Funcs {
		if pkgs[fnPkgPath(fn)] && len(fn.Blocks) > 0 && fn.Parent() == nil {
			fns = append(fns, fn)
		}
	}
	sort.Slice(fns, func(i, j int) bool { return fns[i].String() < fns[j].String() })
	// step(st, +1/-1): a store of member±1 into the same member of the receiver / a parameter
	step := func(in ssa.Instruction) (field int, base ssa.Value, delta int, ok bool) {
		st, isSt := in.(*ssa.Store)
		if !isSt {
			return
		}
		fa, isFA := st.Addr.(*ssa.FieldAddr)
		if !isFA {
			return
		}
		bo, isBO := st.Val.(*ssa.BinOp)
		if !isBO || (bo.Op != token.ADD && bo.Op != token.SUB) {
			return
		}
		k, isK := constInt(bo.Y)
		if !isK || k != 1 {
			return
		}
		f2, b2, isLd := fieldOfLoad(bo.X)
		if !isLd || f2 != fa.Field || b2 != fa.X {
			return
		}
		d := 1
		if bo.Op == token.SUB {
			d = -1
		}
		return fa.Field, fa.X, d, true
	}
	n := 0
	for _, fn := range fns {
		type key struct {
			f int
			b ssa.Value
		}
		incs := map[key][]ssa.Instruction{}
		decs := map[key]map[*ssa.BasicBlock][]ssa.Instruction{}
		deferredDec := map[int]bool{}
		for _, g := range withAnon(fn) {
			forEachInstr(g, func(in ssa.Instruction) {
				f, b, d, ok := step(in)
				if !ok {
					return
				}
				if g != fn {
					if d < 0 {
						deferredDec[f] = true
					}
					return
				}
				k := key{f, b}
				if d > 0 {
					incs[k] = append(incs[k], in)
				} else {
					if decs[k] == nil {
						decs[k] = map[*ssa.BasicBlock][]ssa.Instruction{}
					}
					decs[k][in.Block()] = append(decs[k][in.Block()], in)
				}
			})
		}
		for k, is := range incs {
			hasDefer := false
			if deferredDec[k.f] {
				forEachInstr(fn, func(in ssa.Instruction) {
					if _, ok := in.(*ssa.Defer); ok {
						hasDefer = true
					}
				})
			}
			if len(decs[k]) == 0 && !hasDefer {
				continue // a plain counter (position, count), not a nesting depth
			}
			n++
			q := fnQual(fn) + ":" + fieldNameAt(k.b, k.f)
			if hasDefer {
				r.OK(rule, q, p.pos(fn.Pos()), "the decrement is deferred")
				continue
			}
			bad := ""
			for _, inc := range is {
				// walk forward from the increment; stop at decrements
				type pt struct {
					b   *ssa.BasicBlock
					idx int
				}
				seen := map[*ssa.BasicBlock]bool{}
				var walk func(b *ssa.BasicBlock, from int)
				walk = func(b *ssa.BasicBlock, from int) {
					for i := from; i < len(b.Instrs); i++ {
						in := b.Instrs[i]
						if _, _, d, ok := step(in); ok && d < 0 {
							if f, bb, _, _ := step(in); f == k.f && bb == k.b {
								return
							}
						}
						if ret, ok := in.(*ssa.Return); ok {
							ev := ssa.Value(nil)
							if len(ret.Results) > 0 {
								ev = ret.Results[len(ret.Results)-1]
							}
							errOnly := false
							if ev != nil && isErrorType(ev.Type()) {
								if c, isC := ev.(*ssa.Const); isC && !c.IsNil() {
									errOnly = true
								}
								if freshError(ev, 0) {
									errOnly = true
								}
								for _, g := range guardsAt(b) {
									if nn, isT := nilTest(g, ev); isT && nn {
										errOnly = true
									}
								}
							}
							if !errOnly {
								bad = p.pos(ret.Pos())
							}
							return
						}
					}
					for _, s := range b.Succs {
						if !seen[s] {
							seen[s] = true
							walk(s, 0)
						}
					}
				}
				idx := 0
				for i, in := range inc.Block().Instrs {
					if in == inc {
						idx = i + 1
					}
				}
				walk(inc.Block(), idx)
			}
			r.Check(bad == "", rule, q, p.pos(fn.Pos()), "every return that can report success passes the decrement",
				fnShort(fn)+" increments "+fieldNameAt(k.b, k.f)+" on entry but the return at "+bad+" can report success without decrementing it: the counter creeps up with every construct parsed on that path, and the limit it guards starts rejecting input that is not deeply nested at all")
		}
	}
	if n == 0 {
		r.OK(rule, "parsers:no-nesting-counter", "-", "no member of the parsers is both incremented and decremented by one function (no nesting counter to balance)")
	}
}

func fieldNameAt(base ssa.Value, f int) string {
	if st := structOf(base.Type()); st != nil && f < st.NumFields() {
		return st.Field(f).Name()
	}
	return "member#" + itoa(f)
}

// R7.12 — literal conversion does not wrap. A tokenizer that turns digits into a number by its own
// multiply-and-add loop (instead of strconv) must not let the accumulator leave the range of its type:
// a wrapped accumulator that happens to land back in range is accepted as an unrelated value
// (18446744073709551617 read as 1). Every multiplication and left shift of integers in the tokenizers
// and the escape reader must be proven in range by the interval analysis (a per-step bound test, a
// bounded digit count, constants).
func c7LiteralAccumulation(p *Prog, r *Report) {
	const rule = "R7.12-literal-accumulation"
	pkgs := map[string]bool{pParser: true, pSchemaPar: true, pRust: true}
	scope := func(f *ssa.Function) bool { return pkgs[fnPkgPath(f)] && len(f.Blocks) > 0 }
	e := newIvEngine(p, scope)
	var fns []*ssa.Function
	for _, fn := range p.Funcs {
		if scope(fn) && fn.Synthetic == "" {
			fns = append(fns, fn)
		}
	}
	sort.Slice(fns, func(i, j int) bool { return fns[i].String() < fns[j].String() })
	n := 0
	for _, fn := range fns {
		var ops []*ssa.BinOp
		forEachInstr(fn, func(in ssa.Instruction) {
			bo, ok := in.(*ssa.BinOp)
			if !ok || (bo.Op != token.MUL && bo.Op != token.SHL) {
				return
			}
			k := kindOfType(bo.Type())
			if !k.ok || k.float {
				return
			}
			ops = append(ops, bo)
		})
		if len(ops) == 0 {
			continue
		}
		a := e.analyze(fn, nil)
		seen := map[string]int{}
		for _, bo := range ops {
			n++
			k := kindOfType(bo.Type())
			l, rr := a.get(bo.X, bo.Block()), a.get(bo.Y, bo.Block())
			q := fnQual(fn) + ":" + bo.Op.String()
			seen[q]++
			if seen[q] > 1 {
				q += "#" + itoa(seen[q])
			}
			var res ival
			okRange := false
			if !l.top && !rr.top && !l.float && !rr.float {
				if bo.Op == token.MUL {
					res = mulI(l, rr)
					okRange = k.contains(res)
				} else if rr.lo.Sign() >= 0 && rr.hi.IsInt64() && rr.hi.Int64() < 64 && l.lo.Sign() >= 0 {
					res = ibig(new(big.Int).Lsh(l.lo, uint(rr.lo.Int64())), new(big.Int).Lsh(l.hi, uint(rr.hi.Int64())))
					okRange = k.contains(res)
				}
			}
			if !okRange {
				if why, ok := c7BoundedAccumulator(a, bo, k); ok {
					r.OK(rule, q, p.pos(bo.Pos()), why)
					continue
				}
			}
			if okRange {
				r.OK(rule, q, p.pos(bo.Pos()), "operands in "+l.String()+" and "+rr.String()+": the result stays in the type's range")
			} else {
				r.Viol(rule, q, p.pos(bo.Pos()), fnShort(fn)+" computes "+l.String()+" "+bo.Op.String()+" "+rr.String()+" in "+types.TypeString(bo.Type(), nil)+" with nothing that keeps the result in range: an accumulator that wraps around and lands back in range is accepted as an unrelated value instead of being rejected as out of range")
			}
		}
	}
	if n == 0 {
		r.OK(rule, "tokenizers:no-accumulation", "-", "no integer multiplication or left shift in the tokenizers and the escape reader (numbers are converted by strconv)")
	}
}

// c7BoundedAccumulator recognises `acc = c*acc + d` in a loop that also counts its steps, where the accumulated
// value is looked at, outside the loop, only where the step count is known to be at most K and c^K fits the type:
// whatever the accumulator wrapped to after more than K steps is never used.
func c7BoundedAccumulator(a *ivFn, bo *ssa.BinOp, k numKind) (string, bool) {
	if bo.Op != token.MUL {
		return "", false
	}
	acc, _ := bo.X.(*ssa.Phi)
	cv := bo.Y
	if acc == nil {
		acc, _ = bo.Y.(*ssa.Phi)
		cv = bo.X
	}
	c, isC := constInt(cv)
	if acc == nil || !isC || c < 2 {
		return "", false
	}
	// the product's only use is the addition of a digit in [0, c-1], which flows back into the accumulator
	refs := *bo.Referrers()
	if len(refs) != 1 {
		return "", false
	}
	sum, ok := refs[0].(*ssa.BinOp)
	if !ok || sum.Op != token.ADD {
		return "", false
	}
	d := sum.Y
	if d == ssa.Value(bo) {
		d = sum.X
	}
	di := a.get(d, sum.Block())
	if di.top || di.float || di.lo.Sign() < 0 || !di.hi.IsInt64() || di.hi.Int64() > 1<<16 {
		if os.Getenv("CEDARCHECK_DEBUG") != "" {
			println("R7.12 accumulator: digit interval", di.String())
		}
		return "", false
	}
	back, zero := false, false
	for _, e := range acc.Edges {
		if e == ssa.Value(sum) {
			back = true
		} else if z, isZ := constInt(e); isZ && z == 0 {
			zero = true
		} else {
			return "", false
		}
	}
	if !back || !zero {
		return "", false
	}
	// a step counter in the same loop header, incremented in the block of the multiplication
	var cnt *ssa.Phi
	for _, in := range acc.Block().Instrs {
		ph, ok := in.(*ssa.Phi)
		if !ok || ph == acc {
			continue
		}
		good := len(ph.Edges) == 2
		inc := false
		for _, e := range ph.Edges {
			if z, isZ := constInt(e); isZ && z == 0 {
				continue
			}
			b2, isB := e.(*ssa.BinOp)
			one, isOne := ssa.Value(nil), false
			if isB && b2.Op == token.ADD && b2.X == ssa.Value(ph) {
				one = b2.Y
				if o, ok := constInt(one); ok && o == 1 {
					isOne = true
				}
			}
			if isOne && b2.Block() == bo.Block() {
				inc = true
			} else {
				good = false
			}
		}
		if good && inc {
			cnt = ph
			break
		}
	}
	if cnt == nil {
		return "", false
	}
	// every other look at the accumulated value happens where the count is bounded
	maxK := int64(-1)
	check := func(v ssa.Value, skip ssa.Instruction) bool {
		for _, u := range *v.Referrers() {
			if u == skip || u == ssa.Instruction(acc) {
				continue
			}
			if _, isDbg := u.(*ssa.DebugRef); isDbg {
				continue
			}
			ci := a.get(cnt, u.Block())
			if ci.top || ci.float || !ci.hi.IsInt64() || ci.hi.Int64() > 64 {
				return false
			}
			if ci.hi.Int64() > maxK {
				maxK = ci.hi.Int64()
			}
		}
		return true
	}
	if !check(acc, bo) || !check(sum, nil) {
		return "", false
	}
	if maxK < 0 {
		return "", false
	}
	lim := new(big.Int).Exp(big.NewInt(c), big.NewInt(maxK), nil)
	lim.Mul(lim, new(big.Int).Add(di.hi, big.NewInt(1))) // acc_K <= D*(c^K-1)/(c-1) <= (D+1)*c^K for digits in [0, D]
	if !k.contains(ibig(big.NewInt(0), lim)) {
		return "", false
	}
	return "accumulator of at most " + itoa(int(maxK)) + " base-" + itoa(int(c)) + " digits: it is read only where the step count is bounded, and " + itoa(int(c)) + "^" + itoa(int(maxK)) + " fits the type", true
}

// R7.13 — the scope grammar is closed. `principal`, `action` and `resource` clauses are built from entity literals, paths
// and lists of entity literals only; the productions that fill a policy's scope members must not reach the expression
// ladder (whose `(` … `)` production silently drops parentheses, whose literals admit every value kind): a scope list
// parsed as expressions and filtered afterwards accepts `action in [(Action::"view")]`, which is outside the grammar.
func (c *c7ctx) scopeGrammarClosed() {
	const rule = "R7.13-scope-grammar-closed"
	p, r := c.p, c.r
	isScopeIface := func(t types.Type) bool {
		n := namedOf(t)
		return n != nil && n.Obj().Pkg() != nil && n.Obj().Pkg().Path() == pXAst && strings.HasPrefix(n.Obj().Name(), "Is") && strings.HasSuffix(n.Obj().Name(), "ScopeNode")
	}
	var scopeFns []*ssa.Function
	storesScope := func(m *ssa.Function) bool {
		w := false
		forEachInstr(m, func(in ssa.Instruction) {
			st, ok := in.(*ssa.Store)
			if !ok {
				return
			}
			if fa, ok := st.Addr.(*ssa.FieldAddr); ok {
				if s := structOf(fa.X.Type()); s != nil && isScopeIface(s.Field(fa.Field).Type()) {
					w = true
				}
			}
		})
		return w
	}
	for _, m := range c.methods {
		writes := false
		for _, cl := range callsIn(m) {
			if h := cl.Common().StaticCallee(); h != nil && fnPkgPath(h) == pXAst && len(h.Blocks) > 0 && storesScope(h) {
				writes = true // the scope is set through the policy builder (policy.PrincipalEq(entity), …)
			}
		}
		forEachInstr(m, func(in ssa.Instruction) {
			st, ok := in.(*ssa.Store)
			if !ok {
				return
			}
			if fa, ok := st.Addr.(*ssa.FieldAddr); ok {
				if s := structOf(fa.X.Type()); s != nil && isScopeIface(s.Field(fa.Field).Type()) {
					writes = true
				}
			}
		})
		if writes && !c.levels[m] {
			scopeFns = append(scopeFns, m)
		}
	}
	if len(scopeFns) < 3 {
		r.Anchor(rule, "the productions that fill a policy's principal/action/resource scope (found "+itoa(len(scopeFns))+")")
		return
	}
	isMethod := map[*ssa.Function]bool{}
	for _, m := range c.methods {
		isMethod[m] = true
	}
	for _, sf := range scopeFns {
		seen := map[*ssa.Function]bool{}
		var path func(f *ssa.Function, trail []string) []string
		path = func(f *ssa.Function, trail []string) []string {
			if seen[f] {
				return nil
			}
			seen[f] = true
			for _, g := range withAnon(f) {
				for _, cl := range callsIn(g) {
					h := cl.Common().StaticCallee()
					if h == nil || !isMethod[h] {
						continue
					}
					if c.levels[h] || c.listFns[h] {
						return append(trail, fnBase(h))
					}
					if t := path(h, append(trail, fnBase(h))); t != nil {
						return t
					}
				}
			}
			return nil
		}
		t := path(sf, []string{fnBase(sf)})
		r.Check(t == nil, rule, fnQual(sf), p.pos(sf.Pos()), "this scope production stays within entity literals, paths and entity lists",
			"the scope production "+fnBase(sf)+" reaches the expression grammar ("+strings.Join(t, " → ")+"): expressions admit parentheses and every literal kind, so text outside the scope grammar (`action in [(Action::\"view\")]`) is accepted")
	}
}
