package main

// R7.9 — an entry point that tokenizes a whole text and keeps the parser to itself must have seen
// the end-of-input token by the time it reports success. The productions stop where the grammar
// stops; what follows is either the next statement (for the list entry points, which loop until the
// end) or text outside the grammar, which must be rejected, not ignored.

import (
	"go/token"
	"go/types"
	"sort"

	"golang.org/x/tools/go/ssa"
)

func c7EntryConsumesAll(p *Prog, r *Report) {
	const rule = "R7.9-entry-consumes-input"
	sp := p.SSAPkg[pParser]
	if sp == nil {
		r.Anchor(rule, "package internal/parser")
		return
	}
	// the end-of-input test: a boolean method of the token type that compares a member with the EOF token kind
	eofKind, ok := sp.Members["TokenEOF"].(*ssa.NamedConst)
	if !ok {
		r.Anchor(rule, "parser.TokenEOF")
		return
	}
	isEOFTest := func(f *ssa.Function) bool {
		if f == nil || f.Blocks == nil || f.Signature.Results().Len() != 1 || !isBoolType(f.Signature.Results().At(0).Type()) {
			return false
		}
		found := false
		forEachInstr(f, func(in ssa.Instruction) {
			if b, ok := in.(*ssa.BinOp); ok && b.Op == token.EQL {
				for _, o := range []ssa.Value{b.X, b.Y} {
					if c, ok := o.(*ssa.Const); ok && c.Value != nil && eofKind.Value.Value != nil && c.Value.ExactString() == eofKind.Value.Value.ExactString() && types.Identical(c.Type(), eofKind.Type()) {
						found = true
					}
				}
			}
		})
		return found
	}
	var fns []*ssa.Function
	for _, f := range p.Funcs {
		if fnPkgPath(f) == pParser && f.Blocks != nil && f.Parent() == nil {
			fns = append(fns, f)
		}
	}
	sort.Slice(fns, func(i, j int) bool { return fns[i].String() < fns[j].String() })
	n := 0
	for _, f := range fns {
		res := f.Signature.Results()
		if res.Len() == 0 || !isErrorType(res.At(res.Len()-1).Type()) {
			continue
		}
		// a parser made here from a token list
		var mk *ssa.Call
		forEachInstr(f, func(in ssa.Instruction) {
			c, ok := in.(*ssa.Call)
			if !ok {
				return
			}
			cal := c.Call.StaticCallee()
			if cal == nil || fnPkgPath(cal) != pParser || len(c.Call.Args) != 1 {
				return
			}
			if sl, ok := c.Call.Args[0].Type().Underlying().(*types.Slice); ok && typeIs(sl.Elem(), pParser, "Token") {
				if n := namedOf(c.Type()); n != nil && n.Obj().Name() == "parser" {
					mk = c
				}
			}
		})
		if mk == nil {
			continue
		}
		// kept beyond the call? (stored, directly or as an address, into a member of something else)
		kept := false
		var cells []ssa.Value
		for _, ref := range *mk.Referrers() {
			if st, ok := ref.(*ssa.Store); ok && st.Val == mk {
				cells = append(cells, st.Addr)
			}
		}
		for _, cell := range cells {
			if cell.Referrers() == nil {
				continue
			}
			for _, ref := range *cell.Referrers() {
				if st, ok := ref.(*ssa.Store); ok && st.Val == cell {
					if _, isField := st.Addr.(*ssa.FieldAddr); isField {
						kept = true
					}
				}
			}
		}
		n++
		q := fnQual(f)
		if kept {
			r.OK(rule, q, p.pos(f.Pos()), "the parser is kept for the next call (statement-at-a-time decoding): the end of input is the next call's business")
			continue
		}
		bad := ""
		for _, b := range f.Blocks {
			ret, ok := lastInstr(b).(*ssa.Return)
			if !ok || !mk.Block().Dominates(b) {
				continue
			}
			ev := ret.Results[len(ret.Results)-1]
			// a return that can only carry an error is not a success
			onlyErr := false
			for _, g := range guardsAt(b) {
				if nn, isT := nilTest(g, ev); isT && nn {
					onlyErr = true
				}
			}
			if c, isC := ev.(*ssa.Const); isC && !c.IsNil() {
				onlyErr = true
			}
			if freshError(ev, 0) {
				onlyErr = true
			}
			if onlyErr {
				continue
			}
			sawEOF := false
			for _, g := range guardsAt(b) {
				g = flattenGuard(g)
				var call *ssa.Call
				switch x := g.Cond.(type) {
				case *ssa.Call:
					call = x
				}
				if call != nil && g.Pol && isEOFTest(call.Call.StaticCallee()) {
					sawEOF = true
				}
				if b, ok := g.Cond.(*ssa.BinOp); ok && ((b.Op == token.EQL && g.Pol) || (b.Op == token.NEQ && !g.Pol)) {
					for _, o := range []ssa.Value{b.X, b.Y} {
						if c, ok := o.(*ssa.Const); ok && c.Value != nil && c.Value.ExactString() == eofKind.Value.Value.ExactString() && types.Identical(c.Type(), eofKind.Type()) {
							sawEOF = true
						}
					}
				}
			}
			if !sawEOF {
				bad = p.pos(ret.Pos())
			}
		}
		r.Check(bad == "", rule, q, p.pos(f.Pos()), "every success return is reached only after the end-of-input token was seen",
			fnShort(f)+" tokenizes the whole text, runs the grammar once and can report success (return at "+bad+") without having looked for the end of input: anything after the first statement — a second policy, stray tokens — is silently ignored instead of rejected")
	}
	if n < 3 {
		r.Anchor(rule, "entry points that build a parser from a token list (found "+itoa(n)+")")
	}
}

// freshError: the value is an error made on the spot (fmt.Errorf, errors.New, or a function of the
// repository all of whose returns are such) — never nil.
func freshError(v ssa.Value, depth int) bool {
	if depth > 3 {
		return false
	}
	switch x := v.(type) {
	case *ssa.MakeInterface:
		return true
	case *ssa.Call:
		cal := x.Call.StaticCallee()
		if cal == nil {
			return false
		}
		switch fnPkgPath(cal) + "." + cal.Name() {
		case "fmt.Errorf", "errors.New":
			return true
		}
		if cal.Blocks == nil {
			return false
		}
		all := true
		for _, b := range cal.Blocks {
			if ret, ok := lastInstr(b).(*ssa.Return); ok {
				if len(ret.Results) == 0 || !freshError(ret.Results[len(ret.Results)-1], depth+1) {
					all = false
				}
			}
		}
		return all
	}
	return false
}
