package main

// C18, rules added from round-4 seeded changes: who may move the read cursor and the position
// counters (R18.9), how the buffered bytes may be looked at (R18.10), and that the reader the
// caller supplied reaches the scanner as it is (R18.11).

import (
	"go/token"
	"go/types"
	"sort"
	"strings"

	"golang.org/x/tools/go/ssa"
)

type scannerShape struct {
	adv      *ssa.Function // the method that refills (calls Read) and decodes one character
	typ      *types.Named
	st       *types.Struct
	bufField int // the byte array
	curField int // the read cursor: index into the buffer at which the advance function decodes
	srcField int // the io.Reader
	posInts  map[int]string
}

func scannerShapeOf(p *Prog) *scannerShape {
	fn, read := scannerRefill(p)
	if fn == nil || fn.Signature.Recv() == nil {
		return nil
	}
	sh := &scannerShape{adv: fn, typ: namedOf(fn.Signature.Recv().Type()), st: structOf(fn.Signature.Recv().Type()), bufField: -1, curField: -1, srcField: -1, posInts: map[int]string{}}
	if sh.st == nil || sh.typ == nil {
		return nil
	}
	for i := 0; i < sh.st.NumFields(); i++ {
		if a, ok := sh.st.Field(i).Type().Underlying().(*types.Array); ok {
			if b, ok := a.Elem().Underlying().(*types.Basic); ok && b.Kind() == types.Uint8 {
				sh.bufField = i
			}
		}
	}
	if f, _, ok := fieldOfLoad(read.Call.Value); ok {
		sh.srcField = f
	}
	// the cursor: the field whose value indexes the buffer in the advance function
	count := map[int]int{}
	forEachInstr(fn, func(in ssa.Instruction) {
		ia, ok := in.(*ssa.IndexAddr)
		if !ok {
			return
		}
		if fa, ok := ia.X.(*ssa.FieldAddr); ok && fa.Field == sh.bufField {
			if f, _, ok := fieldOfLoad(ia.Index); ok {
				count[f]++
			}
		}
	})
	best := 0
	for f, n := range count {
		if n > best || (n == best && f < sh.curField) {
			sh.curField, best = f, n
		}
	}
	// position counters: integer fields of the scanner whose value is copied (possibly +1) into a Line / Column member
	for _, g := range p.Funcs {
		if g.Signature.Recv() == nil || namedOf(g.Signature.Recv().Type()) != sh.typ {
			continue
		}
		forEachInstr(g, func(in ssa.Instruction) {
			st, ok := in.(*ssa.Store)
			if !ok {
				return
			}
			fa, ok := st.Addr.(*ssa.FieldAddr)
			if !ok {
				return
			}
			inner := structOf(fa.X.Type())
			if inner == nil || inner == sh.st {
				return
			}
			name := inner.Field(fa.Field).Name()
			if name != "Line" && name != "Column" {
				return
			}
			v := st.Val
			if bo, ok := v.(*ssa.BinOp); ok {
				v = bo.X
			}
			if f, base, ok := fieldOfLoad(v); ok && structOf(base.Type()) == sh.st {
				sh.posInts[f] = name
			}
		})
	}
	if sh.bufField < 0 || sh.curField < 0 || sh.srcField < 0 {
		return nil
	}
	return sh
}

// R18.9 — one function moves the cursor and counts lines and columns. Positions are counted per
// character by the function that decodes characters (and refills); a second writer — a fast path
// that skips buffered bytes and adjusts the counters itself — counts whatever happens to be in the
// buffer, so positions start to depend on where the reads fell.
func c18CursorOwnership(p *Prog, r *Report) {
	const rule = "R18.9-cursor-ownership"
	sh := scannerShapeOf(p)
	if sh == nil || len(sh.posInts) < 2 {
		r.Anchor(rule, "scanner shape (buffer, cursor, reader, line/column counters)")
		return
	}
	cg := p.CG()
	// the advance cluster: the advance function and helpers all of whose callers are in the cluster
	cluster := map[*ssa.Function]bool{sh.adv: true}
	for changed := true; changed; {
		changed = false
		for _, g := range p.Funcs {
			if cluster[g] || g.Signature.Recv() == nil || namedOf(g.Signature.Recv().Type()) != sh.typ {
				continue
			}
			n := cg.Nodes[g]
			if n == nil || len(n.In) == 0 {
				continue
			}
			all := true
			for _, e := range n.In {
				if !cluster[e.Caller.Func] {
					all = false
				}
			}
			if all {
				cluster[g] = true
				changed = true
			}
		}
	}
	watched := map[int]string{sh.curField: sh.st.Field(sh.curField).Name()}
	for f := range sh.posInts {
		watched[f] = sh.st.Field(f).Name()
	}
	var fns []*ssa.Function
	for _, g := range p.Funcs {
		if g.Signature.Recv() != nil && namedOf(g.Signature.Recv().Type()) == sh.typ && g.Blocks != nil {
			fns = append(fns, g)
		}
	}
	sort.Slice(fns, func(i, j int) bool { return fns[i].String() < fns[j].String() })
	n := 0
	for _, g := range fns {
		var wrote []string
		isInit := false
		forEachInstr(g, func(in ssa.Instruction) {
			st, ok := in.(*ssa.Store)
			if !ok {
				return
			}
			fa, ok := st.Addr.(*ssa.FieldAddr)
			if !ok || structOf(fa.X.Type()) != sh.st {
				return
			}
			if fa.Field == sh.srcField {
				isInit = true
			}
			if nm, ok := watched[fa.Field]; ok {
				wrote = append(wrote, nm)
			}
		})
		if len(wrote) == 0 {
			continue
		}
		n++
		q := fnQual(g)
		switch {
		case cluster[g]:
			r.OK(rule, q, p.pos(g.Pos()), "the character-advance function (or a helper only it calls) moves the cursor and counts the position")
		case isInit:
			r.OK(rule, q, p.pos(g.Pos()), "initialiser: installs the reader and resets the cursor and counters")
		default:
			r.Viol(rule, q, p.pos(g.Pos()), fnShort(g)+" writes "+strings.Join(dedupStrings(wrote), ", ")+" of the scanner, which only "+fnShort(sh.adv)+" (one character at a time, refilling as needed) may move: a second writer accounts for buffered bytes in bulk, so line, column and offset depend on where the reader's chunks end")
		}
	}
	if n < 2 {
		r.Anchor(rule, "writers of the scanner's cursor and position counters (found "+itoa(n)+")")
	}
}

// R18.10 — the buffered bytes are looked at only through the sentinel. The byte at the cursor may be
// the sentinel that marks "refill needed"; a read of the buffer at a cursor-derived index must test
// the byte against the sentinel before interpreting it, and a slice of the unread region may be given
// only to the rune decoder, the full-rune test and the move of the tail. Anything else (a search for
// a terminator in the unread region, a peek at the next byte compared with a character) sees only as
// far as the current chunk reaches.
func c18BufferAccess(p *Prog, r *Report) {
	const rule = "R18.10-buffer-access"
	sh := scannerShapeOf(p)
	if sh == nil {
		r.Anchor(rule, "scanner shape")
		return
	}
	derivesFromCursor := func(v ssa.Value) bool {
		seen := map[ssa.Value]bool{}
		var rec func(v ssa.Value) bool
		rec = func(v ssa.Value) bool {
			if v == nil || seen[v] {
				return false
			}
			seen[v] = true
			if f, base, ok := fieldOfLoad(v); ok && structOf(base.Type()) == sh.st {
				return f == sh.curField
			}
			switch x := v.(type) {
			case *ssa.BinOp:
				return rec(x.X) || rec(x.Y)
			case *ssa.Convert:
				return rec(x.X)
			case *ssa.Phi:
				for _, e := range x.Edges {
					if rec(e) {
						return true
					}
				}
			}
			return false
		}
		return rec(v)
	}
	n := 0
	for _, g := range p.Funcs {
		if g.Signature.Recv() == nil || namedOf(g.Signature.Recv().Type()) != sh.typ || g.Blocks == nil {
			continue
		}
		q := fnQual(g)
		forEachInstr(g, func(in ssa.Instruction) {
			switch x := in.(type) {
			case *ssa.IndexAddr:
				fa, ok := x.X.(*ssa.FieldAddr)
				if !ok || fa.Field != sh.bufField || structOf(fa.X.Type()) != sh.st || !derivesFromCursor(x.Index) {
					return
				}
				// loads of this element
				for _, ref := range *x.Referrers() {
					ld, ok := ref.(*ssa.UnOp)
					if !ok || ld.Op != token.MUL {
						continue
					}
					n++
					if comparedWithSentinel(ld, 0) {
						r.OK(rule, q+":byte-at-cursor", p.pos(ld.Pos()), "the byte at the cursor is tested against the sentinel before it is interpreted")
					} else {
						r.Viol(rule, q+":byte-at-cursor", p.pos(ld.Pos()), fnShort(g)+" reads the buffered byte at the cursor and interprets it without testing for the end-of-buffer sentinel: when the buffer ends there, the byte is the sentinel, not the next byte of the input, so the outcome depends on where the reader's chunks end")
					}
				}
			case *ssa.Slice:
				fa, ok := x.X.(*ssa.FieldAddr)
				if !ok || fa.Field != sh.bufField || structOf(fa.X.Type()) != sh.st || x.Low == nil || !derivesFromCursor(x.Low) {
					return
				}
				n++
				bad := ""
				for _, ref := range *x.Referrers() {
					c, ok := ref.(ssa.CallInstruction)
					if !ok {
						bad = "used outside a call"
						continue
					}
					name := ""
					if cal := c.Common().StaticCallee(); cal != nil {
						name = fnPkgPath(cal) + "." + cal.Name()
					} else if b, ok := c.Common().Value.(*ssa.Builtin); ok {
						name = b.Name()
					} else if c.Common().IsInvoke() && c.Common().Method.Name() == "Read" {
						name = "copy" // the destination of the refill read: filled, not looked at
					}
					switch name {
					case "unicode/utf8.FullRune", "unicode/utf8.DecodeRune", "copy":
					default:
						bad = "handed to " + name
					}
				}
				if bad == "" {
					r.OK(rule, q+":unread-region", p.pos(x.Pos()), "the unread region is only decoded one character at a time or moved")
				} else {
					r.Viol(rule, q+":unread-region", p.pos(x.Pos()), fnShort(g)+" takes the unread part of the buffer as a whole ("+bad+"): whatever it looks for is found only if it lies in the current chunk, so the scan depends on where the reader's chunks end")
				}
			}
		})
	}
	if n < 3 {
		r.Anchor(rule, "reads of the source buffer at the cursor (found "+itoa(n)+")")
	}
}

func comparedWithSentinel(v ssa.Value, depth int) bool {
	if depth > 3 || v.Referrers() == nil {
		return false
	}
	for _, ref := range *v.Referrers() {
		switch x := ref.(type) {
		case *ssa.Convert:
			if comparedWithSentinel(x, depth+1) {
				return true
			}
		case *ssa.BinOp:
			for _, o := range []ssa.Value{x.X, x.Y} {
				if n, ok := constInt(o); ok && n == 0x80 && (x.Op == token.GEQ || x.Op == token.LSS) {
					return true
				}
			}
		case *ssa.Phi:
			if comparedWithSentinel(x, depth+1) {
				return true
			}
		}
	}
	return false
}

// R18.11 — the reader the caller supplied is the reader the scanner reads. Following the scanner's
// reader back through fields, parameters and call sites must end at readers made from the caller's
// bytes or at the caller's own io.Reader; a wrapper that can end the stream early (a limit, a section)
// makes a long document parse as a shorter one without an error.
func c18ReaderPassThrough(p *Prog, r *Report) {
	const rule = "R18.11-reader-pass-through"
	sh := scannerShapeOf(p)
	if sh == nil || p.readerIface() == nil {
		r.Anchor(rule, "scanner shape / io.Reader")
		return
	}
	cg := p.CG()
	type fieldKey struct {
		st *types.Struct
		f  int
	}
	seenV := map[ssa.Value]bool{}
	seenF := map[fieldKey]bool{}
	var sources, wrappers, unknown []string
	var walk func(v ssa.Value)
	walkField := func(st *types.Struct, f int) {
		k := fieldKey{st, f}
		if seenF[k] {
			return
		}
		seenF[k] = true
		for _, g := range p.Funcs {
			if !p.inRepo(g) {
				continue
			}
			forEachInstr(g, func(in ssa.Instruction) {
				if sto, ok := in.(*ssa.Store); ok {
					if fa, ok := sto.Addr.(*ssa.FieldAddr); ok && fa.Field == f && structOf(fa.X.Type()) == st {
						walk(sto.Val)
					}
				}
			})
		}
	}
	isReader := func(t types.Type) bool {
		rd := p.readerIface()
		return rd != nil && (types.Implements(t, rd) || types.Implements(types.NewPointer(t), rd))
	}
	walk = func(v ssa.Value) {
		if v == nil || seenV[v] {
			return
		}
		seenV[v] = true
		switch x := v.(type) {
		case *ssa.Parameter:
			fn := x.Parent()
			idx := -1
			for i, q := range fn.Params {
				if q == x {
					idx = i
				}
			}
			n := cg.Nodes[fn]
			callers := 0
			if n != nil {
				for _, e := range n.In {
					if e.Site == nil || !p.inRepo(e.Caller.Func) {
						continue
					}
					args := e.Site.Common().Args
					if e.Site.Common().IsInvoke() {
						continue
					}
					if idx < len(args) {
						callers++
						walk(args[idx])
					}
				}
			}
			if fn.Object() != nil && fn.Object().Exported() || callers == 0 {
				sources = append(sources, "parameter "+x.Name()+" of "+fnQual(fn))
			}
		case *ssa.UnOp:
			if f, base, ok := fieldOfLoad(x); ok {
				if st := structOf(base.Type()); st != nil {
					walkField(st, f)
					return
				}
			}
			unknown = append(unknown, p.pos(x.Pos()))
		case *ssa.Phi:
			for _, e := range x.Edges {
				walk(e)
			}
		case *ssa.MakeInterface:
			walk(x.X)
		case *ssa.ChangeInterface:
			walk(x.X)
		case *ssa.ChangeType:
			walk(x.X)
		case *ssa.Const:
		case *ssa.Alloc:
			sources = append(sources, "a reader built in "+fnQual(x.Parent()))
		case *ssa.Call:
			cal := x.Call.StaticCallee()
			name := "dynamic call"
			if cal != nil {
				name = fnPkgPath(cal) + "." + cal.Name()
			}
			wraps := false
			for _, a := range x.Call.Args {
				if isReader(a.Type()) {
					wraps = true
				}
			}
			switch {
			case !wraps:
				sources = append(sources, name+"(…) at "+p.pos(x.Pos()))
			case name == "bufio.NewReader" || name == "bufio.NewReaderSize":
				for _, a := range x.Call.Args {
					if isReader(a.Type()) {
						walk(a)
					}
				}
			default:
				wrappers = append(wrappers, name+" at "+p.pos(x.Pos()))
			}
		default:
			unknown = append(unknown, p.pos(v.Pos()))
		}
	}
	walkField(sh.st, sh.srcField)
	q := "parser.scanner:reader"
	switch {
	case len(wrappers) > 0:
		r.Viol(rule, q, p.pos(sh.adv.Pos()), "the reader the scanner reads is the caller's reader wrapped by "+strings.Join(dedupStrings(wrappers), ", ")+": a wrapper can end the stream early with a clean EOF, so a long document decodes as a shorter one, with no error, while the same bytes given as a slice decode in full")
	case len(unknown) > 0:
		r.Undec(rule, q, p.pos(sh.adv.Pos()), "cannot follow the scanner's reader back to its source at "+strings.Join(dedupStrings(unknown), ", "))
	case len(sources) == 0:
		r.Anchor(rule, "sources of the scanner's reader")
	default:
		r.OK(rule, q, p.pos(sh.adv.Pos()), "the scanner reads the caller's reader (or a reader over the caller's bytes) as it is: "+strings.Join(shortList(dedupStrings(sources), 6), "; "))
	}
}

func (p *Prog) readerIface() *types.Interface {
	for _, pk := range p.All {
		if imp := pk.Imports["io"]; imp != nil && imp.Types != nil {
			if o := imp.Types.Scope().Lookup("Reader"); o != nil {
				if it, ok := o.Type().Underlying().(*types.Interface); ok {
					return it
				}
			}
		}
	}
	return nil
}

// R18.12 — the spill buffer is invisible. The head of a token that no longer fits the read buffer is saved in a spill
// buffer; how much of a token lives there depends only on where the refills fell, so (a) every place that starts a token
// (stores a position into the token-start member) clears the spill buffer on the way there, with no way around the
// clearing that leads back to the start — a comment skipped by jumping back in front of the token start must not leave
// its saved `/` behind; and (b) nothing is decided by how much the spill buffer holds, except whether it is empty.
func c18SpillDiscipline(p *Prog, r *Report) {
	const rule = "R18.12-spill-buffer"
	sh := scannerShapeOf(p)
	if sh == nil {
		r.Anchor(rule, "the scanner's refill method")
		return
	}
	spill := -1
	for i := 0; i < sh.st.NumFields(); i++ {
		if typeIs(sh.st.Field(i).Type(), "bytes", "Buffer") {
			if spill >= 0 {
				r.Undec(rule, "scanner:spill-buffer", "-", "the scanner has more than one bytes.Buffer member; which one is the spill buffer is not clear")
				return
			}
			spill = i
		}
	}
	if spill < 0 {
		r.Anchor(rule, "the scanner's spill buffer (a bytes.Buffer member)")
		return
	}
	var methods []*ssa.Function
	for _, g := range p.Funcs {
		if g.Signature.Recv() != nil && namedOf(g.Signature.Recv().Type()) == sh.typ && len(g.Blocks) > 0 {
			methods = append(methods, g)
		}
	}
	sort.Slice(methods, func(i, j int) bool { return methods[i].String() < methods[j].String() })
	// the token-start member: an integer member that is set to -1 somewhere and to a computed position elsewhere
	minus, computed := map[int]bool{}, map[int][]*ssa.Store{}
	for _, g := range methods {
		forEachInstr(g, func(in ssa.Instruction) {
			st, ok := in.(*ssa.Store)
			if !ok {
				return
			}
			fa, ok := st.Addr.(*ssa.FieldAddr)
			if !ok || structOf(fa.X.Type()) != sh.st {
				return
			}
			if b, isB := sh.st.Field(fa.Field).Type().Underlying().(*types.Basic); !isB || b.Kind() != types.Int {
				return
			}
			if k, isK := constInt(st.Val); isK {
				if k == -1 {
					minus[fa.Field] = true
				}
				return
			}
			computed[fa.Field] = append(computed[fa.Field], st)
		})
	}
	start := -1
	for f := range minus {
		if len(computed[f]) > 0 && f != sh.curField && sh.posInts[f] == "" {
			if start >= 0 {
				start = -2
			} else {
				start = f
			}
		}
	}
	if start < 0 {
		r.Undec(rule, "scanner:token-start", "-", "the member that marks where the current token starts (set to -1 between tokens) was not identified")
		return
	}
	isSpillCall := func(in ssa.Instruction, name string) bool {
		cl, ok := in.(*ssa.Call)
		if !ok {
			return false
		}
		f := cl.Call.StaticCallee()
		if f == nil || fnPkgPath(f) != "bytes" || f.Name() != name || len(cl.Call.Args) == 0 {
			return false
		}
		fa, ok := cl.Call.Args[0].(*ssa.FieldAddr)
		return ok && fa.Field == spill && structOf(fa.X.Type()) == sh.st
	}
	// (a)
	for _, st := range computed[start] {
		fn := st.Parent()
		if fn == sh.adv {
			continue // the refill method moves the start when it shifts the buffer; it saves the text first (R18.2)
		}
		// a token starts where the read cursor is: the stored position is computed from the cursor (moving the mark to
		// the token's end after its text was saved is not a start)
		fromCursor := false
		var walk func(v ssa.Value, d int)
		walk = func(v ssa.Value, d int) {
			if d > 4 || fromCursor {
				return
			}
			if f, base, ok := fieldOfLoad(v); ok && f == sh.curField && structOf(base.Type()) == sh.st {
				fromCursor = true
				return
			}
			if bo, ok := v.(*ssa.BinOp); ok {
				walk(bo.X, d+1)
				walk(bo.Y, d+1)
			}
		}
		walk(st.Val, 0)
		if !fromCursor {
			continue
		}
		var resets []*ssa.BasicBlock
		forEachInstr(fn, func(in ssa.Instruction) {
			if isSpillCall(in, "Reset") {
				resets = append(resets, in.Block())
			}
		})
		ok := false
		for _, rb := range resets {
			if rb == st.Block() {
				ok = true
				break
			}
			if !rb.Dominates(st.Block()) {
				continue
			}
			// no way from the start back to the start that avoids the clearing
			seen := map[*ssa.BasicBlock]bool{rb: true}
			work := append([]*ssa.BasicBlock{}, st.Block().Succs...)
			cyc := false
			for len(work) > 0 {
				b := work[len(work)-1]
				work = work[:len(work)-1]
				if seen[b] {
					continue
				}
				seen[b] = true
				if b == st.Block() {
					cyc = true
					break
				}
				work = append(work, b.Succs...)
			}
			if !cyc {
				ok = true
				break
			}
		}
		r.Check(ok, rule, fnQual(fn)+":token-start", p.pos(st.Pos()), "the spill buffer is cleared on every way to this token start",
			fnShort(fn)+" starts a token here, but the spill buffer is not cleared on every way to this point (a jump back in front of the token start goes around the clearing): what a refill saved for the skipped text — the `/` of a comment that straddles a buffer boundary — is prepended to the next token, so the token text depends on where the reads fell")
	}
	// (b)
	for _, g := range methods {
		forEachInstr(g, func(in ssa.Instruction) {
			if !isSpillCall(in, "Len") && !isSpillCall(in, "Cap") && !isSpillCall(in, "Available") {
				return
			}
			v := in.(ssa.Value)
			good := true
			for _, u := range *v.Referrers() {
				bo, isBO := u.(*ssa.BinOp)
				if !isBO {
					if _, isDbg := u.(*ssa.DebugRef); isDbg {
						continue
					}
					good = false
					continue
				}
				o := bo.Y
				if o == v {
					o = bo.X
				}
				k, isK := constInt(o)
				if !isK || k != 0 || (bo.Op != token.EQL && bo.Op != token.NEQ && bo.Op != token.GTR && bo.Op != token.LEQ) {
					good = false
				}
			}
			r.Check(good, rule, fnQual(g)+":spill-size", p.pos(in.Pos()), "the spill buffer is only asked whether it is empty",
				fnShort(g)+" decides something by how much the spill buffer holds: that amount is the part of the token that was read before the last refill — it depends on the chunking of the input, not on the token, so the same document is accepted or rejected depending on where the reads fell")
		})
	}
}
