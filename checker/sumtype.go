package main

// E1: sealed sum types and the classification of type switches / assertions over them.

import (
	"go/ast"
	"go/types"
	"sort"
	"strconv"
	"strings"

	"golang.org/x/tools/go/packages"
)

// sealedIface describes an interface whose implementers are confined to its own package because
// it has at least one unexported method.
type sealedIface struct {
	Named *types.Named
	Impls []types.Type // concrete implementers (named types or pointers to them), sorted by name
}

func (s *sealedIface) name() string {
	return s.Named.Obj().Pkg().Name() + "." + s.Named.Obj().Name()
}

func isSealed(n *types.Named) bool {
	it, ok := n.Underlying().(*types.Interface)
	if !ok {
		return false
	}
	for i := 0; i < it.NumMethods(); i++ {
		if !it.Method(i).Exported() {
			return true
		}
	}
	return false
}

// sealedOf returns the sealed-interface description for a named interface type, or nil.
func (p *Prog) sealedOf(n *types.Named) *sealedIface {
	if n == nil || n.Obj().Pkg() == nil || !isSealed(n) {
		return nil
	}
	if _, ok := p.Pkgs[n.Obj().Pkg().Path()]; !ok {
		return nil
	}
	it := n.Underlying().(*types.Interface)
	s := &sealedIface{Named: n}
	scope := n.Obj().Pkg().Scope()
	for _, name := range scope.Names() {
		tn, ok := scope.Lookup(name).(*types.TypeName)
		if !ok || tn.IsAlias() {
			continue
		}
		t := tn.Type()
		if _, isI := t.Underlying().(*types.Interface); isI {
			continue
		}
		if nt, ok := t.(*types.Named); ok && nt.TypeParams().Len() > 0 {
			continue
		}
		if types.Implements(t, it) {
			s.Impls = append(s.Impls, t)
		} else if types.Implements(types.NewPointer(t), it) {
			s.Impls = append(s.Impls, types.NewPointer(t))
		}
	}
	sort.Slice(s.Impls, func(i, j int) bool { return typeShort(s.Impls[i]) < typeShort(s.Impls[j]) })
	return s
}

// typeSwitchInfo is one type switch found in source.
type typeSwitchInfo struct {
	Stmt       *ast.TypeSwitchStmt
	Pkg        *packages.Package
	Func       *ast.FuncDecl // enclosing declaration (nil for package-level literals)
	FuncName   string
	OperandT   types.Type
	Sealed     *sealedIface
	Cases      []types.Type    // concrete types listed
	CaseIfaces []types.Type    // interface types listed (cover all their implementers)
	HasNil     bool            // case nil
	Default    *ast.CaseClause // nil if none
	Missing    []types.Type    // implementers of the sealed interface not covered
}

// defaultKind classifies a default clause.
type defaultKind int

const (
	defNone defaultKind = iota
	defPanic
	defReturnsOrOther
	defEmpty
)

func (p *Prog) classifyDefault(pkg *packages.Package, cc *ast.CaseClause) defaultKind {
	if cc == nil {
		return defNone
	}
	if len(cc.Body) == 0 {
		return defEmpty
	}
	pan := false
	ast.Inspect(cc, func(n ast.Node) bool {
		if c, ok := n.(*ast.CallExpr); ok {
			if id, ok := c.Fun.(*ast.Ident); ok && id.Name == "panic" {
				if _, isB := pkg.TypesInfo.Uses[id].(*types.Builtin); isB {
					pan = true
				}
			}
		}
		return true
	})
	if pan {
		return defPanic
	}
	return defReturnsOrOther
}

func recvTypeName(fd *ast.FuncDecl) string {
	if fd.Recv == nil || len(fd.Recv.List) == 0 {
		return ""
	}
	t := fd.Recv.List[0].Type
	for {
		switch x := t.(type) {
		case *ast.StarExpr:
			t = x.X
			continue
		case *ast.ParenExpr:
			t = x.X
			continue
		case *ast.IndexExpr:
			t = x.X
			continue
		case *ast.IndexListExpr:
			t = x.X
			continue
		}
		break
	}
	if id, ok := t.(*ast.Ident); ok {
		return id.Name
	}
	return "?"
}

func declName(fd *ast.FuncDecl) string {
	if fd == nil {
		return "<pkg-level>"
	}
	if r := recvTypeName(fd); r != "" {
		return r + "." + fd.Name.Name
	}
	return fd.Name.Name
}

// typeSwitches enumerates all type switches in the given packages whose operand is a sealed
// repository interface.
func (p *Prog) typeSwitches(pkgPaths ...string) []*typeSwitchInfo {
	var out []*typeSwitchInfo
	for _, pp := range pkgPaths {
		pk := p.Pkgs[pp]
		if pk == nil {
			continue
		}
		for _, f := range pk.Syntax {
			var cur *ast.FuncDecl
			ast.Inspect(f, func(n ast.Node) bool {
				switch x := n.(type) {
				case *ast.FuncDecl:
					cur = x
				case *ast.TypeSwitchStmt:
					if ti := p.analyseTypeSwitch(pk, cur, x); ti != nil {
						out = append(out, ti)
					}
				}
				return true
			})
		}
	}
	return out
}

func typeSwitchOperand(ts *ast.TypeSwitchStmt) ast.Expr {
	var e ast.Expr
	switch a := ts.Assign.(type) {
	case *ast.AssignStmt:
		e = a.Rhs[0]
	case *ast.ExprStmt:
		e = a.X
	}
	if ta, ok := e.(*ast.TypeAssertExpr); ok {
		return ta.X
	}
	return nil
}

func (p *Prog) analyseTypeSwitch(pk *packages.Package, fd *ast.FuncDecl, ts *ast.TypeSwitchStmt) *typeSwitchInfo {
	op := typeSwitchOperand(ts)
	if op == nil {
		return nil
	}
	tv, ok := pk.TypesInfo.Types[op]
	if !ok {
		return nil
	}
	n, _ := types.Unalias(tv.Type).(*types.Named)
	s := p.sealedOf(n)
	if s == nil {
		return nil
	}
	ti := &typeSwitchInfo{Stmt: ts, Pkg: pk, Func: fd, FuncName: declName(fd), OperandT: tv.Type, Sealed: s}
	for _, st := range ts.Body.List {
		cc := st.(*ast.CaseClause)
		if cc.List == nil {
			ti.Default = cc
			continue
		}
		for _, e := range cc.List {
			ctv := pk.TypesInfo.Types[e]
			if ctv.IsNil() {
				ti.HasNil = true
				continue
			}
			if _, isI := ctv.Type.Underlying().(*types.Interface); isI {
				ti.CaseIfaces = append(ti.CaseIfaces, ctv.Type)
			} else {
				ti.Cases = append(ti.Cases, ctv.Type)
			}
		}
	}
	for _, impl := range s.Impls {
		covered := false
		for _, c := range ti.Cases {
			if types.Identical(c, impl) {
				covered = true
			}
		}
		for _, ci := range ti.CaseIfaces {
			if types.Implements(impl, ci.Underlying().(*types.Interface)) {
				covered = true
			}
		}
		if !covered {
			ti.Missing = append(ti.Missing, impl)
		}
	}
	return ti
}

func typeNames(ts []types.Type) string {
	var s []string
	for _, t := range ts {
		s = append(s, typeShort(t))
	}
	return strings.Join(s, ", ")
}

// findTypeSwitch returns the type switches inside function `name` of package pkgPath over the
// sealed interface ifaceName ("" = any sealed interface).
func (p *Prog) findTypeSwitch(pkgPath, fname, ifaceName string) []*typeSwitchInfo {
	var out []*typeSwitchInfo
	for _, ti := range p.typeSwitches(pkgPath) {
		if ti.FuncName == fname && (ifaceName == "" || ti.Sealed.Named.Obj().Name() == ifaceName) {
			out = append(out, ti)
		}
	}
	return out
}

// exhaustive checks a switch: every implementer of the sealed interface must be covered. Reports
// to r under rule; returns whether exhaustive.
func (p *Prog) requireExhaustive(r *Report, rule string, ti *typeSwitchInfo) bool {
	construct := fnQualAst(ti.Pkg, ti.FuncName) + ":switch(" + ti.Sealed.name() + ")"
	if len(ti.Missing) == 0 {
		r.OK(rule, construct, p.pos(ti.Stmt.Pos()), "covers all "+itoa(len(ti.Sealed.Impls))+" implementers of "+ti.Sealed.name())
		return true
	}
	r.Viol(rule, construct, p.pos(ti.Stmt.Pos()), "type switch over "+ti.Sealed.name()+" has no case for: "+typeNames(ti.Missing)+
		" (default: "+[...]string{"none", "panics", "other", "empty"}[p.classifyDefault(ti.Pkg, ti.Default)]+")")
	return false
}

func fnQualAst(pk *packages.Package, fname string) string {
	return pk.Types.Name() + "." + fname
}

func itoa(i int) string { return strconv.Itoa(i) }

// ---------------------------------------------------------------------------------------------
// AST helpers

// funcDecls iterates over the function declarations of a package.
func funcDecls(pk *packages.Package, f func(*ast.FuncDecl)) {
	for _, file := range pk.Syntax {
		for _, d := range file.Decls {
			if fd, ok := d.(*ast.FuncDecl); ok {
				f(fd)
			}
		}
	}
}

// findDecl finds a function declaration "Name" or "T.Name".
func findDecl(pk *packages.Package, name string) *ast.FuncDecl {
	var out *ast.FuncDecl
	if pk == nil {
		return nil
	}
	funcDecls(pk, func(fd *ast.FuncDecl) {
		if declName(fd) == name {
			out = fd
		}
	})
	return out
}

// calleeObj resolves the function object a call expression refers to (function, method,
// qualified identifier), or nil for dynamic calls / conversions / builtins.
func calleeObj(info *types.Info, call *ast.CallExpr) *types.Func {
	fun := ast.Unparen(call.Fun)
	for {
		switch x := fun.(type) {
		case *ast.IndexExpr:
			fun = x.X
			continue
		case *ast.IndexListExpr:
			fun = x.X
			continue
		}
		break
	}
	switch f := fun.(type) {
	case *ast.Ident:
		if o, ok := info.Uses[f].(*types.Func); ok {
			return o
		}
	case *ast.SelectorExpr:
		if sel, ok := info.Selections[f]; ok {
			if o, ok := sel.Obj().(*types.Func); ok {
				return o
			}
			return nil
		}
		if o, ok := info.Uses[f.Sel].(*types.Func); ok {
			return o
		}
	}
	return nil
}

func objIs(o *types.Func, pkgPath, name string) bool {
	if o == nil || o.Pkg() == nil || o.Pkg().Path() != pkgPath {
		return false
	}
	return funcObjShort(o) == name
}

// funcObjShort: "Name" or "T.Name".
func funcObjShort(o *types.Func) string {
	sig, _ := o.Type().(*types.Signature)
	if sig != nil && sig.Recv() != nil {
		if n := namedOf(sig.Recv().Type()); n != nil {
			return n.Obj().Name() + "." + o.Name()
		}
		// interface method
		return "?." + o.Name()
	}
	return o.Name()
}

func isBuiltinCall(info *types.Info, call *ast.CallExpr, name string) bool {
	id, ok := ast.Unparen(call.Fun).(*ast.Ident)
	if !ok || id.Name != name {
		return false
	}
	_, isB := info.Uses[id].(*types.Builtin)
	return isB
}
