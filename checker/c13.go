package main

// C13: entity, value and request JSON round-trip without loss.
//
// Decided (necessary conditions visible in the code): R13.1 for every type with a JSON form, each key the encoder writes
// at a path is read by the decoder at that path with a compatible kind (E9 shapes, following hand-written
// MarshalJSON/UnmarshalJSON into the structs they use); R13.2 the extension-function vocabulary is one table: names
// written = names switched on by the generic value decoder = names the per-kind decoders demand, each bound to the same
// parser, and schema-guided coercion binds the same parsers; R13.3 the scalar decoder keeps integers exact
// (UseNumber before Decode, Int64's error returned); R13.4 the implicit entity form uses the same two keys everywhere.
// Not decided: equality after a round trip as a fact about values; that all accepted spellings decode to equal values.

import (
	"go/token"
	"go/types"
	"sort"
	"strings"

	"golang.org/x/tools/go/ssa"
)

func init() {
	register(&propCheck{
		ID: "C13",
		Explanation: "Structural necessary conditions of the value/entity/request JSON round trip: R13.1 per type, every key written by the encoder at a path is read by the decoder at the same path with a " +
			"compatible kind (JSON shapes derived from struct tags and from the values hand-written MarshalJSON/UnmarshalJSON methods pass to encoding/json); R13.2 one extension-function vocabulary across " +
			"the four MarshalJSON methods, the generic value decoder's switch, the per-kind decoders and schema-guided coercion, each name bound to the same parser; R13.3 UseNumber precedes Decode in the " +
			"scalar decoder and the Int64 conversion error is returned; R13.4 implicit entity keys agree between writer, reader and coercion. Not decided: value equality after a round trip. R13.14 JSON emitters take string escaping from encoding/json (no Go-style quoting). R13.15 no JSON decoder looks for a quoted member name in the raw input (names are compared after decoding).",
		Run: runC13,
	})
}

func runC13(p *Prog, r *Report) {
	c13Shapes(p, r)
	jsonEmittersQuoteAsJSON(p, r, "R13.14-json-quoting", 15)
	jsonDecodersCompareDecodedNames(p, r, "R13.15-decoded-names", 15)
	c13FnVocabulary(p, r)
	c13UseNumber(p, r)
	exactNumberSites(p, r, "R13.3-untyped-decode-sites")
	c13RebuildKeepsAll(p, r, "R13.5-rebuild-keeps-all-members")
	prefixBitsVsConstant(p, r, "R13.6-family-dependent-host-test")
	c13DecodedArgument(p, r, "R13.7-decoded-argument")
	c13EntityFieldFlow(p, r, "R13.8-entity-field-flow")
	c13DecodersReplace(p, r, "R13.9-decoders-replace")
	c13UIDRoundTrip(p, r, "R13.11-uid-round-trip")
	checkTotalOrderComparatorsAs(p, r, "R13.4-stable-encoding-order")
	c13CoercionExhaustive(p, r, "R13.10-coercion-exhaustive")
	c13ImplicitEntity(p, r)
	ownedBytesRule(p, r, "R13.12-owned-bytes", 4, pTypes, pRoot)
	cachedHashAuthors(p, r, "R13.13-decoders-use-the-constructor")
}

func c13Shapes(p *Prog, r *Report) {
	const rule = "R13.1-key-symmetry"
	e := newJSEngine(p)
	roots := []string{"Entity", "EntityMap", "EntityUID", "EntityUIDSet", "Request", "Decision", "Diagnostic", "DiagnosticReason", "DiagnosticError", "Position",
		"Record", "Set", "Boolean", "Long", "String", "Decimal", "IPAddr", "Datetime", "Duration"}
	for _, name := range roots {
		var t types.Type
		if pk := p.Pkgs[pTypes]; pk != nil {
			if obj := pk.Types.Scope().Lookup(name); obj != nil {
				t = obj.Type()
			}
		}
		if t == nil {
			r.Anchor(rule, "types."+name)
			continue
		}
		w, rd := e.W(t), e.R(t)
		if isValueImpl(p, t) {
			// values nested in sets/records/entities are read back by the generic decoder
			if g := p.fn(pTypes, "UnmarshalJSON"); g != nil {
				rd2 := e.rFunc(g, 0, 0)
				probs := e.compat(w, rd2, "$", 0)
				r.Check(len(probs) == 0, rule, "types."+name+"~generic-decoder", "-", "what "+name+".MarshalJSON writes is accepted by the generic value decoder",
					"the generic value decoder does not accept what "+name+" encodes to: "+strings.Join(probs, "; "))
			}
		}
		probs := e.compat(w, rd, "$", 0)
		r.Check(len(probs) == 0, rule, "types."+name, "-", "written "+clip(w.String(), 160)+" ⊆ read "+clip(rd.String(), 160),
			"JSON written for "+name+" is not what its decoder reads: "+strings.Join(probs, "; "))
	}
	// the implicit entity form written inside entities is read by EntityUID's decoder
	if pk := p.Pkgs[pTypes]; pk != nil {
		if io, uo := pk.Types.Scope().Lookup("ImplicitlyMarshaledEntityUID"), pk.Types.Scope().Lookup("EntityUID"); io != nil && uo != nil {
			probs := e.compat(e.W(io.Type()), e.R(uo.Type()), "$", 0)
			r.Check(len(probs) == 0, rule, "types.ImplicitlyMarshaledEntityUID~EntityUID", "-", "implicit entity form is read by the EntityUID decoder", strings.Join(probs, "; "))
		}
	}
	for _, u := range e.undec {
		r.Undec(rule, u, "-", u)
	}
	r.Floor(rule, 20)
}

func clip(s string, n int) string {
	if len(s) > n {
		return s[:n] + "…"
	}
	return s
}

func isValueImpl(p *Prog, t types.Type) bool {
	for _, impl := range valueImpls(p) {
		if types.Identical(impl, t) {
			return true
		}
	}
	return false
}

// stringSwitch maps each string constant compared (==) with some value in fn to the in-repo / listed callees of the
// block taken when the comparison holds.
func stringSwitch(fn *ssa.Function) map[string][]*ssa.Function {
	out := map[string][]*ssa.Function{}
	forEachInstr(fn, func(in ssa.Instruction) {
		bo, ok := in.(*ssa.BinOp)
		if !ok || bo.Op != token.EQL {
			return
		}
		s, ok := constString(bo.Y)
		if !ok {
			if s, ok = constString(bo.X); !ok {
				return
			}
		}
		iff := ifUsing(bo)
		if iff == nil {
			return
		}
		body := iff.Block().Succs[0]
		var fs []*ssa.Function
		for _, b := range fn.Blocks {
			if b != body && !body.Dominates(b) {
				continue
			}
			for _, in2 := range b.Instrs {
				if c, ok := in2.(ssa.CallInstruction); ok {
					if f := c.Common().StaticCallee(); f != nil {
						fs = append(fs, f)
					}
				}
			}
		}
		out[s] = fs
	})
	return out
}

func parsersIn(fs []*ssa.Function) []string {
	var out []string
	for _, f := range fs {
		if fnPkgPath(f) == pTypes && strings.HasPrefix(f.Name(), "Parse") {
			out = append(out, f.Name())
		}
	}
	sort.Strings(out)
	return out
}

func c13FnVocabulary(p *Prog, r *Report) {
	const rule = "R13.2-fn-vocabulary"
	// per-kind table: kind -> (name written, name demanded, parser)
	type ent struct{ wrote, want, parser string }
	kinds := map[string]ent{}
	for _, k := range []string{"Decimal", "IPAddr", "Datetime", "Duration"} {
		nt := p.namedType(pTypes, k)
		if nt == nil {
			r.Anchor(rule, "types."+k)
			return
		}
		mj, uj := methodOf(p, nt, "MarshalJSON"), methodOf(p, types.NewPointer(nt), "UnmarshalJSON")
		if mj == nil || uj == nil {
			r.Anchor(rule, "types."+k+" JSON methods")
			return
		}
		var x ent
		forEachInstr(mj, func(in ssa.Instruction) {
			if st, ok := in.(*ssa.Store); ok {
				if _, f := fieldAddrName(st.Addr); f == "Fn" {
					if s, ok := constString(st.Val); ok {
						x.wrote = s
					}
				}
			}
		})
		for _, c := range callsIn(uj) {
			f := c.Common().StaticCallee()
			if f == nil || fnBase(f) != "unmarshalExtensionValue" || len(c.Common().Args) != 3 {
				continue
			}
			x.want, _ = constString(c.Common().Args[1])
			if fv, ok := c.Common().Args[2].(*ssa.Function); ok {
				x.parser = fv.Name()
			}
		}
		kinds[k] = x
	}
	gen := p.fn(pTypes, "UnmarshalJSON")
	coerce := p.fn(pXTypes, "coerceExtension")
	if gen == nil || coerce == nil {
		r.Anchor(rule, "types.UnmarshalJSON / exptypes.coerceExtension")
		return
	}
	gsw, csw := stringSwitch(gen), stringSwitch(coerce)
	for _, k := range []string{"Datetime", "Decimal", "Duration", "IPAddr"} {
		x := kinds[k]
		gp := parsersIn(gsw[x.wrote])
		r.Check(x.wrote != "" && x.wrote == x.want && len(gp) == 1 && gp[0] == x.parser, rule, "types."+k+":fn", "-",
			"fn `"+x.wrote+"` is written, demanded by the "+k+" decoder and dispatched by the generic decoder to "+x.parser,
			k+": encoder writes fn `"+x.wrote+"`, its decoder demands `"+x.want+"` with parser "+x.parser+", the generic value decoder dispatches `"+x.wrote+"` to ["+strings.Join(gp, ",")+"]")
		// schema-guided coercion: the schema's extension type name is bound to the same parser
		schemaName := x.wrote
		if schemaName == "ip" {
			schemaName = "ipaddr"
		}
		cp := parsersIn(csw[schemaName])
		r.Check(len(cp) == 1 && cp[0] == x.parser, rule, "exptypes.coerceExtension:"+schemaName, "-", "schema type `"+schemaName+"` is coerced with "+x.parser,
			"schema-guided coercion of `"+schemaName+"` uses ["+strings.Join(cp, ",")+"], the "+k+" codec uses "+x.parser)
	}
	// no extra names in the generic decoder
	var extra []string
	for name, fs := range gsw {
		if len(parsersIn(fs)) == 0 {
			continue
		}
		known := false
		for _, x := range kinds {
			if x.wrote == name {
				known = true
			}
		}
		if !known {
			extra = append(extra, name)
		}
	}
	sort.Strings(extra)
	r.Check(len(extra) == 0, rule, "types.UnmarshalJSON:names", p.pos(gen.Pos()), "the generic decoder knows exactly the four written names", "the generic value decoder accepts fn names no encoder writes: "+strings.Join(extra, ","))
}

func c13UseNumber(p *Prog, r *Report) {
	const rule = "R13.3-exact-longs"
	gen := p.fn(pTypes, "UnmarshalJSON")
	if gen == nil {
		r.Anchor(rule, "types.UnmarshalJSON")
		return
	}
	var useNum, decode, int64c *ssa.Call
	for _, c := range callsIn(gen) {
		call, ok := c.(*ssa.Call)
		if !ok || call.Call.StaticCallee() == nil {
			continue
		}
		switch fnPkgPath(call.Call.StaticCallee()) + "." + fnShort(call.Call.StaticCallee()) {
		case "encoding/json.Decoder.UseNumber":
			useNum = call
		case "encoding/json.Decoder.Decode":
			decode = call
		case "encoding/json.Number.Int64":
			int64c = call
		}
	}
	okOrder := useNum != nil && decode != nil && useNum.Call.Args[0] == decode.Call.Args[0] && instrDominates(useNum, decode)
	r.Check(okOrder, rule, "types.UnmarshalJSON:UseNumber", p.pos(gen.Pos()), "UseNumber() is called on the decoder before Decode", "the scalar decoder must call UseNumber() on the same json.Decoder before Decode: otherwise integers pass through float64 and lose precision beyond 2^53")
	okErr := false
	if int64c != nil {
		if ex := extractOf(int64c, 1); ex != nil {
			// the error is tested and a non-nil error returned on that path
			for _, ref := range *ex.Referrers() {
				if bo, ok := ref.(*ssa.BinOp); ok && bo.Op == token.NEQ {
					if iff := ifUsing(bo); iff != nil {
						if ret, ok := lastInstrDeep(iff.Block().Succs[0]).(*ssa.Return); ok && !isNilConst(retLast(ret)) {
							okErr = true
						}
					}
				}
			}
		}
	}
	r.Check(okErr, rule, "types.UnmarshalJSON:Int64-error", p.pos(gen.Pos()), "an out-of-range or fractional number is rejected", "the error of json.Number.Int64 must be returned: out-of-range and fractional numbers would silently become 0")
	// a long is written as a plain JSON number
	if lt := p.namedType(pTypes, "Long"); lt != nil {
		e := newJSEngine(p)
		r.Check(e.W(lt).Kind == "number", rule, "types.Long:written-as-number", "-", "Long is written as a JSON number", "Long must be written as a JSON number")
	}
}

// lastInstrDeep follows unconditional jumps to the block that ends the path.
func lastInstrDeep(b *ssa.BasicBlock) ssa.Instruction {
	for i := 0; i < 4; i++ {
		if j, ok := lastInstr(b).(*ssa.Jump); ok {
			b = j.Block().Succs[0]
			continue
		}
		break
	}
	return lastInstr(b)
}

func c13ImplicitEntity(p *Prog, r *Report) {
	const rule = "R13.4-implicit-entity-keys"
	e := newJSEngine(p)
	pk := p.Pkgs[pTypes]
	if pk == nil {
		r.Anchor(rule, "package types")
		return
	}
	io := pk.Types.Scope().Lookup("ImplicitlyMarshaledEntityUID")
	if io == nil {
		r.Anchor(rule, "types.ImplicitlyMarshaledEntityUID")
		return
	}
	w := e.W(io.Type())
	keys := keysOf(w)
	// coercion looks the same two keys up
	ce := p.fn(pXTypes, "coerceEntityUID")
	if ce == nil {
		r.Anchor(rule, "exptypes.coerceEntityUID")
		return
	}
	var got []string
	for _, c := range callsIn(ce) {
		if f := c.Common().StaticCallee(); f != nil && fnShort(f) == "Record.Get" && len(c.Common().Args) == 2 {
			if s, ok := constString(stripConv(c.Common().Args[1])); ok {
				got = append(got, s)
			}
		}
	}
	sort.Strings(got)
	r.Check(w.Kind == "object" && "["+strings.Join(got, ",")+"]" == keys, rule, "exptypes.coerceEntityUID~ImplicitlyMarshaledEntityUID", p.pos(ce.Pos()), "implicit entity keys "+keys+" are the ones coercion looks up",
		"the implicit entity form is written with keys "+keys+" but schema-guided coercion looks up ["+strings.Join(got, ",")+"]")
}

// exactNumberSites: every place where JSON is decoded into an untyped target (any, []any, map[string]any): numbers
// arrive there as float64 — exact only up to 2^53 — unless the decoder was told to keep them as json.Number. Such a site
// is accepted when UseNumber() was called on the same decoder before Decode, or when the function never takes a number
// out of the decoded value (no assertion to a numeric type). Applies to every non-test-support package.
func exactNumberSites(p *Prog, r *Report, rule string) {
	hasAny := func(t types.Type) bool {
		var rec func(t types.Type, d int) bool
		rec = func(t types.Type, d int) bool {
			if d > 4 {
				return false
			}
			switch u := types.Unalias(t).Underlying().(type) {
			case *types.Interface:
				return u.NumMethods() == 0
			case *types.Slice:
				return rec(u.Elem(), d+1)
			case *types.Map:
				return rec(u.Elem(), d+1)
			case *types.Pointer:
				return rec(u.Elem(), d+1)
			}
			return false
		}
		return rec(t, 0)
	}
	n := 0
	for _, fn := range p.Funcs {
		if testSupportPkgs[fnPkgPath(fn)] {
			continue
		}
		var useNums []*ssa.Call
		for _, c := range callsIn(fn) {
			if call, ok := c.(*ssa.Call); ok {
				if f := call.Call.StaticCallee(); f != nil && fnPkgPath(f) == "encoding/json" && fnShort(f) == "Decoder.UseNumber" {
					useNums = append(useNums, call)
				}
			}
		}
		for _, c := range callsIn(fn) {
			call, ok := c.(*ssa.Call)
			if !ok {
				continue
			}
			f := call.Call.StaticCallee()
			if f == nil || fnPkgPath(f) != "encoding/json" {
				continue
			}
			var target ssa.Value
			isDecode := false
			switch fnShort(f) {
			case "Unmarshal":
				target = call.Call.Args[1]
			case "Decoder.Decode":
				target, isDecode = call.Call.Args[1], true
			default:
				continue
			}
			if mi, ok := target.(*ssa.MakeInterface); ok {
				target = mi.X
			}
			pt, ok := target.Type().Underlying().(*types.Pointer)
			if !ok || !hasAny(pt.Elem()) {
				continue
			}
			n++
			construct := fnQual(fn) + ":decode-into-" + typeShort(pt.Elem())
			exact := false
			if isDecode {
				for _, u := range useNums {
					if u.Call.Args[0] == call.Call.Args[0] && instrDominates(u, call) {
						exact = true
					}
				}
			}
			if exact {
				r.OK(rule, construct, p.pos(call.Pos()), "UseNumber() precedes Decode on this decoder: numbers stay exact")
				continue
			}
			numeric := false
			for _, g := range withAnon(fn) {
				forEachInstr(g, func(in ssa.Instruction) {
					if ta, ok := in.(*ssa.TypeAssert); ok {
						if b, ok := ta.AssertedType.Underlying().(*types.Basic); ok && b.Info()&types.IsNumeric != 0 {
							numeric = true
						}
					}
				})
			}
			r.Check(!numeric, rule, construct, p.pos(call.Pos()), "no number is taken out of the untyped value decoded here",
				"JSON is decoded into an untyped value without UseNumber() and a number is then taken out of it as a float64/integer: integers beyond 2^53 are silently rounded")
		}
	}
	r.Floor(rule, 2)
}

// R13.5: a collection rebuilt member by member keeps every member. Wherever a loop collects converted members into a
// slice that the enclosing function turns into a Set (types.NewSet), the append must be on every path that goes on to the
// next member: a `continue` that skips it drops a member (found by a seeded change in schema-guided coercion, where
// members whose coercion is a no-op were skipped).
func c13RebuildKeepsAll(p *Prog, r *Report, rule string) {
	n := 0
	for _, fn := range p.Funcs {
		pp := fnPkgPath(fn)
		if pp != pXTypes && pp != pTypes && pp != pBatch {
			continue
		}
		// the function (or its parent, for a range-over-func body) builds a Set
		top := fn
		for top.Parent() != nil {
			top = top.Parent()
		}
		builds := false
		for _, g := range withAnon(top) {
			for _, cl := range callsIn(g) {
				if isCallTo(cl, pTypes, "NewSet") {
					builds = true
				}
			}
		}
		if !builds {
			continue
		}
		loops := loopsOf(fn)
		for _, b := range fn.Blocks {
			for _, in := range b.Instrs {
				call, ok := in.(*ssa.Call)
				if !ok || !isBuiltin(call.Common(), "append") {
					continue
				}
				if sl, ok := call.Type().Underlying().(*types.Slice); !ok || !isValueIface(p, sl.Elem()) {
					continue
				}
				// continuation points of the iteration this append belongs to
				var conts []*ssa.BasicBlock
				if isRangeFuncYield(fn) {
					for _, rb := range fn.Blocks {
						if ret, ok := lastInstr(rb).(*ssa.Return); ok && len(ret.Results) == 1 {
							if v, isC := constBool(ret.Results[0]); isC && v {
								conts = append(conts, rb)
							}
						}
					}
				} else if l := innermostLoop(loops, b); l != nil {
					for _, pred := range l.Header.Preds {
						if l.Body[pred] {
							conts = append(conts, pred)
						}
					}
				} else {
					continue
				}
				n++
				skipped := false
				for _, cb := range conts {
					if !b.Dominates(cb) {
						skipped = true
					}
				}
				r.Check(!skipped, rule, fnQual(fn)+":append-member", p.pos(call.Pos()), "every member visited is appended to the rebuilt collection",
					"in "+fnShort(fn)+" the loop that rebuilds a set can move on to the next member without appending the current one: that member is missing from the rebuilt set")
			}
		}
	}
	if n == 0 {
		r.Undec(rule, "rebuild-loops", "-", "no member-wise set rebuild was recognised (anchors vanished)")
	}
}

func isValueIface(p *Prog, t types.Type) bool {
	v := p.namedType(pTypes, "Value")
	return v != nil && types.Identical(t, v)
}

// R13.7: the string handed to an extension value's parser is a *decoded* JSON string. Taking the raw bytes between the
// quotes of the input skips JSON unescaping ("10.0.0.0\/8", "1.0"), so a legal spelling of the same datum is
// rejected or read differently from the other spellings.
func c13DecodedArgument(p *Prog, r *Report, rule string) {
	n := 0
	for _, fn := range p.Funcs {
		if fnPkgPath(fn) != pTypes || fn.Parent() != nil {
			continue
		}
		// role: takes the input bytes and a parse function
		var bytesParam, parseParam *ssa.Parameter
		for _, pr := range fn.Params {
			if sl, ok := pr.Type().Underlying().(*types.Slice); ok {
				if b, ok := sl.Elem().Underlying().(*types.Basic); ok && b.Kind() == types.Uint8 {
					bytesParam = pr
				}
			}
			if sig, ok := pr.Type().Underlying().(*types.Signature); ok && sig.Params().Len() == 1 && basicKind(sig.Params().At(0).Type()) == types.String {
				parseParam = pr
			}
		}
		if bytesParam == nil || parseParam == nil {
			continue
		}
		// allocations handed to encoding/json as decode targets
		decoded := map[ssa.Value]bool{}
		for _, cl := range callsIn(fn) {
			f := cl.Common().StaticCallee()
			if f == nil || fnPkgPath(f) != "encoding/json" || (f.Name() != "Unmarshal" && f.Name() != "Decode") {
				continue
			}
			for _, a := range cl.Common().Args {
				if mi, ok := a.(*ssa.MakeInterface); ok {
					a = mi.X
				}
				if _, ok := a.(*ssa.Alloc); ok {
					decoded[a] = true
				}
			}
		}
		for _, cl := range callsIn(fn) {
			if cl.Common().Value != ssa.Value(parseParam) || len(cl.Common().Args) != 1 {
				continue
			}
			n++
			raw, okOrigin := false, true
			seen := map[ssa.Value]bool{}
			var rec func(v ssa.Value)
			rec = func(v ssa.Value) {
				if v == nil || seen[v] {
					return
				}
				seen[v] = true
				switch x := v.(type) {
				case *ssa.Phi:
					for _, e := range x.Edges {
						rec(e)
					}
				case *ssa.UnOp:
					switch a := x.X.(type) {
					case *ssa.Alloc:
						if decoded[a] {
							return
						}
						// a local assigned on several paths
						for _, rf := range *a.Referrers() {
							if st, ok := rf.(*ssa.Store); ok && st.Addr == a {
								rec(st.Val)
							}
						}
					case *ssa.FieldAddr:
						base := a.X
						for {
							if fa, ok := base.(*ssa.FieldAddr); ok {
								base = fa.X
								continue
							}
							if ld, ok := base.(*ssa.UnOp); ok {
								if fa, ok := ld.X.(*ssa.FieldAddr); ok {
									base = fa.X
									continue
								}
							}
							break
						}
						if !decoded[base] {
							okOrigin = false
						}
					default:
						okOrigin = false
					}
				case *ssa.Convert:
					if _, isSlice := x.X.(*ssa.Slice); isSlice || x.X == ssa.Value(bytesParam) {
						raw = true
					} else {
						rec(x.X)
					}
				case *ssa.Const:
				default:
					okOrigin = false
				}
			}
			rec(cl.Common().Args[0])
			r.Check(!raw && okOrigin, rule, fnQual(fn)+":parse-argument", p.pos(cl.Pos()), "the parser receives a string decoded by encoding/json",
				"in "+fnShort(fn)+" the text handed to the value parser is cut out of the raw input bytes (or of unknown origin) instead of being decoded by encoding/json: JSON escapes inside the string are not undone, so one spelling of a datum is rejected or differs from the others")
		}
	}
	if n == 0 {
		r.Undec(rule, "types:extension-decoder", "-", "no function taking the input bytes and a parse function was recognised (anchor vanished)")
	}
}

// R13.8: field flow of hand-written encoders whose decoder is tag-driven. Entity.MarshalJSON builds a struct of its own
// (positional literal!) and hands it to encoding/json; decoding goes through Entity's struct tags. Each member written
// under JSON name N must be derived from the Entity field that carries the tag N — swapping two same-typed fields
// (attrs/tags) keeps every key and kind in place and is invisible to the shape rule R13.1.
func c13EntityFieldFlow(p *Prog, r *Report, rule string) {
	ent := p.namedType(pTypes, "Entity")
	if ent == nil {
		r.Anchor(rule, "types.Entity")
		return
	}
	var enc *types.Func
	ms := types.NewMethodSet(ent)
	for i := 0; i < ms.Len(); i++ {
		if ms.At(i).Obj().Name() == "MarshalJSON" {
			enc, _ = ms.At(i).Obj().(*types.Func)
		}
	}
	if enc == nil {
		r.Anchor(rule, "types.Entity.MarshalJSON")
		return
	}
	// reader: tag -> field of Entity
	est := structOf(ent)
	tagField := map[string]string{}
	for i := 0; i < est.NumFields(); i++ {
		n, _, skip := jsonTag(est.Field(i), est.Tag(i))
		if !skip {
			tagField[n] = est.Field(i).Name()
		}
	}
	outs := runForks(func() *sev {
		s := newSev(p)
		s.opaque = func(fo *types.Func) bool {
			return fo.Pkg() != nil && fo.Pkg().Path() != pTypes || (fo.Type().(*types.Signature).Recv() != nil && fo != enc)
		}
		return s
	}, func(s *sev) (tv, any) {
		res := s.callFn(nil, &tFn{Obj: enc, Recv: &tSym{Name: "e", T: ent}}, nil, false, nil)
		return res, nil
	})
	n := 0
	for _, o := range outs {
		if o.Abort != "" {
			r.Undec(rule, "types.Entity.MarshalJSON", p.pos(enc.Pos()), "the entity encoder is outside the idioms the extraction understands: "+o.Abort)
			continue
		}
		t, ok := o.Result.(*tTuple)
		if !ok || len(t.Vs) != 2 {
			continue
		}
		m, ok := t.Vs[0].(*tCallU)
		if !ok || m.Name != "json.Marshal" || len(m.Args) != 1 {
			r.Undec(rule, "types.Entity.MarshalJSON", p.pos(enc.Pos()), "the encoder does not end in json.Marshal of a struct: "+clip(t.Vs[0].ts(), 120))
			continue
		}
		obj, ok := m.Args[0].(*tObj)
		if !ok {
			r.Undec(rule, "types.Entity.MarshalJSON", p.pos(enc.Pos()), "json.Marshal argument is not a struct built in the method")
			continue
		}
		wst := structOf(obj.T)
		for i := 0; i < wst.NumFields(); i++ {
			jn, _, skip := jsonTag(wst.Field(i), wst.Tag(i))
			if skip {
				continue
			}
			n++
			val := ""
			if c, ok := obj.F[wst.Field(i).Name()]; ok && c.v != nil {
				val = c.v.ts()
			}
			want, known := tagField[jn]
			// source fields of e mentioned in the written value
			src := map[string]bool{}
			for _, part := range strings.FieldsFunc(val, func(r rune) bool {
				return !(r == '.' || r == '_' || r >= 'a' && r <= 'z' || r >= 'A' && r <= 'Z' || r >= '0' && r <= '9')
			}) {
				if strings.HasPrefix(part, "e.") {
					f := strings.SplitN(part[2:], ".", 2)[0]
					src[f] = true
				}
			}
			var srcs []string
			for f := range src {
				srcs = append(srcs, f)
			}
			sort.Strings(srcs)
			okFlow := known && len(srcs) == 1 && srcs[0] == want
			r.Check(okFlow, rule, "types.Entity.MarshalJSON:"+jn, p.pos(enc.Pos()), "`"+jn+"` is written from Entity."+want,
				"Entity.MarshalJSON writes member `"+jn+"` from ["+strings.Join(srcs, ",")+"]; the decoder (struct tags of Entity) stores `"+jn+"` into Entity."+want+": the entity does not come back equal")
		}
	}
	if n < 4 {
		r.Undec(rule, "types.Entity.MarshalJSON:members", "-", "expected the four members uid/parents/attrs/tags, extracted "+itoa(n))
	}
}

// R13.9: a decoder replaces what it decodes into. An UnmarshalJSON method may assign its receiver (as a whole or field
// by field) but must not update collections it finds there: inserting into the receiver's existing map merges the new
// document with whatever the variable held — and with every copy that shares that map.
func c13DecodersReplace(p *Prog, r *Report, rule string) {
	n := 0
	for _, fn := range p.Funcs {
		pp := fnPkgPath(fn)
		if (pp != pTypes && pp != pMapset && pp != pXTypes && pp != pRoot) || fn.Parent() != nil || fnBase(fn) != "UnmarshalJSON" || fn.Signature.Recv() == nil || len(fn.Params) == 0 || (fn.Synthetic != "" && !strings.HasPrefix(fn.Synthetic, "instance")) {
			continue
		}
		n++
		recv := fn.Params[0]
		fromRecv := map[ssa.Value]bool{recv: true}
		for changed := true; changed; {
			changed = false
			forEachInstr(fn, func(in ssa.Instruction) {
				v, ok := in.(ssa.Value)
				if !ok || fromRecv[v] {
					return
				}
				switch x := in.(type) {
				case *ssa.UnOp:
					if fromRecv[x.X] {
						fromRecv[v], changed = true, true
					}
				case *ssa.FieldAddr:
					if fromRecv[x.X] {
						fromRecv[v], changed = true, true
					}
				case *ssa.Field:
					if fromRecv[x.X] {
						fromRecv[v], changed = true, true
					}
				case *ssa.ChangeType:
					if fromRecv[x.X] {
						fromRecv[v], changed = true, true
					}
				case *ssa.Convert:
					if fromRecv[x.X] {
						fromRecv[v], changed = true, true
					}
				}
			})
		}
		bad := ""
		forEachInstr(fn, func(in ssa.Instruction) {
			switch x := in.(type) {
			case *ssa.MapUpdate:
				if fromRecv[x.Map] {
					bad = "inserts into a map found in the receiver"
				}
			case ssa.CallInstruction:
				g := x.Common().StaticCallee()
				if g == nil || !p.inRepo(g) || g.Signature.Recv() == nil || fnBase(g) == "UnmarshalJSON" {
					return
				}
				if _, isPtr := g.Signature.Recv().Type().Underlying().(*types.Pointer); !isPtr {
					return
				}
				if len(x.Common().Args) > 0 && fromRecv[x.Common().Args[0]] && x.Common().Args[0] != ssa.Value(recv) {
					if writesReceiver(g) {
						bad = "calls the mutator " + fnShort(g) + " on state found in the receiver"
					}
				}
				if len(x.Common().Args) > 0 && x.Common().Args[0] == ssa.Value(recv) && writesReceiverMapInPlace(g) {
					bad = "calls " + fnShort(g) + ", which updates the receiver's collection in place"
				}
			}
		})
		r.Check(bad == "", rule, fnQual(fn), p.pos(fn.Pos()), "the receiver is assigned, never updated in place",
			fnQual(fn)+" "+bad+" instead of replacing it: decoding into a variable that already holds a value merges old and new content (and changes every copy that shares the collection)")
	}
	if n < 8 {
		r.Undec(rule, "json-decoders", "-", "expected at least 8 UnmarshalJSON methods in scope, found "+itoa(n))
	}
}

// writesReceiver: a pointer-receiver method that stores through its receiver or updates a map reached from it.
func writesReceiver(g *ssa.Function) bool {
	if g.Blocks == nil || len(g.Params) == 0 {
		return false
	}
	w := false
	recv := g.Params[0]
	forEachInstr(g, func(in ssa.Instruction) {
		switch x := in.(type) {
		case *ssa.Store:
			if x.Addr == ssa.Value(recv) {
				w = true
			}
			if fa, ok := x.Addr.(*ssa.FieldAddr); ok && fa.X == ssa.Value(recv) {
				w = true
			}
		case *ssa.MapUpdate:
			w = true
		}
	})
	return w
}

// writesReceiverMapInPlace: updates a map loaded from the receiver (as opposed to assigning the receiver).
func writesReceiverMapInPlace(g *ssa.Function) bool {
	if g.Blocks == nil || len(g.Params) == 0 {
		return false
	}
	w := false
	recv := g.Params[0]
	forEachInstr(g, func(in ssa.Instruction) {
		if mu, ok := in.(*ssa.MapUpdate); ok {
			if ld, ok := mu.Map.(*ssa.UnOp); ok {
				if ld.X == ssa.Value(recv) {
					w = true
				}
				if fa, ok := ld.X.(*ssa.FieldAddr); ok && fa.X == ssa.Value(recv) {
					w = true
				}
			}
		}
	})
	return w
}

// R13.10: schema-guided coercion walks the resolved schema type; every switch over that sum in the coercion code names
// every kind (a helper that forgets sets skips coercion for entity types whose only implicit-form members are sets).
func c13CoercionExhaustive(p *Prog, r *Report, rule string) {
	it := p.namedType(pResolved, "IsType")
	if it == nil {
		r.Anchor(rule, "resolved.IsType")
		return
	}
	n := 0
	for _, ti := range p.typeSwitches(pXTypes) {
		if ti.Sealed.Named.Obj() == it.Obj() {
			n++
			p.requireExhaustive(r, rule, ti)
		}
	}
	if n == 0 {
		r.Undec(rule, "exptypes:type-switches", "-", "no switch over the resolved schema type found in x/exp/types")
	}
}

// R13.11: entity UID codec by composition. Both spellings an EntityUID can be written in (the explicit `__entity` form of
// EntityUID.MarshalJSON and the implicit {type,id} form of ImplicitlyMarshaledEntityUID.MarshalJSON) are decoded by
// EntityUID.UnmarshalJSON back to the same type and id (field-provenance evaluation; members travel between the writer's
// and the reader's struct by their JSON names).
func c13UIDRoundTrip(p *Prog, r *Report, rule string) {
	uid := p.namedType(pTypes, "EntityUID")
	imp := p.namedType(pTypes, "ImplicitlyMarshaledEntityUID")
	if uid == nil || imp == nil {
		r.Anchor(rule, "types.EntityUID / ImplicitlyMarshaledEntityUID")
		return
	}
	method := func(t types.Type, name string) *types.Func {
		for _, tt := range []types.Type{t, types.NewPointer(t)} {
			ms := types.NewMethodSet(tt)
			for i := 0; i < ms.Len(); i++ {
				if ms.At(i).Obj().Name() == name {
					fo, _ := ms.At(i).Obj().(*types.Func)
					return fo
				}
			}
		}
		return nil
	}
	dec := method(uid, "UnmarshalJSON")
	for _, w := range []struct {
		name string
		t    *types.Named
	}{{"explicit", uid}, {"implicit", imp}} {
		enc := method(w.t, "MarshalJSON")
		if enc == nil || dec == nil {
			r.Anchor(rule, w.name+" MarshalJSON / EntityUID.UnmarshalJSON")
			continue
		}
		outs := runForks(func() *sev { return newSev(p) }, func(s *sev) (tv, any) {
			res := s.callFn(nil, &tFn{Obj: enc, Recv: &tSym{Name: "u", T: w.t}}, nil, false, nil)
			t, ok := res.(*tTuple)
			if !ok || len(t.Vs) != 2 {
				s.abort("encoder result %s", res.ts())
			}
			dcell := &tcell{zeroOf(uid)}
			derr := s.callFn(nil, &tFn{Obj: dec, Recv: &tPtr{dcell}, RecvCell: dcell}, []tv{t.Vs[0]}, false, nil)
			return &tTuple{[]tv{dcell.v, derr}}, t.Vs[0]
		})
		for _, o := range outs {
			cs := "types.EntityUID:" + w.name
			if o.Abort != "" {
				r.Undec(rule, cs, p.pos(dec.Pos()), "the "+w.name+" entity UID codec is outside the converter idioms the extraction understands: "+clip(o.Abort, 200))
				continue
			}
			t := o.Result.(*tTuple)
			if _, isNil := t.Vs[1].(tNil); !isNil {
				r.Viol(rule, cs, p.pos(dec.Pos()), "EntityUID.UnmarshalJSON rejects what the "+w.name+" encoder writes")
				continue
			}
			s := newSev(p)
			s.refine, s.assume, s.looseNamed = o.Refine, o.Assume, true
			diffs := s.identity(t.Vs[0], &tSym{Name: "u", T: uid}, nil)
			r.Check(len(diffs) == 0, rule, cs, p.pos(dec.Pos()), "decode("+w.name+" encoding) = the same type and id [written: "+clip(o.State.(tv).ts(), 140)+"]",
				"decoding the "+w.name+" encoding of an entity UID does not give the UID back: "+strings.Join(diffs, "; ")+" [written: "+clip(o.State.(tv).ts(), 160)+"; decoded: "+clip(t.Vs[0].ts(), 120)+"]")
		}
	}
}
