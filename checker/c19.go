package main

// C19 — shared policies and entities: race-free concurrent reads, inputs never mutated.
// Decided by the mod-ref analysis (E5): every exported function or method of an exported type in
// every non-test package may write only memory it allocated itself, except for the explicitly
// tabled mutators (decoders into their receiver/destination, encoders into their output
// parameter, builders, container mutators). Together with "no package-level variable is written
// after initialisation" and "no goroutines / sync / atomic in the module" this implies that two
// concurrent read-only calls share only memory that neither writes.

import (
	"go/ast"
	"go/types"
	"sort"
	"strings"

	"golang.org/x/tools/go/ssa"
)

func init() {
	register(&propCheck{
		ID: "C19",
		Explanation: "Mod-ref (ownership) analysis over the whole module, to a global fixed point: field-sensitive inclusion-based points-to per function with " +
			"flow-sensitive reaching stores for the copy-then-rewrite idiom, interprocedural summaries (writes per parameter region, field-precise direct stores, result aliasing), " +
			"VTA call graph for dynamic calls and a frozen table of standard-library effects. R19.1: every exported function/method writes no parameter, receiver, package-level " +
			"variable or caller-owned memory unless it is a tabled mutator writing its own receiver/destination/output; R19.2: no package-level variable is written outside package " +
			"initialisation; R19.3: the module starts no goroutine and uses no sync/atomic/channel (no hidden shared cache). Hence concurrent read-only calls cannot race and never " +
			"mutate their inputs. Sound modulo the trusted base (no reflect/unsafe, stdlib table, error values treated as immutable).",
		Assumptions: []string{
			"frozen summaries of the standard-library functions the repository calls (checker/stdlib.go); an untabled callee with pointer-like parameters fails the check",
			"values of the predeclared interface type error are immutable and are not tracked",
			"user implementations of PolicyIterator / EntityGetter / callbacks are outside the analysed program",
		},
		Run: runC19,
	})
}

// mutatorRole explains why an exported function may write one of its parameters.
type allowance struct {
	params map[int]bool
	reason string
}

var c19Explicit = map[string]allowance{
	"cedar-go.Policy.SetFilename": {map[int]bool{0: true}, "documented mutator: stamps the file name on the policy"},
	"cedar-go.PolicySet.Add":      {map[int]bool{0: true}, "container mutator"},
	"cedar-go.PolicySet.Remove":   {map[int]bool{0: true}, "container mutator"},
	"mapset.MapSet.Add":           {map[int]bool{0: true}, "container mutator (pointer receiver)"},
	"mapset.MapSet.Remove":        {map[int]bool{0: true}, "container mutator (pointer receiver)"},
	"schema.Schema.SetFilename":   {map[int]bool{0: true}, "documented mutator"},
	"ast.Annotations.Annotation":  {map[int]bool{0: true}, "builder: appends to and returns its receiver"},
	"types.UnmarshalJSON":         {map[int]bool{1: true}, "decoder function: fills *v"},
}

func isOutputParamType(t types.Type) (bool, string) {
	if typeIsStd(t, "bytes", "Buffer") || typeIsStd(t, "strings", "Builder") {
		return true, "output buffer"
	}
	if n, ok := types.Unalias(t).(*types.Named); ok && n.Obj().Pkg() != nil {
		switch n.Obj().Pkg().Path() + "." + n.Obj().Name() {
		case "io.Writer", "hash.Hash", "hash.Hash64", "io.StringWriter":
			return true, "output writer"
		case "io.Reader":
			return true, "input reader (advanced by reading)"
		}
	}
	return false, ""
}

func typeIsStd(t types.Type, pkg, name string) bool {
	n := namedOf(t)
	return n != nil && n.Obj().Pkg() != nil && n.Obj().Pkg().Path() == pkg && n.Obj().Name() == name
}

// c19Allowed returns the parameters an exported function may write, with reasons.
func c19Allowed(fn *ssa.Function) (map[int]string, bool) {
	out := map[int]string{}
	sig := fn.Signature
	q := fnQual(fn)
	if a, ok := c19Explicit[q]; ok {
		for i := range a.params {
			out[i] = a.reason
		}
	}
	name := fn.Name()
	isMethod := sig.Recv() != nil
	if isMethod && (strings.HasPrefix(name, "Unmarshal") || name == "Decode") {
		out[0] = "decoder: fills its receiver"
		if name == "Decode" && len(fn.Params) > 1 {
			out[1] = "decoder: fills its destination"
		}
	}
	// builder methods: a method of a *Policy type in an ast package that returns its receiver type
	if isMethod && (fnPkgPath(fn) == pAst || fnPkgPath(fn) == pXAst) {
		if sig.Results().Len() == 1 && types.Identical(sig.Results().At(0).Type(), sig.Recv().Type()) {
			if _, isPtr := sig.Recv().Type().(*types.Pointer); isPtr {
				out[0] = "builder: mutates and returns its receiver"
			}
		}
	}
	for i, p := range fn.Params {
		if ok, why := isOutputParamType(p.Type()); ok {
			out[i] = why
		}
	}
	// an Encoder's receiver wraps an io.Writer
	if isMethod && name == "Encode" {
		out[0] = "encoder: writes to the io.Writer it wraps"
	}
	return out, true
}

func c19Entries(p *Prog) []*ssa.Function {
	var out []*ssa.Function
	for _, fn := range p.Funcs {
		if fn.Parent() != nil || fn.Synthetic != "" || testSupportPkgs[fnPkgPath(fn)] {
			continue
		}
		obj, _ := fn.Object().(*types.Func)
		if obj == nil || !obj.Exported() {
			continue
		}
		if fn.Origin() != nil && fn.Origin() != fn {
			// generic instance: analysed as instantiated
		}
		if recv := fn.Signature.Recv(); recv != nil {
			n := namedOf(recv.Type())
			if n == nil || !n.Obj().Exported() {
				continue
			}
		}
		if fn.TypeParams().Len() > 0 && len(fn.TypeArgs()) == 0 {
			continue // uninstantiated generic body
		}
		out = append(out, fn)
	}
	sort.Slice(out, func(i, j int) bool { return out[i].String() < out[j].String() })
	return out
}

func runC19(p *Prog, r *Report) {
	m := p.modref()
	// undecided pieces of the analysis itself
	for k, pos := range m.undec {
		if strings.Contains(k, "testutil.") || strings.Contains(k, "testvalidate.") {
			continue
		}
		r.Undec("R19.0-analysis", k, p.pos(pos), k)
	}
	entries := c19Entries(p)
	for _, fn := range entries {
		s := m.summaryOf(fn)
		q := fnQual(fn)
		if s == nil {
			r.Undec("R19.1-readonly-entry", q, p.pos(fn.Pos()), "no summary computed")
			continue
		}
		allowed, _ := c19Allowed(fn)
		var bad []string
		var keys []rootKey
		for k := range s.writes {
			keys = append(keys, k)
		}
		sort.Slice(keys, func(i, j int) bool { return keys[i].String() < keys[j].String() })
		for _, k := range keys {
			e := s.writes[k]
			switch k.Kind {
			case okParam:
				if _, ok := allowed[k.Idx]; ok {
					continue
				}
				pn := "parameter"
				if fn.Signature.Recv() != nil && k.Idx == 0 {
					pn = "receiver"
				} else if k.Idx < len(fn.Params) {
					pn = "parameter `" + fn.Params[k.Idx].Name() + "`"
				}
				depth := "directly"
				if k.Deep {
					depth = "through memory reachable from it"
				}
				bad = append(bad, "writes its "+pn+" "+depth+" ("+e.Origin+"; reached via call at "+p.pos(e.Pos)+")")
			case okGlobal:
				bad = append(bad, "writes package-level variable "+k.Glob+" ("+e.Origin+")")
			case okExternal:
				bad = append(bad, "writes memory owned by its caller ("+e.Origin+")")
			}
		}
		if len(bad) == 0 {
			why := "writes only memory it allocated"
			if len(allowed) > 0 {
				var ws []string
				for i, w := range allowed {
					ws = append(ws, "#"+itoa(i)+": "+w)
				}
				sort.Strings(ws)
				why += " (tabled: " + strings.Join(ws, "; ") + ")"
			}
			r.OK("R19.1-readonly-entry", q, p.pos(fn.Pos()), why)
		} else {
			for _, b := range bad {
				r.Viol("R19.1-readonly-entry", q, p.pos(fn.Pos()), b)
			}
		}
	}
	r.Floor("R19.1-readonly-entry", 300)

	// R19.2: package-level variables are written only by package initialisation
	for _, u := range m.units {
		if testSupportPkgs[fnPkgPath(u)] {
			continue
		}
		if u.Name() == "init" || strings.HasPrefix(u.Name(), "init#") {
			continue
		}
		s := m.sums[u]
		for k, e := range s.writes {
			if k.Kind == okGlobal {
				r.Viol("R19.2-no-global-writes", fnQual(u)+":"+k.Glob, p.pos(e.Pos), "package-level variable "+k.Glob+" is written outside package initialisation ("+e.Origin+")")
			}
		}
	}
	nGlob := 0
	for _, pk := range p.All {
		if testSupportPkgs[pk.PkgPath] {
			continue
		}
		sp := p.SSAPkg[pk.PkgPath]
		if sp == nil {
			continue
		}
		for _, mem := range sp.Members {
			if g, ok := mem.(*ssa.Global); ok && mayPoint(g.Type().(*types.Pointer).Elem()) {
				nGlob++
				r.OK("R19.2-no-global-writes", pk.Types.Name()+"."+g.Name(), p.pos(g.Pos()), "mutable-kind package variable, only read after initialisation")
			}
		}
	}
	// violations recorded above override the OK for the same construct? keep both; floors on count
	r.Floor("R19.2-no-global-writes", 10)

	// R19.3: no goroutines, channels, sync or atomic
	for _, pk := range p.All {
		if testSupportPkgs[pk.PkgPath] {
			continue
		}
		ok := true
		for imp := range pk.Imports {
			if imp == "sync" || imp == "sync/atomic" {
				ok = false
				r.Viol("R19.3-no-concurrency-primitives", pk.PkgPath, "-", "package imports "+imp+": hidden shared state must be proved race-free separately; the ownership argument no longer suffices")
			}
		}
		for _, f := range pk.Syntax {
			ast.Inspect(f, func(n ast.Node) bool {
				switch x := n.(type) {
				case *ast.GoStmt:
					ok = false
					r.Viol("R19.3-no-concurrency-primitives", pk.PkgPath, p.pos(x.Pos()), "go statement: the module was assumed to start no goroutines")
				case *ast.ChanType:
					ok = false
					r.Viol("R19.3-no-concurrency-primitives", pk.PkgPath, p.pos(x.Pos()), "channel type: the module was assumed to use no channels")
				}
				return true
			})
		}
		if ok {
			r.OK("R19.3-no-concurrency-primitives", pk.PkgPath, "-", "no sync/atomic import, no go statement, no channel")
		}
	}
	r.Floor("R19.3-no-concurrency-primitives", 15)
}
