package main

// C12: scalar and extension values have exact, canonical text forms.
//
// What is decided (necessary conditions, visible in the code's shape):
//   R12.3  every signed add/sub/mul/neg, every narrowing integer conversion and every float->int conversion in package
//          types stays within the range of its type (E8 interval analysis with guard refinement);
//   R12.5  every value obtained from (time.Time).UnixMilli that becomes a Datetime is preceded by the min/max range test;
//   R12.2  the Cedar and JSON renderings of extension values name the constructor whose parser reads them back;
//   R12.1  text emitters use the one escape vocabulary the Cedar reader accepts.
// Not decided: that the accepted language is exactly the documented one; calendar arithmetic; printable-character tables.

import (
	"go/ast"
	"go/constant"
	"go/token"
	"go/types"
	"math"
	"sort"
	"strings"
	"time"

	"golang.org/x/tools/go/ssa"
)

func init() {
	register(&propCheck{
		ID: "C12",
		Explanation: "Structural necessary conditions of exact text forms: R12.3 every signed add/sub/mul/neg, narrowing integer conversion and float->int conversion in package types is shown to stay " +
			"inside its type's range by an interval analysis over go/ssa (guard refinement, path-condition case splitting, four relational guard idioms, frozen result ranges for a handful of " +
			"standard-library calls); a post-hoc test of an already wrapped result is not a guard. The other rules (escape vocabulary, constructor agreement, parse-error discipline, range before UnixMilli, rune-error width, zone, quote unwrapping, sign, code-point digits, leap rule) are described in the manifest. Not decided: that the accepted language is exactly the documented one, calendar arithmetic. R12.14 no general-purpose library parser (time.Parse, time.ParseDuration, strconv.ParseFloat, fmt.Sscan*) is reachable from an exported Parse* function of package types.",
		Run: runC12,
	})
}

func runC12(p *Prog, r *Report) {
	c12Escapes(p, r)
	c12Constructors(p, r)
	c12Arithmetic(p, r)
	c12ParseErrors(p, r)
	c12UnixMilli(p, r)
	c12LeapRule(p, r)
	c12RuneErrorWidth(p, r)
	c12ZoneDropped(p, r)
	prefixBitsVsConstant(p, r, "R12.8-family-dependent-host-test")
	c12QuoteStripping(p, r, "R12.9-quote-unwrapping")
	c12SignedParse(p, r, "R12.10-no-plus-sign")
	c12LaxLibraryParsers(p, r)
	c12DigitExtractors(p, r, "R12.11-code-point-digits")
	ownedBytesRule(p, r, "R12.13-owned-bytes", 4, pTypes)
}

// R12.7: netip.ParseAddr accepts a zoned IPv6 address ("fe80::1%eth0"); netip.PrefixFrom silently drops the zone. A
// parser that feeds one into the other without looking at Zone() accepts text outside the documented syntax and returns
// a value that is not what was written.
func c12ZoneDropped(p *Prog, r *Report) {
	const rule = "R12.7-no-silent-zone"
	n := 0
	for _, fn := range p.Funcs {
		if fnPkgPath(fn) != pTypes {
			continue
		}
		for _, cl := range callsIn(fn) {
			call, ok := cl.(*ssa.Call)
			if !ok {
				continue
			}
			f := call.Call.StaticCallee()
			if f == nil || fnPkgPath(f) != "net/netip" || f.Name() != "ParseAddr" {
				continue
			}
			addr := extractOf(call, 0)
			if addr == nil {
				continue
			}
			toPrefix, zoneTested := false, false
			usesTransitively(addr, func(in ssa.Instruction) bool {
				if c2, ok := in.(ssa.CallInstruction); ok {
					if g := c2.Common().StaticCallee(); g != nil && fnPkgPath(g) == "net/netip" {
						switch g.Name() {
						case "PrefixFrom":
							toPrefix = true
						case "Zone":
							zoneTested = true
						}
					}
				}
				return true
			})
			// the address may be spilled to a local before its methods are called
			forEachInstr(fn, func(in ssa.Instruction) {
				if c2, ok := in.(ssa.CallInstruction); ok {
					if g := c2.Common().StaticCallee(); g != nil && fnPkgPath(g) == "net/netip" && g.Name() == "Zone" {
						zoneTested = true
					}
					if g := c2.Common().StaticCallee(); g != nil && fnPkgPath(g) == "net/netip" && g.Name() == "PrefixFrom" {
						toPrefix = true
					}
				}
			})
			if !toPrefix {
				continue
			}
			n++
			r.Check(zoneTested, rule, fnQual(fn)+":ParseAddr", p.pos(call.Pos()), "a zoned address is looked at before the zone-less prefix is built",
				fnShort(fn)+" turns the result of netip.ParseAddr into a prefix without looking at its zone: `ip(\"fe80::1%eth0\")` is accepted and the zone silently dropped, although the documented syntax has no zones")
		}
	}
	if n == 0 {
		r.Undec(rule, "types:ip-parser", "-", "no netip.ParseAddr → PrefixFrom path found in package types (anchor vanished)")
	}
}

// R12.6: utf8.DecodeRune* returns (RuneError, 1) for malformed input, but U+FFFD itself is a valid scalar value that
// decodes as (RuneError, 3). A decoder that treats `r == utf8.RuneError` alone as "malformed" rejects a legal character;
// the width must be part of the test. (Two decoders in this repository: one tests both, so the other must too.)
func c12RuneErrorWidth(p *Prog, r *Report) {
	const rule = "R12.6-rune-error-width"
	n := 0
	for _, fn := range p.Funcs {
		if testSupportPkgs[fnPkgPath(fn)] {
			continue
		}
		for _, cl := range callsIn(fn) {
			call, ok := cl.(*ssa.Call)
			if !ok {
				continue
			}
			f := call.Call.StaticCallee()
			if f == nil || fnPkgPath(f) != "unicode/utf8" || !strings.HasPrefix(f.Name(), "Decode") {
				continue
			}
			ch, size := extractOf(call, 0), extractOf(call, 1)
			if ch == nil {
				continue
			}
			comparesErr := false
			for _, rf := range *ch.Referrers() {
				if bo, ok := rf.(*ssa.BinOp); ok && (bo.Op == token.EQL || bo.Op == token.NEQ) {
					for _, o := range []ssa.Value{bo.X, bo.Y} {
						if k, ok := constInt(o); ok && k == 0xFFFD {
							comparesErr = true
						}
					}
				}
			}
			if !comparesErr {
				continue
			}
			n++
			testsWidth := false
			if size != nil {
				for _, rf := range *size.Referrers() {
					if bo, ok := rf.(*ssa.BinOp); ok {
						switch bo.Op {
						case token.EQL, token.NEQ, token.LEQ, token.LSS, token.GTR, token.GEQ:
							testsWidth = true
						}
					}
				}
			}
			construct := fnQual(fn) + ":" + f.Name()
			r.Check(testsWidth, rule, construct, p.pos(call.Pos()), "malformed input is recognised by (RuneError, width 1), so U+FFFD itself is accepted",
				fnShort(fn)+" treats `r == utf8.RuneError` alone as a decoding failure: a validly encoded U+FFFD (which decodes to RuneError with width 3) is rejected, so a string or entity id containing it prints to text that does not parse back")
		}
	}
	if n == 0 {
		r.Undec(rule, "rune-decoders", "-", "no rune decoder that tests for utf8.RuneError was found (anchors vanished)")
	}
}

func c12Arithmetic(p *Prog, r *Report) {
	const rule = "R12.3-arithmetic"
	scope := func(f *ssa.Function) bool {
		return fnPkgPath(f) == pTypes && len(f.Blocks) > 0
	}
	e := newIvEngine(p, scope)
	var fns []*ssa.Function
	for _, fn := range p.Funcs {
		if !scope(fn) || fn.Synthetic != "" {
			continue
		}
		if fn.Origin() != nil && fn.Origin() != fn {
			continue // instances repeat the generic body
		}
		fns = append(fns, fn)
	}
	sort.Slice(fns, func(i, j int) bool { return fns[i].String() < fns[j].String() })
	// exported functions (and closures, which see their captured variables as unknown) are analysed for every argument;
	// unexported ones in the contexts their callers create, or for every argument when nothing in scope calls them
	analysed := map[*ssa.Function]bool{}
	for _, fn := range fns {
		if fn.Parent() == nil && !token.IsExported(fn.Name()) {
			continue
		}
		e.finalize(e.analyze(fn, nil))
		analysed[fn] = true
	}
	for _, fn := range fns {
		if analysed[fn] {
			continue
		}
		have := false
		for k, c := range e.memo {
			if (strings.HasPrefix(k, fnQual(fn)+"|") || k == fnQual(fn)) && c.finalized {
				have = true
			}
		}
		if !have {
			e.finalize(e.analyze(fn, nil))
		}
	}
	for _, k := range sortedObKeys(e.obs) {
		ob := e.obs[k]
		if ob.ok && strings.Contains(ob.reason, "[over-strict") {
			r.Viol("R12.3-exact-guard", ob.key, p.pos(ob.in.Pos()), "the overflow guard of this "+ob.kind+" is stricter than the type's range: "+ob.reason+" — a value at the 64-bit boundary that is representable (the minimum/maximum itself) is rejected, so its printed form does not parse back")
		}
		if ob.ok {
			r.OK(rule, ob.key, p.pos(ob.in.Pos()), "in range: "+ob.reason)
		} else {
			r.Viol(rule, ob.key, p.pos(ob.in.Pos()), "this "+ob.kind+" can leave the range of its type: "+ob.bad+" — the value silently wraps instead of being rejected")
		}
	}
	r.Floor(rule, 40)
}

// ---- R12.1 escape vocabulary ----

// switchTag returns the value in fn that is compared for equality with the largest number of distinct rune/byte
// constants (the tag of its escape switch), and those constants with the instruction of each comparison.
func switchTag(fn *ssa.Function) (ssa.Value, map[int64]*ssa.BinOp) {
	byTag := map[ssa.Value]map[int64]*ssa.BinOp{}
	forEachInstr(fn, func(in ssa.Instruction) {
		bo, ok := in.(*ssa.BinOp)
		if !ok || bo.Op != token.EQL {
			return
		}
		tag, cv := bo.X, bo.Y
		if _, isC := tag.(*ssa.Const); isC {
			tag, cv = cv, tag
		}
		n, ok := constInt(cv)
		if !ok {
			return
		}
		if byTag[tag] == nil {
			byTag[tag] = map[int64]*ssa.BinOp{}
		}
		byTag[tag][n] = bo
	})
	var best ssa.Value
	for t, m := range byTag {
		if best == nil || len(m) > len(byTag[best]) || (len(m) == len(byTag[best]) && t.Name() < best.Name()) {
			best = t
		}
	}
	return best, byTag[best]
}

func runeSet(m map[int64]*ssa.BinOp) string {
	var ks []int
	for k := range m {
		ks = append(ks, int(k))
	}
	sort.Ints(ks)
	var sb strings.Builder
	for _, k := range ks {
		sb.WriteString(strconvQuoteRune(rune(k)))
	}
	return sb.String()
}

func strconvQuoteRune(r rune) string {
	if r < 32 || r == 127 {
		return "\\x" + "0123456789abcdef"[r>>4:r>>4+1] + "0123456789abcdef"[r&15:r&15+1]
	}
	return string(r)
}

func c12Escapes(p *Prog, r *Report) {
	const rule = "R12.1-escape-vocabulary"
	wr := p.fn(pRust, "escapeRune")
	rd := p.fn(pRust, "Unquote")
	sc := p.fn(pParser, "scanner.scanEscape")
	if wr == nil || rd == nil || sc == nil {
		r.Anchor(rule, "rust.escapeRune / rust.Unquote / parser.scanner.scanEscape")
		return
	}
	// reader table: escape character -> rune written
	_, rdCases := switchTag(rd)
	reader := map[int64]int64{}
	readerCalls := map[int64]string{}
	for c, bo := range rdCases {
		iff := ifUsing(bo)
		if iff == nil {
			continue
		}
		body := iff.Block().Succs[0]
		for _, in := range body.Instrs {
			call, ok := in.(*ssa.Call)
			if !ok {
				continue
			}
			if f := call.Call.StaticCallee(); f != nil {
				if f.Name() == "WriteRune" && len(call.Call.Args) == 2 {
					if n, ok := constInt(call.Call.Args[1]); ok {
						reader[c] = n
					}
				}
				if fnPkgPath(f) == pRust {
					readerCalls[c] = f.Name()
				}
			}
		}
	}
	// writer table: rune -> escape text
	_, wrCases := switchTag(wr)
	nW := 0
	for c, bo := range wrCases {
		iff := ifUsing(bo)
		if iff == nil {
			continue
		}
		ret, ok := lastInstr(iff.Block().Succs[0]).(*ssa.Return)
		if !ok {
			continue
		}
		s, ok := constString(ret.Results[0])
		if !ok {
			continue
		}
		nW++
		good := len(s) == 2 && s[0] == '\\'
		if good {
			back, have := reader[int64(s[1])]
			good = have && back == c
		}
		r.Check(good, rule, "rust.escapeRune:"+strconvQuoteRune(rune(c)), p.pos(ret.Pos()), "written as "+s+", which the reader turns back into the same character",
			"the writer renders "+strconvQuoteRune(rune(c))+" as `"+s+"`, which rust.Unquote does not read back as that character")
	}
	r.Check(nW >= 7, rule, "rust.escapeRune:table", p.pos(wr.Pos()), itoa(nW)+" single-character escapes extracted", "expected at least 7 single-character escapes in rust.escapeRune, found "+itoa(nW))
	// every other escape the writer can produce is built by one format
	forEachInstr(wr, func(in ssa.Instruction) {
		call, ok := in.(*ssa.Call)
		if !ok {
			return
		}
		f := call.Call.StaticCallee()
		if f == nil || fnPkgPath(f) != "fmt" {
			return
		}
		fs, ok := constString(call.Call.Args[0])
		_, hasU := rdCases['u']
		r.Check(ok && fs == `\u{%x}` && hasU && readerCalls['u'] == "parseUnicodeEscape", rule, "rust.escapeRune:format:"+fs, p.pos(call.Pos()), "numeric escapes use \\u{hex}, which the reader parses",
			"the writer formats an escape with `"+fs+"`; the reader only understands \\u{hex} (and \\xHH below 0x80)")
	})
	// the tokenizer must let through exactly what Unquote understands
	_, scCases := switchTag(sc)
	r.Check(runeSet(scCases) == runeSet(rdCases), rule, "parser.scanEscape~rust.Unquote", p.pos(sc.Pos()), "tokenizer and unquoter accept the same escape characters: "+runeSet(rdCases),
		"the tokenizer accepts the escape characters ["+runeSet(scCases)+"] but rust.Unquote understands ["+runeSet(rdCases)+"]")
	// who may quote: nothing reachable from a Cedar text emitter uses Go's quoting
	cg := p.CG()
	var roots []*ssa.Function
	for _, fn := range p.Funcs {
		if !p.inRepo(fn) || testSupportPkgs[fnPkgPath(fn)] {
			continue
		}
		if n := fn.Name(); n == "MarshalCedar" || n == "marshalCedar" {
			roots = append(roots, fn)
		}
	}
	r.Check(len(roots) >= 20, rule, "emitters", "-", itoa(len(roots))+" Cedar text emitters found", "expected at least 20 MarshalCedar/marshalCedar functions, found "+itoa(len(roots)))
	seen := map[*ssa.Function]bool{}
	work := append([]*ssa.Function{}, roots...)
	for len(work) > 0 {
		fn := work[len(work)-1]
		work = work[:len(work)-1]
		if seen[fn] {
			continue
		}
		seen[fn] = true
		if n := cg.Nodes[fn]; n != nil {
			for _, e := range n.Out {
				if c := e.Callee.Func; c != nil && p.inRepo(c) && !seen[c] {
					work = append(work, c)
				}
			}
		}
		for _, a := range fn.AnonFuncs {
			work = append(work, a)
		}
	}
	var fns []*ssa.Function
	for fn := range seen {
		fns = append(fns, fn)
	}
	sort.Slice(fns, func(i, j int) bool { return fns[i].String() < fns[j].String() })
	nQ := 0
	for _, fn := range fns {
		forEachInstr(fn, func(in ssa.Instruction) {
			call, ok := in.(ssa.CallInstruction)
			if !ok {
				return
			}
			f := call.Common().StaticCallee()
			if f == nil {
				return
			}
			switch fnPkgPath(f) {
			case "strconv":
				if strings.Contains(f.Name(), "Quote") && !strings.HasPrefix(f.Name(), "Unquote") {
					nQ++
					r.Viol(rule, fnQual(fn)+":"+f.Name(), p.pos(in.Pos()), "strconv."+f.Name()+" is reachable from a Cedar text emitter: Go's escapes (\\a \\b \\f \\v \\xNN \\uNNNN) are not in the Cedar reader's vocabulary, so such text does not parse back")
				}
			case "fmt":
				if f.Name() == "Errorf" || len(call.Common().Args) == 0 {
					return
				}
				for _, a := range call.Common().Args[:min(2, len(call.Common().Args))] {
					if fs, ok := constString(a); ok && (strings.Contains(fs, "%q") || strings.Contains(fs, "%+q") || strings.Contains(fs, "%#q")) {
						nQ++
						r.Viol(rule, fnQual(fn)+":%q", p.pos(in.Pos()), "a %q verb is reachable from a Cedar text emitter: Go's quoting is not the Cedar reader's vocabulary")
					}
				}
			}
		})
	}
	if nQ == 0 {
		r.OK(rule, "emitters:no-go-quoting", "-", itoa(len(fns))+" functions reachable from the emitters use no Go quoting")
	}
}

func ifUsing(v ssa.Value) *ssa.If {
	for _, ref := range *v.Referrers() {
		if iff, ok := ref.(*ssa.If); ok {
			return iff
		}
	}
	return nil
}

// ---- R12.5 range test before UnixMilli ----

func c12UnixMilli(p *Prog, r *Report) {
	const rule = "R12.5-range-before-unixmilli"
	allow := map[string]string{
		"types.NewDatetime": "documented: the result is undefined outside the int64 millisecond range and the constructor has no error result",
	}
	minG, maxG := globalNamed(p, pTypes, "minDatetime"), globalNamed(p, pTypes, "maxDatetime")
	if minG == nil || maxG == nil {
		r.Anchor(rule, "types.minDatetime / types.maxDatetime")
		return
	}
	n := 0
	for _, fn := range p.Funcs {
		if fnPkgPath(fn) != pTypes || len(fn.Blocks) == 0 {
			continue
		}
		forEachInstr(fn, func(in ssa.Instruction) {
			call, ok := in.(*ssa.Call)
			if !ok {
				return
			}
			f := call.Call.StaticCallee()
			if f == nil {
				return
			}
			// the unchecked constructor is for callers outside the package; inside it, handing it a timestamp is the
			// same conversion and needs the same test
			laundered := allow[fnQual(f)] != "" && len(call.Call.Args) == 1
			if !laundered && (fnPkgPath(f) != "time" || !(fnShort(f) == "Time.UnixMilli" || fnShort(f) == "Time.UnixMicro" || fnShort(f) == "Time.UnixNano")) {
				return
			}
			n++
			q := fnQual(fn)
			if why, ok := allow[q]; ok {
				r.OK(rule, q+":"+f.Name(), p.pos(call.Pos()), "allowed: "+why)
				return
			}
			recv := call.Call.Args[0]
			var lo, hi bool
			for _, g := range ivGuards(call.Block()) {
				c, ok := g.Cond.(*ssa.Call)
				if !ok || g.Pol {
					continue
				}
				cf := c.Call.StaticCallee()
				if cf == nil || fnPkgPath(cf) != "time" || len(c.Call.Args) != 2 || termKey(c.Call.Args[0], 0) != termKey(recv, 0) {
					continue
				}
				ld, ok := c.Call.Args[1].(*ssa.UnOp)
				if !ok {
					continue
				}
				if fnShort(cf) == "Time.Before" && ld.X == ssa.Value(minG) {
					lo = true
				}
				if fnShort(cf) == "Time.After" && ld.X == ssa.Value(maxG) {
					hi = true
				}
			}
			r.Check(lo && hi, rule, q+":"+f.Name(), p.pos(call.Pos()), "the timestamp is compared with minDatetime and maxDatetime before conversion",
				f.Name()+"() is called on a timestamp that has not been compared with both minDatetime and maxDatetime on this path: outside that range the result wraps silently")
		})
	}
	r.Check(n >= 2, rule, "sites", "-", itoa(n)+" conversion sites", "expected at least 2 UnixMilli conversion sites in package types, found "+itoa(n))
	// the two bounds are the extreme int64 millisecond timestamps
	for _, gb := range []struct {
		g    *ssa.Global
		want time.Time
	}{{minG, time.UnixMilli(math.MinInt64).UTC()}, {maxG, time.UnixMilli(math.MaxInt64).UTC()}} {
		ok := false
		var pos token.Pos
		for _, fn := range p.Funcs {
			if fn.Pkg == nil || fn.Pkg != gb.g.Pkg || fn.Name() != "init" {
				continue
			}
			forEachInstr(fn, func(in ssa.Instruction) {
				st, isSt := in.(*ssa.Store)
				if !isSt || st.Addr != ssa.Value(gb.g) {
					return
				}
				pos = st.Pos()
				c, isC := st.Val.(*ssa.Call)
				if !isC || c.Call.StaticCallee() == nil || fnPkgPath(c.Call.StaticCallee()) != "time" || c.Call.StaticCallee().Name() != "Date" || len(c.Call.Args) != 8 {
					return
				}
				var a [7]int64
				for i := 0; i < 7; i++ {
					v, okc := constInt(stripConv(c.Call.Args[i]))
					if !okc {
						return
					}
					a[i] = v
				}
				w := gb.want
				ok = a[0] == int64(w.Year()) && a[1] == int64(w.Month()) && a[2] == int64(w.Day()) && a[3] == int64(w.Hour()) && a[4] == int64(w.Minute()) && a[5] == int64(w.Second()) && a[6] == int64(w.Nanosecond())
			})
		}
		r.Check(ok, rule, "types."+gb.g.Name()+":value", p.pos(pos), "equals "+gb.want.Format(time.RFC3339Nano), "the bound "+gb.g.Name()+" is not the extreme representable timestamp "+gb.want.Format(time.RFC3339Nano))
	}
}

func ivGuards(b *ssa.BasicBlock) []Guard {
	var out []Guard
	for _, g := range guardsAt(b) {
		for _, x := range expandGuard(g, 0) {
			out = append(out, flattenGuard(x))
		}
	}
	return out
}

func globalNamed(p *Prog, pkg, name string) *ssa.Global {
	sp := p.SSAPkg[pkg]
	if sp == nil {
		return nil
	}
	g, _ := sp.Members[name].(*ssa.Global)
	return g
}

// ---- R12.2 constructor round trip ----

func c12Constructors(p *Prog, r *Report) {
	const rule = "R12.2-constructor-round-trip"
	evalParse := extParseFuncs(p)
	if evalParse == nil {
		r.Anchor(rule, "eval.newExtensionEval")
		return
	}
	kinds := []string{"Decimal", "IPAddr", "Datetime", "Duration"}
	for _, k := range kinds {
		nt := p.namedType(pTypes, k)
		if nt == nil {
			r.Anchor(rule, "types."+k)
			continue
		}
		mc, mj := methodOf(p, nt, "MarshalCedar"), methodOf(p, nt, "MarshalJSON")
		uj := methodOf(p, types.NewPointer(nt), "UnmarshalJSON")
		if mc == nil || mj == nil || uj == nil {
			r.Anchor(rule, "types."+k+" codec methods")
			continue
		}
		// text form: name(" + String() + ")
		name, closes, str := "", false, false
		forEachInstr(mc, func(in ssa.Instruction) {
			if bo, ok := in.(*ssa.BinOp); ok && bo.Op == token.ADD {
				for _, o := range []ssa.Value{bo.X, bo.Y} {
					if s, ok := constString(o); ok {
						if strings.HasSuffix(s, `("`) {
							name = strings.TrimSuffix(s, `("`)
						}
						if s == `")` {
							closes = true
						}
					}
				}
			}
			if c, ok := in.(*ssa.Call); ok {
				if f := c.Call.StaticCallee(); f != nil && f.Name() == "String" && f.Signature.Recv() != nil && namedOf(f.Signature.Recv().Type()) == nt {
					str = true
				}
			}
		})
		ep := evalParse[name]
		okParse := ep != nil && ep.Signature.Results().Len() == 2 && namedOf(ep.Signature.Results().At(0).Type()) == nt
		r.Check(name != "" && closes && str && okParse, rule, "types."+k+".MarshalCedar", p.pos(mc.Pos()), "renders "+name+`("<String()>")`+", and the language's `"+name+"` constructor parses with "+fnNameOr(ep),
			"the Cedar rendering of a "+k+" must be <ctor>(\"<String()>\") where <ctor> is the extension constructor whose evaluator calls the "+k+" parser (found name `"+name+"`, parser "+fnNameOr(ep)+")")
		// JSON: same name written and expected, same parser
		wrote := ""
		forEachInstr(mj, func(in ssa.Instruction) {
			if st, ok := in.(*ssa.Store); ok {
				if _, f := fieldAddrName(st.Addr); f == "Fn" {
					if s, ok := constString(st.Val); ok {
						wrote = s
					}
				}
			}
		})
		want, parser := "", (*ssa.Function)(nil)
		for _, c := range callsIn(uj) {
			f := c.Common().StaticCallee()
			if f == nil || fnBase(f) != "unmarshalExtensionValue" || len(c.Common().Args) != 3 {
				continue
			}
			want, _ = constString(c.Common().Args[1])
			switch fv := c.Common().Args[2].(type) {
			case *ssa.Function:
				parser = fv
			case *ssa.MakeClosure:
				parser, _ = fv.Fn.(*ssa.Function)
			}
		}
		r.Check(wrote != "" && wrote == want && wrote == name && parser != nil && parser == ep, rule, "types."+k+":json", p.pos(mj.Pos()), "JSON form uses fn `"+wrote+"` in both directions and the same parser as the text form",
			"the JSON encoder writes fn `"+wrote+"`, the decoder expects `"+want+"` (text constructor `"+name+"`), decoder parser "+fnNameOr(parser)+", text parser "+fnNameOr(ep)+": they must all agree")
	}
}

func fnNameOr(f *ssa.Function) string {
	if f == nil {
		return "<none>"
	}
	return fnQual(f)
}

// ---- R12.4 parse-error discipline ----

// c12ParseErrors: in package types, the value returned by a fallible parser is used only where its error is known to
// be nil.
func c12ParseErrors(p *Prog, r *Report) {
	const rule = "R12.4-parse-error-discipline"
	isParser := func(f *ssa.Function) bool {
		if f == nil || f.Signature.Results().Len() < 2 || !isErrorType(f.Signature.Results().At(f.Signature.Results().Len()-1).Type()) {
			return false
		}
		switch fnPkgPath(f) {
		case "strconv":
			return strings.HasPrefix(f.Name(), "Parse") || f.Name() == "Atoi"
		case "net/netip":
			return strings.HasPrefix(f.Name(), "Parse")
		case pRust:
			return f.Name() == "Unquote"
		case pTypes:
			return strings.HasPrefix(fnBase(f), "Parse") || fnBase(f) == "parseUint" || fnBase(f) == "expectChar" || fnBase(f) == "newDecimal" || fnBase(f) == "unmarshalExtensionValue"
		}
		return false
	}
	n := 0
	for _, fn := range p.Funcs {
		if fnPkgPath(fn) != pTypes || len(fn.Blocks) == 0 || fn.Synthetic != "" {
			continue
		}
		if fn.Origin() != nil && fn.Origin() != fn {
			continue
		}
		for _, c := range callsIn(fn) {
			call, ok := c.(*ssa.Call)
			if !ok || !isParser(call.Call.StaticCallee()) {
				continue
			}
			f := call.Call.StaticCallee()
			nres := f.Signature.Results().Len()
			errEx := extractOf(call, nres-1)
			n++
			key := fnQual(fn) + ":" + fnBase(f)
			// tail call: the whole tuple is returned
			tail := false
			for _, ref := range *call.Referrers() {
				if _, ok := ref.(*ssa.Return); ok {
					tail = true
				}
			}
			if tail {
				r.OK(rule, key, p.pos(call.Pos()), "result and error are returned together")
				continue
			}
			bad := ""
			for i := 0; i < nres-1; i++ {
				ex := extractOf(call, i)
				if ex == nil {
					continue
				}
				for _, use := range usesThroughSpill(ex) {
					ub := use.Block()
					var edge []Guard
					if ph, ok := use.(*ssa.Phi); ok {
						// a value merged at a join is used on the incoming edge (with that edge's own condition)
						for j, e := range ph.Edges {
							if e == ssa.Value(ex) {
								ub = ph.Block().Preds[j]
								if iff, ok := lastInstr(ub).(*ssa.If); ok && ub.Succs[0] != ub.Succs[1] {
									edge = append(edge, flattenGuard(Guard{Cond: iff.Cond, Pol: ub.Succs[0] == ph.Block(), If: iff}))
								}
							}
						}
					}
					if ret, ok := use.(*ssa.Return); ok {
						// returned together with its own (possibly non-nil) error
						if errEx != nil && retLast(ret) == ssa.Value(errEx) {
							continue
						}
					}
					if errEx == nil {
						bad = "the error result is discarded"
						break
					}
					okUse := false
					for _, g := range append(ivGuards(ub), edge...) {
						bo, ok := g.Cond.(*ssa.BinOp)
						if !ok {
							continue
						}
						if (bo.X == ssa.Value(errEx) && isNilConst(bo.Y)) || (bo.Y == ssa.Value(errEx) && isNilConst(bo.X)) {
							if (bo.Op == token.NEQ && !g.Pol) || (bo.Op == token.EQL && g.Pol) {
								okUse = true
							}
						}
					}
					if !okUse {
						bad = "its value is used at " + p.pos(use.Pos()) + " where the error has not been shown to be nil"
						break
					}
				}
			}
			r.Check(bad == "", rule, key, p.pos(call.Pos()), "the parsed value is used only under err == nil", "the result of "+fnBase(f)+" is not protected by its error: "+bad)
		}
	}
	r.Check(n >= 15, rule, "sites", "-", itoa(n)+" fallible parser calls", "expected at least 15 fallible parser calls in package types, found "+itoa(n))
}

// extParseFuncs: extension constructor name -> the types.Parse* function its evaluator calls.
func extParseFuncs(p *Prog) map[string]*ssa.Function {
	// eval side: extension name -> parse function reached from the constructor's evaluator
	evalParse := map[string]*ssa.Function{}
	nee := p.fn(pEval, "newExtensionEval")
	if nee == nil {
		return nil
	}
	info := p.Pkgs[pEval].TypesInfo
	if fd := funcDecl(nee); fd != nil {
		ast.Inspect(fd, func(n ast.Node) bool {
			cc, ok := n.(*ast.CaseClause)
			if !ok || len(cc.List) != 1 || len(cc.Body) != 1 {
				return true
			}
			tv := info.Types[cc.List[0]]
			if tv.Value == nil || tv.Value.Kind() != constant.String {
				return true
			}
			ret, ok := cc.Body[0].(*ast.ReturnStmt)
			if !ok || len(ret.Results) != 1 {
				return true
			}
			call, ok := ret.Results[0].(*ast.CallExpr)
			if !ok {
				return true
			}
			id, ok := call.Fun.(*ast.Ident)
			if !ok {
				return true
			}
			ctor := p.fn(pEval, id.Name)
			if ctor == nil {
				return true
			}
			// the evaluator type the constructor builds
			for _, b := range ctor.Blocks {
				ret, ok := lastInstr(b).(*ssa.Return)
				if !ok || len(ret.Results) != 1 {
					continue
				}
				rt := ret.Results[0].Type()
				if mi, ok := ret.Results[0].(*ssa.MakeInterface); ok {
					rt = mi.X.Type()
				}
				ev := methodOf(p, rt, "Eval")
				if ev == nil {
					continue
				}
				for _, c := range callsIn(ev) {
					if f := c.Common().StaticCallee(); f != nil && fnPkgPath(f) == pTypes && strings.HasPrefix(f.Name(), "Parse") {
						evalParse[constant.StringVal(tv.Value)] = f
					}
				}
			}
			return true
		})
	}
	return evalParse
}

// prefixBitsVsConstant: whether an IP value is a single host depends on the address family (32 bits for IPv4, 128 for
// IPv6): the test must compare the prefix length with the address's own bit length. Comparing Prefix.Bits() with the
// constants 32 or 128 confuses an IPv6 /32 range with an IPv4 host (the printed / encoded form then loses its prefix).
func prefixBitsVsConstant(p *Prog, r *Report, rule string) {
	n := 0
	for _, fn := range p.Funcs {
		if fnPkgPath(fn) != pTypes {
			continue
		}
		bitsVals := map[ssa.Value]bool{}
		for _, cl := range callsIn(fn) {
			if call, ok := cl.(*ssa.Call); ok {
				if f := call.Call.StaticCallee(); f != nil && fnPkgPath(f) == "net/netip" && f.Name() == "Bits" {
					bitsVals[call] = true
				}
			}
		}
		if len(bitsVals) == 0 {
			continue
		}
		forEachInstr(fn, func(in ssa.Instruction) {
			bo, ok := in.(*ssa.BinOp)
			if !ok || (bo.Op != token.EQL && bo.Op != token.NEQ) {
				return
			}
			var other ssa.Value
			switch {
			case bitsVals[bo.X]:
				other = bo.Y
			case bitsVals[bo.Y]:
				other = bo.X
			default:
				return
			}
			n++
			k, isConst := constInt(other)
			r.Check(!(isConst && (k == 32 || k == 128)), rule, fnQual(fn)+":single-host-test", p.pos(bo.Pos()), "the single-host test compares the prefix length with the address's own bit length",
				fnShort(fn)+" decides whether an IP value is a single host by comparing its prefix length with the constant "+itoa(int(k))+": an IPv6 /32 range (or an IPv4-sized test on IPv6) is taken for a host and loses its prefix length in this form")
		})
	}
	if n == 0 {
		r.Undec(rule, "types:single-host-tests", "-", "no single-host test (Prefix.Bits() == …) found in package types (anchor vanished)")
	}
}

// R12.9: a quoted literal is unwrapped by removing exactly one quote at each end (slicing, TrimPrefix/TrimSuffix).
// strings.Trim/TrimLeft/TrimRight with a cutset that contains the quote removes *every* leading or trailing quote, so a
// value whose text ends in an (escaped) quote — `T::"a\""` — loses part of its own content and no longer parses.
func c12QuoteStripping(p *Prog, r *Report, rule string) {
	n := 0
	for _, fn := range p.Funcs {
		pp := fnPkgPath(fn)
		if pp != pTypes && pp != pParser && pp != pRust && pp != pSchemaPar {
			continue
		}
		for _, cl := range callsIn(fn) {
			f := cl.Common().StaticCallee()
			if f == nil || (fnPkgPath(f) != "strings" && fnPkgPath(f) != "bytes") {
				continue
			}
			switch f.Name() {
			case "TrimPrefix", "TrimSuffix", "CutPrefix", "CutSuffix":
				if len(cl.Common().Args) == 2 {
					if s, ok := constString(cl.Common().Args[1]); ok && strings.Contains(s, `"`) {
						n++
						r.OK(rule, fnQual(fn)+":"+f.Name(), p.pos(cl.Pos()), "one quote is removed from one end")
					}
				}
			case "Trim", "TrimLeft", "TrimRight":
				if len(cl.Common().Args) == 2 {
					if s, ok := constString(cl.Common().Args[1]); ok && strings.Contains(s, `"`) {
						n++
						r.Viol(rule, fnQual(fn)+":"+f.Name(), p.pos(cl.Pos()), fnShort(fn)+" unwraps a quoted literal with strings."+f.Name()+"(…, "+strconvQuote(s)+"), which strips every leading/trailing quote character: a value whose text ends in an escaped quote loses it and its printed form no longer parses back")
					}
				}
			}
		}
	}
	if n == 0 {
		r.Undec(rule, "quote-unwrapping", "-", "no quote-unwrapping call found in the text codecs (anchors vanished)")
	}
}

func strconvQuote(s string) string { return "`" + s + "`" }

// R12.10: strconv.ParseInt / Atoi accept a leading '+'. The documented literals allow at most a '-' sign, so a text parser
// that hands a piece of its input to them must have excluded '+' itself (a comparison of an input byte with '+', or a
// prefix test). (ParseUint takes no sign and needs nothing.)
func c12SignedParse(p *Prog, r *Report, rule string) {
	n := 0
	for _, fn := range p.Funcs {
		if fnPkgPath(fn) != pTypes || fn.Parent() != nil {
			continue
		}
		strParams := map[ssa.Value]bool{}
		for _, pr := range fn.Params {
			if basicKind(pr.Type()) == types.String {
				strParams[pr] = true
			}
		}
		if len(strParams) == 0 {
			continue
		}
		var fromInput func(v ssa.Value) bool
		seenIn := map[ssa.Value]bool{}
		fromInput = func(v ssa.Value) bool {
			if v == nil || seenIn[v] {
				return false
			}
			seenIn[v] = true
			if strParams[v] {
				return true
			}
			switch x := v.(type) {
			case *ssa.Slice:
				return fromInput(x.X)
			case *ssa.Phi:
				for _, e := range x.Edges {
					if fromInput(e) {
						return true
					}
				}
			case *ssa.Extract:
				return fromInput(x.Tuple)
			case *ssa.Call:
				// pieces cut out of the input by the strings package (Cut, TrimPrefix, Split…)
				if g := x.Call.StaticCallee(); g != nil && fnPkgPath(g) == "strings" {
					for _, a := range x.Call.Args {
						if fromInput(a) {
							return true
						}
					}
				}
			case *ssa.UnOp:
				if ia, ok := x.X.(*ssa.IndexAddr); ok {
					return fromInput(ia.X)
				}
			}
			return false
		}
		for _, cl := range callsIn(fn) {
			f := cl.Common().StaticCallee()
			if f == nil || fnPkgPath(f) != "strconv" || (f.Name() != "ParseInt" && f.Name() != "Atoi") || len(cl.Common().Args) == 0 || !fromInput(cl.Common().Args[0]) {
				continue
			}
			n++
			excludesPlus := false
			forEachInstr(fn, func(in ssa.Instruction) {
				switch x := in.(type) {
				case *ssa.BinOp:
					if x.Op == token.EQL || x.Op == token.NEQ {
						for _, o := range []ssa.Value{x.X, x.Y} {
							if k, ok := constInt(o); ok && k == '+' {
								excludesPlus = true
							}
						}
					}
				case ssa.CallInstruction:
					if g := x.Common().StaticCallee(); g != nil && fnPkgPath(g) == "strings" && (g.Name() == "HasPrefix" || g.Name() == "ContainsAny" || g.Name() == "ContainsRune" || g.Name() == "IndexByte") {
						for _, a := range x.Common().Args {
							if s, ok := constString(a); ok && strings.Contains(s, "+") {
								excludesPlus = true
							}
							if k, ok := constInt(a); ok && k == '+' {
								excludesPlus = true
							}
						}
					}
				}
			})
			r.Check(excludesPlus, rule, fnQual(fn)+":"+f.Name(), p.pos(cl.Pos()), "a leading '+' is excluded before the signed conversion",
				fnShort(fn)+" hands part of its input to strconv."+f.Name()+", which accepts a leading '+', and never looks for one: `+1.0`-style literals are accepted although the documented syntax has only an optional '-'")
		}
	}
	if n == 0 {
		r.Undec(rule, "types:signed-conversions", "-", "no strconv.ParseInt/Atoi on input text found in package types (anchor vanished)")
	}
}

// R12.11: code points go up to 0x10FFFF (21 bits). A hand-written digit extractor that shifts a rune by a loop variable
// must start high enough to reach the top bits: with hexadecimal digits (step 4) the first shift must be at least 20,
// or the top digit of every code point ≥ 0x100000 is dropped and `\u{10ffff}` is printed as `\u{ffff}` — which parses,
// to a different character. (Zero instances today: the escape writer formats with fmt's %x.)
func c12DigitExtractors(p *Prog, r *Report, rule string) {
	n := 0
	for _, fn := range p.Funcs {
		pp := fnPkgPath(fn)
		if pp != pRust && pp != pTypes && pp != pSchemaPar {
			continue
		}
		forEachInstr(fn, func(in ssa.Instruction) {
			bo, ok := in.(*ssa.BinOp)
			if !ok || bo.Op != token.SHR || basicKind(bo.X.Type()) != types.Int32 {
				return
			}
			ph, ok := stripConv(bo.Y).(*ssa.Phi)
			if !ok {
				if cv, ok := bo.Y.(*ssa.Convert); ok {
					ph, _ = cv.X.(*ssa.Phi)
				}
			}
			if ph == nil {
				return
			}
			// loop variable: phi(const start, phi - step)
			start, step := int64(-1), int64(0)
			for _, e := range ph.Edges {
				if k, ok := constInt(e); ok {
					start = k
				}
				if sb, ok := e.(*ssa.BinOp); ok && sb.Op == token.SUB && sb.X == ssa.Value(ph) {
					if k, ok := constInt(sb.Y); ok {
						step = k
					}
				}
			}
			if start < 0 || step <= 0 {
				return
			}
			n++
			r.Check(start+step >= 21, rule, fnQual(fn)+":shift-from-"+itoa(int(start)), p.pos(bo.Pos()), "the digit extractor covers all 21 bits of a code point",
				fnShort(fn)+" extracts digits of a code point by shifting from "+itoa(int(start))+" down in steps of "+itoa(int(step))+": only "+itoa(int(start+step))+" bits are covered, code points up to 0x10FFFF need 21 — the top digit of the highest plane is dropped and the printed escape denotes a different character")
		})
	}
	if n == 0 {
		r.OK(rule, "no-hand-written-digit-extraction", "-", "no shift-based digit extraction of code points in the text emitters (fmt/strconv format them)")
	}
}

// ---- R12.12 a hand-written leap-year rule is the whole Gregorian rule ----

// c12LeapRule: the library validates days by normalising through time.Date. If a function in the value packages instead
// takes a year modulo 4 and modulo 100 it is computing leap years by hand, and then it must also take it modulo 400:
// without the third clause 1600, 2000, 2400 … lose their February 29th (or gain one with the clauses inverted). This is a
// contradiction rule with no instance on today's tree; a break entry in the self-test catalogue keeps it alive.
func c12LeapRule(p *Prog, r *Report) {
	const rule = "R12.12-gregorian-leap-rule"
	n := 0
	for _, fn := range p.Funcs {
		pp := fnPkgPath(fn)
		if (pp != pTypes && pp != pEval) || len(fn.Blocks) == 0 {
			continue
		}
		mods := map[ssa.Value]map[int64]token.Pos{}
		forEachInstr(fn, func(in ssa.Instruction) {
			bo, ok := in.(*ssa.BinOp)
			if !ok || bo.Op != token.REM {
				return
			}
			k, isK := constInt(bo.Y)
			if !isK || (k != 4 && k != 100 && k != 400) {
				return
			}
			x := stripConv(bo.X)
			if mods[x] == nil {
				mods[x] = map[int64]token.Pos{}
			}
			mods[x][k] = bo.Pos()
		})
		for x, m := range mods {
			if _, has4 := m[4]; !has4 {
				continue
			}
			if _, has100 := m[100]; !has100 {
				continue
			}
			n++
			_, has400 := m[400]
			r.Check(has400, rule, fnQual(fn)+":"+describeVal(x), p.pos(m[100]), "a year taken modulo 4 and 100 is also taken modulo 400",
				fnQual(fn)+" takes "+describeVal(x)+" modulo 4 and modulo 100 but never modulo 400: as a leap-year rule this gets the years divisible by 400 wrong (2000-02-29 is a valid date)")
		}
	}
	if n == 0 {
		r.OK(rule, "no-hand-written-leap-rule", "-", "no function of the value packages computes leap years by hand (dates are validated by normalising through time.Date)")
	}
}

// R12.14 — no lax library parser in front of an exact one. The text forms of datetime, duration and decimal are small exact
// grammars; the standard library's general-purpose readers accept more (time.Parse takes a seconds fraction of any length
// after the seconds whether or not the layout has one, fmt.Sscan* skips space and stops early, strconv.ParseFloat knows
// exponents, hex floats, inf and nan, time.ParseDuration has its own unit set). A parser of package types that reaches one
// of them on a path to success accepts text outside the documented form. Zero instances today; the rule's anchor is the
// set of exported Parse* functions.
func c12LaxLibraryParsers(p *Prog, r *Report) {
	const rule = "R12.14-no-lax-library-parser"
	lax := map[string]string{
		"time.Parse": "accepts a fractional second of any length (with '.' or ',') after the seconds even if the layout has none",
		"time.ParseInLocation": "accepts a fractional second of any length after the seconds even if the layout has none",
		"time.ParseDuration": "has its own unit vocabulary (ns, us, µs) and fractions",
		"strconv.ParseFloat": "accepts exponents, hex floats, underscores, inf and nan",
		"fmt.Sscanf": "skips white space and ignores trailing input", "fmt.Sscan": "skips white space and ignores trailing input", "fmt.Sscanln": "skips white space",
	}
	var roots []*ssa.Function
	for _, fn := range p.Funcs {
		if fnPkgPath(fn) == pTypes && fn.Parent() == nil && fn.Signature.Recv() == nil && strings.HasPrefix(fn.Name(), "Parse") && token.IsExported(fn.Name()) && len(fn.Blocks) > 0 {
			roots = append(roots, fn)
		}
	}
	if len(roots) < 3 {
		r.Anchor(rule, "exported Parse* functions of package types (found "+itoa(len(roots))+")")
		return
	}
	sort.Slice(roots, func(i, j int) bool { return roots[i].String() < roots[j].String() })
	for _, root := range roots {
		bad := ""
		for f := range reachFrom(p, []*ssa.Function{root}) {
			for _, g := range withAnon(f) {
				for _, cl := range callsIn(g) {
					if h := cl.Common().StaticCallee(); h != nil {
						if why, isLax := lax[stdName(h)]; isLax {
							bad = stdName(h) + " (" + why + "), called from " + fnShort(g) + " at " + p.pos(cl.Pos())
						}
					}
				}
			}
		}
		r.Check(bad == "", rule, fnQual(root), p.pos(root.Pos()), "reads its text form itself (no general-purpose library parser on the way)",
			fnShort(root)+" reaches "+bad+": text outside the documented form is accepted (and may be silently truncated), so a value's accepted spellings are no longer exactly the canonical grammar")
	}
}
