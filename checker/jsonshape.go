package main

// E9: JSON shape extraction. For a Go type, compute the shape of the documents encoding/json WRITES for it and the
// shape its decoder READS, following hand-written MarshalJSON / UnmarshalJSON methods into the values they hand to
// json.Marshal / json.Unmarshal. Comparing the two decides "every key that is written at a path is read at that path,
// with a compatible kind" — a necessary condition of any JSON round trip — without running either codec.

import (
	"go/token"
	"go/types"
	"reflect"
	"sort"
	"strings"

	"golang.org/x/tools/go/ssa"
)

type jsh struct {
	Kind   string // object, array, map, string, number, bool, any, alt, ref, opaque
	Fields map[string]*jsh
	Opt    map[string]bool
	Elem   *jsh
	Alts   []*jsh
	Src    string
}

func (s *jsh) String() string { return s.str(0) }

func (s *jsh) str(d int) string {
	if s == nil {
		return "nil"
	}
	if d > 4 {
		return "…"
	}
	switch s.Kind {
	case "object":
		var ks []string
		for k := range s.Fields {
			ks = append(ks, k)
		}
		sort.Strings(ks)
		var parts []string
		for _, k := range ks {
			o := ""
			if s.Opt[k] {
				o = "?"
			}
			parts = append(parts, k+o+":"+s.Fields[k].str(d+1))
		}
		return "{" + strings.Join(parts, ",") + "}"
	case "array":
		return "[" + s.Elem.str(d+1) + "]"
	case "map":
		return "{*:" + s.Elem.str(d+1) + "}"
	case "alt":
		var parts []string
		for _, a := range s.Alts {
			parts = append(parts, a.str(d+1))
		}
		return "(" + strings.Join(parts, "|") + ")"
	case "ref":
		return "<" + s.Src + ">"
	}
	return s.Kind
}

type jsEngine struct {
	p      *Prog
	wmemo  map[string]*jsh
	rmemo  map[string]*jsh
	wbusy  map[string]bool
	rbusy  map[string]bool
	undec  []string
	sealed *types.Named // types.Value
}

func newJSEngine(p *Prog) *jsEngine {
	return &jsEngine{p: p, wmemo: map[string]*jsh{}, rmemo: map[string]*jsh{}, wbusy: map[string]bool{}, rbusy: map[string]bool{}, sealed: p.namedType(pTypes, "Value")}
}

func (e *jsEngine) method(t types.Type, name string) *ssa.Function {
	ms := e.p.SSA.MethodSets.MethodSet(t)
	for i := 0; i < ms.Len(); i++ {
		if ms.At(i).Obj().Name() == name {
			if f := e.p.SSA.MethodValue(ms.At(i)); f != nil {
				// a wrapper for a promoted/pointer method: unwrap to the declared function when possible
				if f.Synthetic != "" {
					if obj, ok := ms.At(i).Obj().(*types.Func); ok {
						if g := e.p.SSA.FuncValue(obj); g != nil && g.Blocks != nil {
							return g
						}
					}
					// generic instance wrappers: find the callee inside
					for _, c := range callsIn(f) {
						if g := c.Common().StaticCallee(); g != nil && fnBase(g) == name && g.Blocks != nil {
							return g
						}
					}
				}
				if f.Blocks != nil {
					return f
				}
			}
		}
	}
	return nil
}

func jsonTag(f *types.Var, tag string) (name string, omit, skip bool) {
	name = f.Name()
	jt, ok := reflect.StructTag(tag).Lookup("json")
	if !ok {
		return name, false, false
	}
	if jt == "-" {
		return "", false, true
	}
	parts := strings.Split(jt, ",")
	if parts[0] != "" {
		name = parts[0]
	}
	for _, o := range parts[1:] {
		if o == "omitempty" || o == "omitzero" {
			omit = true
		}
	}
	return name, omit, false
}

// ---- writer ----

func (e *jsEngine) W(t types.Type) *jsh {
	t = types.Unalias(t)
	key := t.String()
	if s, ok := e.wmemo[key]; ok {
		return s
	}
	if e.wbusy[key] {
		return &jsh{Kind: "ref", Src: key}
	}
	e.wbusy[key] = true
	defer delete(e.wbusy, key)
	s := e.w1(t)
	s.Src = key
	e.wmemo[key] = s
	return s
}

func (e *jsEngine) w1(t types.Type) *jsh {
	if _, isIface := t.Underlying().(*types.Interface); !isIface {
		if fn := e.method(t, "MarshalJSON"); fn != nil {
			return e.wMethod(fn, 0)
		}
		if fn := e.method(t, "MarshalText"); fn != nil {
			return &jsh{Kind: "string"}
		}
	}
	switch u := t.Underlying().(type) {
	case *types.Basic:
		switch {
		case u.Info()&types.IsString != 0:
			return &jsh{Kind: "string"}
		case u.Info()&types.IsNumeric != 0:
			return &jsh{Kind: "number"}
		case u.Info()&types.IsBoolean != 0:
			return &jsh{Kind: "bool"}
		}
	case *types.Pointer:
		return e.W(u.Elem())
	case *types.Slice:
		if b, ok := u.Elem().Underlying().(*types.Basic); ok && b.Kind() == types.Uint8 {
			return &jsh{Kind: "string"}
		}
		return &jsh{Kind: "array", Elem: e.W(u.Elem())}
	case *types.Array:
		return &jsh{Kind: "array", Elem: e.W(u.Elem())}
	case *types.Map:
		return &jsh{Kind: "map", Elem: e.W(u.Elem())}
	case *types.Struct:
		o := &jsh{Kind: "object", Fields: map[string]*jsh{}, Opt: map[string]bool{}}
		for i := 0; i < u.NumFields(); i++ {
			f := u.Field(i)
			if !f.Exported() {
				continue
			}
			name, omit, skip := jsonTag(f, u.Tag(i))
			if skip {
				continue
			}
			o.Fields[name] = e.W(f.Type())
			if omit {
				o.Opt[name] = true
			}
		}
		return o
	case *types.Interface:
		if n := namedOf(t); n != nil && e.sealed != nil && n.Obj() == e.sealed.Obj() {
			a := &jsh{Kind: "alt"}
			if s := e.p.sealedOf(e.sealed); s != nil {
				for _, impl := range s.Impls {
					a.Alts = append(a.Alts, e.W(impl))
				}
			}
			return a
		}
		return &jsh{Kind: "any"}
	}
	return &jsh{Kind: "any"}
}

// wMethod derives the shape a MarshalJSON method writes.
func (e *jsEngine) wMethod(fn *ssa.Function, depth int) *jsh {
	if depth > 4 {
		return &jsh{Kind: "any"}
	}
	var marshalArgs []types.Type
	var delegates []*ssa.Function
	open := byte(0)
	literal := ""
	forEachInstr(fn, func(in ssa.Instruction) {
		switch x := in.(type) {
		case *ssa.Call:
			f := x.Call.StaticCallee()
			if f != nil && fnPkgPath(f) == "encoding/json" && f.Name() == "Marshal" && len(x.Call.Args) == 1 {
				if mi, ok := x.Call.Args[0].(*ssa.MakeInterface); ok {
					marshalArgs = append(marshalArgs, mi.X.Type())
				} else if ci, ok := x.Call.Args[0].(*ssa.ChangeInterface); ok {
					marshalArgs = append(marshalArgs, ci.X.Type())
				} else {
					marshalArgs = append(marshalArgs, x.Call.Args[0].Type())
				}
			}
			if f != nil && fnBase(f) == "MarshalJSON" && f != fn && f.Blocks != nil {
				delegates = append(delegates, f)
			}
			if f != nil && (f.Name() == "WriteByte" || f.Name() == "WriteRune") && len(x.Call.Args) == 2 {
				if n, ok := constInt(x.Call.Args[1]); ok && (n == '[' || n == '{') && open == 0 {
					open = byte(n)
				}
			}
		case *ssa.Convert:
			if s, ok := constString(x.X); ok && literal == "" {
				literal = s
				if open == 0 && (strings.HasPrefix(s, "[") || strings.HasPrefix(s, "{")) {
					open = s[0]
				}
			}
		case *ssa.Store:
			// []byte{'['} built element by element
			if n, ok := constInt(x.Val); ok && (n == '[' || n == '{') && open == 0 {
				if pt, ok := x.Addr.Type().Underlying().(*types.Pointer); ok {
					if b, ok := pt.Elem().Underlying().(*types.Basic); ok && b.Kind() == types.Uint8 {
						open = byte(n)
					}
				}
			}
		case *ssa.BinOp:
			if x.Op == token.ADD {
				for _, o := range []ssa.Value{x.X, x.Y} {
					if s, ok := constString(o); ok && literal == "" {
						literal = s
					}
				}
			}
		}
	})
	// the same type marshalled on several branches counts once
	{
		var uniq []types.Type
		for _, t := range marshalArgs {
			dup := false
			for _, u := range uniq {
				if types.Identical(t, u) {
					dup = true
				}
			}
			if !dup {
				uniq = append(uniq, t)
			}
		}
		marshalArgs = uniq
	}
	switch {
	case open == '[':
		el := &jsh{Kind: "alt"}
		for _, t := range marshalArgs {
			el.Alts = append(el.Alts, e.W(t))
		}
		return &jsh{Kind: "array", Elem: simplifyAlt(el)}
	case open == '{':
		el := &jsh{Kind: "alt"}
		for _, t := range marshalArgs {
			// keys are marshalled as strings; the member values are everything else
			if b, ok := t.Underlying().(*types.Basic); ok && b.Info()&types.IsString != 0 {
				continue
			}
			el.Alts = append(el.Alts, e.W(t))
		}
		return &jsh{Kind: "map", Elem: simplifyAlt(el)}
	case len(delegates) == 1 && len(marshalArgs) == 0:
		return e.wMethod(delegates[0], depth+1)
	case len(marshalArgs) == 1:
		return e.W(marshalArgs[0])
	case len(marshalArgs) == 0 && strings.HasPrefix(literal, `"`):
		return &jsh{Kind: "string"}
	}
	e.undec = append(e.undec, "writer "+fnQual(fn)+": unrecognised MarshalJSON structure")
	return &jsh{Kind: "opaque"}
}

func simplifyAlt(a *jsh) *jsh {
	if a.Kind == "alt" && len(a.Alts) == 1 {
		return a.Alts[0]
	}
	if a.Kind == "alt" && len(a.Alts) == 0 {
		return &jsh{Kind: "any"}
	}
	return a
}

// ---- reader ----

func (e *jsEngine) R(t types.Type) *jsh {
	t = types.Unalias(t)
	key := t.String()
	if s, ok := e.rmemo[key]; ok {
		return s
	}
	if e.rbusy[key] {
		return &jsh{Kind: "ref", Src: key}
	}
	e.rbusy[key] = true
	defer delete(e.rbusy, key)
	s := e.r1(t)
	s.Src = key
	e.rmemo[key] = s
	return s
}

func (e *jsEngine) r1(t types.Type) *jsh {
	if _, isIface := t.Underlying().(*types.Interface); !isIface {
		if fn := e.method(types.NewPointer(t), "UnmarshalJSON"); fn != nil {
			return e.rFunc(fn, 1, 0)
		}
		if fn := e.method(types.NewPointer(t), "UnmarshalText"); fn != nil {
			return &jsh{Kind: "string"}
		}
	}
	switch u := t.Underlying().(type) {
	case *types.Basic:
		switch {
		case u.Info()&types.IsString != 0:
			return &jsh{Kind: "string"}
		case u.Info()&types.IsNumeric != 0:
			return &jsh{Kind: "number"}
		case u.Info()&types.IsBoolean != 0:
			return &jsh{Kind: "bool"}
		}
	case *types.Pointer:
		return e.R(u.Elem())
	case *types.Slice:
		if b, ok := u.Elem().Underlying().(*types.Basic); ok && b.Kind() == types.Uint8 {
			return &jsh{Kind: "string"}
		}
		return &jsh{Kind: "array", Elem: e.R(u.Elem())}
	case *types.Array:
		return &jsh{Kind: "array", Elem: e.R(u.Elem())}
	case *types.Map:
		return &jsh{Kind: "map", Elem: e.R(u.Elem())}
	case *types.Struct:
		o := &jsh{Kind: "object", Fields: map[string]*jsh{}, Opt: map[string]bool{}}
		for i := 0; i < u.NumFields(); i++ {
			f := u.Field(i)
			if !f.Exported() {
				continue
			}
			name, _, skip := jsonTag(f, u.Tag(i))
			if skip {
				continue
			}
			o.Fields[name] = e.R(f.Type())
			o.Opt[name] = true
		}
		return o
	case *types.Interface:
		if u.NumMethods() == 0 {
			return &jsh{Kind: "any"}
		}
	}
	return &jsh{Kind: "any"}
}

// rFunc derives what a decoding function accepts: the union of the targets it hands the input bytes to.
func (e *jsEngine) rFunc(fn *ssa.Function, bytesParam int, depth int) *jsh {
	if depth > 5 || fn.Blocks == nil {
		return &jsh{Kind: "any"}
	}
	alt := &jsh{Kind: "alt"}
	add := func(s *jsh) {
		for _, a := range alt.Alts {
			if a.String() == s.String() {
				return
			}
		}
		alt.Alts = append(alt.Alts, s)
	}
	var b ssa.Value
	if bytesParam < len(fn.Params) {
		b = fn.Params[bytesParam]
	}
	fromInput := func(v ssa.Value) bool {
		for i := 0; i < 6 && v != nil; i++ {
			if v == b {
				return true
			}
			switch x := v.(type) {
			case *ssa.Slice:
				v = x.X
			case *ssa.Convert:
				v = x.X
			case *ssa.ChangeType:
				v = x.X
			case *ssa.UnOp:
				if al, ok := x.X.(*ssa.Alloc); ok {
					if src := spillSource(al); src != nil {
						v = src
						continue
					}
				}
				return false
			case *ssa.Call:
				// bytes.NewBuffer(b), bytes.NewReader(b), json.NewDecoder(r)
				if len(x.Call.Args) >= 1 {
					v = x.Call.Args[0]
					continue
				}
				return false
			case *ssa.MakeInterface:
				v = x.X
			default:
				return false
			}
		}
		return false
	}
	targetType := func(v ssa.Value) types.Type {
		if mi, ok := v.(*ssa.MakeInterface); ok {
			v = mi.X
		}
		if pt, ok := v.Type().Underlying().(*types.Pointer); ok {
			return pt.Elem()
		}
		return nil
	}
	forEachInstr(fn, func(in ssa.Instruction) {
		c, ok := in.(*ssa.Call)
		if !ok {
			return
		}
		f := c.Call.StaticCallee()
		if f == nil {
			return
		}
		switch {
		case fnPkgPath(f) == "encoding/json" && f.Name() == "Unmarshal" && len(c.Call.Args) == 2:
			if !fromInput(c.Call.Args[0]) {
				return
			}
			if tt := targetType(c.Call.Args[1]); tt != nil {
				add(e.rTarget(tt, fn))
			}
		case fnPkgPath(f) == "encoding/json" && fnShort(f) == "Decoder.Decode" && len(c.Call.Args) == 2:
			if tt := targetType(c.Call.Args[1]); tt != nil {
				add(e.rTarget(tt, fn))
			}
		case e.p.inRepo(f) && f != fn:
			for j, a := range c.Call.Args {
				if bt, ok := a.Type().Underlying().(*types.Slice); ok {
					if bb, ok := bt.Elem().Underlying().(*types.Basic); ok && bb.Kind() == types.Uint8 && fromInput(a) {
						sub := e.rFunc(f, j, depth+1)
						if sub.Kind == "alt" {
							for _, s := range sub.Alts {
								add(s)
							}
						} else {
							add(sub)
						}
					}
				}
			}
		}
	})
	if len(alt.Alts) == 0 {
		// a decoder that inspects the raw bytes itself (e.g. Decision)
		return &jsh{Kind: "any"}
	}
	return simplifyAlt(alt)
}

// rTarget: the shape accepted when decoding into a value of type tt inside fn. An empty interface target is narrowed by
// the type assertions fn performs on it.
func (e *jsEngine) rTarget(tt types.Type, fn *ssa.Function) *jsh {
	if iface, ok := tt.Underlying().(*types.Interface); ok && iface.NumMethods() == 0 {
		alt := &jsh{Kind: "alt"}
		seen := map[string]bool{}
		forEachInstr(fn, func(in ssa.Instruction) {
			ta, ok := in.(*ssa.TypeAssert)
			if !ok {
				return
			}
			k := ""
			switch u := ta.AssertedType.Underlying().(type) {
			case *types.Basic:
				switch {
				case u.Info()&types.IsString != 0:
					k = "string"
					if n := namedOf(ta.AssertedType); n != nil && n.Obj().Name() == "Number" {
						k = "number"
					}
				case u.Info()&types.IsNumeric != 0:
					k = "number"
				case u.Info()&types.IsBoolean != 0:
					k = "bool"
				}
			}
			if k != "" && !seen[k] {
				seen[k] = true
				alt.Alts = append(alt.Alts, &jsh{Kind: k})
			}
		})
		if len(alt.Alts) > 0 {
			return alt
		}
		return &jsh{Kind: "any"}
	}
	return e.R(tt)
}

// ---- comparison ----

// compat lists the ways a written shape w is not accepted by the reader shape r.
func (e *jsEngine) compat(w, r *jsh, path string, depth int) []string {
	if depth > 12 || w == nil || r == nil {
		return nil
	}
	if r.Kind == "any" || w.Kind == "any" {
		return nil
	}
	if w.Kind == "opaque" || r.Kind == "opaque" {
		return nil
	}
	if w.Kind == "ref" || r.Kind == "ref" {
		return nil
	}
	if w.Kind == "alt" {
		var out []string
		for _, a := range w.Alts {
			out = append(out, e.compat(a, r, path, depth+1)...)
		}
		return out
	}
	if r.Kind == "alt" {
		var best []string
		for i, a := range r.Alts {
			p := e.compat(w, a, path, depth+1)
			if len(p) == 0 {
				return nil
			}
			if i == 0 || len(p) < len(best) {
				best = p
			}
		}
		return best
	}
	switch w.Kind {
	case "object":
		switch r.Kind {
		case "object":
			var out []string
			var ks []string
			for k := range w.Fields {
				ks = append(ks, k)
			}
			sort.Strings(ks)
			for _, k := range ks {
				rf, ok := r.Fields[k]
				if !ok {
					out = append(out, path+"."+k+": written by the encoder ("+w.Src+") but the decoder ("+r.Src+") has no such key; it reads "+keysOf(r))
					continue
				}
				out = append(out, e.compat(w.Fields[k], rf, path+"."+k, depth+1)...)
			}
			return out
		case "map":
			var out []string
			for k, f := range w.Fields {
				out = append(out, e.compat(f, r.Elem, path+"."+k, depth+1)...)
			}
			return out
		}
	case "map":
		if r.Kind == "map" {
			return e.compat(w.Elem, r.Elem, path+".*", depth+1)
		}
	case "array":
		if r.Kind == "array" {
			return e.compat(w.Elem, r.Elem, path+"[]", depth+1)
		}
	case "string", "number", "bool":
		if r.Kind == w.Kind {
			return nil
		}
	}
	return []string{path + ": the encoder writes " + w.String() + " but the decoder expects " + r.String()}
}

func keysOf(s *jsh) string {
	var ks []string
	for k := range s.Fields {
		ks = append(ks, k)
	}
	sort.Strings(ks)
	return "[" + strings.Join(ks, ",") + "]"
}
