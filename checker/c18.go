package main

// C18: streaming decode is chunking-invariant and source positions are exact.
//
// Most of this property is about runtime quantities (what the refill leaves in the buffer for every chunking schedule;
// line/column arithmetic) that no sound structural argument in reach can bound; that part is NOT decided. Decided are the
// clauses whose truth is in the shape of the code, each a necessary condition:
//   R18.1  reader failure: the error returned by the single io.Reader.Read call is what the end-of-input / failure logic
//          tests (not a value synthesised from the byte count), a non-EOF error is recorded in the scanner's error slot,
//          and the tokenizer's entry point returns that slot's value;
//   R18.2  refill discipline: the in-progress token text is saved before the unread tail is moved over it (the move does
//          not dominate the save), and the source offset advances by exactly the lower bound of the moved tail (the bytes
//          consumed so far), which is the field then reset to zero;
//   R18.3  policy position: the value stored as a policy's position is read from the parser's look-ahead before any token is
//          consumed, on every path that stores it;
//   R18.5  one tokenizer: the byte-slice entry and the stream entry reach the same scanner and the same policy parser;
//   R18.6  buffer constants: the buffer holds at least one full UTF-8 sequence and has one slot for the sentinel.
// Not decided — and this is most of the property: that refilling preserves token text and offset/line/column for every
// chunking schedule.

import (
	"go/constant"
	"go/token"
	"go/types"
	"strings"

	"golang.org/x/tools/go/ssa"
)

func init() {
	register(&propCheck{
		ID: "C18",
		Explanation: "Structural necessary conditions only (most of C18 quantifies over chunking schedules and is not decided): R18.1 the reader's own error value drives the end-of-input/failure logic, a non-EOF error is recorded and returned by the tokenizer entry point; " +
			"R18.2 in the refill, the in-progress token text is saved before the unread tail is moved, and the source offset advances by the lower bound of the moved tail (the field then reset to zero); R18.3 a policy's position is read from the look-ahead token before " +
			"any token is consumed; R18.5 byte-slice and stream entry points share one scanner and one policy parser; R18.6 buffer length ≥ utf8.UTFMax with one sentinel slot. Not decided: token text and offset/line/column preservation for every chunking schedule. R18.12 spill-buffer discipline: every token start clears the spill buffer with no way around the clearing, and nothing but emptiness is decided by how much the spill buffer holds.",
		Run: runC18,
	})
}

func runC18(p *Prog, r *Report) {
	c18Reader(p, r)
	c18RefillThreshold(p, r)
	c18FreshDestination(p, r)
	c18Position(p, r)
	c18OneTokenizer(p, r)
	c18Constants(p, r)
	c18CursorOwnership(p, r)
	c18BufferAccess(p, r)
	c18ReaderPassThrough(p, r)
	c18SpillDiscipline(p, r)
}

// scannerRefill: the method of the scanner type that calls io.Reader.Read.
func scannerRefill(p *Prog) (*ssa.Function, *ssa.Call) {
	for _, fn := range p.Funcs {
		if fnPkgPath(fn) != pParser || fn.Signature.Recv() == nil {
			continue
		}
		for _, cl := range callsIn(fn) {
			call, ok := cl.(*ssa.Call)
			if !ok || !call.Call.IsInvoke() || call.Call.Method.Name() != "Read" {
				continue
			}
			if n := namedOf(call.Call.Value.Type()); n != nil && n.Obj().Pkg() != nil && n.Obj().Pkg().Path() == "io" {
				return fn, call
			}
		}
	}
	return nil, nil
}

func fieldOfLoad(v ssa.Value) (int, ssa.Value, bool) {
	u, ok := v.(*ssa.UnOp)
	if !ok || u.Op != token.MUL {
		return 0, nil, false
	}
	fa, ok := u.X.(*ssa.FieldAddr)
	if !ok {
		return 0, nil, false
	}
	return fa.Field, fa.X, true
}

func c18Reader(p *Prog, r *Report) {
	const rule = "R18.1-reader-error"
	fn, read := scannerRefill(p)
	if fn == nil {
		r.Anchor(rule, "the scanner method that calls io.Reader.Read")
		return
	}
	errv := extractOf(read, 1)
	if errv == nil {
		r.Viol(rule, fnQual(fn)+":read-error", p.pos(read.Pos()), "the error result of Read is discarded: a failing reader would look like end of input")
		return
	}
	// (a) every nil/EOF test that involves the reader's error tests that very value
	tests, synthesized := 0, ""
	forEachInstr(fn, func(in ssa.Instruction) {
		bo, ok := in.(*ssa.BinOp)
		if !ok || (bo.Op != token.EQL && bo.Op != token.NEQ) || !isErrorType(bo.X.Type()) {
			return
		}
		for _, o := range []ssa.Value{bo.X, bo.Y} {
			if o == ssa.Value(errv) {
				tests++
			}
			if ph, ok := o.(*ssa.Phi); ok {
				for _, e := range ph.Edges {
					if e == ssa.Value(errv) {
						synthesized = "a value merged from the reader's error and something else"
					}
				}
			}
		}
	})
	r.Check(tests >= 1 && synthesized == "", rule, fnQual(fn)+":tests-reader-error", p.pos(read.Pos()), "end of input and failure are decided from the reader's own error value",
		"the refill logic of "+fnShort(fn)+" tests "+synthesized+" instead of the error Read returned (tests of the reader's error: "+itoa(tests)+"): end of input may be inferred from a short or empty read, which the io.Reader contract allows in mid-stream")
	// (b) a non-EOF error is recorded: a block guarded by err != nil and err != io.EOF calls a method that stores an error field
	recorded := false
	scannerT := namedOf(fn.Signature.Recv().Type())
	storesErrField := func(g *ssa.Function) bool {
		found := false
		if g == nil || g.Blocks == nil {
			return false
		}
		forEachInstr(g, func(in ssa.Instruction) {
			if st, ok := in.(*ssa.Store); ok {
				if fa, ok := st.Addr.(*ssa.FieldAddr); ok && namedOf(fa.X.Type()) == scannerT && isErrorType(st.Val.Type()) {
					found = true
				}
			}
		})
		return found
	}
	for _, b := range fn.Blocks {
		nonNil, nonEOF := false, false
		for _, gd := range guardsAt(b) {
			fg := flattenGuard(gd)
			bo, ok := fg.Cond.(*ssa.BinOp)
			if !ok || (bo.X != ssa.Value(errv) && bo.Y != ssa.Value(errv)) {
				continue
			}
			other := bo.Y
			if bo.Y == ssa.Value(errv) {
				other = bo.X
			}
			holdsNE := (bo.Op == token.NEQ) == fg.Pol
			if isNilConst(other) && holdsNE {
				nonNil = true
			}
			if !isNilConst(other) && holdsNE {
				nonEOF = true
			}
		}
		if !nonNil || !nonEOF {
			continue
		}
		// the recording must not depend on anything else (e.g. on how many bytes arrived together with the error)
		extra := false
		for _, gd := range guardsAt(b) {
			fg := flattenGuard(gd)
			if bo, ok := fg.Cond.(*ssa.BinOp); ok && (bo.X == ssa.Value(errv) || bo.Y == ssa.Value(errv)) {
				continue
			}
			// guards that hold on entry to the read itself are not extra conditions
			inherited := false
			for _, g0 := range guardsAt(read.Block()) {
				if g0.If == gd.If {
					inherited = true
				}
			}
			if !inherited {
				extra = true
			}
		}
		if extra {
			continue
		}
		for _, in := range b.Instrs {
			if cl, ok := in.(ssa.CallInstruction); ok && storesErrField(cl.Common().StaticCallee()) {
				recorded = true
			}
			if st, ok := in.(*ssa.Store); ok {
				if fa, ok := st.Addr.(*ssa.FieldAddr); ok && namedOf(fa.X.Type()) == scannerT && isErrorType(st.Val.Type()) {
					recorded = true
				}
			}
		}
	}
	r.Check(recorded, rule, fnQual(fn)+":records-failure", p.pos(read.Pos()), "a reader error other than EOF is recorded in the scanner's error slot",
		"on the path where Read's error is neither nil nor io.EOF nothing records it in the scanner: a reader failure in mid-document would be reported as a truncated but valid policy")
	// (c) the tokenizer entry point returns the recorded error
	entryOK := false
	for _, g := range p.Funcs {
		if fnPkgPath(g) != pParser || g.Parent() != nil || g.Signature.Results().Len() != 2 || !isErrorType(g.Signature.Results().At(1).Type()) {
			continue
		}
		if g.Signature.Params().Len() != 1 {
			continue
		}
		if n := namedOf(g.Signature.Params().At(0).Type()); n == nil || n.Obj().Pkg() == nil || n.Obj().Pkg().Path() != "io" {
			continue
		}
		for _, b := range g.Blocks {
			ret, ok := lastInstr(b).(*ssa.Return)
			if !ok {
				continue
			}
			if f, _, ok := fieldOfLoad(retVal(ret, 1)); ok {
				_ = f
				entryOK = true
			}
			if ph, ok := retVal(ret, 1).(*ssa.Phi); ok {
				for _, e := range ph.Edges {
					if _, _, ok := fieldOfLoad(e); ok {
						entryOK = true
					}
				}
			}
		}
	}
	r.Check(entryOK, rule, "parser.TokenizeReader:returns-recorded-error", "-", "the stream tokenizer returns the scanner's recorded error", "no func(io.Reader) (…, error) in internal/parser returns the scanner's recorded error: a reader failure never reaches the caller")

	// R18.2 refill discipline
	const rule2 = "R18.2-refill-discipline"
	var cp *ssa.Call
	var save ssa.CallInstruction
	forEachInstr(fn, func(in ssa.Instruction) {
		call, ok := in.(*ssa.Call)
		if !ok {
			return
		}
		if isBuiltin(call.Common(), "copy") {
			cp = call
		}
		if f := call.Call.StaticCallee(); f != nil && fnPkgPath(f) == "bytes" && strings.HasPrefix(f.Name(), "Write") {
			save = call
		}
	})
	if cp == nil || save == nil {
		r.Anchor(rule2, "the move of the unread tail (copy) and the save of the in-progress token text (bytes.Buffer.Write) in "+fnShort(fn))
		return
	}
	r.Check(!instrDominates(cp, save.(ssa.Instruction)) && !cp.Block().Dominates(save.Block()), rule2, fnQual(fn)+":save-before-move", p.pos(cp.Pos()), "the token text is saved before the unread tail is moved over it",
		"in "+fnShort(fn)+" the unread tail is moved to the front of the buffer before the in-progress token text is saved: the head of a token that straddles a refill is overwritten before it is copied out")
	// offset advances by the lower bound of the moved tail
	var low ssa.Value
	if sl, ok := cp.Call.Args[1].(*ssa.Slice); ok {
		low = sl.Low
	}
	lowField, _, okLow := fieldOfLoad(low)
	offsetOK, seen := false, false
	var resetOK bool
	forEachInstr(fn, func(in ssa.Instruction) {
		st, ok := in.(*ssa.Store)
		if !ok {
			return
		}
		fa, ok := st.Addr.(*ssa.FieldAddr)
		if !ok || namedOf(fa.X.Type()) != namedOf(fn.Signature.Recv().Type()) {
			return
		}
		if bo, ok := st.Val.(*ssa.BinOp); ok && bo.Op == token.ADD && st.Block() == cp.Block() {
			if f, _, ok := fieldOfLoad(bo.X); ok && f == fa.Field {
				seen = true
				if f2, _, ok := fieldOfLoad(bo.Y); ok && okLow && f2 == lowField {
					offsetOK = true
				}
			}
		}
		if okLow && fa.Field == lowField {
			if n, ok := constInt(st.Val); ok && n == 0 {
				resetOK = true
			}
		}
	})
	r.Check(okLow && seen && offsetOK && resetOK, rule2, fnQual(fn)+":offset-advance", p.pos(cp.Pos()), "the source offset advances by the read position (the lower bound of the moved tail), which is then reset to zero",
		"when the buffer is refilled the source offset must advance by exactly the number of bytes dropped from the front — the lower bound of the moved tail, the field that is then reset to zero (offset update found: "+yesNo(seen)+", adds that field: "+yesNo(offsetOK)+", field reset: "+yesNo(resetOK)+"): otherwise every later position is off by the length of a partial character carried across the refill")
}

func c18Position(p *Prog, r *Report) {
	const rule = "R18.3-first-token-position"
	c := &c7ctx{p: p, r: newReport("C07", "quick")}
	if !c.anchors() {
		r.Anchor(rule, "the policy parser type")
		return
	}
	posT := p.namedType(pXAst, "Position")
	n := 0
	for _, fn := range p.Funcs {
		if fnPkgPath(fn) != pParser || fn.Parent() != nil {
			continue
		}
		forEachInstr(fn, func(in ssa.Instruction) {
			st, ok := in.(*ssa.Store)
			if !ok || posT == nil || !types.Identical(st.Val.Type(), posT) {
				return
			}
			if _, isFA := st.Addr.(*ssa.FieldAddr); !isFA {
				return
			}
			n++
			// origin: a call to a non-consuming parser method (the look-ahead), not dominated by any consuming call
			var src *ssa.Call
			v := st.Val
			for i := 0; i < 6 && v != nil; i++ {
				switch x := v.(type) {
				case *ssa.ChangeType:
					v = x.X
					continue
				case *ssa.Convert:
					v = x.X
					continue
				case *ssa.Field:
					v = x.X
					continue
				case *ssa.UnOp:
					if fa, ok := x.X.(*ssa.FieldAddr); ok {
						if al, ok := fa.X.(*ssa.Alloc); ok {
							// a spilled struct result: t := call(); t.Pos
							for _, rf := range *al.Referrers() {
								if s2, ok := rf.(*ssa.Store); ok && s2.Addr == al {
									v = s2.Val
								}
							}
							continue
						}
					}
				case *ssa.Call:
					src = x
				}
				break
			}
			construct := fnQual(fn) + ":position"
			if src == nil || src.Call.StaticCallee() == nil || c.consumes[src.Call.StaticCallee()] || namedOf(src.Call.StaticCallee().Signature.Recv().Type()) != c.parserT {
				r.Viol(rule, construct, p.pos(st.Pos()), "the policy position stored by "+fnShort(fn)+" does not come from the parser's look-ahead token")
				return
			}
			early := true
			for _, cl := range callsIn(fn) {
				if g := cl.Common().StaticCallee(); g != nil && c.consumes[g] && instrDominates(cl, src) {
					early = false
				}
			}
			r.Check(early, rule, construct, p.pos(st.Pos()), "the position is the look-ahead token's, read before any token is consumed",
				"the look-ahead whose position "+fnShort(fn)+" records is read after a token-consuming call: the policy's reported position is that of a later token, not of its first")
		})
	}
	if n == 0 {
		r.Anchor(rule, "a store of an ast.Position into a policy in internal/parser")
	}
}

func c18OneTokenizer(p *Prog, r *Report) {
	const rule = "R18.5-one-tokenizer"
	cg := p.CG()
	reaches := func(from *ssa.Function, pred func(*ssa.Function) bool) bool {
		seen := map[*ssa.Function]bool{}
		st := []*ssa.Function{from}
		for len(st) > 0 {
			f := st[len(st)-1]
			st = st[:len(st)-1]
			if seen[f] {
				continue
			}
			seen[f] = true
			if pred(f) {
				return true
			}
			if n := cg.Nodes[f]; n != nil {
				for _, e := range n.Out {
					if e.Callee.Func != nil && p.inRepo(e.Callee.Func) {
						st = append(st, e.Callee.Func)
					}
				}
			}
		}
		return false
	}
	refill, _ := scannerRefill(p)
	// the policy parser entry: the method of parser.Policy that takes the parser
	var fromCedar *ssa.Function
	for _, fn := range p.Funcs {
		if fnPkgPath(fn) != pParser || fn.Signature.Recv() == nil || fn.Signature.Params().Len() != 1 {
			continue
		}
		if n := namedOf(fn.Signature.Params().At(0).Type()); n != nil && n.Obj().Name() == "parser" && namedOf(fn.Signature.Recv().Type()) != n {
			if rn := namedOf(fn.Signature.Recv().Type()); rn != nil && rn.Obj().Name() == "Policy" {
				fromCedar = fn
			}
		}
	}
	if refill == nil || fromCedar == nil {
		r.Anchor(rule, "scanner refill / policy parser entry")
		return
	}
	entries := map[string]*ssa.Function{
		"cedar.NewPolicyListFromBytes": p.fn(pRoot, "NewPolicyListFromBytes"),
		"cedar.Policy.UnmarshalCedar":  p.fn(pRoot, "Policy.UnmarshalCedar"),
		"cedar.Decoder.Decode":         p.fn(pRoot, "Decoder.Decode"),
	}
	for name, e := range entries {
		if e == nil {
			r.Anchor(rule, name)
			continue
		}
		okS := reaches(e, func(f *ssa.Function) bool { return f == refill })
		okP := reaches(e, func(f *ssa.Function) bool { return f == fromCedar })
		r.Check(okS && okP, rule, name, p.pos(e.Pos()), "reaches the one scanner and the one policy parser",
			name+" does not go through the shared scanner ("+yesNo(okS)+") and policy parser ("+yesNo(okP)+"): byte-slice and stream decoding would be two implementations")
	}
}

func c18Constants(p *Prog, r *Report) {
	const rule = "R18.6-buffer-constants"
	fn, _ := scannerRefill(p)
	if fn == nil {
		r.Anchor(rule, "scanner type")
		return
	}
	st := structOf(fn.Signature.Recv().Type())
	if st == nil {
		r.Anchor(rule, "scanner struct")
		return
	}
	var bufN int64 = -1
	for i := 0; i < st.NumFields(); i++ {
		if a, ok := st.Field(i).Type().Underlying().(*types.Array); ok {
			if b, ok := a.Elem().Underlying().(*types.Basic); ok && b.Kind() == types.Uint8 {
				bufN = a.Len()
			}
		}
	}
	// the high bound passed to Read: a constant slice bound
	var readHigh int64 = -1
	forEachInstr(fn, func(in ssa.Instruction) {
		if sl, ok := in.(*ssa.Slice); ok && sl.High != nil {
			if n, ok := constInt(sl.High); ok {
				readHigh = n
			}
		}
	})
	if bufN < 0 || readHigh < 0 {
		r.Anchor(rule, "buffer array length / constant read bound")
		return
	}
	r.Check(readHigh >= 4, rule, "parser.scanner:buffer-length", p.pos(fn.Pos()), "buffer length "+itoa(int(readHigh))+" ≥ utf8.UTFMax",
		"the read buffer holds "+itoa(int(readHigh))+" bytes, less than one full UTF-8 sequence (4): a character could never be completed and the refill loop would not terminate")
	r.Check(bufN == readHigh+1, rule, "parser.scanner:sentinel-slot", p.pos(fn.Pos()), "the buffer has one slot beyond the read bound for the sentinel",
		"the buffer array has "+itoa(int(bufN))+" bytes and reads fill up to "+itoa(int(readHigh))+": exactly one extra slot is needed for the sentinel written after the data")
	_ = constant.MakeBool
}

// R18.7: the refill is attempted whenever fewer than utf8.UTFMax bytes are available (and they are not a full rune).
// The test is normalised to "available < T": T must be at least utf8.UTFMax, or the first three bytes of a four-byte
// character left at the end of the buffer are decoded as they are.
func c18RefillThreshold(p *Prog, r *Report) {
	const rule = "R18.7-refill-threshold"
	fn, read := scannerRefill(p)
	if fn == nil {
		r.Anchor(rule, "scanner refill")
		return
	}
	// fields: the copy's tail slice bounds are (read position, end)
	var posF, endF int = -1, -1
	forEachInstr(fn, func(in ssa.Instruction) {
		if call, ok := in.(*ssa.Call); ok && isBuiltin(call.Common(), "copy") {
			if sl, ok := call.Call.Args[1].(*ssa.Slice); ok {
				if f, _, ok := fieldOfLoad(sl.Low); ok {
					posF = f
				}
				if f, _, ok := fieldOfLoad(sl.High); ok {
					endF = f
				}
			}
		}
	})
	if posF < 0 || endF < 0 {
		r.Anchor(rule, "read position / end fields (bounds of the moved tail)")
		return
	}
	isF := func(v ssa.Value, f int) bool { g, _, ok := fieldOfLoad(v); return ok && g == f }
	n := 0
	forEachInstr(fn, func(in ssa.Instruction) {
		bo, ok := in.(*ssa.BinOp)
		if !ok {
			return
		}
		// the comparison must control the refill loop: its block dominates the read
		if !bo.Block().Dominates(read.Block()) {
			return
		}
		T := int64(-1)
		switch bo.Op {
		case token.GTR, token.GEQ: // pos + K > end  |  pos + K >= end
			if a, ok := bo.X.(*ssa.BinOp); ok && a.Op == token.ADD && isF(bo.Y, endF) {
				var k int64
				var okK bool
				if isF(a.X, posF) {
					k, okK = constInt(a.Y)
				} else if isF(a.Y, posF) {
					k, okK = constInt(a.X)
				}
				if okK {
					T = k
					if bo.Op == token.GEQ {
						T = k + 1
					}
				}
			}
		case token.LSS, token.LEQ: // end - pos < K  |  end - pos <= K
			if a, ok := bo.X.(*ssa.BinOp); ok && a.Op == token.SUB && isF(a.X, endF) && isF(a.Y, posF) {
				if k, okK := constInt(bo.Y); okK {
					T = k
					if bo.Op == token.LEQ {
						T = k + 1
					}
				}
			}
		}
		if T < 0 {
			return
		}
		n++
		r.Check(T >= 4, rule, fnQual(fn)+":refill-when-fewer-than", p.pos(bo.Pos()), "refill is attempted when fewer than "+itoa(int(T))+" bytes are available (utf8.UTFMax = 4)",
			"the scanner refills only when fewer than "+itoa(int(T))+" bytes are available; a four-byte character whose first "+itoa(int(T))+" bytes end the buffer is then decoded from the incomplete bytes: the stream fails with an encoding error where the whole-slice parser succeeds")
	})
	if n == 0 {
		r.Undec(rule, fnQual(fn)+":refill-condition", p.pos(fn.Pos()), "the refill condition is not of the form `pos + K > end` / `end - pos < K` any more")
	}
}

// R18.8: Decoder.Decode gives the caller a freshly built policy. It must not reach through pointers already stored in the
// destination (storage a previous Decode handed out): values copied from the destination earlier would change under
// the caller's feet.
func c18FreshDestination(p *Prog, r *Report) { c18FreshDestinationAs(p, r, "R18.8-fresh-destination") }

func c18FreshDestinationAs(p *Prog, r *Report, rule string) {
	n := 0
	for _, name := range []string{"Decoder.Decode", "Policy.UnmarshalCedar", "Policy.UnmarshalJSON"} {
		fn := p.fn(pRoot, name)
		if fn == nil {
			continue
		}
		n++
		// destination: the pointer parameter (Decode) or the receiver (Unmarshal*)
		var dest *ssa.Parameter
		for _, pr := range fn.Params {
			if nt := namedOf(pr.Type()); nt != nil && nt.Obj().Name() == "Policy" {
				dest = pr
			}
		}
		if dest == nil {
			continue
		}
		reuses := ""
		forEachInstr(fn, func(in ssa.Instruction) {
			ld, ok := in.(*ssa.UnOp)
			if !ok || ld.Op != token.MUL {
				return
			}
			fa, ok := ld.X.(*ssa.FieldAddr)
			if !ok || fa.X != ssa.Value(dest) {
				return
			}
			if _, isPtr := ld.Type().Underlying().(*types.Pointer); isPtr {
				reuses = "loads the pointer stored in field " + itoa(fa.Field) + " of the destination"
			}
		})
		// and what it builds the new policy from is storage of this call: a pointer into the decoder (or any other
		// parameter) handed to a constructor that keeps it makes every decoded policy share that one object
		forEachInstr(fn, func(in ssa.Instruction) {
			c, ok := in.(*ssa.Call)
			if !ok || c.Call.IsInvoke() || c.Call.StaticCallee() == nil || fnPkgPath(c.Call.StaticCallee()) != pRoot {
				return
			}
			if nt := namedOf(c.Type()); nt == nil || nt.Obj().Name() != "Policy" {
				return
			}
			for _, a := range c.Call.Args {
				if _, isPtr := a.Type().Underlying().(*types.Pointer); !isPtr {
					continue
				}
				v := a
				for {
					switch x := v.(type) {
					case *ssa.ChangeType:
						v = x.X
						continue
					case *ssa.Convert:
						v = x.X
						continue
					}
					break
				}
				if fa, ok := v.(*ssa.FieldAddr); ok {
					root := fa.X
					for {
						if f2, ok := root.(*ssa.FieldAddr); ok {
							root = f2.X
							continue
						}
						if ld, ok := root.(*ssa.UnOp); ok && ld.Op == token.MUL {
							if f2, ok := ld.X.(*ssa.FieldAddr); ok {
								root = f2.X
								continue
							}
						}
						break
					}
					if _, isParam := root.(*ssa.Parameter); isParam && root != ssa.Value(dest) {
						reuses = "builds the policy from storage that lives in " + root.Name() + " (a member that outlasts the call)"
					}
				}
			}
		})
		r.Check(reuses == "", rule, "cedar."+name, p.pos(fn.Pos()), "the destination is overwritten as a whole; nothing it pointed to is reused",
			"cedar."+name+" "+reuses+" and works on what it points to: a policy decoded earlier into the same variable (and copied by the caller) shares that storage and silently turns into the later one — positions, text and decisions included")
	}
	if n == 0 {
		r.Anchor(rule, "cedar.Decoder.Decode / Policy.UnmarshalCedar")
	}
}
