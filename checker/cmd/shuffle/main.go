// Command shuffle is a development aid (never registered as a check): it rewrites every non-test Go file under the given
// directory so that its top-level declarations after the imports appear in reverse order, each preceded by extra comment
// lines. The program's meaning is unchanged (Go has no declaration-order semantics at package level beyond initialisation
// dependencies, which the compiler resolves), but every position, every file-internal order and every line number moves.
// Running all checks on the result must stay silent: no rule may depend on position or order of declarations.
package main

import (
	"bytes"
	"fmt"
	"go/ast"
	"go/parser"
	"go/token"
	"os"
	"path/filepath"
	"strings"
)

func main() {
	root := os.Args[1]
	n := 0
	filepath.Walk(root, func(p string, fi os.FileInfo, err error) error {
		if err != nil || fi.IsDir() || !strings.HasSuffix(p, ".go") || strings.HasSuffix(p, "_test.go") || strings.Contains(p, "/testdata/") {
			return nil
		}
		src, _ := os.ReadFile(p)
		fset := token.NewFileSet()
		f, err := parser.ParseFile(fset, p, src, parser.ParseComments)
		if err != nil {
			return nil
		}
		off := func(pos token.Pos) int { return fset.Position(pos).Offset }
		headEnd := off(f.Name.End())
		var segs [][]byte
		for _, d := range f.Decls {
			if g, ok := d.(*ast.GenDecl); ok && g.Tok == token.IMPORT {
				headEnd = off(g.End())
				continue
			}
			start := d.Pos()
			switch x := d.(type) {
			case *ast.FuncDecl:
				if x.Doc != nil {
					start = x.Doc.Pos()
				}
			case *ast.GenDecl:
				if x.Doc != nil {
					start = x.Doc.Pos()
				}
			}
			segs = append(segs, src[off(start):off(d.End())])
		}
		var out bytes.Buffer
		out.Write(src[:headEnd])
		out.WriteString("\n\n// shuffled\n//\n//\n\n")
		for i := len(segs) - 1; i >= 0; i-- {
			out.WriteString("// moved declaration\n\n")
			out.Write(segs[i])
			out.WriteString("\n\n")
		}
		os.WriteFile(p, out.Bytes(), 0o644)
		n++
		return nil
	})
	fmt.Println("shuffled", n, "files")
}
