package main

// C11 — value equality, hashing, sets and records obey their algebraic laws (structural part).

import (
	"go/constant"
	"go/token"
	"go/types"
	"sort"
	"strings"

	"golang.org/x/tools/go/ssa"
)

func init() {
	register(&propCheck{
		ID: "C11",
		Explanation: "Structural necessary conditions of the value algebra: R11.1 every Equal method of a value kind asserts its argument to its own kind and can yield true only under that " +
			"assertion; R11.2 a kind's hash reads only what its equality compares (equal values hash equally), and Set/Record use their cached hash only as a fast negative; R11.3 the maps " +
			"and slices inside Set, Record, Pattern, MapSet and EntityUIDSet values are freshly allocated by their constructors/decoders, never stored from a parameter, and no exported function " +
			"returns them (mod-ref summaries): inputs of constructors and outputs of accessors cannot alias a value's storage; R11.4 insertion (NewSet) and lookup (Contains) probe identically — " +
			"same start hash, same step, same empty-slot test, same direction of Equal — and nothing else indexes a set's slot map with a key that did not come from that same map (set equality " +
			"goes through Contains); R11.5 the set hash is a commutative accumulation and the record hash iterates sorted keys; R11.4 also requires both probe loops to end only on a free slot or an equal member; R11.6 hash computations see nested members only through hash/Equal; R11.7 Set.Equal and Record.Equal walk one side only under equal sizes and answer false on every negative membership answer. Not decided: collision behaviour as such, transitivity.",
		Run: runC11,
	})
}

func valueImpls(p *Prog) []types.Type {
	v := p.namedType(pTypes, "Value")
	if v == nil {
		return nil
	}
	s := p.sealedOf(v)
	if s == nil {
		return nil
	}
	return s.Impls
}

func methodOf(p *Prog, t types.Type, name string) *ssa.Function {
	ms := p.SSA.MethodSets.MethodSet(t)
	for i := 0; i < ms.Len(); i++ {
		if ms.At(i).Obj().Name() == name {
			if f := p.SSA.FuncValue(ms.At(i).Obj().(*types.Func)); f != nil && f.Blocks != nil {
				return f
			}
		}
	}
	return nil
}

func runC11(p *Prog, r *Report) {
	impls := valueImpls(p)
	if len(impls) < 8 {
		r.Anchor("R11.anchor", "implementers of types.Value")
		return
	}
	for _, t := range impls {
		c11Equal(p, r, t)
		c11Hash(p, r, t)
	}
	c11Storage(p, r)
	c11Probe(p, r)
	c11HashOrder(p, r)
	c11MemberHashOnly(p, r, impls)
	c11EqualByInclusion(p, r)
	cachedHashAuthors(p, r, "R11.8-one-hash-author")
	r.Floor("R11.7-equal-by-inclusion", 4)
	r.Floor("R11.6-member-hash-only", 10)
	r.Floor("R11.1-typed-equality", 10)
	r.Floor("R11.2-hash-subset", 10)
	r.Floor("R11.3-no-aliasing", 20)
	r.Floor("R11.4-probe-agreement", 5)
	r.Floor("R11.5-order-free-hash", 2)
}

// canBeTrueOnlyUnder: boolean value v, observed at block b, can be true only when okv is true.
func canBeTrueOnlyUnder(v ssa.Value, b *ssa.BasicBlock, okv ssa.Value, depth int) bool {
	if depth > 6 {
		return false
	}
	under := func(blk *ssa.BasicBlock) bool {
		for _, g := range guardsAt(blk) {
			if val, k := boolTest(g, okv); k && val {
				return true
			}
		}
		return false
	}
	if cb, isC := constBool(v); isC {
		return !cb || under(b)
	}
	if under(b) {
		return true
	}
	switch x := v.(type) {
	case *ssa.Phi:
		for i, e := range x.Edges {
			if !canBeTrueOnlyUnder(e, x.Block().Preds[i], okv, depth+1) {
				return false
			}
		}
		return true
	case *ssa.ChangeType:
		return canBeTrueOnlyUnder(x.X, b, okv, depth+1)
	case *ssa.BinOp:
		// ok && rest evaluated eagerly is not produced by go/ssa; a plain comparison needs the guard
		if in, ok := v.(ssa.Instruction); ok && in.Block() != b {
			return under(in.Block())
		}
	case *ssa.Call, *ssa.UnOp:
		if in, ok := v.(ssa.Instruction); ok {
			return under(in.Block())
		}
	}
	if in, ok := v.(ssa.Instruction); ok {
		return under(in.Block())
	}
	return false
}

func c11Equal(p *Prog, r *Report, t types.Type) {
	const rule = "R11.1-typed-equality"
	fn := methodOf(p, t, "Equal")
	name := typeShort(t)
	if fn == nil {
		r.Anchor(rule, name+".Equal")
		return
	}
	var okv ssa.Value
	forEachInstr(fn, func(in ssa.Instruction) {
		if ta, ok := in.(*ssa.TypeAssert); ok && ta.CommaOk && ta.X == ssa.Value(fn.Params[1]) && types.Identical(ta.AssertedType, t) {
			okv = extractOf(ta, 1)
		}
	})
	if okv == nil {
		r.Viol(rule, name+".Equal", p.pos(fn.Pos()), name+".Equal does not assert its argument to "+name+": a value of another kind could compare equal")
		return
	}
	good := true
	for _, b := range fn.Blocks {
		if ret, ok := lastInstr(b).(*ssa.Return); ok {
			if !canBeTrueOnlyUnder(retVal(ret, 0), b, okv, 0) {
				good = false
			}
		}
	}
	r.Check(good, rule, name+".Equal", p.pos(fn.Pos()), "true only when the argument is a "+name, name+".Equal can return true on a path where the argument has not been asserted to be a "+name)
}

// fieldsUsed: struct fields of the receiver that a method reads; "*" when the whole value is used.
func fieldsUsed(fn *ssa.Function, param int) map[string]bool {
	out := map[string]bool{}
	recv := fn.Params[param]
	st, isStruct := recv.Type().Underlying().(*types.Struct)
	if !isStruct {
		out["*"] = true
		return out
	}
	var visit func(v ssa.Value)
	seen := map[ssa.Value]bool{}
	visit = func(v ssa.Value) {
		if seen[v] || v.Referrers() == nil {
			return
		}
		seen[v] = true
		for _, u := range *v.Referrers() {
			switch x := u.(type) {
			case *ssa.Store:
				if x.Val == v {
					if a, ok := x.Addr.(*ssa.Alloc); ok {
						visit(a)
					}
				}
			case *ssa.FieldAddr:
				out[st.Field(x.Field).Name()] = true
			case *ssa.Field:
				out[st.Field(x.Field).Name()] = true
			case *ssa.UnOp:
				if x.Op == token.MUL {
					visit(x)
				}
			case *ssa.BinOp:
				out["*"] = true
			case *ssa.MakeInterface, *ssa.ChangeType, *ssa.Convert:
				// converted as a whole (e.g. netip.Prefix(i)): whole value
				out["*"] = true
			case ssa.CallInstruction:
				out["*"] = true
			case *ssa.MakeClosure:
				out["*"] = true
			}
		}
	}
	visit(recv)
	return out
}

func c11Hash(p *Prog, r *Report, t types.Type) {
	const rule = "R11.2-hash-subset"
	name := typeShort(t)
	h, e := methodOf(p, t, "hash"), methodOf(p, t, "Equal")
	if h == nil || e == nil {
		r.Anchor(rule, name+".hash / Equal")
		return
	}
	hf, ef := fieldsUsed(h, 0), fieldsUsed(e, 0)
	var missing []string
	if !ef["*"] {
		for f := range hf {
			if f == "*" {
				missing = append(missing, "(whole value)")
				continue
			}
			if !ef[f] {
				missing = append(missing, f)
			}
		}
	}
	sort.Strings(missing)
	r.Check(len(missing) == 0, rule, name+".hash", p.pos(h.Pos()), "hash reads ["+strings.Join(sortedKeys(hf), ",")+"], equality compares ["+strings.Join(sortedKeys(ef), ",")+"]",
		name+".hash reads "+strings.Join(missing, ",")+" which "+name+".Equal does not compare: two equal values may hash differently (set membership then disagrees with equality)")
	// cached hash used only as a fast negative
	if n := namedOf(t); n != nil && (n.Obj().Name() == "Set" || n.Obj().Name() == "Record") {
		good := true
		found := false
		forEachInstr(e, func(in ssa.Instruction) {
			bo, ok := in.(*ssa.BinOp)
			if !ok || (bo.Op != token.NEQ && bo.Op != token.EQL) {
				return
			}
			isHash := func(v ssa.Value) bool {
				if ld, ok := v.(*ssa.UnOp); ok && ld.Op == token.MUL {
					_, f := fieldAddrName(ld.X)
					return f == "hashVal"
				}
				if fl, ok := v.(*ssa.Field); ok {
					if st, ok := fl.X.Type().Underlying().(*types.Struct); ok {
						return st.Field(fl.Field).Name() == "hashVal"
					}
				}
				return false
			}
			if !isHash(bo.X) || !isHash(bo.Y) {
				return
			}
			found = true
			// on the "hashes differ" edge the function returns false; on the other it goes on comparing
			for _, u := range *bo.Referrers() {
				iff, ok := u.(*ssa.If)
				if !ok {
					continue
				}
				differ := iff.Block().Succs[0]
				same := iff.Block().Succs[1]
				if bo.Op == token.EQL {
					differ, same = same, differ
				}
				if !returnsConst(differ, false) {
					// may be part of an || chain: every path from `differ` that returns must return false before any comparison loop
					good = good && allReturnsFalseBeforeLoop(differ)
				}
				if ret, ok := lastInstr(same).(*ssa.Return); ok {
					if cb, isC := constBool(retVal(ret, 0)); isC && cb {
						good = false // equal hashes alone decide equality
					}
				}
			}
		})
		r.Check(found && good, rule, name+".Equal:cached-hash", p.pos(e.Pos()), "the cached hash only short-circuits to `not equal`", name+".Equal lets equal cached hashes decide equality (or does not use the hash as a fast negative at all)")
	}
}

func allReturnsFalseBeforeLoop(b *ssa.BasicBlock) bool {
	if ret, ok := lastInstr(b).(*ssa.Return); ok {
		cb, isC := constBool(retVal(ret, 0))
		return isC && !cb
	}
	return false
}

// R11.3 storage ownership
func c11Storage(p *Prog, r *Report) {
	const rule = "R11.3-no-aliasing"
	m := p.modref()
	// (a) every store of a map/slice into a field of Set/Record/Pattern/MapSet stores freshly allocated memory
	type fld struct{ pkg, typ, field string }
	tracked := []fld{{pTypes, "Set", "s"}, {pTypes, "Record", "m"}, {pTypes, "Pattern", "comps"}, {pMapset, "MapSet", "m"}}
	isTracked := func(base types.Type, field string) bool {
		for _, t := range tracked {
			if typeIs(base, t.pkg, t.typ) && field == t.field {
				return true
			}
		}
		return false
	}
	n := 0
	for _, fn := range p.Funcs {
		pp := fnPkgPath(fn)
		if pp != pTypes && pp != pMapset && pp != pXTypes {
			continue
		}
		u := m.unitInfo[topOf(fn)]
		if u == nil {
			continue
		}
		forEachInstr(fn, func(in ssa.Instruction) {
			st, ok := in.(*ssa.Store)
			if !ok {
				return
			}
			base, fname := fieldAddrName(st.Addr)
			if base == nil || !isTracked(base.Type(), fname) {
				return
			}
			if _, isC := st.Val.(*ssa.Const); isC {
				return
			}
			n++
			fresh := true
			var from []string
			for _, v := range nonNilAlternatives(st.Val) {
				for l := range u.val(v).flat() {
					if l.o.key.Kind != okSite {
						fresh = false
						from = append(from, l.key().String())
					}
				}
			}
			sort.Strings(from)
			r.Check(fresh, rule, fnQual(fn)+":store:"+fname, p.pos(st.Pos()), "the value's internal storage is allocated here", "a "+typeShort(base.Type())+"'s internal "+fname+" is set to memory that is not freshly allocated ("+strings.Join(from, ",")+"): the caller keeps a reference through which the immutable value can change")
		})
	}
	if n < 4 {
		r.Undec(rule, "stores-to-internal-storage", "-", "only "+itoa(n)+" stores into Set.s / Record.m / Pattern.comps / MapSet.m found")
	}
	// (b) no exported function or method of these packages returns memory that aliases a parameter's storage
	for _, fn := range p.Funcs {
		pp := fnPkgPath(fn)
		if (pp != pTypes && pp != pMapset) || fn.Parent() != nil || fn.Synthetic != "" {
			continue
		}
		obj, _ := fn.Object().(*types.Func)
		if obj == nil || !obj.Exported() {
			continue
		}
		if fn.TypeParams().Len() > 0 && len(fn.TypeArgs()) == 0 {
			continue
		}
		s := m.sums[fn]
		if s == nil {
			continue
		}
		res := fn.Signature.Results()
		for i := 0; i < res.Len(); i++ {
			rt := res.At(i).Type()
			_, isMap := rt.Underlying().(*types.Map)
			_, isSlice := rt.Underlying().(*types.Slice)
			if !isMap && !isSlice {
				continue
			}
			var leaks []string
			for k := range s.retAlias[i] {
				if k.Kind == okParam {
					// returning the caller's own map/slice parameter unchanged is not a leak of a value's storage
					// only when the parameter itself has that map/slice type
					pt := fn.Params[k.Idx].Type()
					_, pm := pt.Underlying().(*types.Map)
					_, ps := pt.Underlying().(*types.Slice)
					if (pm || ps) && !k.Deep {
						continue
					}
					leaks = append(leaks, k.String())
				}
			}
			sort.Strings(leaks)
			r.Check(len(leaks) == 0, rule, fnQual(fn)+":result"+itoa(i), p.pos(fn.Pos()), "the returned "+typeShort(rt)+" does not alias a value's storage", fnQual(fn)+" returns a "+typeShort(rt)+" that aliases "+strings.Join(leaks, ",")+": mutating the accessor's result changes the value")
		}
	}
	// (c) MapSet's mutators have pointer receivers; the immutable wrapper exposes none
	if ims := p.namedType(pMapset, "ImmutableMapSet"); ims != nil {
		for i := 0; i < ims.NumMethods(); i++ {
			mn := ims.Method(i).Name()
			if mn == "Add" || mn == "Remove" {
				r.Viol(rule, "mapset.ImmutableMapSet."+mn, p.pos(ims.Method(i).Pos()), "the immutable set wrapper exposes the mutator "+mn)
			}
		}
		r.OK(rule, "mapset.ImmutableMapSet:no-mutators", p.pos(ims.Obj().Pos()), "no Add/Remove on the immutable wrapper")
	}
}

// R11.4
type probeShape struct {
	startIsHash bool
	step        int64
	absentTest  bool
	equalRecv   string   // "new" when the probing value is the receiver of Equal
	otherExits  []string // exits of the probe loop decided by anything but the absent test or the Equal result
	fn          *ssa.Function
}

func probeOf(p *Prog, fn *ssa.Function) (*probeShape, bool) {
	// find the key phi: phi [start, phi+1]
	var ps *probeShape
	forEachInstr(fn, func(in ssa.Instruction) {
		ph, ok := in.(*ssa.Phi)
		if !ok || ps != nil {
			return
		}
		b, isB := ph.Type().Underlying().(*types.Basic)
		if !isB || b.Kind() != types.Uint64 {
			return
		}
		var start ssa.Value
		var step int64 = -1
		for _, e := range ph.Edges {
			if bo, ok := e.(*ssa.BinOp); ok && bo.Op == token.ADD && bo.X == ssa.Value(ph) {
				if k, isK := constInt(bo.Y); isK {
					step = k
				}
			} else {
				start = e
			}
		}
		if start == nil || step < 0 {
			return
		}
		sh := &probeShape{step: step, fn: fn}
		var probing ssa.Value
		if c, ok := start.(*ssa.Call); ok && c.Call.IsInvoke() && c.Call.Method.Name() == "hash" {
			sh.startIsHash = true
			probing = c.Call.Value
		}
		// lookup keyed by the phi
		var existing ssa.Value
		for _, u := range *ph.Referrers() {
			if lk, ok := u.(*ssa.Lookup); ok && lk.CommaOk && lk.Index == ssa.Value(ph) {
				sh.absentTest = true
				existing = extractOf(lk, 0)
			}
		}
		// Equal direction
		forEachInstr(fn, func(in2 ssa.Instruction) {
			if c, ok := in2.(*ssa.Call); ok && c.Call.IsInvoke() && c.Call.Method.Name() == "Equal" && len(c.Call.Args) == 1 {
				if c.Call.Value == probing && c.Call.Args[0] == existing {
					sh.equalRecv = "new"
				} else if c.Call.Value == existing && c.Call.Args[0] == probing {
					sh.equalRecv = "existing"
				} else {
					sh.equalRecv = "?"
				}
			}
		})
		// exits of the probe loop: only "slot is free" and "Equal said yes" may end the probe. (The slot counter is
		// allowed to wrap; a bound on it would make lookup and insertion disagree about members stored past the wrap.)
		var okv, eqv ssa.Value
		for _, u := range *ph.Referrers() {
			if lk, ok := u.(*ssa.Lookup); ok && lk.CommaOk && lk.Index == ssa.Value(ph) {
				okv = extractOf(lk, 1)
			}
		}
		forEachInstr(fn, func(in2 ssa.Instruction) {
			if c, ok := in2.(*ssa.Call); ok && c.Call.IsInvoke() && c.Call.Method.Name() == "Equal" && len(c.Call.Args) == 1 {
				eqv = c
			}
		})
		for _, l := range loopsOf(fn) {
			if l.Header != ph.Block() {
				continue
			}
			for b := range l.Body {
				iff, isIf := lastInstr(b).(*ssa.If)
				leaves := false
				for _, sc := range b.Succs {
					if !l.Body[sc] {
						leaves = true
					}
				}
				if !leaves {
					continue
				}
				if !isIf {
					sh.otherExits = append(sh.otherExits, p.pos(lastInstr(b).Pos()))
					continue
				}
				g := flattenGuard(Guard{Cond: iff.Cond, Pol: true, If: iff})
				if okv != nil && g.Cond == okv || eqv != nil && g.Cond == eqv {
					continue
				}
				// a trip counter bounded by the number of occupied slots can never end the probe early: after
				// len(m)+1 probes a free slot must have been seen
				if bo, ok := g.Cond.(*ssa.BinOp); ok && okv != nil {
					lk := okv.(*ssa.Extract).Tuple.(*ssa.Lookup)
					cnt, isPhi := bo.X.(*ssa.Phi)
					ln, isLen := bo.Y.(*ssa.Call)
					if isPhi && isLen && cnt != ph && bo.Op == token.LEQ && isBuiltin(&ln.Call, "len") && describeVal(ln.Call.Args[0]) == describeVal(lk.X) && describeVal(lk.X) != "" && counterFromZero(cnt) {
						continue
					}
				}
				sh.otherExits = append(sh.otherExits, p.pos(iff.Cond.Pos()))
			}
		}
		sort.Strings(sh.otherExits)
		ps = sh
	})
	return ps, ps != nil
}

func c11Probe(p *Prog, r *Report) {
	const rule = "R11.4-probe-agreement"
	ins, look := p.fn(pTypes, "NewSet"), p.fn(pTypes, "Set.Contains")
	if ins == nil || look == nil {
		r.Anchor(rule, "types.NewSet / types.Set.Contains")
		return
	}
	a, okA := probeOf(p, ins)
	b, okB := probeOf(p, look)
	if !okA || !okB {
		r.Undec(rule, "types.NewSet~Set.Contains", p.pos(ins.Pos()), "open-addressing probe loop not recognised in insertion or lookup")
		return
	}
	desc := func(s *probeShape) string {
		return "start=" + boolStr(s.startIsHash, "hash()", "?") + " step=+" + itoa(int(s.step)) + " absent-test=" + boolStr(s.absentTest, "y", "n") + " Equal-receiver=" + s.equalRecv
	}
	same := a.startIsHash && b.startIsHash && a.step == b.step && a.step == 1 && a.absentTest && b.absentTest && a.equalRecv == b.equalRecv && a.equalRecv != "?" && a.equalRecv != ""
	r.Check(same, rule, "types.NewSet~Set.Contains", p.pos(look.Pos()), "insertion and lookup probe identically ("+desc(a)+")", "insertion probes with ["+desc(a)+"] but lookup with ["+desc(b)+"]: a member stored after a collision would not be found")
	r.Check(len(a.otherExits) == 0 && len(b.otherExits) == 0, rule, "types.NewSet~Set.Contains:exits", p.pos(look.Pos()), "both probe loops end only on a free slot or an equal member",
		"a probe loop has an exit that is decided by something other than `slot is free` or `member is equal` (insertion: ["+strings.Join(a.otherExits, ", ")+"], lookup: ["+strings.Join(b.otherExits, ", ")+"]): the slot counter wraps around in the other loop, so a member stored past the bound is never found (or never stored)")
	// insertion: absent slot => store the value at that key; duplicate => stop
	storeOK := false
	forEachInstr(ins, func(in ssa.Instruction) {
		if mu, ok := in.(*ssa.MapUpdate); ok {
			if _, isPhi := mu.Key.(*ssa.Phi); isPhi {
				storeOK = true
			}
		}
	})
	r.Check(storeOK, rule, "types.NewSet:store-at-probe", p.pos(ins.Pos()), "a new member is stored at the probed slot", "NewSet does not store the member at the slot the probe ended on")
	// lookup returns: false only on a free slot, true only on an equal member; nothing is answered from anywhere else
	// (a shortcut in front of the probe loop that looks at the home slot alone is wrong once members collide)
	badRet := ""
	for _, blk := range look.Blocks {
		ret, ok := blk.Instrs[len(blk.Instrs)-1].(*ssa.Return)
		if !ok || len(ret.Results) != 1 {
			continue
		}
		c, isC := ret.Results[0].(*ssa.Const)
		if !isC || c.Value == nil {
			badRet = "a computed answer at " + p.pos(ret.Pos())
			break
		}
		want := constant.BoolVal(c.Value)
		okGuard := false
		for _, g := range guardsAt(blk) {
			g = flattenGuard(g)
			if want {
				if cl, isCall := g.Cond.(*ssa.Call); isCall && g.Pol && cl.Common().Method != nil && cl.Common().Method.Name() == "Equal" {
					okGuard = true
				}
			} else {
				if ex, isEx := g.Cond.(*ssa.Extract); isEx && ex.Index == 1 && !g.Pol {
					if lk, isLk := ex.Tuple.(*ssa.Lookup); isLk && lk.CommaOk {
						if _, isPhi := lk.Index.(*ssa.Phi); isPhi {
							okGuard = true
						}
					}
				}
			}
		}
		if !okGuard {
			badRet = "`return " + boolStr(want, "true", "false") + "` at " + p.pos(ret.Pos()) + " that is not decided by " + boolStr(want, "the Equal test of the probed member", "the free-slot test of the probed slot")
			break
		}
	}
	r.Check(badRet == "", rule, "types.Set.Contains:answers", p.pos(look.Pos()), "lookup answers false only on a free probed slot and true only on an equal member",
		"Set.Contains has "+badRet+": an answer taken from anywhere but the probe sequence (the home slot alone, a type test) is wrong when members of different kinds collide — `[false, 0, 1].contains(1)`")
	// nothing else indexes a set's slot map with a foreign key
	for _, fn := range p.Funcs {
		if fnPkgPath(fn) != pTypes {
			continue
		}
		if _, isProbe := probeOf(p, fn); isProbe {
			continue
		}
		forEachInstr(fn, func(in ssa.Instruction) {
			lk, ok := in.(*ssa.Lookup)
			if !ok {
				return
			}
			mt, ok := lk.X.Type().Underlying().(*types.Map)
			if !ok {
				return
			}
			if kb, isB := mt.Key().Underlying().(*types.Basic); !isB || kb.Kind() != types.Uint64 || !typeIs(mt.Elem(), pTypes, "Value") {
				return
			}
			// key must come from iterating the same map value
			if keyFromSameMap(lk.Index, lk.X) {
				r.OK(rule, fnQual(fn)+":slot-index", p.pos(lk.Pos()), "slot map indexed with a key taken from that same map")
				return
			}
			r.Viol(rule, fnQual(fn)+":slot-index", p.pos(lk.Pos()), "a set's slot map is indexed directly with a key that does not come from that same map: slot positions depend on insertion order when hashes collide, so membership and equality must go through Contains")
		})
	}
	// Set.Equal compares members through Contains
	if eq := p.fn(pTypes, "Set.Equal"); eq != nil {
		uses := false
		for _, f := range withAnon(eq) {
			for _, c := range callsIn(f) {
				if c.Common().StaticCallee() == look {
					uses = true
				}
			}
		}
		r.Check(uses, rule, "types.Set.Equal:via-contains", p.pos(eq.Pos()), "set equality tests membership with Contains", "Set.Equal does not test membership through Contains")
	}
}

// keyFromSameMap: key k was obtained by iterating (the keys of) map value m.
func keyFromSameMap(k ssa.Value, m ssa.Value) bool {
	mapSrc := func(v ssa.Value) string { return describeVal(v) }
	seen := map[ssa.Value]bool{}
	var rec func(x ssa.Value) bool
	rec = func(x ssa.Value) bool {
		if seen[x] {
			return false
		}
		seen[x] = true
		switch y := x.(type) {
		case *ssa.Extract:
			if nx, ok := y.Tuple.(*ssa.Next); ok {
				if rg, ok := nx.Iter.(*ssa.Range); ok {
					return mapSrc(rg.X) == mapSrc(m)
				}
			}
			return rec(y.Tuple)
		case *ssa.UnOp:
			return rec(y.X)
		case *ssa.IndexAddr:
			return rec(y.X)
		case *ssa.Phi:
			for _, e := range y.Edges {
				if rec(e) {
					return true
				}
			}
		case *ssa.Call:
			if f := y.Call.StaticCallee(); f != nil {
				n := stdName(f)
				if n == "slices.Collect" || n == "slices.Sorted" || n == "maps.Keys" {
					if n == "maps.Keys" {
						return mapSrc(y.Call.Args[0]) == mapSrc(m)
					}
					return rec(y.Call.Args[0])
				}
			}
		case *ssa.Alloc:
			for _, ref := range *y.Referrers() {
				if st, ok := ref.(*ssa.Store); ok && st.Addr == ssa.Value(y) && rec(st.Val) {
					return true
				}
			}
		case *ssa.ChangeType:
			return rec(y.X)
		}
		return false
	}
	return rec(k)
}

// R11.5
func c11HashOrder(p *Prog, r *Report) {
	const rule = "R11.5-order-free-hash"
	oa := p.order()
	for _, name := range []string{"NewSet", "NewRecord"} {
		fn := p.fn(pTypes, name)
		if fn == nil {
			r.Anchor(rule, "types."+name)
			continue
		}
		bad := false
		n := 0
		for _, l := range oa.loops {
			if topOf(l.fn) != fn {
				continue
			}
			n++
			effs, early := oa.effects(l)
			for _, e := range effs {
				if e.Sens >= 2 || (early && e.Sens == 0) {
					bad = true
					r.Viol(rule, "types."+name+":"+effSig(e), p.pos(e.Pos), "the hash of a "+strings.TrimPrefix(name, "New")+" is computed in map-iteration order with an order-sensitive step ("+e.Kind+"): equal values built in different orders would hash differently")
				}
			}
		}
		if !bad {
			r.OK(rule, "types."+name, p.pos(fn.Pos()), boolStr(n > 0, "unordered iteration only feeds a commutative accumulation", "no unordered iteration (keys are sorted first)"))
		}
	}
}

// nonNilAlternatives expands a phi into its incoming values, dropping those that are known to be
// nil on their edge (`if m != nil { m = clone(m) }`: the un-cloned alternative is the nil map).
func nonNilAlternatives(v ssa.Value) []ssa.Value {
	ph, ok := v.(*ssa.Phi)
	if !ok {
		return []ssa.Value{v}
	}
	var out []ssa.Value
	for i, e := range ph.Edges {
		pred := ph.Block().Preds[i]
		isNil := false
		gs := guardsAt(pred)
		if iff, ok := lastInstr(pred).(*ssa.If); ok && pred.Succs[0] != pred.Succs[1] {
			gs = append(gs, Guard{Cond: iff.Cond, Pol: pred.Succs[0] == ph.Block(), If: iff})
		}
		for _, g := range gs {
			if nn, k := nilTest(g, e); k && !nn {
				isNil = true
			}
		}
		if isNilConst(e) {
			isNil = true
		}
		if !isNil {
			out = append(out, e)
		}
	}
	return out
}

// counterFromZero: phi [0, phi+1].
func counterFromZero(ph *ssa.Phi) bool {
	zero, inc := false, false
	for _, e := range ph.Edges {
		if k, isK := constInt(e); isK && k == 0 {
			zero = true
		} else if bo, ok := e.(*ssa.BinOp); ok && bo.Op == token.ADD && bo.X == ssa.Value(ph) {
			if k, isK := constInt(bo.Y); isK && k == 1 {
				inc = true
			}
		} else {
			return false
		}
	}
	return zero && inc
}

// R11.6: the functions that compute a value's hash (the hash methods, and the two constructors that cache one) look at a
// nested member only through the member's own hash (and, while inserting into a set, its Equal). Any other view of a
// member — its Cedar or JSON text, its String — is not known to be the same for equal members (a set prints in slot order,
// which depends on insertion order when member hashes collide), so feeding it into the hash lets equal values hash apart.
func c11MemberHashOnly(p *Prog, r *Report, impls []types.Type) {
	const rule = "R11.6-member-hash-only"
	var fns []*ssa.Function
	for _, t := range impls {
		if h := methodOf(p, t, "hash"); h != nil {
			fns = append(fns, h)
		}
	}
	for _, n := range []string{"NewSet", "NewRecord"} {
		if f := p.fn(pTypes, n); f != nil {
			fns = append(fns, f)
		} else {
			r.Anchor(rule, "types."+n)
		}
	}
	for _, top := range fns {
		var other []string
		for _, f := range withAnon(top) {
			for _, c := range callsIn(f) {
				cc := c.Common()
				if !cc.IsInvoke() || !typeIs(cc.Value.Type(), pTypes, "Value") {
					continue
				}
				if m := cc.Method.Name(); m != "hash" && m != "Equal" {
					other = append(other, m+" at "+p.pos(c.Pos()))
				}
			}
		}
		sort.Strings(other)
		r.Check(len(other) == 0, rule, fnQual(top), p.pos(top.Pos()), "nested members are seen only through hash/Equal",
			fnQual(top)+" computes a hash and looks at a nested member through ["+strings.Join(other, "; ")+"]: only the member's own hash is known to agree for equal members, so equal values may now hash differently")
	}
}

// R11.7 equality by inclusion: Set.Equal and Record.Equal decide by walking one side and looking each member up in the
// other. That is an equivalence only if (a) the two sides were first shown to have the same number of members — inclusion
// alone is one-directional, so a subset would equal its superset but not the other way round — and (b) every negative
// answer inside the walk (key absent in the other side, member not contained, values not equal) ends the comparison with
// `false` instead of moving on to the next member.
func c11EqualByInclusion(p *Prog, r *Report) {
	const rule = "R11.7-equal-by-inclusion"
	for _, tn := range []string{"Set", "Record"} {
		e := p.fn(pTypes, tn+".Equal")
		if e == nil {
			r.Anchor(rule, "types."+tn+".Equal")
			continue
		}
		q := fnQual(e)
		var loop *loopInfo
		for _, l := range loopsOf(e) {
			if loop == nil || len(l.Body) > len(loop.Body) {
				loop = l
			}
		}
		if loop == nil {
			r.Undec(rule, q+":walk", p.pos(e.Pos()), "no loop over the members was found in "+q)
			continue
		}
		// (a) same size before the walk
		sized := false
		for _, g := range guardsAt(loop.Header) {
			fg := flattenGuard(g)
			bo, ok := fg.Cond.(*ssa.BinOp)
			if !ok {
				continue
			}
			eq := bo.Op == token.EQL && fg.Pol || bo.Op == token.NEQ && !fg.Pol
			lx, ok1 := bo.X.(*ssa.Call)
			ly, ok2 := bo.Y.(*ssa.Call)
			if eq && ok1 && ok2 && isBuiltin(&lx.Call, "len") && isBuiltin(&ly.Call, "len") && lx.Call.Args[0] != ly.Call.Args[0] &&
				types.Identical(lx.Call.Args[0].Type(), ly.Call.Args[0].Type()) {
				sized = true
			}
		}
		r.Check(sized, rule, q+":same-size", p.pos(e.Pos()), "the member walk is entered only when both sides have the same number of members",
			q+" walks one side's members without first establishing len(a) == len(b): inclusion is one-directional, so a proper subset compares equal to its superset (and not the other way round)")
		// (b) negative answers end the comparison
		nNeg := 0
		var bad []string
		for b := range loop.Body {
			iff, ok := lastInstr(b).(*ssa.If)
			if !ok || b == loop.Header {
				continue
			}
			fg := flattenGuard(Guard{Cond: iff.Cond, Pol: true, If: iff})
			kind := ""
			switch x := fg.Cond.(type) {
			case *ssa.Extract:
				if lk, ok := x.Tuple.(*ssa.Lookup); ok && lk.CommaOk && x.Index == 1 {
					kind = "key absent in the other side"
				}
			case *ssa.Call:
				if x.Call.IsInvoke() && x.Call.Method.Name() == "Equal" {
					kind = "values not equal"
				} else if f := x.Call.StaticCallee(); f != nil && f.Name() == "Contains" {
					kind = "member not contained in the other side"
				}
			}
			if kind == "" {
				continue
			}
			nNeg++
			neg := b.Succs[1]
			if !fg.Pol {
				neg = b.Succs[0]
			}
			if loop.Body[neg] || !returnsConst(neg, false) {
				bad = append(bad, kind+" at "+p.pos(iff.Cond.Pos()))
			}
		}
		sort.Strings(bad)
		r.Check(nNeg >= 1 && len(bad) == 0, rule, q+":negative-answers", p.pos(e.Pos()), itoa(nNeg)+" negative answer(s) inside the walk each return false",
			q+": a negative answer inside the member walk does not end the comparison with false ("+strings.Join(bad, "; ")+boolStr(nNeg == 0, "no membership test found", "")+"): the walk moves on and two different values compare equal")
	}
}
